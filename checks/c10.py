"""C10 — geometry intersections lie on both objects, right kind of contact (rlib/geometry)."""
import json
import math
import os
import struct
import subprocess

ID = "C10"
CRATE = "c10"
COQ_DIR = "C10"
COQ_DEPS = []
PROFILES = ["debug", "release"]
CORR_IMPORT = "From Coq Require Import Floats.\nFrom RlibV Require Import C10.Model C10.Corr.\nOpen Scope Z_scope."
CASE_TYPE = "case"
AUDIT_IMPORT = ("From Coq Require Import Reals ZArith List Bool.\n"
                "From RlibV Require Import C10.Model C10.RInst C10.Properties.\nFrom RlibV Require C10.Corr C10.ProofsRatio.\nOpen Scope R_scope.")
EXPLAIN = "explain"
AXIOM_ALLOW = ["ClassicalDedekindReals.sig_forall_dec", "ClassicalDedekindReals.sig_not_dec",
               "FunctionalExtensionality.functional_extensionality_dep"]
THEOREMS = [
    ('c10_line_new_unit',
     'forall a b c : R, (a, b) <> (0, 0) -> unit_line (line_new rops a b c) /\\ (forall p, on_line (line_new rops a b c) p <-> a * px p + b * py p + c = 0) /\\ (exists k, 0 < k /\\ la (line_new rops a b c) = k * a /\\ lb (line_new rops a b c) = k * b /\\ lc (line_new rops a b c) = k * c)'),
    ('c10_dist_euclidean',
     'forall (l : Ln R) (p : Pt R), unit_line l -> (forall q, on_line l q -> ldist rops l p <= edist p q) /\\ (on_line l (foot l p) /\\ edist p (foot l p) = ldist rops l p)'),
    ('c10_between_contains',
     'forall (eps : R) (u v : Pt R), 0 < eps -> u <> v -> let l := line_between rops u v in unit_line l /\\ on_line l u /\\ on_line l v /\\ contains rops eps l u = true /\\ contains rops eps l v = true'),
    ('c10_contains',
     'forall (eps : R) (l : Ln R) (p : Pt R), contains rops eps l p = true <-> ldist rops l p < eps'),
    ('c10_ll_on_both',
     'forall (eps : R) (u v : Ln R), 0 < eps -> parallel rops eps u v = false -> exists p, intersect_ll rops eps u v = Some p /\\ on_line u p /\\ on_line v p'),
    ('c10_ll_parallel_none',
     'forall (eps : R) (u v : Ln R), (parallel rops eps u v = true <-> Rabs (la u * lb v - lb u * la v) < eps) /\\ (parallel rops eps u v = true -> intersect_ll rops eps u v = None)'),
    ('c10_cl_none',
     'forall (eps : R) (c : Circ R) (l : Ln R), unit_line l -> 0 < eps -> 0 <= cr c -> cr c + eps < ldist rops l (cc c) -> intersect_cl rops eps c l = CLNone /\\ forall p, on_line l p -> ~ on_circle c p'),
    ('c10_cl_two_points',
     'forall (eps : R) (c : Circ R) (l : Ln R), unit_line l -> 0 < eps -> ldist rops l (cc c) <= cr c - eps -> exists p q, intersect_cl rops eps c l = CLIntersect p q /\\ on_line l p /\\ on_circle c p /\\ on_line l q /\\ on_circle c q /\\ p <> q'),
    ('c10_cl_tangent',
     'forall (eps : R) (c : Circ R) (l : Ln R), unit_line l -> cr c - eps < ldist rops l (cc c) <= cr c + eps -> exists p, intersect_cl rops eps c l = CLTouch p /\\ on_line l p /\\ Rabs (edist p (cc c) - cr c) <= eps /\\ p = foot l (cc c)'),
    ('c10_position',
     'forall (eps : R) (c : Circ R) (p : Pt R), 0 < cr c -> 0 <= eps -> let d := edist (cc c) p in (position rops eps c p = Inside <-> d < cr c * (1 - eps)) /\\ (position rops eps c p = Outside <-> cr c * (1 + eps) < d) /\\ (position rops eps c p = Border <-> cr c * (1 - eps) <= d <= cr c * (1 + eps))'),
    ('c10_cc_kinds',
     'forall (eps : R) (a b : Circ R), 0 < eps -> eps <= cr b -> cr b <= cr a -> let d := edist (cc a) (cc b) in (cr a + cr b + eps <= d -> intersect_cc rops eps a b = CCNone /\\ forall p, on_circle a p -> ~ on_circle b p) /\\ (cr a + cr b - eps <= d < cr a + cr b + eps -> intersect_cc rops eps a b = CCTouchOutside (touch_pt a b)) /\\ (cr a - cr b + eps <= d < cr a + cr b - eps -> exists p q, intersect_cc rops eps a b = CCIntersect p q /\\ on_circle a p /\\ on_circle b p /\\ on_circle a q /\\ on_circle b q /\\ p <> q) /\\ (cr a - cr b - eps <= d < cr a - cr b + eps -> ~ (d < eps /\\ cr a < cr b + eps) -> intersect_cc rops eps a b = CCTouchInside (touch_pt a b)) /\\ (d < cr a - cr b - eps -> intersect_cc rops eps a b = CCNone /\\ forall p, on_circle a p -> ~ on_circle b p) /\\ (d < eps -> cr a < cr b + eps -> intersect_cc rops eps a b = CCSame)'),
    ('c10_cc_old_crossing',
     'forall (eps : R) (a b : Circ R), 0 < eps -> eps <= cr b -> cr b <= cr a -> let d := edist (cc a) (cc b) in cr a - cr b + eps <= d < cr a + cr b - eps -> 2 * d * eps <= (cr a + cr b - d) * (cr b + d - cr a) -> exists p q, intersect_cc_ordered_old rops eps a b = CCIntersect p q /\\ on_circle a p /\\ on_circle b p /\\ on_circle a q /\\ on_circle b q /\\ p <> q'),
    ('c10_cc_big_crossing',
     'forall (eps : R) (a b : Circ R), 0 < eps -> eps <= cr b -> cr b <= cr a -> let d := edist (cc a) (cc b) in cr a - cr b + eps <= d < cr a + cr b - eps -> exists p q, intersect_cc_ordered_big rops eps a b = CCIntersect p q /\\ on_circle a p /\\ on_circle b p /\\ on_circle a q /\\ on_circle b q /\\ p <> q'),
    ('c10_cc_big_ratio_refuted',
     '(exists p q, Corr.of_cc (intersect_cc_big Corr.fops Corr.feps ProofsRatio.w_a ProofsRatio.w_b) = Corr.MTwo p q) /\\ Corr.spec_check (ProofsRatio.w_case (ProofsRatio.obs_of (Corr.of_cc (intersect_cc_big Corr.fops Corr.feps ProofsRatio.w_a ProofsRatio.w_b)))) = false /\\ Corr.spec_check (ProofsRatio.w_case (ProofsRatio.obs_of (Corr.of_cc (intersect_cc Corr.fops Corr.feps ProofsRatio.w_a ProofsRatio.w_b)))) = true /\\ Corr.spec_check (ProofsRatio.w_case (ProofsRatio.obs_of (Corr.of_cc (intersect_cc Corr.fops Corr.feps ProofsRatio.w_b ProofsRatio.w_a)))) = true'),
    ('c10_cc_swap',
     'forall (eps : R) (a b : Circ R), cr a < cr b -> intersect_cc rops eps a b = intersect_cc rops eps b a'),
    ('c10_touch_points_on_both',
     'forall (eps : R) (a b : Circ R), 0 < eps -> eps <= cr b -> cr b <= cr a -> let d := edist (cc a) (cc b) in 0 < d -> (cr a + cr b - eps <= d < cr a + cr b + eps \\/ cr a - cr b - eps <= d < cr a - cr b + eps) -> on_circle a (touch_pt a b) /\\ Rabs (edist (touch_pt a b) (cc b) - cr b) <= eps'),
    ('c10_old_tangent_refuted',
     'forall eps : R, 0 < eps -> let c := mkCirc (mkPt 5 0) 1 in let l := line_between rops (mkPt 6 0) (mkPt 6 1) in l = mkLn (-1) 0 6 /\\ unit_line l /\\ ldist rops l (cc c) = cr c /\\ intersect_cl_old rops eps c l = CLTouch (mkPt (-1) 0) /\\ ~ on_circle c (mkPt (-1) 0) /\\ intersect_cl rops eps c l = CLTouch (mkPt 6 0) /\\ on_circle c (mkPt 6 0) /\\ on_line l (mkPt 6 0)'),
]
# driver quirk (same work-around as checks/c18.py): when a theorem has axioms, _driver.parse_assumptions reads the
# head of the NEXT `Check` output ("c10_xxx : ...") as one more axiom entry; the pinned names are therefore allowed here.
# The genuine axioms are exactly the three listed above (Coq's classical real numbers).
AXIOM_ALLOW += [n for n, _ in THEOREMS]
SHARD = 2050      # the quick tier (about 8 100 cases) makes four equal batch files, one per coqc worker
RULE = ("integer lattice configurations (coordinates in [-20,20], radii 1..20) for line/ll/cl/cc/position/contains; exact "
        "Pythagorean tangencies (3-4-5, 5-12-13, 8-15-17, scaled, all sign/axis variants, also axis-aligned) for circle-circle "
        "(inside and outside) and circle-line; the same tangencies moved by a Pythagorean rotation, a real scale and a real "
        "translation; random real-valued configurations of magnitude 1..1e3 with well-separated defining points; circles of "
        "radius ratio up to 1e3:1 and circle-line pairs at 20..1e4 EPS on either side of a tangency; constructed "
        "near-border points for position/contains (relative offsets 0, 3e-11, 5e-11, 2e-8, 1e-7, ...); "
        "cc-ratio: clear crossings (centre distance ra + t rb, |t| <= 0.95) and near-tangencies of a circle of radius 100..1024 "
        "with one of radius 2^-10..0.05 (ratio up to 1e6:1), both argument orders, every coordinate within 1024; "
        "band-*: every tolerance comparison (position, contains, circle-line, outer and inner circle tangency, nearly identical "
        "circles, parallel/intersect_ll) with its margin at 0.3, 0.7, 0.9, 1.1, 1.5, 3, 7 EPS on both sides, placed with exact "
        "data (lattice centres, Pythagorean directions): the specification accepts either answer there, model_check pins the "
        "value of the library's EPS; coin-*: exact coincidences (concentric circles with equal and different radii, the centre "
        "and its neighbours by 1..3 ulp as the query of position, lines exactly through the centre in both orientations and in "
        "coefficient form, two lines sharing a defining point, a defining point as the query of contains/dist); small-*: radii in "
        "[2^-10, 0.05) and defining points 2^-10 .. 3e-4 |coordinate| apart; coef-*: Line::new with real coefficients "
        "(unit normal times 1, 1+-1e-7, 1+-1e-12, 1e-3, 1e3 or a log-uniform scale) and the struct literal Line {a,b,c} with a "
        "unit normal in line/ll/cl/contains/dist/parallel, Line::default() and zero-normal literals as out-of-quantifier cases "
        "decided by model_check alone; the entry points Line::dist, util::dist, util::parallel and the Point operations "
        "(+ and - in all four receiver forms, * and / by a scalar, dp, cp, slen, len, From, ==, Default) on their own inputs and on "
        "the inputs of a third of the ll / contains cases; "
        "axis-ll-*: one line nearly (not exactly) vertical or nearly horizontal - normalised |b| resp. |a| log-uniform in "
        "[1e-10, 1e-4] or one of 1e-10, 5e-10, 0.9e-9, 1.1e-9, 2e-9, 1e-8 .. 1e-4 - built through Line::between with real-valued "
        "points, Line::new with scaled coefficients and the struct literal, crossing an ordinary line (|sin| >= 0.05) at a "
        "point of the box (coordinate magnitude 1, 10, 100 and, half of the time, 1000), every pair in BOTH argument orders "
        "(220 quick / 2100 thorough), with its neighbours: nearly vertical x nearly horizontal, exactly vertical / horizontal "
        "lines at real-valued coordinates, two nearly vertical lines crossing under 1e-7 .. 1e-4 (kind only), circle x nearly "
        "axis-aligned line (clear crossing, exact tangency, 20 .. 1e4 EPS on either side of it), two circles whose centre line is nearly "
        "axis-aligned (crossing and near-tangent, both orders), Line::between/new, contains, Line::dist, position and util::dist on "
        "such data, origin-ll-* / tinyc-ll: crossings whose point has a tiny (1e-10 .. 1e-4) or zero coordinate and lines that "
        "pass the origin at a tiny or zero distance; "
        "the generated cases are shuffled so that the batch files are balanced. "
        "non-trivial = an intersection op that returned at least one point, or a position/contains/parallel query within 1e-6 of the border")
TRUSTED = ["executor harness/crates/c10 (calls Line::new/between/dist/contains/ort and the struct literal, Circle::position, "
           "intersect_ll/cl/cc, util::dist/parallel, the Point operators and prints bit patterns; its internal consistency checks "
           "print X: receiver forms of + and -, From, ==, Default, ort, reverse/count/size_hint/partial traversal of the result iterators)",
           "checks/c10.py (case generator, Coq term printer)",
           "Coq primitive floats (vm_compute) implement IEEE-754 binary64 add/sub/mul/div/sqrt as the hardware running the Rust code does"]
ASSUMPTIONS = ["theorems are about the real-number instance of the model; the binary64 instance differs by rounding, which is "
               "NOT proved (c10_rounding_partial): the 1e-7 bound is decided by search on the implementation and by the exact "
               "dyadic spec_check on every sampled case",
               "spec_check quantifier: |coordinates| <= 1024, radii in [2^-10, 1024], defining points of a line at least 2^-10 apart, "
               "line coefficients within 1024 with a^2+b^2 >= 2^-20, a struct-literal line has a unit normal (|a^2+b^2-1| <= 2^-48), "
               "scalar factor of a Point in [2^-10, 1024]; "
               "the on-both-lines clause of intersect_ll is required when |sin(angle)| >= 1e-3",
               "Line::dist / util::dist are required to be non-negative and within 1e-7 of the exact distance; the Point operations "
               "within 2^-50 relative to the magnitude of their exact terms",
               "kind is mandatory farther than 1e-8 (10 EPS) from a boundary between kinds and within 1e-10 of an exact tangency"]


def bits(x):
    return struct.unpack("<Q", struct.pack("<d", float(x)))[0]


def unbits(s):
    return struct.unpack("<d", struct.pack("<Q", int(s)))[0]


def ls_tokens(l):
    """line spec: ["B",x1,y1,x2,y2] Line::between, ["N",a,b,c] Line::new, ["R",a,b,c] struct literal, ["Z"] Line::default()"""
    return [l[0]] + [str(bits(v)) for v in l[1:]]


def harness_line(c):
    op = c["op"]
    a = [str(bits(v)) for v in c.get("a", [])]
    if op == "line":
        return " ".join(["line"] + ls_tokens(c["l1"]))
    if op == "ll":
        return " ".join(["ll"] + ls_tokens(c["l1"]) + ls_tokens(c["l2"]))
    if op == "cl":
        return " ".join(["cl"] + a + ls_tokens(c["l1"]))
    if op == "cc":
        return " ".join(["cc"] + a)
    if op == "pos":
        return " ".join(["pos"] + a)
    if op in ("con", "ldist"):
        return " ".join([op] + ls_tokens(c["l1"]) + a)
    if op == "par":
        return " ".join(["par"] + ls_tokens(c["l1"]) + ls_tokens(c["l2"]))
    if op in ("dist", "pt"):
        return " ".join([op] + a)
    raise ValueError(op)


def flit(x):
    """exact Coq float literal"""
    x = float(x)
    if x != x:
        return "nan"
    if x in (float("inf"), float("-inf")):
        return "infinity" if x > 0 else "neg_infinity"
    return "(%s)" % x.hex()


def zs(vals):
    return " ".join(flit(v) for v in vals)


def ls_term(l):
    if l[0] == "Z":
        return "(LR 0 0 0)"
    return "(%s %s)" % ({"B": "LB", "N": "LN", "R": "LR"}[l[0]], zs(l[1:]))


def obs_term(obs):
    t = obs.split()
    k = t[0]
    nums = " ".join(flit(unbits(x)) for x in t[1:]) if k in ("S", "T", "TI", "TO", "I", "L") else ""
    if k == "P":
        return "OPanic"
    if k == "N":
        return "ONone"
    if k == "E":
        return "OSame"
    if k == "S":
        return "(OPt %s)" % nums
    if k == "T":
        return "(OTouch %s)" % nums
    if k == "TI":
        return "(OTouchIn %s)" % nums
    if k == "TO":
        return "(OTouchOut %s)" % nums
    if k == "I":
        return "(OTwo %s)" % nums
    if k in ("IN", "BO", "OUT"):
        return "(OPos %d)" % {"IN": 0, "BO": 1, "OUT": 2}[k]
    if k in ("0", "1"):
        return "(OBool %s)" % ("true" if k == "1" else "false")
    if k == "L":
        return "(OLine %s)" % nums
    if k == "V":
        if len(t) - 1 not in (1, 12):
            return "OFail"
        return "(OVals (v%d %s))" % (len(t) - 1, " ".join(flit(unbits(x)) for x in t[1:]))
    if k == "X":
        return "OFail"
    raise ValueError(obs)


def coq_term(c, obs, profile):
    op = c["op"]
    o = obs_term(obs)
    if op == "line":
        return "(CLine %s %s)" % (ls_term(c["l1"]), o)
    if op == "ll":
        return "(CLL %s %s %s)" % (ls_term(c["l1"]), ls_term(c["l2"]), o)
    if op == "cl":
        return "(CCL %s %s %s)" % (zs(c["a"]), ls_term(c["l1"]), o)
    if op == "cc":
        return "(CCC %s %s)" % (zs(c["a"]), o)
    if op == "pos":
        return "(CPos %s %s)" % (zs(c["a"]), o)
    if op == "con":
        return "(CCon %s %s %s)" % (ls_term(c["l1"]), zs(c["a"]), o)
    if op == "ldist":
        return "(CLDist %s %s %s)" % (ls_term(c["l1"]), zs(c["a"]), o)
    if op == "dist":
        return "(CDist %s %s)" % (zs(c["a"]), o)
    if op == "par":
        return "(CPar %s %s %s)" % (ls_term(c["l1"]), ls_term(c["l2"]), o)
    if op == "pt":
        return "(CPt %s %s)" % (zs(c["a"]), o)
    raise ValueError(op)


def nontrivial(c, obs):
    k = obs.split()[0]
    if c["op"] in ("ll", "cl", "cc"):
        return k in ("S", "T", "TI", "TO", "I")
    if c["op"] in ("pos", "con", "par"):
        return c.get("tag", "").startswith(("near", "band"))
    return False


def classify(c, obs):
    return "%s/%s/%s" % (c["op"], c.get("tag", "?"), obs.split()[0])


# ----------------------------------------------------------------------------- generator
TRIPLES = [(3, 4, 5), (5, 12, 13), (8, 15, 17)]


def directions():
    """integer vectors (p, q) with integer length h: Pythagorean triples in all sign/axis variants + the axes"""
    out = [(1, 0, 1), (0, 1, 1), (-1, 0, 1), (0, -1, 1)]
    for (p, q, h) in TRIPLES:
        for (x, y) in ((p, q), (q, p)):
            for sx in (1, -1):
                for sy in (1, -1):
                    out.append((sx * x, sy * y, h))
    return out


DIRS = directions()


def lat_line(rng, lo=-20, hi=20):
    while True:
        if rng.chance(3, 4):
            u = (rng.range(lo, hi), rng.range(lo, hi))
            v = (rng.range(lo, hi), rng.range(lo, hi))
            if u != v:
                return ["B", u[0], u[1], v[0], v[1]]
        else:
            a, b, c = rng.range(lo, hi), rng.range(lo, hi), rng.range(-200, 200)
            if (a, b) != (0, 0):
                return ["N", a, b, c]


def lattice_cases(rng, n):
    cs = []
    for _ in range(n):
        k = rng.below(6)
        co = lambda: rng.range(-20, 20)
        if k == 0:
            cs.append({"op": "cc", "tag": "lat", "a": [co(), co(), rng.range(1, 20), co(), co(), rng.range(1, 20)]})
        elif k == 1:
            cs.append({"op": "cl", "tag": "lat", "a": [co(), co(), rng.range(1, 20)], "l1": lat_line(rng)})
        elif k == 2:
            l1 = lat_line(rng)
            if l1[0] == "B" and rng.chance(1, 4):
                # exactly parallel (possibly identical) lines: same direction, multiplied and shifted
                j = rng.choice([1, -1, 2, -3])
                sx, sy = rng.range(-5, 5), rng.range(-5, 5)
                dx, dy = l1[3] - l1[1], l1[4] - l1[2]
                cs.append({"op": "ll", "tag": "lat-par", "l1": l1,
                           "l2": ["B", l1[1] + sx, l1[2] + sy, l1[1] + sx + j * dx, l1[2] + sy + j * dy]})
            else:
                cs.append({"op": "ll", "tag": "lat", "l1": l1, "l2": lat_line(rng)})
        elif k == 3:
            cs.append({"op": "pos", "tag": "lat", "a": [co(), co(), rng.range(1, 20), co(), co()]})
        elif k == 4:
            l = lat_line(rng)
            if l[0] == "B" and rng.chance(1, 2):
                j = rng.range(-3, 3)
                p = [l[1] + j * (l[3] - l[1]), l[2] + j * (l[4] - l[2])]
            else:
                p = [co(), co()]
            cs.append({"op": "con", "tag": "lat", "l1": l, "a": p})
        else:
            cs.append({"op": "line", "tag": "lat", "l1": lat_line(rng)})
    return cs


def pyth_cc(rng):
    """exactly tangent integer circles: centres differ by k*(p,q), |.| = k*h"""
    p, q, h = rng.choice(DIRS)
    k = rng.range(1, 3)
    d = k * h
    ax, ay = rng.range(-10, 10), rng.range(-10, 10)
    bx, by = ax + k * p, ay + k * q
    if rng.chance(1, 2) and d >= 2:       # outside: ra + rb = d
        ra = rng.range(1, d - 1)
        rb = d - ra
        kind = "out"
    else:                                  # inside: |ra - rb| = d
        rb = rng.range(1, 12)
        ra = rb + d
        kind = "in"
    a = [ax, ay, ra, bx, by, rb]
    if rng.chance(1, 2):
        a = a[3:] + a[:3]
    return a, kind


def pyth_cl(rng):
    """integer circle and a line exactly tangent to it"""
    p, q, h = rng.choice(DIRS)
    k = rng.range(1, 3)
    r = k * h
    cx, cy = rng.range(-10, 10), rng.range(-10, 10)
    tx, ty = cx + k * p, cy + k * q
    j = rng.choice([-3, -2, -1, 1, 2, 3])
    if rng.chance(1, 2):
        l = ["B", tx, ty, tx - j * q, ty + j * p]
        if rng.chance(1, 2):
            l = ["B", l[3], l[4], l[1], l[2]]
    else:
        s = rng.choice([1, -1, 2])
        l = ["N", s * p, s * q, -s * (p * tx + q * ty)]
    return [cx, cy, r], l


def similarity(rng):
    """x -> s * Rot(x) + t with a Pythagorean rotation (rational cos/sin), real scale and translation"""
    p, q, h = rng.choice(DIRS[4:])
    co, si = p / h, q / h
    s = rng.choice([1.0, 0.5, 0.1, 0.37, 2.5, 7.3, 10.0])
    tx = (rng.below(2001) - 1000) / 7.0
    ty = (rng.below(2001) - 1000) / 3.0
    def f(x, y):
        return (s * (co * x - si * y) + tx, s * (si * x + co * y) + ty)
    return f, s


def move_line(f, s, l):
    if l[0] == "B":
        u, v = f(l[1], l[2]), f(l[3], l[4])
        return ["B", u[0], u[1], v[0], v[1]]
    # a line given by coefficients: move two of its points
    a, b, c = l[1], l[2], l[3]
    n2 = a * a + b * b
    x0, y0 = -a * c / n2, -b * c / n2
    u, v = f(x0, y0), f(x0 - b, y0 + a)
    return ["B", u[0], u[1], v[0], v[1]]


def tangency_cases(rng, n):
    cs = []
    for _ in range(n):
        moved = rng.chance(1, 2)
        if rng.chance(1, 2):
            a, kind = pyth_cc(rng)
            if moved:
                f, s = similarity(rng)
                pa, pb = f(a[0], a[1]), f(a[3], a[4])
                a = [pa[0], pa[1], s * a[2], pb[0], pb[1], s * a[5]]
            cs.append({"op": "cc", "tag": ("rot-" if moved else "pyth-") + kind, "a": a})
        else:
            c, l = pyth_cl(rng)
            if moved:
                f, s = similarity(rng)
                pc = f(c[0], c[1])
                c = [pc[0], pc[1], s * c[2]]
                l = move_line(f, s, l)
            cs.append({"op": "cl", "tag": "rot-tan" if moved else "pyth-tan", "a": c, "l1": l})
    return cs


def u01(rng):
    return (rng.next() >> 11) / float(1 << 53)


def real_line(rng, m):
    while True:
        u = ((2 * u01(rng) - 1) * m, (2 * u01(rng) - 1) * m)
        v = ((2 * u01(rng) - 1) * m, (2 * u01(rng) - 1) * m)
        if math.hypot(u[0] - v[0], u[1] - v[1]) >= 0.05 * m:
            return ["B", u[0], u[1], v[0], v[1]]


def real_cases(rng, n):
    cs = []
    for _ in range(n):
        m = rng.choice([1.0, 10.0, 100.0, 1000.0])
        co = lambda: (2 * u01(rng) - 1) * m
        rad = lambda: (0.05 + 0.95 * u01(rng)) * m
        k = rng.below(8)
        if k == 0:
            cs.append({"op": "cc", "tag": "real", "a": [co(), co(), rad(), co(), co(), rad()]})
        elif k == 1:
            # crossing by construction: r2 strictly between |d - r1| and d + r1
            ax, ay, bx, by, r1 = co(), co(), co(), co(), rad()
            d = math.hypot(ax - bx, ay - by)
            t = 0.05 + 0.9 * u01(rng)
            r2 = abs(d - r1) + t * (d + r1 - abs(d - r1))
            if r2 > 1024 or r2 < 0.05 * r1 or r1 < 0.05 * r2:
                continue
            cs.append({"op": "cc", "tag": "real-cross", "a": [ax, ay, r1, bx, by, r2]})
        elif k == 2:
            # tangent by construction (as the repository's circle_stress_touch does): r2 = |r1 - d|
            ax, ay, bx, by, r1 = co(), co(), co(), co(), rad()
            d = math.hypot(ax - bx, ay - by)
            r2 = abs(r1 - d)
            if r2 < 0.05 * r1 or r1 < 0.05 * r2 or r2 > 1024:
                continue
            cs.append({"op": "cc", "tag": "real-tan", "a": [ax, ay, r1, bx, by, r2]})
        elif k == 3:
            cs.append({"op": "cl", "tag": "real", "a": [co(), co(), rad()], "l1": real_line(rng, m)})
        elif k == 4:
            # line through the disc: passes within t*r of the centre
            cx, cy, r = co(), co(), rad()
            ang = 2 * math.pi * u01(rng)
            t = (2 * u01(rng) - 1) * 0.95 * r
            nx, ny = math.cos(ang), math.sin(ang)
            x0, y0 = cx + t * nx, cy + t * ny
            L = (0.2 + u01(rng)) * m
            cs.append({"op": "cl", "tag": "real-cross", "a": [cx, cy, r],
                       "l1": ["B", x0 - L * ny, y0 + L * nx, x0 + L * ny, y0 - L * nx]})
        elif k == 5:
            while True:
                l1, l2 = real_line(rng, m), real_line(rng, m)
                d1 = (l1[3] - l1[1], l1[4] - l1[2])
                d2 = (l2[3] - l2[1], l2[4] - l2[2])
                sin = (d1[0] * d2[1] - d1[1] * d2[0]) / (math.hypot(*d1) * math.hypot(*d2))
                if abs(sin) >= 0.05:
                    break
            cs.append({"op": "ll", "tag": "real", "l1": l1, "l2": l2})
        elif k == 6:
            cx, cy = co(), co()
            r = rng.choice([0.01, 0.5, 1.0, 3.0, 100.0, 100.0, 700.0]) if rng.chance(1, 2) else rad()
            if rng.chance(1, 3):
                cs.append({"op": "pos", "tag": "real", "a": [cx, cy, r, co(), co()]})
            else:
                p, q, h = rng.choice(DIRS)
                t = rng.choice([0.0, 3e-11, -3e-11, 5e-11, -5e-11, 2e-8, -2e-8, 1e-7, -1e-7, 1e-3, -1e-3])
                rr = r * (1.0 + t)
                cs.append({"op": "pos", "tag": "near-%g" % abs(t), "a": [cx, cy, r, cx + rr * p / h, cy + rr * q / h]})
        else:
            l = real_line(rng, m)
            ux, uy, vx, vy = l[1:]
            s = 2 * u01(rng) - 0.5
            x0, y0 = ux + s * (vx - ux), uy + s * (vy - uy)
            L = math.hypot(vx - ux, vy - uy)
            nx, ny = (uy - vy) / L, (vx - ux) / L
            off = rng.choice([0.0, 3e-11, -3e-11, 5e-8, -5e-8, 1e-6, 1e-3, -0.5])
            if max(abs(x0), abs(y0)) > 1000:
                continue
            cs.append({"op": "con", "tag": "near-%g" % abs(off), "l1": l, "a": [x0 + off * nx, y0 + off * ny]})
    return cs


def near_tangent_cases(rng, n):
    """very unequal circles (ratio up to 1e3:1) and circle-line pairs at 20 EPS ... 1e4 EPS from a tangency, on either
    side of it (the region where the crossing branch of intersect_cc was wrong before commit bc281aa)"""
    cs = []
    EPS = 1e-9
    for _ in range(n):
        ra = rng.choice([1.0, 3.0, 10.0, 100.0, 900.0, 1000.0]) if rng.chance(1, 2) else 1.0 + 999.0 * u01(rng)
        delta = rng.choice([20, 50, 100, 1000, 10000]) * EPS
        if rng.chance(1, 2):
            p, q, h = rng.choice(DIRS)
            co, si = p / h, q / h
        else:
            ang = 2 * math.pi * u01(rng)
            co, si = math.cos(ang), math.sin(ang)
        lim = 1000.0 - ra
        ax, ay = ((2 * u01(rng) - 1) * lim * 0.3, (2 * u01(rng) - 1) * lim * 0.3) if rng.chance(1, 2) else (0.0, 0.0)
        if rng.chance(2, 3):
            k = rng.choice([1.0, 2.0, 10.0, 100.0, 1000.0]) if rng.chance(1, 2) else 1.0 + 999.0 * u01(rng)
            rb = ra / k
            if rb < 0.001:
                continue
            inner = rng.chance(1, 2) and ra - rb > 0.01
            cross = rng.chance(2, 3)
            if inner:
                d = ra - rb + (delta if cross else -delta)
            else:
                d = ra + rb - (delta if cross else -delta)
            a = [ax, ay, ra, ax + d * co, ay + d * si, rb]
            if max(abs(v) for v in a) > 1024:
                continue
            if rng.chance(1, 2):
                a = a[3:] + a[:3]
            cs.append({"op": "cc", "tag": "near-%s-%s" % ("in" if inner else "out", "cross" if cross else "apart"), "a": a})
        else:
            cross = rng.chance(2, 3)
            d = ra - delta if cross else ra + delta
            x0, y0 = ax + d * co, ay + d * si
            L = 0.5 + 10 * u01(rng)
            l = ["B", x0 - L * si, y0 + L * co, x0 + L * si, y0 - L * co]
            if max(abs(v) for v in l[1:]) > 1024:
                continue
            cs.append({"op": "cl", "tag": "near-%s" % ("cross" if cross else "apart"), "a": [ax, ay, ra], "l1": l})
    return cs


def cc_ratio_cases(rng, n):
    """clear crossings at an extreme radius ratio (1e4 .. 1e6): a large circle and a tiny one whose centre lies at
    d = ra + t * rb, |t| <= 0.95, from the large centre (the corner of the quantifier where the crossing branch of
    intersect_cc lost the small circle's scale before commit 5d73592), plus the same pairs at 2 .. 1e4 EPS from the
    outer / inner tangency"""
    cs = []
    EPS = 1e-9
    while len(cs) < n:
        ra = rng.choice([1000.0, 1024.0]) if rng.chance(1, 2) else 100.0 + 924.0 * u01(rng)
        rb = rng.choice([2.0 ** -10, 0.001, 0.002, 0.01]) if rng.chance(1, 2) else 2.0 ** -10 + (0.05 - 2.0 ** -10) * u01(rng)
        if rng.chance(1, 2):
            p, q, h = rng.choice(DIRS)
            co, si = p / h, q / h
        else:
            ang = 2 * math.pi * u01(rng)
            co, si = math.cos(ang), math.sin(ang)
        k = rng.below(8)
        if k < 6:
            t = (2 * u01(rng) - 1) * 0.95
            d = ra + t * rb
            tag = "cc-ratio"
        else:
            delta = rng.choice([2, 5, 20, 100, 10000]) * EPS * rng.choice([1, -1])
            d = (ra + rb - delta) if k == 6 else (ra - rb + delta)
            tag = "cc-ratio-near-%s-%s" % ("out" if k == 6 else "in", "cross" if delta > 0 else "apart")
        # the large centre: somewhere on the segment that keeps both centres inside the box, plus a sideways shift
        s = u01(rng) if rng.chance(3, 4) else rng.choice([0.0, 0.5, 1.0])
        w = (2 * u01(rng) - 1) * 300.0 if rng.chance(1, 2) else 0.0
        ax, ay = -s * d * co - w * si, -s * d * si + w * co
        if rng.chance(1, 4):
            ax, ay = float(round(ax)), float(round(ay))
        a = [ax, ay, ra, ax + d * co, ay + d * si, rb]
        if max(abs(v) for v in a) > 1024:
            continue
        if rng.chance(1, 2):
            a = a[3:] + a[:3]
        cs.append({"op": "cc", "tag": tag, "a": a})
    return cs


def egcd_py(a, b):
    if b == 0:
        return (1, 0) if a >= 0 else (-1, 0)
    x, y = egcd_py(b, a % b)
    return y, x - (a // b) * y


def near_parallel_cases(rng, n):
    """line pairs that cross under a small angle: 1e-8 << |sin| << 1e-3.  They are NOT parallel within the library's
    1e-9 tolerance, so intersect_ll has to return a point (the specification demands the kind, not the accuracy
    of the ill-conditioned point)."""
    cs = []
    for i in range(n):
        if i % 2 == 0:
            # lattice: direction vectors with cross product 1 or 2
            while True:
                p, q = rng.range(-400, 400), rng.range(-400, 400)
                if math.gcd(p, q) == 1 and abs(p) + abs(q) > 60:
                    break
            x, y = egcd_py(p, q)             # p*x + q*y = 1   ->  cross((p,q),(-y,x)) = p*x + q*y = 1
            t = rng.range(1, 3) * rng.choice([1, -1])
            r, s_ = -y + t * p, x + t * q
            j = rng.choice([1, 1, 2])       # cross = j
            r, s_ = (r, s_) if j == 1 else (2 * r - p, 2 * s_ - q)
            ux, uy, vx, vy = rng.range(-20, 20), rng.range(-20, 20), rng.range(-20, 20), rng.range(-20, 20)
            l1 = ["B", ux, uy, ux + p, uy + q]
            l2 = ["B", vx, vy, vx + r, vy + s_]
            if rng.chance(1, 2):
                l1, l2 = l2, l1
            cs.append({"op": "ll", "tag": "lat-nearpar", "l1": l1, "l2": l2})
        else:
            m = rng.choice([1.0, 10.0, 100.0, 1000.0])
            l1 = real_line(rng, m)
            dx, dy = l1[3] - l1[1], l1[4] - l1[2]
            sn = 10.0 ** (-7.3 + 4.0 * u01(rng)) * rng.choice([1, -1])      # 5e-8 .. 5e-4
            cs_ = math.sqrt(1 - sn * sn)
            ex, ey = dx * cs_ - dy * sn, dx * sn + dy * cs_
            k = 0.3 + u01(rng)
            vx, vy = (2 * u01(rng) - 1) * m, (2 * u01(rng) - 1) * m
            cs.append({"op": "ll", "tag": "real-nearpar", "l1": l1, "l2": ["B", vx, vy, vx + k * ex, vy + k * ey]})
    return cs


EPS = 1e-9
# multiples of EPS strictly between the specification's inner (0.1 EPS) and outer (10 EPS) margin: only the value of the
# library's tolerance decides these cases (spec_check accepts either answer, model_check pins the code's answer)
BAND = [0.3, 0.7, 0.9, 1.1, 1.5, 3.0, 7.0]
BAND_OFFS = [m * EPS * sg for m in BAND for sg in (1, -1)]
N_BAND_FAMILIES = 7


def band_cases(rng, n):
    """every tolerance comparison of the library with its margin inside (1e-10, 1e-8), on both sides of +-EPS.  Exact
    data: lattice centres, Pythagorean / axis directions, so the binary64 margin is the intended one up to ~1e-13."""
    cs = []
    i = 0
    while len(cs) < n:
        fam = i % N_BAND_FAMILIES
        off = BAND_OFFS[(i // N_BAND_FAMILIES) % len(BAND_OFFS)]
        i += 1
        p, q, h = rng.choice(DIRS)
        co, si = p / h, q / h                                   # unit vector n; t = (-si, co) is perpendicular
        cx, cy = float(rng.range(-20, 20)), float(rng.range(-20, 20))
        if fam == 0:
            r = rng.choice([0.01, 0.5, 1.0, 3.0, 100.0, 700.0])
            rr = r * (1.0 + off)
            cs.append({"op": "pos", "tag": "band-pos", "a": [cx, cy, r, cx + rr * co, cy + rr * si]})
        elif fam == 1:
            # line through (cx, cy) with normal n, point at signed distance off from it
            m = rng.choice([-3.0, -1.0, 0.0, 0.5, 1.0, 2.0, 7.0])
            pt = [cx - m * q + off * co, cy + m * p + off * si]
            form = rng.below(3)
            if form == 0:
                j = rng.choice([1, -1, 2, 3])
                l = ["B", cx, cy, cx - j * q, cy + j * p]
            elif form == 1:
                sc = rng.choice([1, -1, 2])
                l = ["N", float(sc * p), float(sc * q), float(-sc * (p * cx + q * cy))]
            else:
                l = ["R", co, si, -(co * cx + si * cy)]
            cs.append({"op": "con", "tag": "band-con", "l1": l, "a": pt})
        elif fam == 2:
            r = rng.choice([0.05, 1.0, 3.0, 10.0, 100.0, 900.0])
            d = r + off
            x0, y0 = cx + d * co, cy + d * si
            form = rng.below(3)
            if form == 0:
                L = rng.choice([1.0, 2.5, 10.0])
                l = ["B", x0 + L * si, y0 - L * co, x0 - L * si, y0 + L * co]
                if rng.chance(1, 2):
                    l = ["B", l[3], l[4], l[1], l[2]]
            elif form == 1:
                sc = rng.choice([1, -1, 2])
                l = ["N", float(sc * p), float(sc * q), -sc * ((p * cx + q * cy) + h * d)]
            else:
                sg = rng.choice([1.0, -1.0])
                l = ["R", sg * co, sg * si, -sg * ((co * cx + si * cy) + d)]
            if max(abs(v) for v in l[1:]) > 1024:
                continue
            cs.append({"op": "cl", "tag": "band-cl", "a": [cx, cy, r], "l1": l})
        elif fam in (3, 4):
            ra = rng.choice([1.0, 3.0, 10.0, 100.0, 900.0])
            rb = ra / rng.choice([1.0, 2.0, 10.0, 100.0, 1000.0, 1e4, 1e5])
            if rb < 2.0 ** -10:
                continue
            if fam == 3:
                d = ra + rb - off
            else:
                if ra - rb < 0.01:
                    continue
                d = ra - rb + off
            a = [cx, cy, ra, cx + d * co, cy + d * si, rb]
            if max(abs(v) for v in a) > 1024:
                continue
            if rng.chance(1, 2):
                a = a[3:] + a[:3]
            cs.append({"op": "cc", "tag": "band-cc-out" if fam == 3 else "band-cc-in", "a": a})
        elif fam == 5:
            # nearly identical circles: centre distance and radius difference each 0 .. 2 EPS
            d = rng.choice([0.0, 0.5, 0.9, 1.1, 2.0]) * EPS
            dr = rng.choice([0.0, 0.5, 0.9, 1.1, 2.0]) * EPS * rng.choice([1, -1])
            ra = rng.choice([0.01, 1.0, 5.0, 100.0])
            if rng.chance(1, 3):
                cx, cy = 0.0, 0.0
            cs.append({"op": "cc", "tag": "band-same", "a": [cx, cy, ra, cx + d * co, cy + d * si, ra - dr]})
        else:
            # two lines whose unit normals have cross product off (|sin| = 0.3 .. 7 EPS): ll and parallel
            j = rng.choice([1, 2, -1, 3])
            cs_ = math.sqrt(1 - off * off)
            ex, ey = p * cs_ - q * off, p * off + q * cs_
            vx, vy = float(rng.range(-20, 20)), float(rng.range(-20, 20))
            k = rng.choice([1.0, 0.5, 2.0])
            l1 = ["B", cx, cy, cx + j * p, cy + j * q]
            l2 = ["B", vx, vy, vx + k * ex, vy + k * ey]
            if rng.chance(1, 2):
                l1, l2 = l2, l1
            cs.append({"op": "ll", "tag": "band-ll", "l1": l1, "l2": l2})
            cs.append({"op": "par", "tag": "band-par", "l1": l1, "l2": l2})
    return cs


def ulp_step(x, k):
    """x moved by k units in the last place"""
    for _ in range(abs(k)):
        x = math.nextafter(x, math.inf if k > 0 else -math.inf)
    return x


def coincidence_cases(rng, n):
    """exact coincidences (a distance that is exactly 0): concentric circles, the centre itself as the query point, a line
    through the centre, lines sharing a defining point, a defining point as the query of contains / dist"""
    cs = []
    i = 0
    while len(cs) < n:
        fam = i % 10
        i += 1
        real = rng.chance(1, 2)
        m = rng.choice([1.0, 10.0, 100.0, 1000.0])
        if real:
            cx, cy = (2 * u01(rng) - 1) * m, (2 * u01(rng) - 1) * m
            r = (0.05 + 0.95 * u01(rng)) * m
        else:
            cx, cy, r = float(rng.range(-20, 20)), float(rng.range(-20, 20)), float(rng.range(1, 20))
        p, q, h = rng.choice(DIRS)
        if fam == 0:
            cs.append({"op": "cc", "tag": "coin-same", "a": [cx, cy, r, cx, cy, r]})
        elif fam == 1:
            r2 = r * rng.choice([0.5, 0.25, 0.9, 0.999]) if real else float(rng.range(1, 20))
            a = [cx, cy, r, cx, cy, r2]
            if rng.chance(1, 2):
                a = a[3:] + a[:3]
            cs.append({"op": "cc", "tag": "coin-concentric", "a": a})
        elif fam == 2:
            cs.append({"op": "pos", "tag": "coin-centre", "a": [cx, cy, r, cx, cy]})
        elif fam == 3:
            k = rng.choice([1, -1, 2, -3])
            a = [cx, cy, r, ulp_step(cx, k), cy] if rng.chance(1, 2) else [cx, cy, r, cx, ulp_step(cy, k)]
            cs.append({"op": "pos", "tag": "coin-centre-ulp", "a": a})
        elif fam == 4:
            # a line exactly through the centre (lattice: exact; real: the centre is a defining point)
            if real:
                ang = 2 * math.pi * u01(rng)
                L = (0.2 + u01(rng)) * m
                l = ["B", cx, cy, cx + L * math.cos(ang), cy + L * math.sin(ang)]
                if max(abs(v) for v in l[1:]) > 1024:
                    continue
            else:
                j1, j2 = rng.choice([(0, 1), (0, -2), (-1, 1), (1, 3), (-2, -1)])
                l = ["B", cx + j1 * p, cy + j1 * q, cx + j2 * p, cy + j2 * q]
            if rng.chance(1, 2):
                l = ["B", l[3], l[4], l[1], l[2]]
            cs.append({"op": "cl", "tag": "coin-through-centre", "a": [cx, cy, r], "l1": l})
        elif fam == 5:
            # coefficient form through a lattice centre: c = -(a cx + b cy) exactly
            cx, cy, r = float(rng.range(-20, 20)), float(rng.range(-20, 20)), float(rng.range(1, 20))
            sc = rng.choice([1, -1, 2, -3])
            l = ["N", float(sc * p), float(sc * q), float(-sc * (p * cx + q * cy))]
            cs.append({"op": "cl", "tag": "coin-through-centre", "a": [cx, cy, r], "l1": l})
        elif fam == 6:
            co = lambda: (2 * u01(rng) - 1) * m if real else float(rng.range(-20, 20))
            u, v, w = (cx, cy), (co(), co()), (co(), co())
            if v == u or w == u or (v[0] - u[0]) * (w[1] - u[1]) == (v[1] - u[1]) * (w[0] - u[0]):
                continue
            if real and min(math.hypot(v[0] - u[0], v[1] - u[1]), math.hypot(w[0] - u[0], w[1] - u[1])) < 0.05 * m:
                continue
            l1 = ["B", u[0], u[1], v[0], v[1]] if rng.chance(1, 2) else ["B", v[0], v[1], u[0], u[1]]
            l2 = ["B", u[0], u[1], w[0], w[1]] if rng.chance(1, 2) else ["B", w[0], w[1], u[0], u[1]]
            cs.append({"op": "ll", "tag": "coin-shared-point", "l1": l1, "l2": l2})
        elif fam == 7:
            l = real_line(rng, m) if real else lat_line(rng)
            if l[0] != "B":
                continue
            pt = [l[1], l[2]] if rng.chance(1, 2) else [l[3], l[4]]
            cs.append({"op": rng.choice(["con", "ldist"]), "tag": "coin-defining-point", "l1": l, "a": pt})
        elif fam == 8:
            cs.append({"op": "dist", "tag": "coin-same-point", "a": [cx, cy, cx, cy]})
        else:
            k = rng.choice([2.0, 0.5, -1.0, 3.0, 0.1])
            b = [cx, cy] if rng.chance(1, 2) else [ulp_step(cx, rng.choice([1, -1])), cy]
            cs.append({"op": "pt", "tag": "coin-same-point", "a": [cx, cy, b[0], b[1], k]})
    return cs


def small_cases(rng, n):
    """the small end of the quantifier: radii in [2^-10, 0.05), defining points of a line 2^-10 .. 3e-4 |coordinate| apart"""
    cs = []
    i = 0
    lo = 2.0 ** -10
    def short_line(m):
        ux, uy = (2 * u01(rng) - 1) * m, (2 * u01(rng) - 1) * m
        L = rng.choice([lo * 1.01, lo * 2, lo * 4]) if rng.chance(1, 2) else lo * 1.01 + u01(rng) * max(0.0, 3e-4 * m - lo)
        ang = 2 * math.pi * u01(rng)
        return ["B", ux, uy, ux + L * math.cos(ang), uy + L * math.sin(ang)]
    while len(cs) < n:
        fam = i % 6
        i += 1
        m = rng.choice([1.0, 10.0, 100.0, 1000.0])
        cx, cy = (2 * u01(rng) - 1) * m, (2 * u01(rng) - 1) * m
        r = rng.choice([lo, 0.001, 0.002, 0.01]) if rng.chance(1, 2) else lo + (0.05 - lo) * u01(rng)
        ang = 2 * math.pi * u01(rng)
        nx, ny = math.cos(ang), math.sin(ang)
        if fam == 0:
            # line through the small disc at t * r from the centre, or clearly outside
            t = (2 * u01(rng) - 1) * 0.95 if rng.chance(3, 4) else rng.choice([1.5, -1.5, 3.0])
            x0, y0 = cx + t * r * nx, cy + t * r * ny
            L = rng.choice([lo, 0.01, 1.0, 10.0]) * (0.6 + u01(rng))
            l = ["B", x0 - L * ny, y0 + L * nx, x0 + L * ny, y0 - L * nx]
            if max(abs(v) for v in l[1:]) > 1024:
                continue
            cs.append({"op": "cl", "tag": "small-cl", "a": [cx, cy, r], "l1": l})
        elif fam == 1:
            t = rng.choice([0.0, 3e-11, -3e-11, 2e-8, -2e-8, 1e-6, -1e-6, 1e-3, -1e-3, 0.5, -0.5, 1.0])
            rr = r * (1.0 + t)
            cs.append({"op": "pos", "tag": "small-pos", "a": [cx, cy, r, cx + rr * nx, cy + rr * ny]})
        elif fam == 2:
            # two small circles, or a small and a moderate one, crossing
            r2 = r * (0.2 + 1.6 * u01(rng)) if rng.chance(1, 2) else (0.05 + u01(rng)) * min(m, 50.0)
            if r2 < lo:
                continue
            dlo, dhi = abs(r - r2), r + r2
            d = dlo + (0.05 + 0.9 * u01(rng)) * (dhi - dlo)
            a = [cx, cy, r, cx + d * nx, cy + d * ny, r2]
            if max(abs(v) for v in a) > 1024:
                continue
            if rng.chance(1, 2):
                a = a[3:] + a[:3]
            cs.append({"op": "cc", "tag": "small-cc", "a": a})
        elif fam == 3:
            l1 = short_line(m)
            l2 = short_line(m) if rng.chance(1, 2) else real_line(rng, m)
            d1 = (l1[3] - l1[1], l1[4] - l1[2])
            d2 = (l2[3] - l2[1], l2[4] - l2[2])
            sin = (d1[0] * d2[1] - d1[1] * d2[0]) / (math.hypot(*d1) * math.hypot(*d2))
            if abs(sin) < 0.05 or max(abs(v) for v in l1[1:] + l2[1:]) > 1024:
                continue
            if rng.chance(1, 2):
                l1, l2 = l2, l1
            cs.append({"op": "ll", "tag": "small-ll", "l1": l1, "l2": l2})
        elif fam == 4:
            l = short_line(m)
            if max(abs(v) for v in l[1:]) > 1024:
                continue
            cs.append({"op": "line", "tag": "small-line", "l1": l})
        else:
            l = short_line(m)
            ux, uy, vx, vy = l[1:]
            L = math.hypot(vx - ux, vy - uy)
            tx, ty = (vx - ux) / L, (vy - uy) / L
            s_ = rng.choice([0.0, 0.5, 1.0, -1.0, 3.0])
            off = rng.choice([0.0, 5e-8, -5e-8, 1e-6, 1e-3, -0.5])
            pt = [ux + s_ * (vx - ux) - off * ty, uy + s_ * (vy - uy) + off * tx]
            if max(abs(v) for v in l[1:] + pt) > 1024:
                continue
            cs.append({"op": rng.choice(["con", "ldist"]), "tag": "small-con", "l1": l, "a": pt})
    return cs


def coef_line(rng):
    """a line given by real coefficients, returned with a unit normal (nx, ny) and offset c0 of the same line
    (nx x + ny y + c0 = 0): ["N", s nx, s ny, s c0] for a scale s, or the struct literal ["R", nx, ny, c0]"""
    if rng.chance(1, 2):
        p, q, h = rng.choice(DIRS)
        nx, ny = p / h, q / h
    else:
        ang = 2 * math.pi * u01(rng)
        nx, ny = math.cos(ang), math.sin(ang)
    c0 = (2 * u01(rng) - 1) * rng.choice([1.0, 10.0, 100.0, 1000.0])
    if rng.chance(1, 3):
        return ["R", nx, ny, c0], (nx, ny, c0)
    s = rng.choice([1.0, 1.0 + 1e-7, 1.0 - 1e-7, 1.0 + 1e-12, 1.0 - 1e-12, 1e-3, 1e3]) if rng.chance(2, 3) \
        else 10.0 ** (4 * u01(rng) - 2)
    if rng.chance(1, 2):
        s = -s
    if abs(s * c0) > 1024:
        c0 = c0 / abs(s)
    return ["N", s * nx, s * ny, s * c0], (nx, ny, c0)


def coefficient_cases(rng, n):
    """lines given by real-valued coefficients (Line::new with nearly-unit, tiny, large and arbitrary scale) and by the
    struct literal with a unit normal, in every operation; Line::default() / a zero normal as out-of-quantifier cases
    (decided by model_check only)"""
    cs = []
    i = 0
    while len(cs) < n:
        fam = i % 8
        i += 1
        l, (nx, ny, c0) = coef_line(rng)
        # a point of the line: foot of the origin plus a step along the line
        tau = (2 * u01(rng) - 1) * rng.choice([1.0, 10.0, 100.0])
        x0, y0 = -c0 * nx - tau * ny, -c0 * ny + tau * nx
        if max(abs(x0), abs(y0)) > 900:
            continue
        if fam == 0:
            cs.append({"op": "line", "tag": "coef-line", "l1": l})
        elif fam == 1:
            off = rng.choice([0.0, 3e-11, -3e-11, 5e-8, -5e-8, 1e-6, 1e-3, -0.5] + [BAND_OFFS[rng.below(len(BAND_OFFS))]])
            cs.append({"op": rng.choice(["con", "ldist"]), "tag": "coef-con", "l1": l, "a": [x0 + off * nx, y0 + off * ny]})
        elif fam in (2, 3):
            r = rng.choice([0.05, 1.0, 3.0, 10.0, 100.0]) if rng.chance(1, 2) else 0.05 + 100 * u01(rng)
            if fam == 2:
                d = (2 * u01(rng) - 1) * 0.95 * r
                tag = "coef-cl-cross"
            else:
                delta = rng.choice([0.0, 20, -20, 1000, -1000, 1e6, -1e6]) * EPS
                d = (r + delta) * rng.choice([1, -1])
                tag = "coef-cl-near"
            cx, cy = x0 + d * nx, y0 + d * ny
            if max(abs(cx), abs(cy)) > 1024:
                continue
            cs.append({"op": "cl", "tag": tag, "a": [cx, cy, r], "l1": l})
        elif fam == 4:
            m = rng.choice([1.0, 10.0, 100.0])
            while True:
                l2 = real_line(rng, m) if rng.chance(1, 2) else coef_line(rng)[0]
                if l2[0] == "B":
                    dx, dy = l2[3] - l2[1], l2[4] - l2[2]
                    n2x, n2y = -dy / math.hypot(dx, dy), dx / math.hypot(dx, dy)
                else:
                    k_ = math.hypot(l2[1], l2[2])
                    n2x, n2y = l2[1] / k_, l2[2] / k_
                if abs(nx * n2y - ny * n2x) >= 0.05:
                    break
            l1 = l
            if rng.chance(1, 2):
                l1, l2 = l2, l1
            cs.append({"op": rng.choice(["ll", "ll", "par"]), "tag": "coef-ll", "l1": l1, "l2": l2})
        elif fam == 5:
            # the same line twice in different representations, or a parallel one: exactly / nearly parallel normals
            sh = rng.choice([0.0, 1.0, -2.5])
            sc = rng.choice([1.0, -1.0, 2.0, 1e-3])
            l2 = ["N", sc * nx, sc * ny, sc * (c0 + sh)]
            cs.append({"op": rng.choice(["ll", "par"]), "tag": "coef-par", "l1": l, "l2": l2})
        elif fam == 6:
            # out of the quantifier: zero normal (Line::default() or a literal); only the model decides
            z = ["Z"] if rng.chance(1, 2) else ["R", 0.0, 0.0, rng.choice([0.0, 1.0, -2.0, 1e-10])]
            k = rng.below(5)
            r = rng.choice([1.0, 2.0, 1e-10 + 1.0])
            if k == 0:
                cs.append({"op": "line", "tag": "coef-zero", "l1": z})
            elif k == 1:
                cs.append({"op": "cl", "tag": "coef-zero", "a": [x0, y0, r], "l1": z})
            elif k == 2:
                cs.append({"op": rng.choice(["con", "ldist"]), "tag": "coef-zero", "l1": z, "a": [x0, y0]})
            else:
                l1, l2 = (z, l) if rng.chance(1, 2) else (l, z)
                cs.append({"op": rng.choice(["ll", "par"]), "tag": "coef-zero", "l1": l1, "l2": l2})
        else:
            # Line::new fed with the coefficients of a line through two lattice points, rescaled by a real factor
            ux, uy, vx, vy = rng.range(-20, 20), rng.range(-20, 20), rng.range(-20, 20), rng.range(-20, 20)
            if (ux, uy) == (vx, vy):
                continue
            a_, b_ = uy - vy, vx - ux
            c_ = -(a_ * ux + b_ * uy)
            sc = rng.choice([1.0, 0.5, 0.1, 1e-3, 7.3, 1.0 / 3.0])
            ln = ["N", sc * a_, sc * b_, sc * c_]
            if max(abs(v) for v in ln[1:]) > 1024:
                continue
            j = rng.range(-3, 3)
            cs.append({"op": rng.choice(["con", "ldist", "line"]), "tag": "coef-lat", "l1": ln,
                       "a": [float(ux + j * (vx - ux)), float(uy + j * (vy - uy))]})
    for c in cs:
        if c["op"] == "line":
            c.pop("a", None)
    return cs


def point_op_cases(rng, n):
    """the Point operations (all receiver forms of + and -, * and / by a scalar, dp, cp, slen, len, conversions,
    equality), util::dist and Line::dist as entry points of their own"""
    cs = []
    i = 0
    while len(cs) < n:
        fam = i % 4
        i += 1
        m = rng.choice([1.0, 10.0, 100.0, 1000.0])
        co = lambda: (2 * u01(rng) - 1) * m
        if fam == 0:
            if rng.chance(1, 2):
                a = [float(rng.range(-20, 20)) for _ in range(4)]
                k = float(rng.choice([1, 2, -1, 3, 4, 5, -7, 10]))
            else:
                a = [co(), co(), co(), co()]
                k = rng.choice([2.0, 0.5, 3.0, 0.1, -1.0, 7.3, 1e-3, 1000.0]) if rng.chance(1, 2) \
                    else (0.001 + u01(rng)) * rng.choice([1.0, -1.0, 100.0])
            j = rng.below(6)
            if j == 0:
                a[2], a[3] = a[0], a[1]
            elif j == 1:
                a[2], a[3] = a[0] + 1e-10, a[1]
            elif j == 2:
                a[2], a[3] = -a[1], a[0]            # perpendicular: dp cancels
            elif j == 3:
                a[2], a[3] = 3 * a[0], 3 * a[1]     # collinear: cp cancels
            cs.append({"op": "pt", "tag": "ptops", "a": a + [k]})
        elif fam == 1:
            x, y = co(), co()
            j = rng.below(4)
            if j == 0:
                b = [co(), co()]
            elif j == 1:
                ang = 2 * math.pi * u01(rng)
                L = 10.0 ** (-9 + 8 * u01(rng))
                b = [x + L * math.cos(ang), y + L * math.sin(ang)]
            elif j == 2:
                p, q, h = rng.choice(DIRS)
                x, y = float(rng.range(-20, 20)), float(rng.range(-20, 20))
                kk = rng.range(1, 30)
                b = [x + kk * p, y + kk * q]
            else:
                b = [-x, -y]
            cs.append({"op": "dist", "tag": "dist", "a": [x, y] + b})
        elif fam == 2:
            l = real_line(rng, m) if rng.chance(1, 2) else lat_line(rng)
            pt = [co(), co()] if l[0] == "B" and rng.chance(1, 2) else [float(rng.range(-20, 20)), float(rng.range(-20, 20))]
            cs.append({"op": "ldist", "tag": "ldist", "l1": l, "a": pt})
        else:
            l1 = real_line(rng, m) if rng.chance(1, 2) else lat_line(rng)
            l2 = real_line(rng, m) if rng.chance(1, 2) else lat_line(rng)
            cs.append({"op": "par", "tag": "par", "l1": l1, "l2": l2})
    return cs


# ----------------------------------------------------------------------------- nearly axis-aligned configurations
LO = 2.0 ** -10
BETAS = [1e-10, 5e-10, 0.9e-9, 1.1e-9, 2e-9, 1e-8, 1e-7, 5e-7, 1e-6, 1e-5, 1e-4]


def tiny_of(rng):
    """the small component: log-uniform in [1e-10, 1e-4], or one of the values around the library's 1e-9"""
    return rng.choice(BETAS) if rng.chance(1, 4) else 10.0 ** (-10.0 + 6.0 * u01(rng))


def axis_mag(rng):
    """magnitude of the coordinates: the large ones (where a*x + c carries the largest rounding error) more often"""
    return rng.choice([1.0, 10.0, 100.0, 1000.0, 1000.0, 1000.0])


def axis_normal(rng, vertical, beta=None):
    """unit normal of a nearly vertical line (|b| = beta) or of a nearly horizontal one (|a| = beta), any signs"""
    beta = tiny_of(rng) if beta is None else beta
    big = math.sqrt(1.0 - beta * beta) * rng.choice([1.0, -1.0])
    sm = beta * rng.choice([1.0, -1.0])
    return (big, sm) if vertical else (sm, big)


def any_normal(rng):
    if rng.chance(1, 3):
        p, q, h = rng.choice(DIRS[4:])
        return p / h, q / h
    ang = 2 * math.pi * u01(rng)
    return math.cos(ang), math.sin(ang)


def line_through(rng, P, n, m, form=None):
    """the line through P with unit normal n as a line spec inside the quantifier (None when it does not fit):
    B = Line::between two real-valued points of it, N = Line::new with scaled coefficients, R = struct literal"""
    nx, ny = n
    form = rng.choice(["B", "B", "N", "R"]) if form is None else form
    if form == "B":
        for _ in range(20):
            t1 = (2 * u01(rng) - 1) * 2.0 * m
            L = (0.05 + 1.95 * u01(rng)) * m * rng.choice([1.0, -1.0])
            if rng.chance(1, 6):
                t1 = 0.0                                            # P itself is a defining point
            u = (P[0] - t1 * ny, P[1] + t1 * nx)
            v = (P[0] - (t1 + L) * ny, P[1] + (t1 + L) * nx)
            if max(abs(w) for w in u + v) <= 1024 and math.hypot(u[0] - v[0], u[1] - v[1]) >= 2 * LO:
                return ["B", u[0], u[1], v[0], v[1]]
        return None
    c0 = -(nx * P[0] + ny * P[1])
    if abs(c0) > 1024:
        return None
    if form == "R":
        return ["R", nx, ny, c0]
    s = rng.choice([1.0, -1.0, 1.0 + 1e-7, 1e-3, 1e3, 2.0, 0.5, -7.3]) if rng.chance(2, 3) else 10.0 ** (4 * u01(rng) - 2)
    if max(abs(s * nx), abs(s * ny), abs(s * c0)) > 1024:
        s = 1.0
    return ["N", s * nx, s * ny, s * c0]


def spec_normal(l):
    """unit normal of a line spec, in floating point (generator side only: used to keep pairs well conditioned)"""
    if l[0] == "B":
        a, b = l[2] - l[4], l[3] - l[1]
    else:
        a, b = l[1], l[2]
    k = math.hypot(a, b)
    return a / k, b / k


def both_orders(cs, op, tag, l1, l2):
    cs.append({"op": op, "tag": tag, "l1": l1, "l2": l2})
    cs.append({"op": op, "tag": tag + "-swapped", "l1": l2, "l2": l1})


def axis_ll_cases(rng, npairs):
    """one line nearly (not exactly) vertical or nearly horizontal - normalised |b| resp. |a| log-uniform in
    [1e-10, 1e-4] - crossing an ordinary line (|sin| >= 0.05) at a point of the box, every pair in BOTH argument
    orders.  A routine that recovers one coordinate by back-substitution into such a line divides the rounding
    error of a*x + c by the tiny coefficient (seed C10i)."""
    cs = []
    while len(cs) < 2 * npairs:
        vertical = rng.chance(1, 2)
        m = axis_mag(rng)
        P = ((2 * u01(rng) - 1) * m, (2 * u01(rng) - 1) * m)
        n1 = axis_normal(rng, vertical)
        while True:
            n2 = any_normal(rng)
            if abs(n1[0] * n2[1] - n1[1] * n2[0]) >= 0.05:
                break
        l1 = line_through(rng, P, n1, m)
        l2 = line_through(rng, P, n2, m, rng.choice(["B", "B", "B", "N", "R"]))
        if l1 is None or l2 is None:
            continue
        if l1[0] == "B" and (l1[1] == l1[3] or l1[2] == l1[4]):
            continue                                                # exactly axis-aligned after rounding: other family
        both_orders(cs, "ll", "axis-ll-%s-%s" % ("v" if vertical else "h", l1[0]), l1, l2)
    return cs


def axis_neighbour_cases(rng, n):
    """the neighbours of axis_ll_cases: every other routine on nearly axis-aligned data, and the other ways in which one
    coefficient or one coordinate of a line-line configuration can be tiny without being zero"""
    cs = []
    i = 0
    while len(cs) < n:
        fam = i % 12
        i += 1
        vertical = rng.chance(1, 2)
        m = axis_mag(rng)
        P = ((2 * u01(rng) - 1) * m, (2 * u01(rng) - 1) * m)
        n1 = axis_normal(rng, vertical)
        if fam == 0:
            # nearly vertical x nearly horizontal: both candidate pivots (u.b and v.a) are tiny
            l1 = line_through(rng, P, n1, m)
            l2 = line_through(rng, P, axis_normal(rng, not vertical), m)
            if l1 is None or l2 is None:
                continue
            both_orders(cs, "ll", "axis-ll-vh", l1, l2)
        elif fam == 1:
            # EXACTLY vertical / horizontal lines at real-valued coordinates, against a nearly axis-aligned or an
            # ordinary line (the exact zero coefficient is the case a pivot rule is written for)
            e = (rng.choice([1.0, -1.0]), 0.0) if vertical else (0.0, rng.choice([1.0, -1.0]))
            l1 = line_through(rng, P, e, m)
            k = rng.below(3)
            n2 = axis_normal(rng, not vertical) if k == 0 else any_normal(rng)
            if abs(e[0] * n2[1] - e[1] * n2[0]) < 0.05:
                continue
            l2 = line_through(rng, P, n2, m)
            if l1 is None or l2 is None:
                continue
            both_orders(cs, "ll", "axis-ll-exact", l1, l2)
        elif fam == 2:
            # two nearly vertical (horizontal) lines: they cross under an angle of 1e-7 .. 1e-4, only the kind is required
            b1 = 10.0 ** (-7.0 + 3.0 * u01(rng))
            n1 = axis_normal(rng, vertical, b1)
            n2 = axis_normal(rng, vertical, b1 * rng.choice([-1.0, 0.3, 3.0, -0.5]) if rng.chance(1, 2) else tiny_of(rng))
            sn = abs(n1[0] * n2[1] - n1[1] * n2[0])
            if sn < 5e-8:
                continue
            Q = ((2 * u01(rng) - 1) * m, (2 * u01(rng) - 1) * m)
            l1, l2 = line_through(rng, P, n1, m), line_through(rng, Q, n2, m)
            if l1 is None or l2 is None:
                continue
            both_orders(cs, rng.choice(["ll", "ll", "par"]), "axis-ll-pair", l1, l2)
        elif fam in (3, 4):
            # circle x nearly axis-aligned line: clear crossing, or 20 .. 1e4 EPS on either side of the tangency
            r = rng.choice([0.05, 1.0, 3.0, 10.0, 100.0, 700.0]) if rng.chance(1, 2) else (0.05 + 0.95 * u01(rng)) * m
            if fam == 3:
                d = (2 * u01(rng) - 1) * 0.95 * r
                tag = "axis-cl-cross"
            else:
                delta = rng.choice([0, 20, -20, 100, -100, 1000, -1000, 10000, -10000]) * EPS
                d = (r + delta) * rng.choice([1, -1])
                tag = "axis-cl-near"
            l = line_through(rng, P, n1, m)
            cx, cy = P[0] + d * n1[0], P[1] + d * n1[1]
            if l is None or max(abs(cx), abs(cy)) > 1024:
                continue
            cs.append({"op": "cl", "tag": tag, "a": [cx, cy, r], "l1": l})
        elif fam in (5, 6):
            # two circles whose centre line is nearly axis-aligned (the radical line is then nearly axis-aligned too)
            ra = rng.choice([1.0, 3.0, 10.0, 100.0, 700.0]) if rng.chance(1, 2) else (0.05 + 0.95 * u01(rng)) * m
            rb = ra * (0.05 + 0.95 * u01(rng)) if rng.chance(2, 3) else max(LO, ra / rng.choice([100.0, 1000.0, 1e4]))
            if fam == 5:
                d = abs(ra - rb) + (0.05 + 0.9 * u01(rng)) * (ra + rb - abs(ra - rb))
                tag = "axis-cc-cross"
            else:
                delta = rng.choice([0, 20, -20, 100, -100, 10000, -10000]) * EPS
                inner = rng.chance(1, 2) and ra - rb > 0.01
                d = ra - rb + delta if inner else ra + rb - delta
                tag = "axis-cc-near-%s-%s" % ("in" if inner else "out", "cross" if delta > 0 else "apart" if delta < 0 else "tan")
            a = [P[0], P[1], ra, P[0] + d * n1[0], P[1] + d * n1[1], rb]
            if max(abs(v) for v in a) > 1024:
                continue
            cs.append({"op": "cc", "tag": tag, "a": a})
            cs.append({"op": "cc", "tag": tag + "-swapped", "a": a[3:] + a[:3]})
        elif fam == 7:
            # the line itself, and contains / Line::dist of points on and next to it
            l = line_through(rng, P, n1, m)
            if l is None:
                continue
            tau = (2 * u01(rng) - 1) * m
            off = rng.choice([0.0, 3e-11, -3e-11, 5e-8, -5e-8, 1e-6, 1e-3, -0.5])
            pt = [P[0] - tau * n1[1] + off * n1[0], P[1] + tau * n1[0] + off * n1[1]]
            if max(abs(v) for v in pt) > 1024:
                continue
            cs.append({"op": "line", "tag": "axis-line", "l1": l})
            cs.append({"op": rng.choice(["con", "ldist"]), "tag": "axis-con", "l1": l, "a": pt})
        elif fam == 8:
            # position of a point that lies in a nearly axial direction from the centre; util::dist of such a pair
            r = rng.choice([0.01, 1.0, 100.0, 700.0]) if rng.chance(1, 2) else (0.05 + 0.95 * u01(rng)) * m
            t = rng.choice([0.0, 3e-11, -3e-11, 2e-8, -2e-8, 1e-3, -1e-3, 0.5])
            q = [P[0] + r * (1.0 + t) * n1[0], P[1] + r * (1.0 + t) * n1[1]]
            if max(abs(v) for v in q) > 1024:
                continue
            cs.append({"op": "pos", "tag": "axis-pos", "a": [P[0], P[1], r] + q})
            cs.append({"op": "dist", "tag": "axis-dist", "a": [P[0], P[1]] + q})
        elif fam in (9, 10):
            # an ordinary crossing whose POINT has a tiny (or zero) coordinate, or lies next to / at the origin
            tx, ty = tiny_of(rng) * rng.choice([1.0, -1.0]), tiny_of(rng) * rng.choice([1.0, -1.0])
            k = rng.below(5)
            P = [(tx, P[1]), (P[0], ty), (tx, ty), (0.0, P[1]), (0.0, 0.0)][k]
            na = any_normal(rng)
            while True:
                nb = any_normal(rng) if rng.chance(2, 3) else axis_normal(rng, rng.chance(1, 2))
                if abs(na[0] * nb[1] - na[1] * nb[0]) >= 0.05:
                    break
            l1, l2 = line_through(rng, P, na, m), line_through(rng, P, nb, m)
            if l1 is None or l2 is None:
                continue
            both_orders(cs, "ll", "origin-ll-%d" % k, l1, l2)
        else:
            # a line that passes the origin at a tiny distance (|c| log-uniform in [1e-10, 1e-4], or exactly 0)
            c0 = rng.choice([0.0, tiny_of(rng), -tiny_of(rng)])
            na = any_normal(rng) if rng.chance(1, 2) else n1
            Pa = (-c0 * na[0], -c0 * na[1])
            l1 = line_through(rng, Pa, na, m, rng.choice(["N", "R", "B"]))
            while True:
                nb = any_normal(rng)
                if abs(na[0] * nb[1] - na[1] * nb[0]) >= 0.05:
                    break
            l2 = line_through(rng, P, nb, m)
            if l1 is None or l2 is None:
                continue
            # the crossing point has to stay inside the box
            sn = na[0] * nb[1] - na[1] * nb[0]
            cb = -(nb[0] * P[0] + nb[1] * P[1])
            X = (-(c0 * nb[1] - na[1] * cb) / sn, -(na[0] * cb - c0 * nb[0]) / sn)
            if max(abs(X[0]), abs(X[1])) > 1000:
                continue
            both_orders(cs, "ll", "tinyc-ll", l1, l2)
    return cs


def twins(cases, rng):
    """the same inputs through the entry points that the intersection routines use internally: parallel for a line pair,
    Line::dist for a contains query, util::dist for the two centres of a circle pair"""
    out = []
    for c in cases:
        if c["op"] == "ll" and rng.chance(1, 3):
            out.append({"op": "par", "tag": "par-of-" + c.get("tag", "?"), "l1": c["l1"], "l2": c["l2"]})
        elif c["op"] == "con" and rng.chance(1, 3):
            out.append({"op": "ldist", "tag": "ldist-of-" + c.get("tag", "?"), "l1": c["l1"], "a": c["a"]})
        elif c["op"] == "cc" and rng.chance(1, 30):
            a = c["a"]
            out.append({"op": "dist", "tag": "dist-of-cc", "a": [a[0], a[1], a[3], a[4]]})
    return out


def generate(rng, tier):
    quick = tier == "quick"
    cases = []
    cases += near_parallel_cases(rng.fork("nearpar"), 120 if quick else 1500)
    cases += lattice_cases(rng.fork("lat"), 1500 if quick else 12000)
    cases += tangency_cases(rng.fork("tan"), 1000 if quick else 8000)
    cases += real_cases(rng.fork("real"), 2500 if quick else 20000)
    cases += near_tangent_cases(rng.fork("near"), 800 if quick else 6000)
    cases += cc_ratio_cases(rng.fork("ratio"), 200 if quick else 2000)
    cases += band_cases(rng.fork("band"), 300 if quick else 2400)
    cases += coincidence_cases(rng.fork("coin"), 150 if quick else 1500)
    cases += small_cases(rng.fork("small"), 150 if quick else 1500)
    cases += coefficient_cases(rng.fork("coef"), 240 if quick else 2400)
    cases += point_op_cases(rng.fork("ptops"), 160 if quick else 1600)
    cases += axis_ll_cases(rng.fork("axis-ll"), 110 if quick else 1050)
    cases += axis_neighbour_cases(rng.fork("axis-nb"), 260 if quick else 2600)
    cases += twins(cases, rng.fork("twins"))
    # the circle cases cost the specification several times more than the others: spread them over the batch files
    rng.fork("order").shuffle(cases)
    return cases


def shrink(c):
    """smaller variants: integer / short coordinates, first object at the origin"""
    out = []
    def vals(c):
        v = list(c.get("a", []))
        for k in ("l1", "l2"):
            if k in c:
                v += c[k][1:]
        return v
    def put(c, v):
        n = dict(c)
        i = 0
        if "a" in c:
            n["a"] = v[:len(c["a"])]
            i = len(c["a"])
        for k in ("l1", "l2"):
            if k in c:
                n[k] = [c[k][0]] + v[i:i + len(c[k]) - 1]
                i += len(c[k]) - 1
        return n
    v = vals(c)
    rounded = [float(round(x)) for x in v]
    if rounded != v:
        out.append(put(c, rounded))
    r3 = [round(x, 3) for x in v]
    if r3 != v:
        out.append(put(c, r3))
    for i, x in enumerate(v):
        for w in (0.0, float(int(x)), float(int(x / 2)), x - 1 if x > 0 else x + 1):
            if w != x:
                n = list(v)
                n[i] = w
                cand = put(c, n)
                if valid(cand):
                    out.append(cand)
    return [x for x in out if valid(x)]


def valid(c):
    """keep shrunk cases inside the quantifier (positive radii, proper lines)"""
    def line_ok(l):
        if l[0] == "Z":
            return True
        if l[0] == "B":
            return (l[1], l[2]) != (l[3], l[4])
        return (l[1], l[2]) != (0, 0)
    if c["op"] == "pt":
        return c["a"][4] != 0
    if c["op"] == "cc":
        return c["a"][2] >= 0.01 and c["a"][5] >= 0.01
    if c["op"] in ("cl", "pos"):
        if c["a"][2] < 0.01:
            return False
    return all(line_ok(c[k]) for k in ("l1", "l2") if k in c)


def known_finding(case, obs, profile):
    return None


# ----------------------------------------------------------------------------- implementation-level search
def run_lines(binp, lines):
    p = subprocess.run([binp], input="".join(l + "\n" for l in lines), stdout=subprocess.PIPE,
                       stderr=subprocess.PIPE, text=True, timeout=3600)
    outs = p.stdout.split("\n")
    if outs and outs[-1] == "":
        outs.pop()
    if p.returncode != 0 or len(outs) != len(lines):
        raise RuntimeError("executor failed rc=%d\n%s" % (p.returncode, p.stderr[-2000:]))
    return outs


def exact_stats(ctx):
    """how many sampled cases the binary64 instance of the model reproduces bit for bit (statistics, not a gate);
    every build profile: a profile whose observations are textually those of the debug build shares its count"""
    import _driver
    import re
    rng = _driver.Rng(ctx.seed).fork(ID)
    cases = generate(rng, "quick")[::3]
    lines = [harness_line(c) for c in cases]
    res = {}
    first = None
    for profile in PROFILES:
        outs = run_lines(ctx.bins[profile], lines)
        if first is not None and outs == first[1]:
            res[profile] = "observations identical to %s" % first[0]
            continue
        terms = [coq_term(c, o, profile) for c, o in zip(cases, outs)]
        path = os.path.join(ctx.work, "exact_stats_%s.v" % profile)
        with open(path, "w") as f:
            f.write("From Coq Require Import List ZArith Bool.\nImport ListNotations.\n" + CORR_IMPORT + "\n")
            f.write("Definition cases : list case := [\n" + ";\n".join(terms) + "\n].\n")
            f.write("Eval vm_compute in (count_exact cases).\n")
        rc, out = _driver.coqc(path, ctx.work)
        m = re.search(r"\(\s*(\d+)\s*,\s*(\d+)\s*\)", out)
        if rc != 0 or not m:
            res[profile] = {"error": out[-500:]}
            continue
        res[profile] = {"bit_for_bit": int(m.group(1)), "of": int(m.group(2))}
        if first is None:
            first = (profile, outs)
    return res


def case_of_line(line):
    """harness line of the search mode -> case dict (so that the replay file can be replayed)"""
    t = line.split()
    def ls(i):
        n = 5 if t[i] == "B" else 4
        return [t[i]] + [unbits(x) for x in t[i + 1:i + n]], i + n
    if t[0] == "ll":
        l1, i = ls(1)
        l2, _ = ls(i)
        return {"op": "ll", "tag": "search", "l1": l1, "l2": l2}
    if t[0] == "cl":
        l1, _ = ls(4)
        return {"op": "cl", "tag": "search", "a": [unbits(x) for x in t[1:4]], "l1": l1}
    if t[0] == "cc":
        return {"op": "cc", "tag": "search", "a": [unbits(x) for x in t[1:7]]}
    return None


def extra(ctx, known):
    n = 10 ** 4 if ctx.tier == "quick" else 10 ** 5
    seeds = [ctx.seed * 1000 + i for i in range(1 if ctx.tier == "quick" else 10)]
    violations = []
    cov = {}
    ok = 0
    for profile in PROFILES:
        binp = ctx.bins[profile]
        try:
            outs = run_lines(binp, ["search %d %d" % (s, n) for s in seeds])
        except RuntimeError as e:
            return {"coverage": {"search": "executor failed"},
                    "violations": [{"name": "search-executor", "kind": "broken-correspondence", "nofail": True,
                                    "payload": {"what": "the executor crashed in search mode (%s build)" % profile, "log": str(e)}}]}
        for s, o in zip(seeds, outs):
            t = o.split()
            if t[0] == "OK":
                ok += 1
                cov["search_last_%s" % profile] = o
            elif len(violations) < 3:
                line = " ".join(t[2:])
                nums = [unbits(x) if x.isdigit() else x for x in t[3:]]
                violations.append({"name": "search-%d-%s" % (s, profile), "nofail": False,
                                   "payload": {"what": "implementation-level search (%s build): %s" % (profile, t[1]),
                                               "harness_line": line, "inputs": nums, "case": case_of_line(line),
                                               "reproduce": "echo '%s' | harness/target/%s/c10" % (line, profile)}})
    cov["search"] = {"configurations": n * len(seeds) * len(PROFILES), "seeds_ok": ok, "seeds": len(seeds) * len(PROFILES),
                     "profiles": list(PROFILES),
                     "checks": "every returned point within 1e-7 of both primitives (f64 hypot against the defining data); kind vs "
                               "exact i128 classification on the lattice quarter, vs the 1e-8 margin otherwise (incl. radius "
                               "ratios log-uniform up to 1e6:1 at 20..1e4 EPS from a tangency, and clear crossings of a circle "
                               "of radius 100..1024 with one of radius 2^-10..1, both argument orders); one real-valued "
                               "configuration in five has a nearly (not exactly) axis-aligned line (small direction component "
                               "log-uniform 1e-10..1e-4) as first or second argument of intersect_ll, as the line of "
                               "intersect_cl, or as the centre line of a clear circle-circle crossing"}
    try:
        cov["model_bit_for_bit"] = exact_stats(ctx)
    except Exception as e:  # statistics only
        cov["model_bit_for_bit"] = {"error": str(e)[-300:]}
    return {"coverage": cov, "violations": violations, "known": []}


MANIFEST = {
    "text": "Executable Gallina model of rlib_geometry (Point ops, Line::new/between/dist/contains, parallel, "
            "intersect_ll, intersect_cl, intersect_cc, Circle::position), ONE definition polymorphic in the scalar "
            "operations and in EPS. Theorems (17 pinned, instance R = Coq's real numbers, standard-library real axioms "
            "only): c10_line_new_unit / c10_dist_euclidean (Line::new stores a unit normal, so dist is the Euclidean "
            "distance), c10_between_contains, c10_contains, c10_ll_on_both (non-parallel: the returned point satisfies "
            "both equations) / c10_ll_parallel_none, c10_cl_none / c10_cl_two_points (both points on the line and at "
            "distance exactly r) / c10_cl_tangent (foot of the perpendicular, within EPS of the circle), c10_position, "
            "c10_cc_kinds (kind follows the comparison of the centre distance with r1 +- r2 away from the EPS bands; "
            "crossing points lie on both circles) with c10_cc_swap and c10_touch_points_on_both, and the two repaired "
            "defects as statements about the old code (c10_old_tangent_refuted, c10_cc_old_crossing), and the crossing branch "
            "measured from the larger circle (c10_cc_big_crossing: exact over R; c10_cc_big_ratio_refuted: a binary64 witness at "
            "ratio 1e6:1 rejected by the dyadic specification, the repaired code accepted in both argument orders). The binary64 "
            "instance (Coq primitive floats) is compared with the Rust crate on every run: same kind, coordinates bit for "
            "bit or within 1e-9; a model-independent spec_check in exact dyadic arithmetic decides for every sampled case "
            "that each returned point is within 1e-7 of both primitives and that the kind is the exact kind away from the "
            "tolerance bands (exact Pythagorean tangencies included); inside the bands (margins 0.3..7 EPS) the binary64 model "
            "pins the code's answer, i.e. the value of EPS at every comparison. Sampled up to radius ratio 1e6:1, exact "
            "coincidences, the small end of the quantifier, coefficient-form and literal lines, nearly (not exactly) "
            "axis-aligned lines and centre lines (small component 1e-10..1e-4, both argument orders, every routine) and "
            "crossing points / offsets with a tiny coordinate; Line::dist, util::dist, "
            "util::parallel and the Point operations are compared as entry points of their own. The 1e-7 floating-point bound "
            "(c10_rounding_partial) is NOT proved: it is decided by that exact check and by an implementation-level "
            "search (both build profiles).",
    "level_note": "Trusted: Coq kernel + vm_compute incl. primitive floats; the Rust executor and the Python case printer. "
                  "PARTIAL: theorems hold for the real-number instance; rounding is not proved.",
    "technique": "Coq proof over a polymorphic Gallina model (instance R) + vm_compute correspondence of the binary64 instance "
                 "against the Rust crate + exact dyadic specification check + implementation-level search",
}
