"""C14 — rlib_rand: integer/float range draws, seeds and copies, shuffle."""
import re
import struct
import subprocess
import math

ID = "C14"
CRATE = "c14"
# sibling sources whose edits enlarge the quick correspondence (fingerprints in source_pins.json)
SOURCES = ["rlib/rand/src/lib.rs"]
COQ_DIR = "C14"
COQ_DEPS = []
PROFILES = ["debug", "release"]       # wrapping vs checked arithmetic matters here
CORR_IMPORT = "From Coq Require Import Numbers.Cyclic.Int63.Uint63.\nFrom RlibV Require Import C14.Model C14.Corr.\nOpen Scope Z_scope."
CASE_TYPE = "case"
AUDIT_IMPORT = ("From Coq Require Import ZArith NArith List Bool Permutation Reals.\nFrom Coq Require Import Floats.SpecFloat.\n"
                "From Flocq Require Import Core.Defs Core.Raux IEEE754.BinarySingleNaN.\n"
                "Import ListNotations.\n"
                "From RlibV Require Import C14.Model C14.Corr C14.Spec C14.Properties.\nOpen Scope Z_scope.")
EXPLAIN = "explain"
# only the two real-number statements (c14_float_in_range_real, c14_float_unit_in_0_1) use them: Coq's classical reals + Flocq
AXIOM_ALLOW = ["ClassicalDedekindReals.sig_not_dec", "ClassicalDedekindReals.sig_forall_dec",
               "FunctionalExtensionality.functional_extensionality_dep", "Classical_Prop.classic"]
# GENERATED together with coq/theories/C14/Properties.v.  The driver's Print-Assumptions parser attributes the NEXT pin's
# `name : type` line to the axiom list of the current pin, so only the LAST pin may depend on axioms: the two real-number
# statements (c14_float_in_range_real, c14_float_unit_in_0_1 in Properties.v) are pinned together as the final conjunction.
THEOREMS = [
    ('c14_range_in_bounds',
     'forall (sg : bool) (w : Z) (f : form) (raw : Z), valid_width w -> form_valid sg w f -> form_lo sg w f <= form_hi sg w f -> exists x, gen sg w f raw = Some x /\\ form_lo sg w f <= x <= form_hi sg w f /\\ in_ty sg w x = true'),
    ('c14_range_reachable',
     'forall (sg : bool) (w : Z) (f : form) (x : Z), valid_width w -> form_valid sg w f -> form_lo sg w f <= x <= form_hi sg w f -> gen sg w f (witness_raw sg w f x) = Some x /\\ 0 <= witness_raw sg w f x < 2 ^ 64'),
    ('c14_full_range_is_truncation',
     'forall (sg : bool) (w : Z) (raw : Z), valid_width w -> gen sg w FFull raw = Some (cast sg w raw) /\\ gen sg w (FIncl (tmin sg w) (tmax sg w)) raw = Some (cast sg w raw) /\\ in_ty sg w (cast sg w raw) = true /\\ (cast sg w raw) mod 2 ^ w = raw mod 2 ^ w'),
    ('c14_empty_range_panics',
     'forall (sg : bool) (w : Z) (f : form) (raw : Z), valid_width w -> form_valid sg w f -> form_hi sg w f < form_lo sg w f -> gen sg w f raw = None'),
    ('c14_stream_deterministic',
     "(forall sg w f n seed1 seed2, seed1 = seed2 -> stream sg w f seed1 n = stream sg w f seed2 n) /\\ (forall sg w f n m st, draws rng_next sg w f (n + m) st = match draws rng_next sg w f n st with | None => None | Some (st', xs) => match draws rng_next sg w f m st' with | None => None | Some (st'', ys) => Some (st'', xs ++ ys) end end) /\\ (forall n st, raws rng_next n st = Some (state_after n st, map out_mix (map (fun k => state_after (S k) st) (seq 0 n))))"),
    ('c14_state_step_bijective',
     '(forall s, 0 <= s < 2 ^ 64 -> 0 <= lcg_step s < 2 ^ 64 /\\ lcg_unstep (lcg_step s) = s) /\\ (forall t, 0 <= t < 2 ^ 64 -> 0 <= lcg_unstep t < 2 ^ 64 /\\ lcg_step (lcg_unstep t) = t)'),
    ('c14_output_bijective',
     'forall x, 0 <= x < 2 ^ 64 -> 0 <= out_mix x < 2 ^ 64 /\\ out_mix (out_mix x) = x'),
    ('c14_seed_injective',
     'forall s1 s2, 0 <= s1 < 2 ^ 64 -> 0 <= s2 < 2 ^ 64 -> snd (next_raw (from_seed s1)) = snd (next_raw (from_seed s2)) -> s1 = s2'),
    ('c14_shuffle_permutation',
     "forall (St A : Type) (nxt : St -> option (St * Z)) (st : St) (v : list A) (st' : St) (v' : list A), shuffle nxt st v = Some (st', v') -> Permutation v v'"),
    ('c14_shuffle_total',
     'forall (St A : Type) (nxt : St -> option (St * Z)) (st : St) (v : list A), (forall s, nxt s <> None) -> Z.of_nat (length v) <= 2 ^ 64 -> shuffle nxt st v <> None'),
    ('c14_shuffle_reaches_all',
     'forall (A : Type) (v p : list A), Permutation p v -> Z.of_nat (length v) <= 2 ^ 64 -> exists rs, length rs = (length v - 1)%nat /\\ Forall (fun r => 0 <= r < 2 ^ 64) rs /\\ shuffle_script rs v = Some p'),
    ('c14_shuffle_reaches_all_partial',
     'forall (n : nat) (p : list Z), (n <= 6)%nat -> Permutation p (zseq (N.of_nat n)) -> exists rs, length rs = (n - 1)%nat /\\ Forall (fun r => 0 <= r < 2 ^ 64) rs /\\ shuffle_script rs (zseq (N.of_nat n)) = Some p'),
    ('c14_old_low_bits_periodic',
     'forall (k n : nat) (st : Z), (k <= 64)%nat -> (forall s, snd (next_raw_old s) = lcg_step s /\\ fst (next_raw_old s) = lcg_step s) /\\ state_after (2 ^ k + n) st mod 2 ^ Z.of_nat k = state_after n st mod 2 ^ Z.of_nat k'),
    ('c14_fairness_partial',
     'forall (n : N) (p : list Z), (n <= 6)%N -> Permutation p (zseq n) -> exists seed, In seed (seeds_for n) /\\ 0 <= seed < 2 ^ 64 /\\ shuffle_rng seed (zseq n) = Some p'),
    ('c14_float_in_range',
     'forall (s e : spec_float) (raw : Z), SFltb s e = true -> exists x, float_range s e raw = Some x /\\ SFleb s x = true /\\ SFltb x e = true'),
    ('c14_float_empty_panics',
     'forall (s e : spec_float) (raw : Z), SFltb s e = false -> float_range s e raw = None'),
    ('c14_generic_instance',
     'forall st, glcg_step lcg_A lcg_C st = lcg_step st /\\ gnext_raw lcg_A lcg_C st = next_raw st /\\ gnext lcg_A lcg_C st = rng_next st'),
    ('c14_jump_is_iterated_step',
     'forall (a c : Z) (n : N) (st : Z), lcg_jump a c n st = iter_n (glcg_step a c) (N.to_nat n) st'),
    ('c14_model_check_spec_check',
     'forall c : case, in_scope c = true -> model_check c = true -> spec_check c = true'),
    ('c14_float_real_statements',
     '(forall (s e : binary_float 53 1024) (raw : Z), is_finite s = true -> is_finite e = true -> (B2R s < B2R e)%R -> exists x : binary_float 53 1024, float_range (B2SF s) (B2SF e) raw = Some (B2SF x) /\\ is_finite x = true /\\ (B2R s <= B2R x < B2R e)%R) /\\ (forall raw : Z, 0 <= raw < 2 ^ 64 -> exists u : binary_float 53 1024, f_unit raw = B2SF u /\\ is_finite u = true /\\ B2R u = (IZR (raw / 2 ^ 11) * / IZR (2 ^ 53))%R /\\ (0 <= B2R u < 1)%R)'),
]
RULE = ("gen_from_u64 as a pure function: i8/u8 over (start,end) pairs (all 65536 pairs per form in the thorough tier, a "
        "boundary-stratified subset in quick) for a..b and a..=b, every ..b / ..=b / .., crossed with adversarial raws "
        "(0, 2^64-1, k*len-1, k*len, k*len+1, the last multiple of len below 2^64 +-1, 2^53+-1, 2^63+-1, 2^32, random); "
        "i16..i64/u16..u64/isize/usize at boundary lengths (1, 2, 2^k, 2^k+-1, 2^(w-1)+-1, MAX, full width) from boundary "
        "starts; reachability sweeps raw = 0..len-1 of small ranges; f64 ranges (unit, negative, huge -1e308..1e308, "
        "1e16..1e16+2, adjacent floats, subnormal spans, infinities, empty/NaN -> panic) with raws 0, MAX, MAX-1000, around "
        "2^53 and the >>11 boundary, random; next_raw and next(range) streams from boundary and random seeds (>= 64 draws "
        "from small ranges are checked for short periods); copies; shuffle with a scripted Rand source (arbitrary raw "
        "sequences incl. too short scripts) and with the real Rng; seed sets that must reach every order of a 3/4/5-slice. "
        "Histories on ONE generator (Corr.CMix, state threaded by the model through every operation): consecutive shuffles "
        "followed by raws (same length twice in a row must differ), f64 ranges drawn through Rng::next, random scripts of "
        "6-20 interleaved operations (integer draws of different types/forms, f64 draws, next_raw, dropped runs, shuffles, "
        "duplicates made by copy / clone / clone_from / Cell get-set / pass by value), runs of 63..2^20 (thorough 2^24) dropped "
        "raws before the observed ones (model: proved state jump), eight other instantiations <A, C> of the const-generic "
        "generator (small, even, zero, MAX, swapped constants), from_seed in const / static / thread_local initialisers. "
        "Through the existing case types: raw streams of 257..4097 outputs, copies after 255..4096 draws in the five ways of "
        "duplicating, a 1030-draw stream of a small range, real-Rng shuffles of 13..1000 elements, scripted shuffles of "
        "257..1000 elements with raws choosing the top index, shuffles whose slice holds another element kind than i64 "
        "(50 kinds, executor macro with_elem!: Strings, boxes, Vec<u8>, (u64, String), u8/u16/u32/usize/u128/f64, plain byte "
        "and word arrays of 8, 15, 17, 31, 33, 63, 64 | 65, 72, 80, 127, 128, 129, 136, 255, 257, 1024, 4096, 4097 bytes, "
        "records with mixed fields of 24..1024 bytes, nested arrays [[u32; M]; N] and [[[u8; K]; M]; N] of 64..1152 bytes, "
        "records aligned to 64 / 128, non-Copy records of 40, 64, 120, 1024 bytes whose drops are counted, the middle of a "
        "longer vector; every element carries its start position and a pattern derived from it; the executor prints the "
        "line the i64 run must print, so the same Coq terms decide it, or X - which no model value equals and no "
        "specification accepts - when an element is damaged, duplicated, lost, dropped during the shuffle or not exactly "
        "once afterwards, padding is touched): with the scripted source (random scripts; EVERY script of a 3-slice on every "
        "kind above 64 bytes, every script of a 4-slice on eight of them, the others in rotation; 257/300-slices), with the "
        "real Rng (random seeds, lengths 0..8 and 64..300; the seed lists that must reach all 6 / 24 orders on EVERY kind "
        "above 64 bytes, all 6 on the small kinds, all 120 orders of a 5-slice of 80-byte arrays and of 120-byte counted "
        "records) and inside histories (consecutive shuffles of big elements alternating with plain ones: the state left "
        "behind is the model's); the search counts the orders of 3/4/5-slices of every big kind over 1200..6000 seeds, and "
        "from_time() (must behave as from_seed(s) for an s between two clock readings; a later call has a later seed). "
        "Every case runs in the debug and the release profile. non-trivial = some raw >= range length on a non-empty "
        "range (the remainder really reduces), a float draw on a non-empty range, a stream/shuffle/history of length >= 2")
TRUSTED = ["executor harness/crates/c14 (calls Randomable::gen_from_u64, Rng::{from_seed,from_time,next_raw,next,shuffle} and the "
           "same methods of eight other LinearCongruentialGenerator64<A, C>, a scripted implementation of the public Rand "
           "trait; floats as to_bits/from_bits; its internal checks: tags and fill patterns of shuffled non-i64 elements of 50 kinds "
           "(sizes 1..4097 bytes reported by the executor and compared with the plugin's table in prepare()), drop counts, untouched padding "
           "around a shuffled sub-slice, the search of from_time's seed between two clock readings, Cell/by-value round trips)",
           "checks/c14.py (case generator, Coq term printer, the table of constants (A, C) per generator name)"]
ASSUMPTIONS = ["integers of a Rust type are their mathematical value in Z, (signedness, width) explicit; usize/isize are 64-bit",
               "f64 arithmetic is IEEE-754 binary64 round-to-nearest-even = Coq's SpecFloat at (53, 1024); no FMA contraction",
               "a debug-build overflow panic and a release-build wrap are both modelled as None; the theorems show neither occurs",
               "fairness of shuffle and aperiodicity of small-range streams are statistical: finite reachability is proved, "
               "frequencies and periods are measured by the search (extra)"]
SHARD = 1200
SEARCH_MAX = 6000
M64 = (1 << 64) - 1

TYPES = {"i8": (True, 8), "u8": (False, 8), "i16": (True, 16), "u16": (False, 16), "i32": (True, 32), "u32": (False, 32),
         "i64": (True, 64), "u64": (False, 64), "isize": (True, 64), "usize": (False, 64)}
FORMS = {"range": "FRange", "incl": "FIncl", "to": "FTo", "toincl": "FToIncl", "full": "FFull"}


def tmin(ty):
    sg, w = TYPES[ty]
    return -(1 << (w - 1)) if sg else 0


def tmax(ty):
    sg, w = TYPES[ty]
    return (1 << (w - 1)) - 1 if sg else (1 << w) - 1


def z(v):
    """Z term; large magnitudes through primitive-integer literals (see Corr.v: U, Un, W, Wn)"""
    a = abs(v)
    if a < (1 << 20):
        return "(%d)" % v
    if a < (1 << 62):
        return "(%s %d)" % ("U" if v >= 0 else "Un", a)
    if a < (1 << 94):
        return "(%s %d %d)" % ("W" if v >= 0 else "Wn", a >> 32, a & 0xFFFFFFFF)
    return "(%d)" % v


def zl(vs):
    return "[" + ";".join(z(v) for v in vs) + "]"


def oz(tok):
    return "None" if tok == "P" else "(Some %s)" % z(int(tok))


def form_term(c):
    f = c["form"]
    if f in ("range", "incl"):
        return "(%s %s %s)" % (FORMS[f], z(c["s"]), z(c["e"]))
    if f in ("to", "toincl"):
        return "(%s %s)" % (FORMS[f], z(c["e"]))
    return "FFull"


def ty_term(c):
    sg, w = TYPES[c["ty"]]
    return "%s %d" % ("true" if sg else "false", w)


def fbits(x):
    return struct.unpack("<Q", struct.pack("<d", x))[0]


# ----------------------------------------------------------------------------- protocol
def harness_line(c):
    k = c["k"]
    if k == "int":
        return "int %s %s %d %d %d %s" % (c["ty"], c["form"], c.get("s", 0), c.get("e", 0), len(c["raws"]),
                                          " ".join(str(r) for r in c["raws"]))
    if k == "reach":
        return "reach %s %s %d %d %d" % (c["ty"], c["form"], c.get("s", 0), c.get("e", 0), c["n"])
    if k == "f64":
        return "f64 %d %d %d" % (c["s"], c["e"], c["raw"])
    if k == "raw":
        return "raw %d %d" % (c["seed"], c["n"])
    if k == "stream":
        return "stream %s %s %d %d %d %d" % (c["ty"], c["form"], c.get("s", 0), c.get("e", 0), c["seed"], c["n"])
    if k == "copy":
        return "copy %d %d %d%s" % (c["seed"], c["kk"], c["n"], (" " + c["how"]) if c.get("how") else "")
    if k == "shufs":
        return "shufs %d %s %d %s%s" % (len(c["raws"]), " ".join(str(r) for r in c["raws"]), len(c["v"]),
                                        " ".join(str(x) for x in c["v"]), (" " + c["elem"]) if c.get("elem") else "")
    if k == "mix":
        return "mix %s %d %d %s" % (c["gen"], c["seed"], len(c["ops"]), " ".join(mop_token(o) for o in c["ops"]))
    if k == "time":
        return "time"
    if k == "shufr":
        return "shufr %d %d %s%s" % (c["n"], len(c["seeds"]), " ".join(str(s) for s in c["seeds"]),
                                     (" " + c["elem"]) if c.get("elem") else "")
    raise ValueError(k)


def mop_token(o):
    kind = o["o"]
    if kind == "d":
        return "d:%s:%s:%d:%d" % (o["ty"], o["form"], o.get("s", 0), o.get("e", 0))
    if kind == "f":
        return "f:%d:%d" % (o["s"], o["e"])
    if kind == "r":
        return "r"
    if kind == "k":
        return "k:%d" % o["n"]
    if kind == "s":
        return "s:%d%s" % (o["n"], (":" + o["elem"]) if o.get("elem") else "")
    if kind == "c":
        return "c:%s" % o["how"]
    raise ValueError(kind)


def mop_term(o):
    kind = o["o"]
    if kind == "d":
        return "(MDraw %s %s)" % (ty_term(o), form_term(o))
    if kind == "f":
        return "(MFloat %s %s)" % (z(o["s"]), z(o["e"]))
    if kind == "r":
        return "MRaw"
    if kind == "k":
        return "(MSkip %d%%N)" % o["n"]
    if kind == "s":
        return "(MShuf %d%%N)" % o["n"]
    if kind == "c":
        return "MCopy"
    raise ValueError(kind)


# the generators the executor can run a history on (harness/crates/c14/src/main.rs: mix_dispatch): constants (A, C) of
# LinearCongruentialGenerator64<A, C>; const/static/tls are Rng built by from_seed in a const context (fixed seeds)
RNG_A, RNG_C = 6364136223846793005, 1442695040888963407
GENS = {"rng": (RNG_A, RNG_C), "g53": (5, 3), "gc1": (RNG_A, 1), "gsm": (0xd1342543de82ef95, 0x9E3779B97F4A7C15),
        "g11": (1, 1), "g0c": (0, 12345), "gmax": ((1 << 64) - 1, (1 << 64) - 1), "gswap": (RNG_C, RNG_A),
        "geven": (RNG_A - 1, RNG_C - 1), "const": (RNG_A, RNG_C), "static": (RNG_A, RNG_C), "tls": (RNG_A, RNG_C)}
FIXED_SEED = {"const": 7, "static": 0x0123456789ABCDEF, "tls": (1 << 64) - 1 - 41}
# an observation that no model value can equal: printed by the executor as X when one of its internal consistency
# checks fails (damaged element, touched padding, a copy that is not a copy, from_time outside the clock window)
POISON = "(Some [(-1);(-1)])"


def mix_obs_term(tok):
    if tok == "P":
        return "None"
    if tok == "X":
        return POISON
    if tok == "-":
        return "(Some [])"
    return "(Some %s)" % zl(int(x) for x in tok.split(","))


def coq_term(c, obs, profile):
    k = c["k"]
    t = obs.split()
    if k == "mix":
        a, cc = GENS[c["gen"]]
        return "(CMix %s %s %s [%s] [%s])" % (z(a), z(cc), z(c["seed"]), ";".join(mop_term(o) for o in c["ops"]),
                                             ";".join(mix_obs_term(x) for x in t[1:]))
    if k == "time":
        # the seed is part of the observation: from_time() must behave as from_seed(seed) of the model
        if t[0] != "R":
            return "(CRaw 0 [(-1)])"
        return "(CRaw %s %s)" % (z(int(t[1])), zl(int(x) for x in t[2:]))
    if t[0] == "X":
        if k == "copy":
            return "(CCopy %s %d%%N [(-1)] [(-2)])" % (z(c["seed"]), c["kk"])
        if k == "shufs":
            return "(CShufS %s %s (Some %s))" % (zl(c["raws"]), zl(c["v"]), zl(list(c["v"]) + [424242]))
        if k == "shufr":
            # a damaged / duplicated / dropped element: no rearrangement of 0..n, no model value
            return "(%s %d%%N [(%s,%s)])" % ("CShufAll" if c.get("all") else "CShufR", c["n"], z((c["seeds"] or [0])[0]),
                                             zl(list(range(c["n"])) + [424242]))
    if k == "int":
        pairs = ";".join("(%s,%s)" % (z(r), oz(o)) for r, o in zip(c["raws"], t[1:]))
        return "(CInt %s %s [%s])" % (ty_term(c), form_term(c), pairs)
    if k == "reach":
        return "(CReach %s %s [%s])" % (ty_term(c), form_term(c), ";".join(oz(o) for o in t[1:]))
    if k == "f64":
        return "(CFloat %s %s %s %s)" % (z(c["s"]), z(c["e"]), z(c["raw"]), "None" if t[0] == "P" else "(Some %s)" % z(int(t[1])))
    if k == "raw":
        return "(CRaw %s %s)" % (z(c["seed"]), zl(int(x) for x in t[1:]))
    if k == "stream":
        r = "None" if t[0] == "P" else "(Some %s)" % zl(int(x) for x in t[1:])
        return "(CStream %s %s %s %d%%N %s)" % (ty_term(c), form_term(c), z(c["seed"]), c["n"], r)
    if k == "copy":
        vals = [int(x) for x in t[1:]]
        n = c["n"]
        return "(CCopy %s %d%%N %s %s)" % (z(c["seed"]), c["kk"], zl(vals[:n]), zl(vals[n:]))
    if k == "shufs":
        r = "None" if t[0] == "P" else "(Some %s)" % zl(int(x) for x in t[1:])
        return "(CShufS %s %s %s)" % (zl(c["raws"]), zl(c["v"]), r)
    if k == "shufr":
        vals = [int(x) for x in t[1:]]
        n = c["n"]
        pairs = ";".join("(%s,%s)" % (z(s), zl(vals[i * n:(i + 1) * n])) for i, s in enumerate(c["seeds"]))
        return "(%s %d%%N [%s])" % ("CShufAll" if c.get("all") else "CShufR", n, pairs)
    raise ValueError(k)


def form_len(c):
    """number of values of the (sampled) range, <= 0 if empty"""
    f, ty = c["form"], c["ty"]
    if f == "range":
        return c["e"] - c["s"]
    if f == "incl":
        return c["e"] - c["s"] + 1
    if f == "to":
        return c["e"]
    if f == "toincl":
        return c["e"] + 1
    return tmax(ty) - tmin(ty) + 1


def nontrivial(c, obs):
    k = c["k"]
    if k == "int":
        n = form_len(c)
        return n >= 2 and any(r >= n for r in c["raws"])
    if k == "reach":
        return c["n"] >= 2
    if k == "f64":
        return obs != "P"
    if k in ("raw", "stream", "copy"):
        return c["n"] >= 2
    if k == "shufs":
        return len(c["v"]) >= 2
    if k == "mix":
        return len(c["ops"]) >= 2
    if k == "time":
        return obs.startswith("R")
    return c["n"] >= 2


def classify(c, obs):
    k = c["k"]
    if k == "mix":
        kinds = "".join(sorted({o["o"] for o in c["ops"]}))
        return "mix/%s/%s/%s" % (c["gen"], kinds, "panic" if obs.endswith("P") else "ok")
    if k == "time":
        return "time"
    if k == "copy" and c.get("how"):
        return "copy/" + c["how"]
    if k == "raw":
        return "raw/long" if c["n"] > 128 else "raw"
    if k in ("int", "reach", "stream"):
        n = form_len(c)
        cls = "empty" if n <= 0 else ("len1" if n == 1 else ("full" if n == (1 << TYPES[c["ty"]][1]) else
                                                             ("pow2" if n & (n - 1) == 0 else "other")))
        return "%s/%s/%s/%s" % (k, c["ty"], c["form"], cls)
    if k == "f64":
        return "f64/" + ("panic" if obs == "P" else "value")
    if k == "shufs":
        return "shufs/len%d/%s%s" % (len(c["v"]), "panic" if obs == "P" else "ok",
                                     ("/" + c["elem"].split()[0]) if c.get("elem") else "")
    if k == "shufr":
        return "shufr/len%d%s%s" % (c["n"], "/all-orders" if c.get("all") else "", ("/" + c["elem"]) if c.get("elem") else "")
    return k


# ----------------------------------------------------------------------------- generator
def adversarial_raws(rng, n, count):
    """raws aimed at the remainder by n (n = range length, may be <= 0 for empty ranges)"""
    base = [0, M64, 1 << 53, (1 << 53) + 1, (1 << 53) - 1, 1 << 63, (1 << 63) - 1, (1 << 63) + 1, 1 << 32, M64 - 1]
    out = []
    if n >= 1:
        last = (M64 // n) * n            # last multiple of n that fits
        cand = [n - 1, n, n + 1, last - 1, last, last + 1]
        for _ in range(3):
            kk = rng.range(1, max(1, M64 // n))
            cand += [kk * n - 1, kk * n, kk * n + 1]
        cand = [x for x in cand if 0 <= x <= M64]
        while len(out) < (count * 2) // 3 and cand:
            out.append(cand.pop(rng.below(len(cand))))
    while len(out) < count:
        out.append(rng.choice(base) if rng.chance(1, 2) else rng.next())
    return out


def int_case(rng, ty, form, s, e, count):
    c = {"k": "int", "ty": ty, "form": form, "s": s, "e": e}
    n = form_len(c)
    c["raws"] = adversarial_raws(rng, n, count if n > 0 else 1)
    return c


def gen_8bit(rng, tier, cases):
    for ty in ("i8", "u8"):
        lo, hi = tmin(ty), tmax(ty)
        if tier == "thorough":
            pairs = [(s, e) for s in range(lo, hi + 1) for e in range(lo, hi + 1)]
            count = 6
        else:
            pts = sorted({lo, lo + 1, lo + 2, -1 if lo < 0 else 1, 0 if lo < 0 else 2, 1 if lo < 0 else 127, 128 + lo,
                          hi - 2, hi - 1, hi, rng.range(lo, hi), rng.range(lo, hi)})
            pairs = [(s, e) for s in pts for e in pts]
            for _ in range(260):
                s = rng.range(lo, hi)
                e = rng.range(s, hi) if rng.chance(9, 10) else rng.range(lo, hi)
                pairs.append((s, e))
            count = 4
        for (s, e) in pairs:
            for form in ("range", "incl"):
                cases.append(int_case(rng, ty, form, s, e, count))
        for e in range(lo, hi + 1):
            if tier == "thorough" or e in (lo, -1, 0, 1, 2, 3, hi - 1, hi) or rng.chance(1, 8):
                for form in ("to", "toincl"):
                    cases.append(int_case(rng, ty, form, 0, e, count))
        cases.append(int_case(rng, ty, "full", 0, 0, 12))
        # reachability sweeps: every value of a small range is produced by raw = value - start
        sweeps = [("range", lo, hi), ("incl", lo, hi), ("incl", lo, hi - 1), ("incl", lo + 1, hi), ("full", 0, 0),
                  ("to", 0, hi), ("toincl", 0, hi), ("to", 0, 1), ("toincl", 0, 0), ("range", lo, lo + 1)]
        for _ in range(6 if tier == "quick" else 60):
            s = rng.range(lo, hi - 1)
            e = rng.range(s, min(hi, s + rng.choice([1, 2, 3, 7, 16, 40, 255])))
            sweeps.append((rng.choice(["range", "incl"]), s, e))
            sweeps.append((rng.choice(["to", "toincl"]), 0, rng.range(1, hi)))
        for form, s, e in sweeps:
            c = {"k": "reach", "ty": ty, "form": form, "s": s, "e": e}
            c["n"] = max(1, form_len(c))
            cases.append(c)


def gen_wide(rng, tier, cases):
    reps = 1 if tier == "quick" else 6
    for ty in ("i16", "u16", "i32", "u32", "i64", "u64", "isize", "usize"):
        sg, w = TYPES[ty]
        lo, hi = tmin(ty), tmax(ty)
        lens = {1, 2, 3, (1 << w) - 1, (1 << w) - 2, 1 << (w - 1), (1 << (w - 1)) - 1, (1 << (w - 1)) + 1, 1 << w}
        for _ in range(2 * reps):
            k = rng.range(1, w - 1)
            lens |= {1 << k, (1 << k) - 1, (1 << k) + 1}
            lens.add(rng.range(1, 1 << w))
        for n in sorted(lens):
            starts = {lo, lo + 1, hi - n + 1, hi - n, -1, 0, 1, -n, -(n // 2), rng.range(lo, hi)}
            for s in sorted(starts):
                if s < lo or s > hi:
                    continue
                for form in ("range", "incl"):
                    e = s + n if form == "range" else s + n - 1
                    if e < lo or e > hi:
                        continue
                    cases.append(int_case(rng, ty, form, s, e, 6))
            if 0 < n <= hi:
                cases.append(int_case(rng, ty, "to", 0, n, 5))
            if 0 < n <= hi + 1:
                cases.append(int_case(rng, ty, "toincl", 0, n - 1, 5))
        cases.append(int_case(rng, ty, "full", 0, 0, 12))
        # empty and reversed ranges, negative ..b
        for (s, e) in [(0, 0), (hi, hi), (lo, lo), (hi, lo), (1, 0), (hi, hi - 1), (rng.range(lo, hi), lo)]:
            cases.append(int_case(rng, ty, "range", s, e, 1))
            if s > e:
                cases.append(int_case(rng, ty, "incl", s, e, 1))
        for e in (lo, -1 if sg else 0, 0):
            cases.append(int_case(rng, ty, "to", 0, e, 1))
            cases.append(int_case(rng, ty, "toincl", 0, e, 2))
        for _ in range(20 * reps):
            s = rng.range(lo, hi)
            e = rng.range(lo, hi)
            cases.append(int_case(rng, ty, rng.choice(["range", "incl"]), min(s, e), max(s, e), 4))
        for (form, s, e) in [("range", lo, lo + 5), ("incl", hi - 6, hi), ("incl", lo, lo + 3), ("to", 0, 9), ("toincl", 0, 9),
                             ("range", -3 if sg else 0, 4)]:
            c = {"k": "reach", "ty": ty, "form": form, "s": s, "e": e}
            c["n"] = max(1, form_len(c))
            cases.append(c)


F_SPECIAL = [0.0, -0.0, 1.0, -1.0, 0.5, 2.0, 10.0, 15.0, -10.0, -15.0, 1e16, 1e16 + 2, 1e308, -1e308, 1.7976931348623157e308,
             -1.7976931348623157e308, 5e-324, -5e-324, 1e-323, 2.2250738585072014e-308, 2.225073858507201e-308, 1e-300,
             3.0, 1e300, 0.1, 0.3, 123456.789, -1e-5]
F_RAWS = [0, M64, M64 - 1000, M64 - 2047, M64 - 2048, 2047, 2048, (1 << 53) - 1, 1 << 53, (1 << 53) + 1, 1 << 63,
          (1 << 63) - 1024, (1 << 63) + 1024, 1 << 11, (1 << 64) - (1 << 11), (1 << 64) - (1 << 12), 1 << 62]
INF = 0x7FF0000000000000
NINF = 0xFFF0000000000000
NAN = 0x7FF8000000000000


def f_order_key(b):
    """total order key of a non-NaN binary64 bit pattern"""
    return -(b & ((1 << 63) - 1)) if b >> 63 else (b & ((1 << 63) - 1))


def from_key(kk):
    return kk if kk >= 0 else ((1 << 63) | (-kk))


def gen_float(rng, tier, cases):
    pairs = [(0.0, 1.0), (10.0, 15.0), (-10.0, 15.0), (-15.0, -10.0), (-1e308, 1e308), (1e16, 1e16 + 2), (0.0, 5e-324),
             (5e-324, 1e-323), (-5e-324, 5e-324), (-1.7976931348623157e308, 1.7976931348623157e308), (-0.0, 1.0), (-1.0, 0.0),
             (-1.0, -0.0), (1.0, 1.0000000000000002), (0.1, 0.3), (2.225073858507201e-308, 2.2250738585072014e-308),
             (1e300, 1.0000000000000002e300), (-1e-300, 1e300), (3.0, 1e16), (0.0, 2.2250738585072014e-308)]
    bp = [(fbits(a), fbits(b)) for a, b in pairs]
    bp += [(NINF, INF), (NINF, fbits(0.0)), (fbits(0.0), INF), (fbits(1.7976931348623157e308), INF), (NINF, fbits(-1e308)),
           # panics: empty, reversed, NaN
           (fbits(0.0), fbits(0.0)), (fbits(-0.0), fbits(0.0)), (fbits(0.0), fbits(-0.0)), (fbits(1.0), fbits(0.0)),
           (NAN, fbits(1.0)), (fbits(0.0), NAN), (NAN, NAN), (INF, INF), (INF, NINF)]
    n_rand = 60 if tier == "quick" else 1500
    for _ in range(n_rand):
        kind = rng.below(5)
        if kind == 0:      # two special values
            a, b = fbits(rng.choice(F_SPECIAL)), fbits(rng.choice(F_SPECIAL))
        elif kind == 1:    # adjacent or nearly adjacent floats
            a = rng.next() & M64
            if (a >> 52) & 0x7FF == 0x7FF:
                a &= ~(1 << 62)
            kk = f_order_key(a)
            b = from_key(kk + rng.choice([1, 2, 3, 1000]))
            if (b >> 52) & 0x7FF == 0x7FF:
                b = INF if not b >> 63 else NINF
        elif kind == 2:    # random bit patterns
            a, b = rng.next(), rng.next()
            if (a >> 52) & 0x7FF == 0x7FF and rng.chance(9, 10):
                a &= ~(1 << 62)
            if (b >> 52) & 0x7FF == 0x7FF and rng.chance(9, 10):
                b &= ~(1 << 62)
        elif kind == 3:    # same exponent, small integers
            a, b = fbits(float(rng.range(-50, 50))), fbits(float(rng.range(-50, 50)))
        else:              # subnormal / tiny spans
            a = rng.below(1 << 53) | (rng.below(2) << 63)
            b = rng.below(1 << 53) | (rng.below(2) << 63)
        nan_a = (a >> 52) & 0x7FF == 0x7FF and a & ((1 << 52) - 1)
        nan_b = (b >> 52) & 0x7FF == 0x7FF and b & ((1 << 52) - 1)
        if not nan_a and not nan_b and f_order_key(a) > f_order_key(b) and rng.chance(9, 10):
            a, b = b, a
        bp.append((a, b))
    for (a, b) in bp:
        raws = list(F_RAWS) if (tier == "thorough" or rng.chance(1, 3)) else [0, M64, M64 - 1000, rng.choice(F_RAWS)]
        raws += [rng.next(), rng.next() | (M64 << 40) & M64]
        for r in raws:
            cases.append({"k": "f64", "s": a, "e": b, "raw": r & M64})


def gen_streams(rng, tier, cases):
    seeds = [0, 1, 42, M64, 1 << 63, 1 << 32, rng.next(), rng.next()]
    if tier == "thorough":
        seeds += [rng.next() for _ in range(40)]
    for s in seeds:
        cases.append({"k": "raw", "seed": s, "n": 16})
        cases.append({"k": "copy", "seed": s, "kk": rng.below(5), "n": 6})
    # seeds that differ only in high / low bits (from_seed must use the whole seed)
    for b in (0, 1, 7, 31, 32, 33, 62, 63):
        cases.append({"k": "raw", "seed": 1 << b, "n": 3})
        cases.append({"k": "raw", "seed": (1 << b) ^ 0x123456789ABCDEF, "n": 3})
    small = [("u32", "range", 0, 4), ("u8", "range", 0, 2), ("i8", "incl", -1, 1), ("u64", "range", 0, 3), ("usize", "toincl", 0, 5),
             ("i64", "range", -4, 4), ("u16", "to", 0, 8), ("i32", "incl", 0, 15), ("isize", "range", -1, 1), ("u8", "incl", 254, 255)]
    wide = [("i16", "full", 0, 0), ("u64", "full", 0, 0), ("i64", "range", tmin("i64"), tmax("i64")), ("u32", "range", 42, 420),
            ("i8", "incl", -128, 127), ("u8", "range", 0, 255), ("i64", "range", -420, -42), ("u64", "range", 10, M64 - 10)]
    for (ty, form, s, e) in small:
        for seed in ([42, 0, rng.next()] if tier == "quick" else seeds[:12]):
            cases.append({"k": "stream", "ty": ty, "form": form, "s": s, "e": e, "seed": seed, "n": rng.choice([64, 96, 128])})
    for (ty, form, s, e) in wide:
        cases.append({"k": "stream", "ty": ty, "form": form, "s": s, "e": e, "seed": rng.choice(seeds), "n": rng.range(1, 40)})
    cases.append({"k": "stream", "ty": "u8", "form": "range", "s": 3, "e": 3, "seed": 1, "n": 2})       # empty: panics
    cases.append({"k": "stream", "ty": "i8", "form": "to", "s": 0, "e": -1, "seed": 1, "n": 2})


def gen_shuffles(rng, tier, cases):
    n_s = 150 if tier == "quick" else 3000
    for _ in range(n_s):
        m = rng.choice([0, 1, 2, 2, 3, 3, 4, 4, 5, 6, 7, 8, 12])
        if rng.chance(1, 2):
            v = list(range(m))
        elif rng.chance(1, 2):
            v = [rng.range(-3, 3) for _ in range(m)]        # duplicates
        else:
            v = [rng.range(-(1 << 62), 1 << 62) for _ in range(m)]
        k = max(0, m - 1)
        if rng.chance(1, 10):
            k = rng.range(0, m + 2)                          # too short (panics) or longer than needed
        raws = []
        for i in range(k):
            kind = rng.below(6)
            if kind == 0:
                raws.append(rng.choice([0, M64, M64 - 1, 1 << 63, 1 << 32]))
            elif kind == 1:
                raws.append(i + 1)                           # next(0..=i+1) with raw = i+1 : the element stays
            elif kind == 2:
                raws.append((i + 2) * rng.range(0, 1000))    # multiple of the length: index 0
            elif kind == 3:
                raws.append(rng.range(0, i + 1))
            else:
                raws.append(rng.next())
        c = {"k": "shufs", "raws": raws, "v": v}
        if rng.chance(2, 5):
            # the same shuffle on a slice of another element kind (ELEMS) / the middle of a longer vector
            c["elem"] = pick_elem(rng)
        cases.append(c)
    # every script of index choices for short slices: each of the n! scripts must give a different order
    for m in (2, 3, 4):
        scripts = [[]]
        for i in range(1, m):
            scripts = [sc + [j] for sc in scripts for j in range(i + 1)]
        for i, sc in enumerate(scripts):
            cases.append({"k": "shufs", "raws": sc, "v": list(range(m))})
            if m >= 3:
                # ... and on the other element kinds (j == i, the swap of an element with itself, occurs in 1/2 .. 1/4 of
                # them): every script on every element kind above 64 bytes (length 3; length 4 for CORE_ELEMS, all in
                # the thorough tier), the small kinds in rotation
                v = [10 * x - 7 for x in range(m)]
                e = (SMALL_ELEMS + ["sub 2 1"])[(i + 7 * m) % (len(SMALL_ELEMS) + 1)]
                cases.append({"k": "shufs", "raws": sc, "v": v, "elem": e})
                for e in (BIG_ELEMS if m == 3 or tier == "thorough" else CORE_ELEMS):
                    cases.append({"k": "shufs", "raws": sc, "v": v, "elem": e})
    for m in range(0, 9):
        seeds = [0, 1, 42, M64] + [rng.next() for _ in range(8 if tier == "quick" else 60)]
        cases.append({"k": "shufr", "n": m, "seeds": seeds})
        for _ in range(2 if tier == "quick" else 8):
            cases.append({"k": "shufr", "n": m, "seeds": seeds[:6] + [rng.next()], "elem": pick_elem(rng, sub=False)})
    # seed sets that must reach every order
    cases.append({"k": "shufr", "n": 3, "seeds": list(range(40)), "all": True})
    cases.append({"k": "shufr", "n": 4, "seeds": list(range(120)), "all": True})
    base = rng.next() >> 1
    cases.append({"k": "shufr", "n": 4, "seeds": [base + i for i in range(400)], "all": True})
    if tier == "thorough":
        cases.append({"k": "shufr", "n": 5, "seeds": list(range(2500)), "all": True})
    # ... whatever the slice holds: the same seed lists on every element kind (the line printed is the one above)
    for e in BIG_ELEMS + SMALL_ELEMS:
        cases.append({"k": "shufr", "n": 3, "seeds": list(range(40)), "all": True, "elem": e})
        if e in BIG_ELEMS or tier == "thorough":
            cases.append({"k": "shufr", "n": 4, "seeds": list(range(120)), "all": True, "elem": e})
    for e in (["b80", "bigdrop"] if tier == "quick" else BIG_ELEMS):
        cases.append({"k": "shufr", "n": 5, "seeds": list(range(2500)), "all": True, "elem": e})


# ----- histories on one generator (Corr.CMix)
F_PAIRS = [(0.0, 1.0), (10.0, 15.0), (-10.0, 15.0), (-15.0, -10.0), (-1e308, 1e308), (1e16, 1e16 + 2), (0.0, 5e-324),
           (5e-324, 1e-323), (-5e-324, 5e-324), (-1.7976931348623157e308, 1.7976931348623157e308), (-0.0, 1.0), (-1.0, 0.0),
           (-1.0, -0.0), (1.0, 1.0000000000000002), (0.1, 0.3), (2.225073858507201e-308, 2.2250738585072014e-308),
           (1e300, 1.0000000000000002e300), (-1e-300, 1e300), (3.0, 1e16), (0.0, 2.2250738585072014e-308)]
SMALL_DRAWS = [("u32", "range", 0, 4), ("u8", "range", 0, 2), ("i8", "incl", -1, 1), ("u64", "range", 0, 3),
               ("usize", "toincl", 0, 5), ("i64", "range", -4, 4), ("u16", "to", 0, 8), ("i32", "incl", 0, 15),
               ("isize", "range", -1, 1), ("u8", "incl", 254, 255), ("i16", "range", -300, 300), ("u8", "toincl", 0, 0)]
WIDE_DRAWS = [("i16", "full", 0, 0), ("u64", "full", 0, 0), ("i64", "range", -(1 << 63), (1 << 63) - 1), ("u32", "range", 42, 420),
              ("i8", "incl", -128, 127), ("u8", "range", 0, 255), ("i64", "incl", -(1 << 63), (1 << 63) - 1),
              ("u64", "range", 10, M64 - 10), ("i32", "full", 0, 0), ("usize", "incl", 0, M64), ("isize", "to", 0, (1 << 63) - 1)]
HOWS = ["copy", "clone", "clonefrom", "cell", "byval"]
OTHER_GENS = ["g53", "gc1", "gsm", "g11", "g0c", "gmax", "gswap", "geven"]


def d_op(spec):
    ty, form, s0, e0 = spec
    return {"o": "d", "ty": ty, "form": form, "s": s0, "e": e0}


def f_op(rng, pair=None):
    a, b = pair if pair else rng.choice(F_PAIRS)
    return {"o": "f", "s": fbits(a), "e": fbits(b)}


def random_op(rng):
    kind = rng.below(12)
    if kind < 3:
        return d_op(rng.choice(SMALL_DRAWS))
    if kind < 5:
        return d_op(rng.choice(WIDE_DRAWS))
    if kind < 7:
        return f_op(rng)
    if kind == 7:
        return {"o": "r"}
    if kind == 8:
        return {"o": "k", "n": rng.choice([0, 1, 2, 7, 63, 64, 255, 256, 1000])}
    if kind < 11:
        o = {"o": "s", "n": rng.choice([0, 1, 2, 3, 3, 4, 5, 8, 13, 20])}
        if rng.chance(1, 3):
            o["elem"] = pick_elem(rng, sub=False)      # the slice holds another element kind: the same observation
        return o
    return {"o": "c", "how": rng.choice(HOWS)}


def mix(gen, seed, ops):
    return {"k": "mix", "gen": gen, "seed": FIXED_SEED.get(gen, seed), "ops": ops}


def gen_mix(rng, tier, cases):
    q = tier == "quick"
    seeds = [0, 42, rng.next()] if q else [0, 1, 42, M64, 1 << 63] + [rng.next() for _ in range(7)]
    r2 = [{"o": "r"}, {"o": "r"}]
    # consecutive shuffles on one generator, then raws: the state a shuffle leaves behind (number of raws consumed,
    # write-back) is observed; the same length twice in a row must give two different orders
    lens = [[5, 5], [8, 8, 8], [12, 12], [0, 1, 2, 3], [3, 5, 8, 5, 3], [16, 16, 10, 10], [2, 2, 2, 2], [1, 12, 0, 12], [64, 64]]
    if not q:
        lens += [[rng.choice([0, 1, 2, 3, 5, 8, 10, 12, 31]) for _ in range(rng.range(2, 6))] for _ in range(150)]
        lens += [[257, 257], [300, 12, 300]]
    for i, ms in enumerate(lens):
        for seed in (seeds[:2] if q else seeds[:4] if len(ms) < 6 and max(ms) < 100 else seeds[:1]):
            cases.append(mix("rng", seed, [{"o": "s", "n": m} for m in ms] + r2))
        cases.append(mix(OTHER_GENS[i % len(OTHER_GENS)], rng.next(), [{"o": "s", "n": m} for m in ms[:3]] + r2))
        # the same on slices of big elements (alternating with plain ones): the state left behind must be the same
        if max(ms) <= 64:
            e1, e2 = BIG_ELEMS[i % len(BIG_ELEMS)], CORE_ELEMS[i % len(CORE_ELEMS)]
            cases.append(mix("rng", seeds[i % len(seeds)], [{"o": "s", "n": m, "elem": e1} for m in ms] + r2))
            cases.append(mix("rng", rng.next(), [dict({"o": "s", "n": m}, **({"elem": e2} if j % 2 == 0 else {}))
                                                 for j, m in enumerate(ms)] + r2))
    # degenerate constants on purpose (constant stream, period 2, counter): consecutive shuffles may repeat there
    for gen, ms in (("g0c", [12, 12]), ("gmax", [31, 31]), ("g11", [10, 10, 10])):
        cases.append(mix(gen, rng.next(), [{"o": "s", "n": m} for m in ms] + r2))
    # f64 ranges drawn THROUGH the generator (rng.next(10.0..15.0)), 8 draws per history
    for i, pair in enumerate(F_PAIRS):
        for seed in ([seeds[i % 3]] if q else seeds[:3]):
            cases.append(mix("rng", seed, [f_op(rng, pair) for _ in range(8)]))
    cases.append(mix("rng", 1, [f_op(rng, (0.0, 1.0)), f_op(rng, (1.0, 1.0)), {"o": "r"}]))        # empty: panics, ends
    cases.append(mix("rng", 1, [f_op(rng, (0.0, 1.0)), {"o": "f", "s": NAN, "e": fbits(1.0)}]))
    cases.append(mix("gsm", 5, [f_op(rng) for _ in range(6)]))
    for _ in range(0 if q else 200):
        a, b = sorted([rng.choice(F_SPECIAL), rng.choice(F_SPECIAL)])
        cases.append(mix("rng", rng.next(), [f_op(rng, (a, b)) if rng.chance(1, 2) else f_op(rng) for _ in range(6)]))
    # mixed histories: different types, forms and operations interleaved on one generator
    for _ in range(50 if q else 1000):
        ops = [random_op(rng) for _ in range(rng.range(6, 20))]
        gen = "rng" if rng.chance(7, 10) else rng.choice(OTHER_GENS)
        cases.append(mix(gen, rng.choice(seeds) if rng.chance(1, 2) else rng.next(), ops))
    cases.append(mix("rng", 3, [d_op(SMALL_DRAWS[0]), {"o": "d", "ty": "u8", "form": "range", "s": 3, "e": 3}, {"o": "r"}]))   # panics
    # the const-generic generator with other constants: raws, a stream, a shuffle
    for gen in OTHER_GENS:
        for seed in ([0, rng.next()] if q else [0, 1, M64, 1 << 63] + [rng.next() for _ in range(4)]):
            cases.append(mix(gen, seed, [{"o": "r"}] * 8))
            cases.append(mix(gen, seed, [d_op(rng.choice(SMALL_DRAWS)) for _ in range(6)] + [{"o": "s", "n": 6}] + r2))
    # long runs of one generator: the outputs after n dropped raws (state jump in the model)
    skips = [63, 64, 65, 255, 256, 257, 1023, 1024, 4095, 4096, 65535, 65536, 100000, 1 << 20]
    if not q:
        skips += [(1 << 24) + 3, (1 << 16) + 1, 624, 625, 1 << 22]
    for n in skips:
        for seed in ([rng.choice(seeds)] if q else seeds[:4]):
            cases.append(mix("rng", seed, [{"o": "k", "n": n}] + r2 + [d_op(SMALL_DRAWS[0])]))
    cases.append(mix("rng", 42, [{"o": "k", "n": n} for n in (255, 0, 255, 511, 1023, 2047)] + r2))       # boundaries 256, 257, 513, ...
    for gen in (OTHER_GENS[:3] if q else OTHER_GENS):
        cases.append(mix(gen, rng.next(), [{"o": "k", "n": rng.choice([256, 65536, 100000])}] + r2))
    # duplicates made in five ways after a history of draws and a shuffle
    for how in HOWS:
        for seed in (seeds[:2] if q else seeds[:6]):
            cases.append(mix("rng", seed, [d_op(rng.choice(SMALL_DRAWS)), {"o": "s", "n": rng.choice([2, 3, 5])}, {"o": "c", "how": how}]
                             + r2 + [{"o": "c", "how": rng.choice(HOWS)}, d_op(rng.choice(WIDE_DRAWS)), {"o": "r"}]))
        cases.append(mix(rng.choice(OTHER_GENS), rng.next(), [{"o": "r"}, {"o": "c", "how": how}] + r2))
    # from_seed in const / static / thread_local initialisers
    for gen in ("const", "static", "tls"):
        cases.append(mix(gen, 0, [{"o": "r"}, d_op(SMALL_DRAWS[0]), {"o": "s", "n": 4}, {"o": "c", "how": "cell"}] + r2))


def gen_long(rng, tier, cases):
    """long histories of ONE generator / long slices, through the existing case types"""
    q = tier == "quick"
    # raw streams across 64 / 256 / 1024 / 4096 outputs
    for n, seed in ([(257, 42), (1030, rng.next())] if q else
                    [(n, sd) for n in (255, 256, 257, 1000) for sd in (0, 42, rng.next())] + [(4097, 42), (4097, rng.next())]):
        cases.append({"k": "raw", "seed": seed, "n": n})
    # copies after long runs; the five ways of duplicating
    for i, how in enumerate(HOWS):
        cases.append({"k": "copy", "seed": rng.next(), "kk": rng.below(5), "n": 6, "how": how})
        cases.append({"k": "copy", "seed": [0, 42, M64][i % 3], "kk": [255, 256, 257, 300, 64][i], "n": 8, "how": how})
    if q:
        cases.append({"k": "copy", "seed": 42, "kk": 1000, "n": 300})
    else:
        for seed, n in ((42, 5000), (rng.next(), 1000)):
            cases.append({"k": "copy", "seed": seed, "kk": 1000, "n": n})             # the run `extra` only compared a == b on
        for kk in (1023, 1024, 1025, 4096):
            cases.append({"k": "copy", "seed": rng.next(), "kk": kk, "n": 16, "how": rng.choice(HOWS)})
    # one long stream of a small range (aperiodicity over > 1024 draws)
    for (ty, form, s0, e0) in ([("u32", "range", 0, 4)] if q else [("u32", "range", 0, 4), ("u8", "range", 0, 2), ("i8", "incl", -1, 1), ("u64", "range", 0, 3)]):
        cases.append({"k": "stream", "ty": ty, "form": form, "s": s0, "e": e0, "seed": 42 if q else rng.next(), "n": 1030})
    # long slices: real generator
    for n in ([13, 64, 65, 257, 300] if q else [13, 63, 64, 65, 255, 256, 257, 300, 1000]):
        cases.append({"k": "shufr", "n": n, "seeds": [42, rng.next()] if n < 1000 or q else [42, rng.next(), 0]})
    for n, e in ([(300, "b80"), (257, "bigdrop"), (65, "rec1024"), (64, "nest100")] if q else
                 [(n, e) for n in (63, 64, 65, 255, 256, 257, 300) for e in CORE_ELEMS] + [(1000, "b80"), (1000, "drop1024")]):
        cases.append({"k": "shufr", "n": n, "seeds": [42, rng.next()], "elem": e})
    # long slices: scripted source, raws that pick the top index / a multiple plus the top index / anything
    for m in ([257, 300] if q else [65, 256, 257, 300, 1000]):
        for kind in ((0, 1) if q else (0, 1, 2, 2)):
            raws = []
            for i in range(m - 1):
                top = i + 1                        # step i+1 draws from 0..=i+1 (i+2 values)
                if kind == 0:
                    raws.append(top - (i % 3 == 0) * min(top, 1 + i % 7))
                elif kind == 1:
                    raws.append(rng.range(0, M64 // (i + 2) - 1) * (i + 2) + top - (i % 2))
                else:
                    raws.append(rng.next())
            v = list(range(m)) if kind != 1 else [rng.range(-(1 << 62), 1 << 62) for _ in range(m)]
            cases.append({"k": "shufs", "raws": raws, "v": v})
            cases.append({"k": "shufs", "raws": raws, "v": v, "elem": CORE_ELEMS[(m + kind) % len(CORE_ELEMS)]})
    # from_time(): behaves as from_seed(now)
    for _ in range(2 if q else 5):
        cases.append({"k": "time"})


# element kinds of the executor (harness/crates/c14/src/main.rs: with_elem!); the number in a name is size_of in bytes
# for b<N> / rec<N> / nest<N> / nest3x<N> / al<N> / drop<N>, the number of u64 words for w<N>; bigdrop = 120 bytes, non-Copy,
# drops counted.  BIG: more than 64 bytes (a shuffle might treat such elements differently: indirect / position-based moves),
# CORE: the ones that get every script and every seed list.  SMALL: the neighbours at and below 64 bytes, other widths,
# alignments above 8, heap owners.  The executor reports size_of / align_of / needs_drop (op elemsize), checked in prepare().
CORE_ELEMS = ["b65", "b80", "b128", "b1024", "rec80", "w16", "nest100", "bigdrop"]
BIG_ELEMS = CORE_ELEMS + ["rec72", "rec1024", "w9", "w17", "w128", "w512", "b127", "b129", "b255", "b257", "b4097", "nest80",
                          "nest1152", "nest3x80", "nest3x125", "al128", "drop1024"]
SMALL_ELEMS = ["string", "arr5", "u8", "box", "vec", "pair", "u16", "u32", "usize", "u128", "f64", "w8", "b8", "b15", "b17",
               "b31", "b33", "b63", "b64", "rec24", "rec64", "nest64", "al64", "drop40", "drop64"]
ELEMS = SMALL_ELEMS + ["sub"] + BIG_ELEMS


def pick_elem(rng, sub=True):
    """an element kind: half of the time a big one"""
    if rng.chance(1, 2):
        return rng.choice(BIG_ELEMS)
    e = rng.choice(SMALL_ELEMS + ["sub"] if sub else SMALL_ELEMS)
    return e if e != "sub" else "sub %d %d" % (rng.choice([0, 1, 3]), rng.choice([0, 1, 2]))


def prepare(ctx):
    """the table above against the executor's own size_of"""
    for prof in PROFILES:
        for e in BIG_ELEMS + SMALL_ELEMS:
            t = ask(ctx.bins[prof], "elemsize " + e).split()
            assert len(t) == 4 and t[0] == "E", "executor does not know element kind %s: %r" % (e, t)
            size = int(t[1])
            assert (size > 64) == (e in BIG_ELEMS), "element kind %s has %d bytes (%s build)" % (e, size, prof)
            named = re.match(r"^(?:b|rec|nest|nest3x|al|drop)(\d+)$", e)
            if named:
                assert size == int(named.group(1)), "element kind %s has %d bytes (%s build)" % (e, size, prof)


def params_in_scope(c):
    """the parameter part of Corr.in_scope (the hypothesis of c14_model_check_spec_check): range bounds are values
    of the type; the other clauses (equally long copies, slice length <= 2^64) hold by construction of coq_term"""
    if c["k"] == "mix":
        return all(params_in_scope(dict(o, k="int")) for o in c["ops"] if o["o"] == "d")
    if c["k"] in ("int", "reach", "stream"):
        lo, hi = tmin(c["ty"]), tmax(c["ty"])
        if c["form"] in ("range", "incl"):
            return lo <= c["s"] <= hi and lo <= c["e"] <= hi
        if c["form"] in ("to", "toincl"):
            return lo <= c["e"] <= hi
    return True


def generate(rng, tier):
    cases = []
    gen_8bit(rng.fork("8bit"), tier, cases)
    gen_wide(rng.fork("wide"), tier, cases)
    gen_float(rng.fork("float"), tier, cases)
    gen_streams(rng.fork("streams"), tier, cases)
    gen_shuffles(rng.fork("shuffles"), tier, cases)
    gen_mix(rng.fork("mix"), tier, cases)
    gen_long(rng.fork("long"), tier, cases)
    # every generated case lies in the scope of c14_model_check_spec_check (measured in Coq on the quick tier:
    # forallb in_scope holds on all 9928 case terms of seed 1)
    assert all(params_in_scope(c) for c in cases)
    return cases


# ----------------------------------------------------------------------------- shrinking
def shrink(c):
    out = []
    k = c["k"]
    if k == "int":
        if len(c["raws"]) > 1:
            for r in c["raws"]:
                out.append(dict(c, raws=[r]))
        else:
            r = c["raws"][0]
            for r2 in {0, r // 2, r % max(1, form_len(c)) if form_len(c) > 0 else 0, r - 1 if r > 0 else 0}:
                if r2 != r:
                    out.append(dict(c, raws=[r2]))
            lo, hi = tmin(c["ty"]), tmax(c["ty"])
            for key in ("s", "e"):
                v = c.get(key, 0)
                for v2 in {0, v // 2, v - 1, v + 1}:
                    if v2 != v and lo <= v2 <= hi:
                        out.append(dict(c, **{key: v2}))
    elif k == "reach":
        if c["form"] in ("range", "incl") and c["e"] - c["s"] > 1:
            out.append(dict(c, e=c["e"] - 1, n=max(1, c["n"] - 1)))
            out.append(dict(c, s=c["s"] + 1, n=max(1, c["n"] - 1)))
        elif c["form"] in ("to", "toincl") and c["e"] > 1:
            out.append(dict(c, e=c["e"] - 1, n=max(1, c["n"] - 1)))
    elif k == "f64":
        for r2 in {0, M64, c["raw"] // 2, c["raw"] | 0x7FF}:
            if r2 != c["raw"]:
                out.append(dict(c, raw=r2))
        for (a, b) in [(fbits(0.0), fbits(1.0)), (c["s"], fbits(1.0)), (fbits(0.0), c["e"])]:
            if (a, b) != (c["s"], c["e"]):
                out.append(dict(c, s=a, e=b))
    elif k in ("raw", "stream", "copy"):
        if k == "copy" and c["kk"] > 0:
            out.append(dict(c, kk=c["kk"] // 2))
        if k == "copy" and c.get("how"):
            out.append({kk: v for kk, v in c.items() if kk != "how"})
        if c["n"] > 1 and not (k == "stream" and c["n"] == 64):
            out.append(dict(c, n=max(64, c["n"] // 2) if (k == "stream" and c["n"] > 64) else c["n"] // 2))
            out.append(dict(c, n=c["n"] - 1))
        for s2 in {0, 1, 42, c["seed"] // 2}:
            if s2 != c["seed"]:
                out.append(dict(c, seed=s2))
    elif k == "mix":
        ops = c["ops"]
        if len(ops) > 1:
            out.append(dict(c, ops=ops[:len(ops) // 2]))
            out.append(dict(c, ops=ops[len(ops) // 2:]))
            for i in range(min(len(ops), 30)):
                out.append(dict(c, ops=ops[:i] + ops[i + 1:]))
        for i, o in enumerate(ops[:30]):
            if o["o"] == "s" and o.get("elem"):
                out.append(dict(c, ops=ops[:i] + [{"o": "s", "n": o["n"]}] + ops[i + 1:]))
        for i, o in enumerate(ops[:8]):
            if o["o"] in ("k", "s") and o["n"] > 1:
                out.append(dict(c, ops=ops[:i] + [dict(o, n=o["n"] // 2)] + ops[i + 1:]))
        if c["gen"] not in FIXED_SEED:
            for s2 in {0, 1, 42} - {c["seed"]}:
                out.append(dict(c, seed=s2))
    elif k == "shufs":
        m = len(c["v"])
        if c.get("elem"):
            out.append({kk: v for kk, v in c.items() if kk != "elem"})
        if m > 0:
            out.append(dict(c, v=c["v"][:-1], raws=c["raws"][:max(0, m - 2)]))
        if c["v"] != list(range(m)):
            out.append(dict(c, v=list(range(m))))
        for i, r in enumerate(c["raws"]):
            if r > i + 1:
                out.append(dict(c, raws=c["raws"][:i] + [r % (i + 2)] + c["raws"][i + 1:]))
    elif k == "shufr":
        if c.get("elem"):
            out.append({kk: v for kk, v in c.items() if kk != "elem"})
        if c.get("all") and c["n"] > 3:
            out.append(dict(c, n=3, seeds=list(range(40))))
        if not c.get("all") and len(c["seeds"]) > 1:
            for s in c["seeds"][:20]:
                out.append(dict(c, seeds=[s]))
        if c["n"] > 0 and not c.get("all"):
            out.append(dict(c, n=c["n"] - 1))
    return out


def known_finding(case, obs, profile):
    return None


# ----------------------------------------------------------------------------- implementation-level searches
def ask(binp, line, timeout=1800):
    p = subprocess.run([binp], input=line + "\n", stdout=subprocess.PIPE, stderr=subprocess.PIPE, text=True, timeout=timeout)
    return p.stdout.strip()


def extra(ctx, known):
    """Implementation-level searches (never a proof): orders reached by shuffle and their frequencies, short periods
    of small-range streams, determinism of copies over long runs."""
    binp = ctx.bins["release"]
    nseeds = 10000 if ctx.tier == "quick" else 200000
    cov, viol = {"shuffle_orders": [], "period_search": [], "copy_runs": [], "big_shuffles": [], "position_counts": []}, []
    # slices beyond anything Coq can replay: Rng::shuffle against Fisher-Yates written in the executor over next_raw of a
    # second generator (exact comparison, both build profiles; lengths around 2^16 expose a narrowed index type)
    big = [(65537, 42, "release"), (100000, ctx.seed & M64, "release"), (65537, 1, "debug")]
    if ctx.tier != "quick":
        big += [(n, sd, prof) for n in (255, 256, 257, 65535, 65536, 65537, 100000, 1 << 20) for sd in (0, ctx.seed & M64)
                for prof in ("release", "debug") if not (prof == "debug" and n > 100000)]
    for (n, sd, prof) in big:
        line = "shufbig %d %d" % (n, sd)
        out = ask(ctx.bins[prof], line)
        t = out.split()
        ok = len(t) == 3 and t[:2] == ["B", "ok"] and int(t[2]) <= 12          # fixed points ~ Poisson(1)
        cov["big_shuffles"].append({"len": n, "seed": sd, "profile": prof, "result": out})
        if not ok:
            viol.append({"name": "shufbig-%d-%d" % (n, sd % 1000), "kind": "counterexample",
                         "payload": {"what": "implementation-level search: Rng::from_seed(%d).shuffle of [0..%d) differs from "
                                             "Fisher-Yates (for i in 1..n: swap(i, next_raw %% (i+1))) over the same raw stream "
                                             "(B diff <first differing index>), leaves the generator in another state (B state), "
                                             "or has implausibly many fixed points (B ok <count>); %s build" % (sd, n, prof),
                                     "executor_line": line, "executor_output": out}})
    # element x position counts of a 64-slice over many seeds (fairness beyond the lengths whose orders can be enumerated)
    for (n, ns) in ([(64, 20000)] if ctx.tier == "quick" else [(64, 100000), (16, 100000), (257, 50000)]):
        for seed0 in (0, (ctx.seed * 0x9E3779B97F4A7C15) & M64):
            line = "poschi %d %d %d" % (n, ns, seed0)
            out = ask(binp, line)
            t = out.split()
            mean, sd_ = n * (n - 1.0), math.sqrt(2.0) * n          # chi2 of a uniform permutation matrix: n/(n-1) * chi2((n-1)^2)
            bound = mean + 6.0 * sd_ + 10.0
            ok = len(t) == 4 and t[0] == "C" and int(t[1]) / 1000.0 <= bound and int(t[2]) > 0
            cov["position_counts"].append({"len": n, "seeds": ns, "first_seed": seed0, "chi2": int(t[1]) / 1000.0 if len(t) == 4 else None,
                                           "chi2_bound": round(bound, 1), "min_count": int(t[2]) if len(t) == 4 else None,
                                           "max_count": int(t[3]) if len(t) == 4 else None})
            if not ok:
                viol.append({"name": "poschi-%d-%d" % (n, seed0 % 1000), "kind": "counterexample",
                             "payload": {"what": "implementation-level search: over %d seeds the counts of (position, element) after "
                                                 "shuffling [0..%d) are not near-uniform (output: C chi2*1000 min max; bound %.1f)"
                                                 % (ns, n, bound),
                                         "executor_line": line, "executor_output": out}})
    # the order statistics once on the debug build as well (the other searches below use the release build)
    for (n, ns_d) in ((4, 3000), (5, 6000)):
        line = "orders %d %d 0" % (n, ns_d)
        out = ask(ctx.bins["debug"], line)
        t = out.split()
        ok = len(t) == 5 and t[0] == "O" and int(t[1]) == math.factorial(n)
        cov["shuffle_orders"].append({"len": n, "seeds": ns_d, "first_seed": 0, "profile": "debug", "orders_reached": int(t[1]) if len(t) == 5 else None,
                                      "of": math.factorial(n)})
        if not ok:
            viol.append({"name": "orders-debug-%d" % n, "kind": "counterexample",
                         "payload": {"what": "implementation-level search (debug build): shuffling [0..%d) over %d seeds does not "
                                             "reach all orders" % (n, ns_d), "executor_line": line, "executor_output": out}})
    # the same count on slices of other element kinds (every kind above 64 bytes, the small ones in rotation), both builds:
    # every order of a 3/4/5-slice is reached and the frequencies are near-equal whatever the slice holds
    kinds = BIG_ELEMS + ([SMALL_ELEMS[(ctx.seed + i) % len(SMALL_ELEMS)] for i in range(4)] if ctx.tier == "quick" else SMALL_ELEMS)
    for e in kinds:
        for (n, ns_e) in ((3, 1200), (4, 2400), (5, 6000)):
            for prof in ("release", "debug"):
                if prof == "debug" and ctx.tier == "quick" and (n != 4 or e not in CORE_ELEMS):
                    continue
                seed0 = 0 if prof == "debug" else (ctx.seed * 0x9E3779B97F4A7C15 + n) & M64
                line = "orders %d %d %d %s" % (n, ns_e, seed0, e)
                out = ask(ctx.bins[prof], line)
                t = out.split()
                f = math.factorial(n)
                bound = (f - 1) + 6.0 * math.sqrt(2.0 * (f - 1)) + 10.0
                ok = len(t) == 5 and t[0] == "O" and t[1] == str(f) and int(t[2]) / 1000.0 <= bound
                cov["shuffle_orders"].append({"len": n, "seeds": ns_e, "first_seed": seed0, "profile": prof, "elements": e,
                                              "orders_reached": int(t[1]) if len(t) == 5 else None, "of": f,
                                              "chi2": int(t[2]) / 1000.0 if len(t) == 5 else None, "chi2_bound": round(bound, 1)})
                if not ok:
                    viol.append({"name": "orders-%s-%d-%s" % (e, n, prof), "kind": "counterexample",
                                 "payload": {"what": "implementation-level search (%s build): shuffling a %d-slice of tagged elements of "
                                                     "kind %s (harness/crates/c14: with_elem!) with Rng::from_seed(s) for the %d consecutive "
                                                     "seeds from %d does not reach all %d orders with near-equal frequency (output: O "
                                                     "orders_reached chi2*1000 min_count max_count; chi2 bound %.1f; O damaged <seed> = an "
                                                     "element came back damaged, duplicated or dropped)" % (prof, n, e, ns_e, seed0, f, bound),
                                             "executor_line": line, "executor_output": out}})
    for n in (4, 5, 6):
        for seed0 in (0, (ctx.seed * 0x9E3779B97F4A7C15) & M64):
            line = "orders %d %d %d" % (n, nseeds, seed0)
            out = ask(binp, line)
            t = out.split()
            f = math.factorial(n)
            df = f - 1
            bound = df + 6.0 * math.sqrt(2.0 * df) + 10.0      # ~6 sigma of a chi-square with df degrees of freedom
            ok = len(t) == 5 and t[0] == "O" and int(t[1]) == f and int(t[2]) / 1000.0 <= bound
            cov["shuffle_orders"].append({"len": n, "seeds": nseeds, "first_seed": seed0, "orders_reached": int(t[1]) if len(t) == 5 else None,
                                          "of": f, "chi2": int(t[2]) / 1000.0 if len(t) == 5 else None, "chi2_bound": round(bound, 1),
                                          "min_count": int(t[3]) if len(t) == 5 else None, "max_count": int(t[4]) if len(t) == 5 else None})
            if not ok:
                viol.append({"name": "orders-%d-%d" % (n, seed0 % 1000), "kind": "counterexample",
                             "payload": {"what": "implementation-level search: shuffling [0..%d) with Rng::from_seed(s) for the %d "
                                                 "consecutive seeds from %d does not reach all %d orders with near-equal frequency "
                                                 "(output: O orders_reached chi2*1000 min_count max_count; chi2 bound %.1f)"
                                                 % (n, nseeds, seed0, f, bound),
                                         "executor_line": line, "executor_output": out}})
    for k in (2, 3, 4, 5, 6, 7, 8, 16, 10, 256):
        for seed in (42, 0, ctx.seed & M64):
            line = "period %d %d 8192 2048" % (k, seed)
            out = ask(binp, line)
            cov["period_search"].append({"range": "0..%d" % k, "seed": seed, "draws": 8192, "shortest_period_le_2048": out})
            if out != "T 0":
                viol.append({"name": "period-%d-%d" % (k, seed % 1000), "kind": "counterexample",
                             "payload": {"what": "implementation-level search: the stream next(0..%d) of Rng::from_seed(%d) is periodic "
                                                 "with the period printed after T (8192 draws examined)" % (k, seed),
                                         "executor_line": line, "executor_output": out}})
    for seed in (42, ctx.seed & M64):
        line = "copy %d 1000 5000" % seed
        t = ask(binp, line).split()[1:]
        same = len(t) == 10000 and t[:5000] == t[5000:]
        cov["copy_runs"].append({"seed": seed, "draws_before_copy": 1000, "compared": 5000, "equal": same})
        if not same:
            viol.append({"name": "copy-%d" % (seed % 1000), "kind": "counterexample",
                         "payload": {"what": "a copied generator produced a different stream than the original", "executor_line": line}})
    # one violation line per kind of search; the further failures are listed inside its payload
    first = {}
    for v in viol:
        kind = v["name"].split("-")[0]
        if kind in first:
            first[kind]["payload"].setdefault("further_failures", []).append(v["payload"]["executor_line"])
        else:
            first[kind] = v
    viol = list(first.values())
    ctx.say("[C14] search: shuffle orders over %d seeds (len 4,5,6), big shuffles (len up to %d), position counts, period "
            "search, copies: %d violation(s)" % (nseeds, max(b[0] for b in big), len(viol)))
    return {"coverage": {"implementation_search": cov}, "violations": viol, "known": []}


MANIFEST = {
    "text": "Coq theorems (22 pinned; the integer, LCG and shuffle ones closed under the global context, the real-number "
            "float ones with Flocq's standard-library axioms) about an executable Gallina model of rlib_rand (integer "
            "ranges parametric in width and signedness with explicit wrapping, the guarded f64 range on "
            "SpecFloat(53,1024), the 64-bit LCG with its output mixing, shuffle over an arbitrary raw source): "
            "c14_range_in_bounds (every range form, every width/signedness, EVERY raw word: the draw is inside the range, "
            "MIN..=MAX included), c14_range_reachable (each value of a range is hit by an explicit raw), "
            "c14_full_range_is_truncation, c14_empty_range_panics, c14_stream_deterministic / c14_seed_injective / "
            "c14_state_step_bijective / c14_output_bijective (streams are a function of the seed; copies agree), "
            "c14_shuffle_permutation and c14_shuffle_total (any raw source: the result is a Permutation, no index leaves "
            "the slice), c14_shuffle_reaches_all (every length: every order is produced by some raw script), c14_fairness_partial (lengths <= 6: every order is "
            "produced by an explicit seed of the real generator), c14_float_in_range / "
            "c14_float_in_range_real / c14_float_unit_in_0_1 / c14_float_empty_panics (start <= x < end for every finite "
            "start < end and every raw word, in SFcompare and in R), c14_old_low_bits_periodic (the repaired defect, "
            "proved: the old output had period dividing 2^k in its low k bits), c14_generic_instance / c14_jump_is_iterated_step "
            "(Rng is the instance (lcg_A, lcg_C) of the model of the const-generic generator; the repeated-squaring state jump "
            "used for long runs equals the iterated state transition for all constants). The model is tied to the code on every "
            "run: the executor calls gen_from_u64 / next_raw / next / shuffle from /repo (debug and release builds) on "
            "boundary-directed inputs and Coq proves model = implementation and implementation |= specification on every "
            "case. c14_model_check_spec_check (axiom-free) proves that the first implies the second: for every case in "
            "scope (Corr.in_scope: valid width and range bounds, equally long copies, slice length <= 2^64; the "
            "aperiodicity test of >= 64-draw streams and the all-orders coverage of a seed list are kept as hypotheses), "
            "model_check c = true -> spec_check c = true, so range membership, panics exactly on empty ranges, "
            "reachability sweeps, start <= x < end on the decoded f64 bit patterns (the model's results are canonical "
            "binary64 values, proved on integers in ProofsValid.v), u64 raws, equal copies and permutation results reach "
            "the implementation on every sampled case by proof, not only by a second computation; the same for every observation "
            "of a history of mixed operations on one generator (draws of several types, f64 draws, raws, long dropped runs, "
            "consecutive shuffles, duplicates; any constants A, C). Shuffle is generic in the element type: the same cases run on slices of 50 element "
            "kinds (1..4097 bytes, over-aligned, nested arrays, heap owners, records with counted drops) whose tags must print the line "
            "of the i64 run, including the seed lists that must reach every order of a 3/4/5-slice. PARTIAL: near-equal frequency of permutations and aperiodicity are statistical; finite reachability is "
            "proved, the rest is measured by a search (chi-square over seeds, period detection).",
    "level_note": "Trusted: Coq kernel + vm_compute; the Rust executor and the Python case printer; theorems are about the model, "
                  "the correspondence is sampled (exhaustive over 8-bit range bounds in the thorough tier).",
    "technique": "Coq proof over Gallina model + vm_compute correspondence batches against the Rust crate",
}
