"""C17 — treaps can be built concurrently on different threads without racing (rlib/treap/src/treap_node.rs).

The theorems (coq/theories/C17) are about an interleaving model parametrised by the generator's
synchronisation DISCIPLINE.  The discipline of the current source is extracted on every run by
`extract_discipline` below and an obligation `safe <extracted discipline>` is compiled against the proved
theorems; real threads are run and their per-thread priority lists compared with the model and the spec;
a two-thread program is run under Miri.
"""
import os
import re
import subprocess
import time

import _driver

ID = "C17"
CRATE = "c17"
COQ_DIR = "C17"
PROFILES = ["debug", "release"]
CORR_IMPORT = "From RlibV Require Import C17.Model C17.Corr."
AUDIT_IMPORT = ("From Coq Require Import List NArith.\nImport ListNotations.\n"
                "From RlibV Require Import C17.Model C17.Proofs C17.Properties.")
EXPLAIN = "explain"
AXIOM_ALLOW = []
SHARD = 40
THEOREMS = [
    ("c17_threadlocal_safe", "forall (G : Type) (step : G -> G) (out : G -> N), safe step out ThreadLocal"),
    ("c17_threadlocal_solo",
     "forall (G : Type) (step : G -> G) (out : G -> N) (seed : G) (progs sched : list nat) t th, "
     "nth_error (threads (run step out ThreadLocal (init seed progs) sched)) t = Some th -> "
     "seen th = stream step out (length (seen th)) seed"),
    ("c17_atomic_rmw_safe", "forall (G : Type) (step : G -> G) (out : G -> N), safe step out AtomicRMW"),
    ("c17_atomic_rmw_no_lost_draw",
     "forall (G : Type) (step : G -> G) (out : G -> N) (seed : G) progs sched, "
     "let m := run step out AtomicRMW (init seed progs) sched in "
     "map snd (log m) = stream step out (length (log m)) seed"),
    ("c17_locked_safe", "forall (G : Type) (step : G -> G) (out : G -> N), safe step out Locked"),
    ("c17_racy_refuted_race",
     "forall (G : Type) (step : G -> G) (out : G -> N) (seed : G), "
     "race Racy (run step out Racy (init seed [1; 1]) [0]) = true"),
    ("c17_racy_refuted_duplicate",
     "let m := run N.succ (fun x => x) Racy (init 0%N [1; 3]) dup_sched in "
     "NoDup (stream N.succ (fun x => x) 4 0%N) /\\ map snd (log m) = [1; 2; 1; 2]%N /\\ "
     "map (@seen N) (threads m) = [[1]; [1; 2; 2]]%N"),
    ("c17_split_atomic_refuted_duplicate",
     "let m := run N.succ (fun x => x) SplitAtomic (init 0%N [1; 3]) dup_sched in "
     "map snd (log m) = [1; 2; 1; 2]%N /\\ map (@seen N) (threads m) = [[1]; [1; 2; 2]]%N"),
]
RULE = ("cases = (threads T in 2..16, nodes per thread K) runs of real threads started on a barrier, in debug and "
        "release; observation = per-thread priority lists, the list ONE thread draws alone, and whether each thread's "
        "treap program gave the same results as when run alone; non-trivial = T >= 2 and K >= 2")
TRUSTED = ["checks/c17.py extract_discipline: a textual classifier of rlib/treap/src/treap_node.rs "
           "(thread_local! / static mut / Atomic* with fetch_update|compare_exchange|fetch_add / Mutex)",
           "executor harness/crates/c17 (threads, barrier, recording of TreapNode::priority)",
           "Miri (cargo +nightly miri) as the data-race oracle for the Rust memory model",
           "scheduling by the OS: the explored interleavings are whatever 2-16 real threads produce"]
ASSUMPTIONS = ["undefined behaviour as such (compiler assumptions about static mut) is a runtime notion outside the model: "
               "the model speaks of enabled conflicting non-atomic accesses; Miri covers the Rust memory model on one program",
               "threads that share no treap can interfere only through the priority generator (all other state is owned)",
               "treap results as a function of priorities are the subject of C03 (sequence semantics for every priority stream)"]
MANIFEST = {
    "text": "Coq theorems (no axioms) about an interleaving model of priority draws, generic in the generator and quantified over "
            "every number of threads, every program and every schedule: a thread-local generator (the current code), an atomic "
            "read-modify-write generator and a mutex-protected generator are race free and every thread observes a sequentially explicable stream (thread-local: "
            "exactly its solo stream); the unsynchronised static and the split atomic load/store are refuted by witnesses. The "
            "discipline is extracted from the source on every run and `safe <discipline>` is re-proved from the theorems; real "
            "threads (2-16, debug+release) are compared with model and spec in Coq; a two-thread program runs under Miri. "
            "PARTIAL: undefined behaviour itself is a runtime notion; only Miri (one program) and the stress runs speak about it.",
    "level_note": "Trusted: Coq kernel + vm_compute; the textual discipline extractor; the executor; Miri; OS scheduling decides "
                  "which interleavings the correspondence explores (the theorems cover all of them for the model).",
    "technique": "Coq proof over an interleaving model + discipline extraction from source + threaded correspondence + Miri",
}

_state = {}


def strip_rust_comments(src):
    src = re.sub(r"/\*.*?\*/", " ", src, flags=re.S)
    return re.sub(r"//[^\n]*", " ", src)


def extract_discipline(repo):
    """Classify how gen_priority()'s generator is shared between threads."""
    path = os.path.join(repo, "rlib", "treap", "src", "treap_node.rs")
    src = strip_rust_comments(open(path).read())
    has_tl = "thread_local!" in src
    has_static_mut = re.search(r"\bstatic\s+mut\b", src) is not None
    has_plain_static = re.search(r"^\s*(pub\s+)?static\s+(?!mut\b)\w+\s*:", src, re.M) is not None
    has_atomic = re.search(r"\bAtomic(U64|Usize|U32|I64)\b", src) is not None
    has_rmw = re.search(r"\.(fetch_update|compare_exchange|compare_exchange_weak|fetch_add|fetch_xor|swap)\s*\(", src) is not None
    has_load_store = re.search(r"\.load\s*\(", src) is not None and re.search(r"\.store\s*\(", src) is not None
    has_mutex = re.search(r"\b(Mutex|RwLock)\b", src) is not None and re.search(r"\.(lock|write)\s*\(", src) is not None
    has_unsafe_cell = re.search(r"\b(UnsafeCell|SyncUnsafeCell)\b", src) is not None or "unsafe impl Sync" in src
    # statics declared inside thread_local! { ... } are per thread
    tl_body = " ".join(re.findall(r"thread_local!\s*\{(.*?)\n\}", src, re.S))
    statics_outside_tl = re.sub(r"thread_local!\s*\{.*?\n\}", " ", src, flags=re.S)
    shared_static = re.search(r"\bstatic\s+(mut\s+)?\w+\s*:", statics_outside_tl) is not None
    facts = dict(thread_local=has_tl, static_mut=has_static_mut, shared_static=shared_static, atomic=has_atomic,
                 rmw=has_rmw, load_store=has_load_store, mutex=has_mutex, unsafe_cell=has_unsafe_cell)
    if has_static_mut or has_unsafe_cell:
        return "Racy", facts
    if shared_static:
        if has_mutex:
            return "Locked", facts
        if has_atomic and has_rmw and not has_load_store:
            return "AtomicRMW", facts
        if has_atomic and has_load_store:
            return "SplitAtomic", facts
        return "Unknown", facts
    if has_tl and "RNG" in tl_body or (has_tl and not shared_static):
        return "ThreadLocal", facts
    return "Unknown", facts


def prepare(ctx):
    d, facts = extract_discipline(ctx.repo)
    _state["discipline"], _state["facts"] = d, facts
    ctx.say("[C17] extracted discipline: %s %s" % (d, {k: v for k, v in facts.items() if v}))


def generate(rng, tier):
    cases = []
    shapes = [(2, 2), (2, 8), (3, 5), (4, 16), (8, 8), (16, 4), (2, 64), (5, 33)]
    if tier == "thorough":
        shapes += [(t, k) for t in (2, 3, 4, 6, 8, 12, 16) for k in (1, 7, 50, 200)]
    reps = 2 if tier == "quick" else 4
    for (t, k) in shapes:
        for r in range(reps):
            cases.append({"threads": t, "nodes": k, "rep": r})
    return cases


def harness_line(c):
    return "spawn %d %d" % (c["threads"], c["nodes"])


def parse(obs):
    parts = [p.strip() for p in obs.split(";")]
    solo = [int(x) for x in parts[0].split()[1:]]
    lists = [[int(x) for x in p.split()[1:]] for p in parts[1:-1]]
    eq = parts[-1].split()[1] == "1"
    return solo, lists, eq


def nlist(xs):
    return "[" + "; ".join("%d%%N" % x for x in xs) + "]"


def coq_term(c, obs, profile):
    d = _state.get("discipline", "Unknown")
    dd = d if d != "Unknown" else "Racy"   # an unclassified discipline has no verified model: model_check is false
    if obs == "P":
        return "(CSpawn %s [] [[1%%N]] false)" % dd
    solo, lists, eq = parse(obs)
    return "(CSpawn %s %s [%s] %s)" % (dd, nlist(solo), "; ".join(nlist(l) for l in lists), "true" if eq else "false")


def nontrivial(c, obs):
    return c["threads"] >= 2 and c["nodes"] >= 2


def classify(c, obs):
    return "threads=%d" % c["threads"]


def shrink(c):
    out = []
    if c["threads"] > 2:
        out.append(dict(c, threads=c["threads"] - 1))
    if c["nodes"] > 1:
        out.append(dict(c, nodes=c["nodes"] // 2))
    return out


def acceptable(solo, lists):
    """python twin of Corr.spec_check, for the large stress runs that are too big to paste into Coq"""
    if all(l == solo[:len(l)] for l in lists):
        return True
    ptr = [0] * len(lists)
    for x in solo[:sum(len(l) for l in lists)]:
        for i, l in enumerate(lists):
            if ptr[i] < len(l) and l[ptr[i]] == x:
                ptr[i] += 1
                break
        else:
            return False
    return all(ptr[i] == len(l) for i, l in enumerate(lists))


def extra(ctx, known):
    cov, viol = {}, []
    d = _state.get("discipline", "Unknown")
    cov["extracted_discipline"] = d
    cov["extractor_facts"] = _state.get("facts")
    # 1. obligation: the theorems cover the extracted discipline
    thm = {"ThreadLocal": "c17_threadlocal_safe", "AtomicRMW": "c17_atomic_rmw_safe", "Locked": "c17_locked_safe"}.get(d)
    path = os.path.join(ctx.work, "Current.v")
    with open(path, "w") as f:
        f.write(AUDIT_IMPORT + "\n")
        f.write("(* generated by checks/c17.py from rlib/treap/src/treap_node.rs *)\n")
        f.write("Definition current_discipline : discipline := %s.\n" % (d if d != "Unknown" else "Racy"))
        f.write("Lemma current_safe : forall (G : Type) (step : G -> G) (out : G -> N), safe step out current_discipline.\n")
        f.write("Proof. exact %s. Qed.\nPrint Assumptions current_safe.\n" % (thm or "c17_threadlocal_safe"))
    rc, out = _driver.coqc(path, ctx.work)
    cov["obligation_current_safe"] = "holds" if (rc == 0 and thm) else "FAILS"
    obligation_ok = rc == 0 and thm is not None
    # 2. Miri on the two-thread program
    t0 = time.time()
    env = dict(os.environ, CARGO_NET_OFFLINE="true",
               CARGO_TARGET_DIR=os.path.join(ctx.repo, "target", "verif-harness") if ctx.repo != "/repo"
               else os.path.join(_driver.HARNESS, "target"))
    hdir = os.path.join(ctx.work, "harness") if ctx.repo != "/repo" else _driver.HARNESS
    try:
        p = subprocess.run(["cargo", "+nightly", "miri", "run", "--offline", "-q", "--manifest-path",
                            os.path.join(hdir, "crates", "c17", "Cargo.toml"), "--bin", "c17_miri"],
                           stdout=subprocess.PIPE, stderr=subprocess.STDOUT, text=True, timeout=900, env=env)
        miri_out, miri_rc = p.stdout, p.returncode
    except Exception as e:   # miri missing or timed out: say so, do not fail the check
        miri_out, miri_rc = "miri not run: %r" % e, None
    cov["miri"] = {"rc": miri_rc, "wall_s": round(time.time() - t0, 1),
                   "verdict": ("no undefined behaviour reported" if miri_rc == 0 else
                               ("not run" if miri_rc is None else "REPORTED: " + miri_out[-600:]))}
    miri_race = miri_rc not in (0, None) and ("Data race" in miri_out or "Undefined Behavior" in miri_out)
    if miri_race:
        viol.append({"name": "miri", "payload": {
            "what": "Miri reports undefined behaviour when two threads create treap nodes concurrently",
            "program": "harness/crates/c17/src/bin/c17_miri.rs", "miri_output": miri_out[-3000:],
            "replay": "cd /verif/harness && cargo +nightly miri run --offline --manifest-path crates/c17/Cargo.toml --bin c17_miri"}})
    # 3. stress: big runs checked against the spec in Python (too large for a Coq literal)
    binp = ctx.bins["release"]
    runs = [(8, 20000), (16, 5000)] if ctx.tier == "quick" else [(8, 100000), (16, 50000), (4, 200000), (2, 400000)]
    bad, total = None, 0
    for (t, k) in runs:
        for rep in range(2 if ctx.tier == "quick" else 4):
            o = _driver.run_impl(binp, ["spawn %d %d" % (t, k)])[0]
            total += 1
            if o == "P":
                bad = (t, k, "panic")
                break
            solo, lists, eq = parse(o)
            if not (eq and acceptable(solo, lists)):
                firstbad = next((i for i, l in enumerate(lists) if l != solo[:len(l)]), None)
                bad = (t, k, "thread %s: %s... vs solo %s..." % (firstbad, lists[firstbad][:6] if firstbad is not None else "", solo[:6]))
                break
        if bad:
            break
    cov["stress_runs"] = total
    cov["stress_shapes"] = runs
    if bad and not miri_race:
        viol.append({"name": "stress", "payload": {
            "what": "real threads observed priority lists that no sequential execution explains (or treap results differ from solo)",
            "threads": bad[0], "nodes_per_thread": bad[1], "detail": bad[2]}})
    if not obligation_ok and not viol:
        viol.append({"name": "discipline", "nofail": True, "payload": {
            "obligation": "current_safe : safe <extracted discipline> (generated Current.v) — extracted discipline is %s, "
                          "for which no safety theorem exists (Racy/SplitAtomic are refuted in Properties.v; Unknown = not classified)" % d,
            "extractor_facts": _state.get("facts"), "coq_output": out[-1500:]}})
    elif not obligation_ok and viol:
        pass
    return {"coverage": cov, "violations": viol, "known": []}
