"""C17 — treaps can be built concurrently on different threads without racing (rlib/treap/src/treap_node.rs).

The theorems (coq/theories/C17) are about an interleaving model parametrised by the generator's
synchronisation DISCIPLINE.  The discipline of the current source is extracted on every run by
`extract_discipline` below (conservatively: whatever is not exactly one of the proved protocols is Unknown) and an
obligation `safe <extracted discipline>` is compiled against the proved theorems; real threads are run in several
topologies and the priorities of ALL nodes each thread creates are compared with the model and the spec; the same
jobs run under Miri (several seeds); large runs of both build profiles are checked against the spec in Python.
"""
import os
import re
import subprocess
import time

import _driver

ID = "C17"
CRATE = "c17"
# sibling sources whose edits enlarge the quick correspondence (fingerprints in source_pins.json)
SOURCES = ["rlib/rand/src/lcg.rs", "rlib/rand/src/lib.rs", "rlib/treap/src/treap.rs"]
COQ_DIR = "C17"
PROFILES = ["debug", "release"]
CORR_IMPORT = "From RlibV Require Import C17.Model C17.Corr."
AUDIT_IMPORT = ("From Coq Require Import List NArith.\nImport ListNotations.\n"
                "From RlibV Require Import C17.Model C17.Proofs C17.Properties.")
EXPLAIN = "explain"
AXIOM_ALLOW = []
SHARD = 40
THEOREMS = [
    ("c17_threadlocal_safe", "forall (G : Type) (step : G -> G) (out : G -> N), safe step out ThreadLocal"),
    ("c17_threadlocal_solo",
     "forall (G : Type) (step : G -> G) (out : G -> N) (seed : G) (progs sched : list nat) t th, "
     "nth_error (threads (run step out ThreadLocal (init seed progs) sched)) t = Some th -> "
     "seen th = stream step out (length (seen th)) seed"),
    ("c17_atomic_rmw_safe", "forall (G : Type) (step : G -> G) (out : G -> N), safe step out AtomicRMW"),
    ("c17_atomic_rmw_no_lost_draw",
     "forall (G : Type) (step : G -> G) (out : G -> N) (seed : G) progs sched, "
     "let m := run step out AtomicRMW (init seed progs) sched in "
     "map snd (log m) = stream step out (length (log m)) seed"),
    ("c17_locked_safe", "forall (G : Type) (step : G -> G) (out : G -> N), safe step out Locked"),
    ("c17_locked_no_lost_draw",
     "forall (G : Type) (step : G -> G) (out : G -> N) (seed : G) (progs sched : list nat), "
     "let m := run step out Locked (init seed progs) sched in "
     "map snd (log m) = stream step out (length (log m)) seed /\\ "
     "(forall t th, nth_error (threads m) t = Some th -> seen th = project t (log m)) /\\ "
     "glob m = Nat.iter (length (log m)) step seed"),
    ("c17_locked_no_deadlock",
     "forall (G : Type) (step : G -> G) (out : G -> N) (seed : G) (progs sched : list nat), "
     "let m := run step out Locked (init seed progs) sched in "
     "(exists t th, nth_error (threads m) t = Some th /\\ (todo th <> 0 \\/ ph th <> Idle)) -> "
     "exists t m', mstep step out Locked m t = Some m'"),
    ("c17_racy_refuted_race",
     "forall (G : Type) (step : G -> G) (out : G -> N) (seed : G), "
     "race Racy (run step out Racy (init seed [1; 1]) [0]) = true"),
    ("c17_racy_refuted_duplicate",
     "let m := run N.succ (fun x => x) Racy (init 0%N [1; 3]) dup_sched in "
     "NoDup (stream N.succ (fun x => x) 4 0%N) /\\ map snd (log m) = [1; 2; 1; 2]%N /\\ "
     "map (@seen N) (threads m) = [[1]; [1; 2; 2]]%N"),
    ("c17_split_atomic_refuted_duplicate",
     "let m := run N.succ (fun x => x) SplitAtomic (init 0%N [1; 3]) dup_sched in "
     "map snd (log m) = [1; 2; 1; 2]%N /\\ map (@seen N) (threads m) = [[1]; [1; 2; 2]]%N"),
]
RULE = ("cases = (topology, threads T in 1..64, direct nodes K per thread, program size P, program kind, uneven) runs of real "
        "threads in debug and release; topologies: barrier start, main thread included, nested spawn in the middle of a "
        "stream, one thread after the other, treap handed to another thread; observation = for each logical thread the "
        "priority of EVERY node it created (TreapNode::new through 3 instantiations, Treap::insert_at, Treap::from_item), the "
        "list ONE thread draws alone, and whether each thread's treap program (insert_at/remove_at/split_at/split_by/"
        "from_item/merge/first/last/root_mut/collect/Debug/TreePrinter, plain and lazy items) gave the results it gives "
        "alone and passed its integrity walk; non-trivial = at least 2 logical threads and K + P >= 2")
TRUSTED = ["checks/c17.py extract_discipline: a conservative textual classifier of rlib/treap/src/*.rs and, following calls by "
           "name, of the path dependencies (rlib/rand/src/*.rs): ThreadLocal only if the generator state is the value of a "
           "thread_local Cell/RefCell and no shared static / unsafe / unread crate is reachable; AtomicRMW only for exactly one "
           "read-modify-write (or one compare_exchange retry loop); Locked only for one let-bound guard; anything else Unknown "
           "(= broken obligation)",
           "executor harness/crates/c17 (threads, barriers, reading TreapNode::priority back through the public fields)",
           "Miri (cargo +nightly miri, several seeds) as the data-race oracle for the Rust memory model; when Miri is not "
           "usable in the environment (probe program fails too) the run says so and does not alarm",
           "scheduling by the OS: the explored interleavings are whatever 1-64 real threads produce"]
ASSUMPTIONS = ["undefined behaviour as such (compiler assumptions about static mut) is a runtime notion outside the model: "
               "the model speaks of enabled conflicting non-atomic accesses; Miri covers the Rust memory model on one program",
               "threads that share no treap can interfere only through the priority generator (all other state is owned); "
               "the extractor's scan for shared statics / unsafe in the treap crate and the reached part of its dependencies "
               "and Miri are the evidence for this",
               "treap results as a function of priorities are the subject of C03 (sequence semantics for every priority stream)"]
MANIFEST = {
    "text": "Coq theorems (no axioms) about an interleaving model of priority draws, generic in the generator and quantified over "
            "every number of threads, every program and every schedule: a mutex-protected process-wide generator (the current code, "
            "repo commit b8a7caa: c17_locked_safe, c17_locked_no_lost_draw - the time-ordered log of all draws IS the generator's stream, "
            "each thread holds its own sub-sequence - and c17_locked_no_deadlock), an atomic read-modify-write generator and a "
            "thread-local generator are race free and every thread observes a sequentially explicable stream (thread-local: "
            "exactly its solo stream); the unsynchronised static and the split atomic load/store are refuted by witnesses. The "
            "discipline is extracted conservatively from the sources of the treap crate and the code it reaches in rlib_rand on "
            "every run (anything not exactly one of the proved protocols is Unknown = broken obligation) and `safe <discipline>` "
            "is re-proved from the theorems; real threads (1-64, debug+release, five thread topologies including hand-over of a "
            "treap to another thread) are compared with model and spec in Coq on the priorities of ALL nodes they create "
            "(every constructor path), with integrity walks of the trees; the same jobs run under Miri with several seeds. "
            "PARTIAL: undefined behaviour itself is a runtime notion; only Miri (one program) and the stress runs speak about it.",
    "level_note": "Trusted: Coq kernel + vm_compute; the textual discipline extractor; the executor; Miri; OS scheduling decides "
                  "which interleavings the correspondence explores (the theorems cover all of them for the model).",
    "technique": "Coq proof over an interleaving model + conservative discipline extraction from source + threaded correspondence + Miri",
}

_state = {}


# ----------------------------------------------------------------------------- discipline extractor
# A deliberately CONSERVATIVE textual analysis.  It reads every Rust file of the treap crate and of the
# crates it depends on by path (today: rlib_rand), follows calls by NAME from the treap crate into
# those crates, and answers one of
#   ThreadLocal  the generator state itself is the value of a `thread_local!` static (Cell/RefCell of a
#                plain value), and nothing reachable from the treap code touches a shared static or `unsafe`
#   AtomicRMW    exactly one shared static, an std atomic integer, named in exactly one function, accessed
#                there by exactly ONE read-modify-write per call (fetch_*/swap as the only access, outside
#                any loop), or by one compare_exchange whose result decides a retry loop (+ at most one load)
#   Locked       exactly one shared static, a Mutex/RwLock, named once: `let g = S.lock().unwrap();`
#                (RwLock: `.write()`), so that ONE guard covers the read and the write
#   SplitAtomic  an atomic accessed by load(s) and store(s) only     (refuted in Properties.v)
#   Racy         `static mut`, UnsafeCell, `unsafe impl Sync/Send`    (refuted in Properties.v)
#   Unknown      everything else: no theorem is applied; the run reports a broken obligation and relies on
#                the stress / Miri searches for a witness
STD_ROOTS = {"std", "core", "alloc", "crate", "self", "super", "Self"}
RMW_SINGLE = {"fetch_update", "fetch_add", "fetch_sub", "fetch_xor", "fetch_or", "fetch_and", "fetch_nand",
              "fetch_max", "fetch_min", "swap"}
ATOMIC_TY = re.compile(r"^(?:(?:std|core)::sync::atomic::|atomic::)?Atomic(?:U8|U16|U32|U64|Usize|I8|I16|I32|I64|Isize)$")
MUTEX_TY = re.compile(r"^(?:std::sync::|sync::)?Mutex<.*>$", re.S)
RWLOCK_TY = re.compile(r"^(?:std::sync::|sync::)?RwLock<.*>$", re.S)
TL_CELL_TY = re.compile(r"^(?:(?:std|core)::cell::|cell::)?(?:Cell|RefCell)<(.*)>$", re.S)
HARMLESS_STATIC_TY = re.compile(r"^(?:[\s&\[\]();,0-9]|'static|\b(?:u8|u16|u32|u64|u128|usize|i8|i16|i32|i64|i128|isize|"
                                r"f32|f64|bool|char|str)\b)+$")
SHARED_HANDLE = re.compile(r"&|\*\s*(?:const|mut)\b|'static|\b(?:Arc|Rc|Weak|Box\s*<\s*dyn|dyn|fn|Fn|FnMut|Atomic\w*|Mutex|"
                           r"RwLock|Condvar|Once\w*|Lazy\w*|NonNull|UnsafeCell)\b")
LAZY_STATIC = re.compile(r"\blazy_static\s*!|\bstatic\s+ref\b|\b(?:OnceLock|OnceCell|LazyLock|LazyCell|Lazy|SyncLazy|SyncOnceCell|Once)\b")


def clean_rust(src):
    """comments -> blanks, contents of string/char literals -> blanks (lengths and newlines preserved)"""
    out, i, n = [], 0, len(src)

    def blank(s):
        return "".join(c if c == "\n" else " " for c in s)
    while i < n:
        c = src[i]
        if src.startswith("//", i):
            j = src.find("\n", i)
            j = n if j < 0 else j
            out.append(blank(src[i:j]))
            i = j
        elif src.startswith("/*", i):
            depth, j = 1, i + 2
            while j < n and depth:
                if src.startswith("/*", j):
                    depth, j = depth + 1, j + 2
                elif src.startswith("*/", j):
                    depth, j = depth - 1, j + 2
                else:
                    j += 1
            out.append(blank(src[i:j]))
            i = j
        elif c == '"' or (c in "rb" and re.match(r'(?:b?r#*"|b")', src[i:i + 8]) and (i == 0 or not (src[i - 1].isalnum() or src[i - 1] == "_"))):
            m = re.match(r'(b?r)(#*)"', src[i:])
            if m:
                close = '"' + m.group(2)
                j = src.find(close, i + m.end())
                j = n if j < 0 else j + len(close)
            else:
                j = i + (2 if c == "b" else 1)
                while j < n and src[j] != '"':
                    j += 2 if src[j] == "\\" else 1
                j = min(n, j + 1)
            out.append('"' + blank(src[i + 1:j - 1]) + '"' if j - i >= 2 else src[i:j])
            i = j
        elif c == "'":
            m = re.match(r"'(?:\\(?:x[0-9a-fA-F]{2}|u\{[0-9a-fA-F_]+\}|.)|[^\\'\n])'", src[i:])
            if m:
                out.append("'" + " " * (m.end() - 2) + "'")
                i += m.end()
            else:
                out.append(c)      # a lifetime
                i += 1
        else:
            out.append(c)
            i += 1
    return "".join(out)


def match_close(s, i):
    """index just after the bracket that closes the one at s[i]"""
    pairs = {"{": "}", "(": ")", "[": "]"}
    stack, j = [pairs[s[i]]], i + 1
    while j < len(s) and stack:
        ch = s[j]
        if ch in pairs:
            stack.append(pairs[ch])
        elif ch in "})]":
            if stack and ch == stack[-1]:
                stack.pop()
        j += 1
    return j


def drop_test_code(s):
    """`#[cfg(test)]` items and `#[test]` functions are not part of the library"""
    while True:
        m = re.search(r"#\s*\[\s*(?:cfg\s*\(\s*test\s*\)|test)\s*\]", s)
        if not m:
            return s
        j = m.end()
        k = j
        while k < len(s) and s[k] not in "{;":
            k += 1
        e = match_close(s, k) if k < len(s) and s[k] == "{" else min(len(s), k + 1)
        s = s[:m.start()] + re.sub(r"[^\n]", " ", s[m.start():e]) + s[e:]


STATIC_DECL = re.compile(r"(?<!')\bstatic\s+(mut\s+)?(ref\s+)?([A-Za-z_]\w*)\s*:")


def decl_type_init(s, pos):
    """type text and initialiser text of a `static NAME:` declaration whose `:` ends at pos"""
    depth, j, eq = 0, pos, None
    while j < len(s):
        ch = s[j]
        if ch in "([{<":
            depth += 1
        elif ch in ")]}":
            depth -= 1
        elif ch == ">" and s[j - 1] not in "-=":
            depth -= 1
        elif ch == "=" and depth == 0 and eq is None and s[j + 1:j + 2] != "=":
            eq = j
        elif ch == ";" and depth <= 0:
            break
        j += 1
    ty = s[pos:eq if eq is not None else j]
    init = s[eq + 1:j] if eq is not None else ""
    return re.sub(r"\s+", "", ty).replace("'static", "'static "), init


FEATURE_GATE = re.compile(r'#\s*\[\s*cfg\s*\(\s*feature\s*=\s*"([^"]*)"\s*\)\s*\]')


def drop_feature_gated(raw, cleaned, default_features, dropped):
    """items under `#[cfg(feature = "f")]` with f not a default feature are not part of the build the executor
    (and a user) gets: blank them.  `cleaned` has the string contents blanked, so the name is read from `raw`."""
    for m in list(FEATURE_GATE.finditer(cleaned)):
        name = raw[m.start(1):m.end(1)].strip()
        if name in default_features:
            continue
        k = m.end()
        while k < len(cleaned) and cleaned[k] not in "{;":
            k += 1
        e = match_close(cleaned, k) if k < len(cleaned) and cleaned[k] == "{" else min(len(cleaned), k + 1)
        item = re.search(r"\b(?:fn|static|mod|impl|struct|enum|const|use|type|trait)\s+(?:mut\s+)?([A-Za-z_]\w*)", cleaned[m.end():e])
        dropped.append("%s (feature %s)" % (item.group(1) if item else "?", name))
        cleaned = cleaned[:m.start()] + re.sub(r"[^\n]", " ", cleaned[m.start():e]) + cleaned[e:]
    return cleaned


def parse_crate(files, default_features=()):
    """files: {path: text}.  Returns dict(text=..., tls=[...], statics=[...], fns=[...], uses={name: root}, mods=set)"""
    tls, statics, fns, uses, mods, texts, dropped = [], [], [], {}, set(), {}, []
    for path in sorted(files):
        s = drop_test_code(drop_feature_gated(files[path], clean_rust(files[path]), set(default_features), dropped))
        # thread_local! { ... } with any delimiter
        outside = s
        for m in list(re.finditer(r"\bthread_local\s*!\s*([\{\(\[])", s)):
            e = match_close(s, m.end() - 1)
            body = s[m.end():e - 1]
            for d in STATIC_DECL.finditer(body):
                ty, init = decl_type_init(body, d.end())
                tls.append(dict(name=d.group(3), type=ty, init=init, file=path))
            outside = outside[:m.start()] + re.sub(r"[^\n]", " ", outside[m.start():e]) + outside[e:]
        for d in STATIC_DECL.finditer(outside):
            ty, init = decl_type_init(outside, d.end())
            statics.append(dict(name=d.group(3), mut=bool(d.group(1)), ref=bool(d.group(2)), type=ty, init=init, file=path))
        for m in re.finditer(r"\bfn\s+([A-Za-z_]\w*)", outside):
            j, depth = m.end(), 0
            while j < len(outside):
                ch = outside[j]
                if ch in "([":
                    depth += 1
                elif ch in ")]":
                    depth -= 1
                elif depth == 0 and ch in "{;":
                    break
                j += 1
            if j < len(outside) and outside[j] == "{":
                e = match_close(outside, j)
                head = outside[max(0, m.start() - 40):m.start()]
                fns.append(dict(name=m.group(1), body=outside[j:e], file=path,
                                unsafe_fn=re.search(r"\bunsafe\s+(?:extern\s+\"[^\"]*\"\s+)?$", head) is not None))
        for m in re.finditer(r"\buse\s+([^;]+);", outside):
            tree = re.sub(r"\s+", "", m.group(1))
            root = re.match(r"(?:::)?([A-Za-z_]\w*)", tree)
            root = root.group(1) if root else "?"
            for nm in re.findall(r"([A-Za-z_]\w*)(?=[,}]|$)", tree):
                uses[nm] = root
        for m in re.finditer(r"\bextern\s+crate\s+([A-Za-z_]\w*)", outside):
            uses[m.group(1)] = m.group(1)
        mods.update(re.findall(r"\bmod\s+([A-Za-z_]\w*)", outside))
        texts[path] = s
    return dict(texts=texts, text="\n".join(texts[p] for p in sorted(texts)), tls=tls, statics=statics, fns=fns,
                uses=uses, mods=mods, dropped=dropped)


def idents(text):
    return set(re.findall(r"[A-Za-z_]\w*", text))


def statement_prefix(body, pos):
    """text from the start of the statement/arm containing pos up to pos"""
    j = pos
    while j > 0 and body[j - 1] not in ";{}":
        j -= 1
    pre = body[j:pos]
    # a match arm `pat => expr`: the expression starts after the arrow
    k = pre.rfind("=>")
    return pre[k + 2:] if k >= 0 else pre


def enclosing_headers(body, pos):
    """for every block that encloses pos: the text that introduces it (`loop`, `while cond`, `if x`, `|s|` ...)"""
    heads, stack = [], []
    for j in range(pos):
        ch = body[j]
        if ch == "{":
            stack.append(j)
        elif ch == "}" and stack:
            stack.pop()
    for j in stack:
        k = j
        while k > 0 and body[k - 1] not in ";{}":
            k -= 1
        heads.append(body[k:j])
    return heads


LOOP_HEAD = re.compile(r"^\s*(?:'\w+\s*:\s*)?(?:loop|while|for)\b")


def in_loop(body, pos):
    return any(LOOP_HEAD.match(h) for h in enclosing_headers(body, pos))


def analyse_shared(st, body):
    """one shared static `st`, named only inside `body` (a function body): which protocol?"""
    name = st["name"]
    occ = [m.start() for m in re.finditer(r"\b%s\b" % re.escape(name), body)
           if not re.search(r"\bstatic\s+(?:mut\s+)?$", body[:m.start()])]      # its own declaration inside the fn
    calls = []
    for p in occ:
        m = re.match(r"%s\s*\.\s*([A-Za-z_]\w*)\s*(?:::\s*<[^>]*>\s*)?\(" % re.escape(name), body[p:])
        if m and re.search(r"\*\s*$", body[:p]):
            return "Unknown", "a temporary guard/value is dereferenced (`*%s.%s()`): whatever protects it ends with that statement" % (name, m.group(1))
        if not m or (p > 0 and re.search(r"[&.]\s*$", body[:p])):
            return "Unknown", "the static is used other than by a direct method call (alias/reference)"
        calls.append((p, m.group(1), p + m.end()))
    meths = sorted(c[1] for c in calls)
    ty = st["type"].strip()
    if ATOMIC_TY.match(ty):
        if len(calls) == 1 and meths[0] in RMW_SINGLE:
            if in_loop(body, calls[0][0]):
                return "Unknown", "the read-modify-write is repeated in a loop (more than one per draw)"
            return "AtomicRMW", "single %s" % meths[0]
        cas = [c for c in calls if c[1] in ("compare_exchange", "compare_exchange_weak")]
        rest = [c for c in calls if c not in cas]
        if len(cas) == 1 and len(rest) <= 1 and all(c[1] == "load" for c in rest):
            p = cas[0][0]
            pre = statement_prefix(body, p)
            looped = in_loop(body, p) or re.match(r"^\s*(?:'\w+\s*:\s*)?while\b", pre)
            decides = re.match(r"^\s*(?:'\w+\s*:\s*)?(?:(?:return\s+|break\s+)?match|if|while)\b", pre) is not None
            if looped and decides:
                return "AtomicRMW", "compare_exchange retry loop"
            return "Unknown", "compare_exchange whose failure does not visibly lead to a retry"
        if meths and set(meths) <= {"load", "store"} and "load" in meths and "store" in meths:
            return "SplitAtomic", "separate load and store"
        return "Unknown", "atomic accessed by %s: not one read-modify-write" % "+".join(meths)
    want = "lock" if MUTEX_TY.match(ty) else ("write" if RWLOCK_TY.match(ty) else None)
    if want:
        if len(calls) != 1 or meths[0] != want:
            return "Unknown", "lock taken %d times / by %s: not one guard for the read and the write" % (len(calls), "+".join(meths))
        p, _, after = calls[0]
        if in_loop(body, p):
            return "Unknown", "lock taken in a loop"
        pre = statement_prefix(body, p)
        m = re.match(r"^\s*let\s+(?:mut\s+)?([A-Za-z_]\w*)\s*(?::[^=]+)?=\s*$", pre)
        close = match_close(body, after - 1)
        tail = body[close:body.find(";", close) if body.find(";", close) >= 0 else len(body)]
        tail_ok = re.match(r"^\s*(?:\.\s*(?:unwrap|expect|unwrap_or_else)\s*\((?:[^()]|\((?:[^()]|\([^()]*\))*\))*\))?\s*$", tail) is not None
        if not m or m.group(1) == "_" or not tail_ok:
            # `S.lock()<unwrap>.method(args)` as the only use in its statement: the temporary guard lives to the end of the
            # statement, so ONE method call on the protected value (the read-modify-write) happens under it
            stmt_end = body.find(";", close)
            stmt_end = stmt_end if stmt_end >= 0 else body.rfind("}")
            one = re.match(r"^\s*(?:\.\s*(?:unwrap|expect|unwrap_or_else)\s*\((?:[^()]|\((?:[^()]|\([^()]*\))*\))*\))?"
                           r"\s*\.\s*([A-Za-z_]\w*)\s*\((?:[^()]|\((?:[^()]|\([^()]*\))*\))*\)\s*(?:as\s+[A-Za-z_][\w:<>]*\s*)?$",
                           body[close:stmt_end], re.S)
            lead = statement_prefix(body, p)
            if one and one.group(1) not in ("clone", "lock", "write", "read") and re.match(r"^\s*(?:let\s+(?:mut\s+)?[A-Za-z_]\w*\s*(?::[^=]+)?=\s*|return\s+)?$", lead):
                return "Locked", "one temporary %s() guard around a single call of `%s`" % (want, one.group(1))
            return "Unknown", "the guard is not bound by a plain `let g = S.%s()...;` (a temporary guard ends with its statement)" % want
        g = m.group(1)
        rest = body[close:]
        if not re.search(r"\b%s\b" % re.escape(g), rest):
            return "Unknown", "the guard is never used"
        return "Locked", "one %s() guard `%s`" % (want, g)
    return "Unknown", "shared static of type %s" % ty


def classify_sources(treap_files, dep_crates, foreign_deps=(), default_features=None):
    """treap_files: {path: text} of the treap crate; dep_crates: {crate_name: {path: text}} (path dependencies,
    transitively); foreign_deps: names of dependencies whose source is not available; default_features:
    {crate name or "" for the treap crate: set of features that are on by default}.  -> (discipline, facts)"""
    default_features = default_features or {}
    T = parse_crate(treap_files, default_features.get("", ()))
    D = {c: parse_crate(f, default_features.get(c, ())) for c, f in dep_crates.items()}
    facts = {}
    gated = T["dropped"] + [x for p in D.values() for x in p["dropped"]]
    if gated:
        facts["not_in_the_default_build"] = gated
    # --- what is reachable: the whole treap crate; functions of the dependencies by name, transitively
    reach_text = [T["text"]]
    dep_fns = [f for c in D.values() for f in c["fns"]]
    by_name = {}
    for f in dep_fns:
        by_name.setdefault(f["name"], []).append(f)
    seen, work = set(), [n for n in idents(T["text"]) if n in by_name]
    dep_statics = [dict(s, crate=c) for c, p in D.items() for s in p["statics"]]
    dep_tls = [t for p in D.values() for t in p["tls"]]
    reached_fns = []
    while work:
        n = work.pop()
        if n in seen:
            continue
        seen.add(n)
        for f in by_name.get(n, []):
            reached_fns.append(f)
            reach_text.append(f["body"])
            ids = idents(f["body"])
            work += [x for x in ids if x in by_name and x not in seen]
            # initialisers of statics named there are reachable too
            for s in dep_statics + dep_tls:
                if s["name"] in ids:
                    reach_text.append(s["init"])
                    work += [x for x in idents(s["init"]) if x in by_name and x not in seen]
    reach = "\n".join(reach_text)
    rid = idents(reach)
    facts["reached_dependency_fns"] = sorted({f["name"] for f in reached_fns})
    # --- statics
    statics = T["statics"] + [s for s in dep_statics if s["name"] in rid]
    tls = T["tls"] + [t for t in dep_tls if t["name"] in rid]
    shared = [s for s in statics if s["mut"] or s["ref"] or not HARMLESS_STATIC_TY.match(s["type"])]
    facts["thread_locals"] = ["%s: %s" % (t["name"], t["type"]) for t in tls]
    facts["shared_statics"] = ["%s%s: %s (%s)" % ("mut " if s["mut"] else "", s["name"], s["type"], os.path.basename(s["file"])) for s in shared]
    # --- things no discipline of the model describes
    racy = [s["name"] for s in shared if s["mut"]]
    if re.search(r"\b(?:UnsafeCell|SyncUnsafeCell)\b", reach) or \
            any(re.search(r"\bunsafe\s+impl\b", p["text"]) for p in [T] + list(D.values())):
        racy.append("UnsafeCell / unsafe impl")
    if racy:
        facts["racy"] = racy
        return "Racy", facts
    unknown = []
    if re.search(r"\bunsafe\b", reach) or any(f["unsafe_fn"] for f in reached_fns):
        unknown.append("`unsafe` is reachable from the treap code")
    if LAZY_STATIC.search(reach):
        unknown.append("lazily initialised global (lazy_static / Once* / Lazy*) reachable from the treap code")
    # crates whose source was not read
    scanned = set(D)
    roots = set()
    for txt, P in [(T["text"], T)] + [(f["body"], D_) for D_ in D.values() for f in reached_fns if f in D_["fns"]]:
        for m in re.finditer(r"(?<![\w:>])(?:::)?([a-z_][a-z0-9_]*)\s*::", txt):
            r = m.group(1)
            r = P["uses"].get(r, r)
            if r not in STD_ROOTS and r not in scanned and r not in P["mods"]:
                roots.add(r)
        for nm in idents(txt):
            r = P["uses"].get(nm)
            if r and r not in STD_ROOTS and r not in scanned and r not in P["mods"]:
                roots.add(r)
    for nm, r in T["uses"].items():
        if r not in STD_ROOTS and r not in scanned and r not in T["mods"]:
            roots.add(r)
    roots |= {d for d in foreign_deps if d in rid}
    if roots:
        unknown.append("code of crate(s) %s is used but was not read" % ", ".join(sorted(roots)))
    # --- the generator
    if not shared:
        used_tls = [t for t in tls
                    if any(re.search(r"\b%s\b" % re.escape(t["name"]), f["body"]) for f in T["fns"] + reached_fns)]
        if not used_tls:
            unknown.append("no generator state found (neither a thread_local nor a shared static is used)")
        for t in used_tls:
            m = TL_CELL_TY.match(t["type"])
            if not m:
                unknown.append("thread_local %s has type %s, not Cell/RefCell of a value" % (t["name"], t["type"]))
            elif SHARED_HANDLE.search(m.group(1)):
                unknown.append("thread_local %s holds a handle (%s), the state itself may be shared" % (t["name"], m.group(1)))
        if unknown:
            facts["unknown_because"] = unknown
            return "Unknown", facts
        facts["generator"] = "thread_local " + ", ".join(t["name"] for t in used_tls)
        return "ThreadLocal", facts
    if tls:
        unknown.append("shared static(s) and thread_local state are mixed")
    if len(shared) != 1:
        unknown.append("%d shared statics" % len(shared))
    if unknown:
        facts["unknown_because"] = unknown
        return "Unknown", facts
    st = shared[0]
    users = [f for f in T["fns"] + reached_fns if re.search(r"\b%s\b" % re.escape(st["name"]), f["body"])]
    in_inits = any(re.search(r"\b%s\b" % re.escape(st["name"]), x["init"]) for x in statics + tls)
    # A guard ACCESSOR: a function whose whole body is `S.lock()` / `S.write()` followed by unwrap / expect /
    # unwrap_or_else, i.e. it only hands out the guard.  Its callers then play the role of the users of the static:
    # `let g = accessor();` is `let g = S.lock()...;`.
    if len(users) == 1 and not in_inits and st["file"] in treap_files and (MUTEX_TY.match(st["type"].strip()) or RWLOCK_TY.match(st["type"].strip())):
        want = "lock" if MUTEX_TY.match(st["type"].strip()) else "write"
        acc = users[0]
        if re.match(r"^\{\s*%s\s*\.\s*%s\s*\(\s*\)\s*(?:\.\s*(?:unwrap|expect|unwrap_or_else)\s*\((?:[^()]|\((?:[^()]|\([^()]*\))*\))*\)\s*)?\}$"
                    % (re.escape(st["name"]), want), acc["body"].strip(), re.S):
            callers = [f for f in T["fns"] + reached_fns if f is not acc and re.search(r"\b%s\s*\(" % re.escape(acc["name"]), f["body"])]
            facts["guard_accessor"] = "%s (called by %s)" % (acc["name"], ", ".join(sorted(f["name"] for f in callers)) or "nobody")
            if len(callers) == 1:
                body = re.sub(r"\b%s\s*\(\s*\)" % re.escape(acc["name"]), "%s.%s()" % (st["name"], want), callers[0]["body"])
                d, why = analyse_shared(st, body)
                facts["generator"] = "%s through accessor %s in fn %s: %s" % (st["name"], acc["name"], callers[0]["name"], why)
                if d == "Unknown":
                    facts["unknown_because"] = [why]
                return d, facts
            facts["unknown_because"] = ["the guard accessor %s is called from %d functions: cannot see one access protocol" % (acc["name"], len(callers))]
            return "Unknown", facts
    if len(users) != 1 or in_inits or st["file"] not in treap_files:
        facts["unknown_because"] = ["the shared static %s is named in %d functions (%s)%s: cannot see one access protocol" % (
            st["name"], len(users), ", ".join(sorted(f["name"] for f in users)), " and in an initialiser" if in_inits else "")]
        return "Unknown", facts
    d, why = analyse_shared(st, users[0]["body"])
    facts["generator"] = "%s in fn %s: %s" % (st["name"], users[0]["name"], why)
    if d == "Unknown":
        facts["unknown_because"] = [why]
    return d, facts


def read_crate(cdir):
    files = {}
    sdir = os.path.join(cdir, "src")
    for root, _, names in os.walk(sdir):
        for nm in names:
            if nm.endswith(".rs"):
                p = os.path.join(root, nm)
                files[p] = open(p, errors="replace").read()
    return files


def crate_deps(cdir):
    """([(name, dir)] of path dependencies, [names of the others]) from Cargo.toml ([dependencies] only)"""
    try:
        toml = open(os.path.join(cdir, "Cargo.toml")).read()
    except OSError:
        return [], []
    m = re.search(r"^\[dependencies\]\s*$(.*?)(?=^\[|\Z)", toml, re.M | re.S)
    paths, others = [], []
    for line in (m.group(1) if m else "").splitlines():
        line = line.split("#")[0].strip()
        mm = re.match(r"([A-Za-z0-9_\-]+)\s*=\s*(.*)", line)
        if not mm:
            continue
        name = mm.group(1).replace("-", "_")
        pm = re.search(r"path\s*=\s*\"([^\"]+)\"", mm.group(2))
        if pm:
            paths.append((name, os.path.normpath(os.path.join(cdir, pm.group(1)))))
        else:
            others.append(name)
    return paths, others


def default_features_of(cdir):
    """features of the crate that are on in a default build ([features] default = [...], one level of implication)"""
    try:
        toml = open(os.path.join(cdir, "Cargo.toml")).read()
    except OSError:
        return set()
    m = re.search(r"^\[features\]\s*$(.*?)(?=^\[|\Z)", toml, re.M | re.S)
    table = {}
    for mm in re.finditer(r"^\s*([A-Za-z0-9_\-]+)\s*=\s*\[(.*?)\]", re.sub(r"#[^\n]*", "", m.group(1)) if m else "", re.M | re.S):
        table[mm.group(1)] = re.findall(r"\"([^\"]+)\"", mm.group(2))
    on, todo = set(), list(table.get("default", []))
    while todo:
        f = todo.pop()
        if f not in on:
            on.add(f)
            todo += table.get(f, [])
    return on


def gather_sources(repo):
    tdir = os.path.join(repo, "rlib", "treap")
    deps, foreign, todo, seen = {}, [], [tdir], set()
    feats = {"": default_features_of(tdir)}
    while todo:
        c = todo.pop()
        if c in seen:
            continue
        seen.add(c)
        paths, others = crate_deps(c)
        foreign += others
        for name, d in paths:
            if d not in seen:
                deps[name] = read_crate(d)
                feats[name] = default_features_of(d)
                todo.append(d)
    return read_crate(tdir), deps, foreign, feats


def extract_discipline(repo):
    """Classify how the priority generator of the treap crate is shared between threads."""
    treap_files, deps, foreign, feats = gather_sources(repo)
    d, facts = classify_sources(treap_files, deps, foreign, feats)
    facts["files_read"] = sorted(os.path.relpath(p, repo) for p in list(treap_files) + [p for f in deps.values() for p in f])
    return d, facts


def prepare(ctx):
    d, facts = extract_discipline(ctx.repo)
    _state["discipline"], _state["facts"] = d, facts
    ctx.say("[C17] extracted discipline: %s %s" % (d, {k: v for k, v in facts.items() if v and k != "files_read"}))


# ----------------------------------------------------------------------------- cases
TOPOS = ["spawn", "main", "nested", "stagger", "handoff"]
SEARCH_MAX = 120        # enlarged search after a model-only mismatch
ESCALATE_MAX = 16       # extra thorough-tier cases when the anchored source text changed (they are the heavy ones)


def mk(topo, t, k, p, kind, uneven=0, rep=0):
    return {"topo": topo, "threads": t, "nodes": k, "prog": p, "kind": kind, "uneven": uneven, "rep": rep}


def norm(c):
    """cases written before the topologies existed are `spawn T K`"""
    if "topo" in c:
        return c
    return mk("spawn", c["threads"], c["nodes"], min(c["nodes"], 60), 0, 0, c.get("rep", 0))


def logical_threads(c):
    c = norm(c)
    return c["threads"] * (2 if c["topo"] in ("nested", "handoff") else 1)


def total_draws(c):
    """number of nodes all threads of the case create together"""
    c = norm(c)
    t, k, p = c["threads"], c["nodes"], c["prog"]
    direct = k * t * (t + 1) // 2 if c["uneven"] else k * t
    if c["topo"] == "nested":
        return direct + k * t + 2 * t * p
    if c["topo"] == "handoff":
        return 2 * direct + t * p
    return direct + t * p


QUICK_SHAPES = [
    # the thread counts of the first version, now with every node of the programs observed (kinds 0-3, 4 = mixed)
    ("spawn", 2, 2, 2, 0), ("spawn", 2, 8, 8, 1), ("spawn", 3, 5, 5, 2), ("spawn", 4, 16, 16, 3), ("spawn", 8, 8, 8, 4),
    ("spawn", 16, 4, 4, 4), ("spawn", 2, 64, 60, 4), ("spawn", 5, 33, 33, 4),
    # one thread, more threads than cores, only program nodes, only direct nodes
    ("spawn", 1, 5, 9, 4), ("spawn", 17, 3, 6, 4), ("spawn", 32, 2, 5, 4), ("spawn", 64, 1, 3, 4), ("spawn", 3, 0, 12, 4),
    ("spawn", 4, 7, 0, 0),
    # unequal numbers of draws
    ("spawn", 4, 3, 6, 4, 1), ("spawn", 7, 5, 4, 2, 1),
    # the main thread builds treaps too
    ("main", 1, 5, 4, 1), ("main", 3, 8, 10, 4), ("main", 9, 4, 7, 4), ("main", 2, 0, 15, 3),
    # a thread in the middle of its stream spawns a thread
    ("nested", 2, 6, 6, 4), ("nested", 4, 9, 11, 4), ("nested", 1, 3, 5, 2),
    # threads that start after others have exited
    ("stagger", 3, 7, 8, 4), ("stagger", 17, 3, 3, 4),
    # a treap changes its owner thread
    ("handoff", 2, 4, 20, 4), ("handoff", 5, 0, 30, 4), ("handoff", 3, 9, 12, 3), ("handoff", 1, 2, 9, 2),
]


def generate(rng, tier):
    cases = []
    for r in range(2):
        cases += [mk(*(sh + (0,) * (6 - len(sh))), rep=r) for sh in QUICK_SHAPES]
    if tier == "thorough":
        for topo in TOPOS:
            for t in (1, 2, 3, 4, 6, 8, 12, 16, 17, 32, 64):
                for k in (0, 1, 7, 50, 200):
                    p = rng.choice([0, 1, 2, 3, 17, 60, 120])
                    kind = rng.choice([0, 1, 2, 3, 4, 4])
                    uneven = 1 if (t <= 12 and k <= 50 and rng.chance(1, 4)) else 0
                    c = mk(topo, t, k, p, kind, uneven)
                    while total_draws(c) > 2500 and (c["nodes"] > 7 or c["prog"] > 17):   # keep the Coq literal moderate
                        c = mk(topo, t, max(7, c["nodes"] // 2) if c["nodes"] > 7 else c["nodes"],
                               max(17, c["prog"] // 2) if c["prog"] > 17 else c["prog"], kind, uneven)
                    for r in range(2):
                        cases.append(dict(c, rep=r))
        # draw counts around powers of two (block-buffered generators refill there)
        for k in (255, 256, 257, 1023, 1024, 1025):
            for (topo, t) in (("spawn", 2), ("nested", 1), ("spawn", 3)):
                cases.append(mk(topo, t, k, 10, 4))
    return cases


def harness_line(c):
    c = norm(c)
    return "run %s %d %d %d %d %d" % (c["topo"], c["threads"], c["nodes"], c["prog"], c["kind"], c["uneven"])


def parse(obs):
    parts = [p.strip() for p in obs.split(";")]
    solo = [int(x) for x in parts[0].split()[1:]]
    lists = [[int(x) for x in p.split()[1:]] for p in parts[1:-1]]
    eq = parts[-1].split()[1] == "1"
    return solo, lists, eq


def nlist(xs):
    return "[" + "; ".join("%d%%N" % x for x in xs) + "]"


def coq_term(c, obs, profile):
    d = _state.get("discipline", "Unknown")
    dd = d if d != "Unknown" else "Racy"   # an unclassified discipline has no verified model: model_check is false
    if obs == "P":
        return "(CSpawn %s [] [[1%%N]] false)" % dd
    solo, lists, eq = parse(obs)
    return "(CSpawn %s %s [%s] %s)" % (dd, nlist(solo), "; ".join(nlist(l) for l in lists), "true" if eq else "false")


def nontrivial(c, obs):
    c = norm(c)
    return logical_threads(c) >= 2 and c["nodes"] + c["prog"] >= 2


def classify(c, obs):
    c = norm(c)
    return "%s threads=%d" % (c["topo"], c["threads"])


def shrink(c):
    c = norm(c)
    out = []
    if c["threads"] > 1:
        out.append(dict(c, threads=c["threads"] - 1))
        out.append(dict(c, threads=max(1, c["threads"] // 2)))
    if c["uneven"]:
        out.append(dict(c, uneven=0))
    if c["nodes"] > 0:
        out.append(dict(c, nodes=c["nodes"] // 2))
    if c["prog"] > 0:
        out.append(dict(c, prog=c["prog"] // 2))
        out.append(dict(c, prog=c["prog"] - 1))
    if c["kind"] == 4:
        out += [dict(c, kind=k) for k in (0, 1, 2, 3)]
    elif c["kind"] > 0:
        out.append(dict(c, kind=0))
    if c["topo"] != "spawn":
        out.append(dict(c, topo="spawn"))
    return [x for x in out if x != c]


def acceptable(solo, lists):
    """python twin of Corr.spec_check, for the large stress runs that are too big to paste into Coq"""
    if all(l == solo[:len(l)] for l in lists):
        return True
    ptr = [0] * len(lists)
    for x in solo[:sum(len(l) for l in lists)]:
        for i, l in enumerate(lists):
            if ptr[i] < len(l) and l[ptr[i]] == x:
                ptr[i] += 1
                break
        else:
            return False
    return all(ptr[i] == len(l) for i, l in enumerate(lists))


# ----------------------------------------------------------------------------- Miri
def miri_run(ctx, binname, flags, timeout):
    env = dict(os.environ, CARGO_NET_OFFLINE="true",
               CARGO_TARGET_DIR=os.path.join(ctx.repo, "target", "verif-harness") if ctx.repo != "/repo"
               else os.path.join(_driver.HARNESS, "target"))
    if flags:
        env["MIRIFLAGS"] = (env.get("MIRIFLAGS", "") + " " + flags).strip()
    hdir = os.path.join(ctx.work, "harness") if ctx.repo != "/repo" else _driver.HARNESS
    try:
        p = subprocess.run(["cargo", "+nightly", "miri", "run", "--offline", "-q", "--manifest-path",
                            os.path.join(hdir, "crates", "c17", "Cargo.toml"), "--bin", binname],
                           stdout=subprocess.PIPE, stderr=subprocess.STDOUT, text=True, timeout=timeout, env=env)
        return p.returncode, p.stdout
    except Exception as e:   # cargo missing or timed out
        return None, "miri not run: %r" % e


def miri_output_problem(out, discipline, native_solo):
    """the lines the Miri program printed (one execution), judged like an executor observation"""
    reps, solos = [], []
    for line in out.splitlines():
        if line.startswith("L "):
            f = [x.strip() for x in line[1:].split("#")]
            if len(f) != 4:
                return "unreadable line %r" % line[:200]
            reps.append(([int(x) for x in f[0].split()], f[1], f[2], f[3] == "1"))
        elif line.startswith("S"):
            solos.append([int(x) for x in line[1:].split()])
    if not reps or len(solos) != 1:
        return "the program did not print its report lines"
    if not all(r[3] for r in reps):
        return "an integrity check inside a treap program failed (shadow sequence / heap order / aggregates / recorded priority)"
    if discipline == "ThreadLocal":
        for r in reps:
            if r[0] != solos[0][:len(r[0])]:
                return "a thread's priorities %s... are not a prefix of the stream a thread draws alone %s..." % (r[0][:6], solos[0][:6])
    elif discipline in ("AtomicRMW", "Locked"):
        # one generator for the process: every draw of the execution is in one of the lists (the late thread's
        # included); together they must be a dealing-out of the stream one native thread draws alone
        lists = [r[0] for r in reps] + solos
        ref = native_solo(sum(len(l) for l in lists))
        if not acceptable(ref, lists):
            return "no sequential execution explains the priorities the threads obtained (lost / duplicated / foreign draw)"
    return None


def miri_stage(ctx, cov, viol, d):
    t0 = time.time()
    seeds = 3 if ctx.tier == "quick" else 12
    replay = ("cd /verif/harness && MIRIFLAGS=-Zmiri-seed=%d cargo +nightly miri run --offline --manifest-path "
              "crates/c17/Cargo.toml --bin c17_miri")
    results_by_pid = {}

    def native_solo(n):
        p = subprocess.run([ctx.bins["release"], "solo", str(n)], stdout=subprocess.PIPE, text=True, timeout=600)
        return [int(x) for x in p.stdout.split()]
    verdict, race, done, rc = "not run", False, 0, None
    for seed in range(seeds):
        rc, out = miri_run(ctx, "c17_miri", "-Zmiri-seed=%d" % seed, 900)
        if rc is None:
            verdict = out[:300] if done == 0 else verdict + " (seed %d: %s)" % (seed, out[:100])
            break
        if rc == 0:
            prob = miri_output_problem(out, d, native_solo)
            if not prob:
                for line in out.splitlines():
                    f = [x.strip() for x in line[1:].split("#")] if line.startswith("L ") else None
                    if f and f[1] != "-" and results_by_pid.setdefault(f[1], f[2]) != f[2]:
                        prob = "program %s gave different results under different schedules" % f[1]
            done += 1
            verdict = "no undefined behaviour reported (%d seeds)" % done
            if prob:
                verdict = "no undefined behaviour, but: " + prob
                viol.append({"name": "miri-output", "payload": {
                    "what": "the multi-threaded treap program run under Miri printed an unacceptable observation: " + prob,
                    "program": "harness/crates/c17/src/bin/c17_miri.rs", "miri_output": out[-3000:], "replay": replay % seed}})
                break
            continue
        verdict = "REPORTED (seed %d): %s" % (seed, out[-600:])
        if "Data race" in out or "Undefined Behavior" in out:
            race = True
            viol.append({"name": "miri", "payload": {
                "what": "Miri reports undefined behaviour when threads build treaps concurrently",
                "program": "harness/crates/c17/src/bin/c17_miri.rs", "miri_output": out[-3000:], "replay": replay % seed}})
        elif "unsupported operation" in out:
            verdict = "Miri cannot interpret the program (unsupported operation): " + out[-400:]
        else:
            # deadlock, panic, abort, build error ... or simply no working Miri here: ask the probe
            prc, pout = miri_run(ctx, "c17_miri_probe", "", 600)
            cov["miri_probe"] = {"rc": prc, "tail": pout[-200:]}
            if prc == 0 and "probe ok" in pout:
                viol.append({"name": "miri-failed", "nofail": True, "kind": "broken-obligation", "payload": {
                    "obligation": "the multi-threaded treap program runs to completion under Miri",
                    "what": "Miri works in this environment (the probe program, which does not call the library, ran cleanly) but "
                            "the program that builds treaps on several threads ended with an error that is not a report of "
                            "undefined behaviour (deadlock / panic / abort / build error)",
                    "program": "harness/crates/c17/src/bin/c17_miri.rs", "miri_output": out[-3000:], "replay": replay % seed}})
            else:
                verdict = "Miri is not usable in this environment (probe failed too): " + out[-300:]
        break
    cov["miri"] = {"rc": rc, "seeds_completed": done, "wall_s": round(time.time() - t0, 1), "verdict": verdict}
    return race


# ----------------------------------------------------------------------------- stress
def stress_shapes(tier):
    """(topology, threads, direct draws, program size, kind, uneven): checked against the spec in Python"""
    q = [("spawn", 8, 20000, 60, 4, 0), ("spawn", 16, 5000, 200, 4, 0),
         ("main", 32, 1000, 300, 4, 0), ("spawn", 64, 100, 64, 4, 1),          # more threads than cores
         ("nested", 8, 4097, 100, 4, 0), ("handoff", 8, 1025, 600, 3, 0),
         ("spawn", 2, 65537, 0, 0, 0), ("spawn", 3, 4096, 2000, 4, 0)]        # refill boundaries; long programs
    if tier == "quick":
        return q
    t = list(q)
    t += [("spawn", 8, 100000, 60, 4, 0), ("spawn", 16, 50000, 60, 4, 0), ("spawn", 4, 200000, 0, 0, 0), ("spawn", 2, 400000, 0, 0, 0),
          ("spawn", 4, 300000, 10, 4, 0),                                    # more than 2^20 draws in the process
          ("main", 64, 2000, 500, 4, 0), ("stagger", 40, 1000, 100, 4, 0), ("nested", 32, 513, 300, 4, 0),
          ("handoff", 16, 100, 2000, 4, 0), ("spawn", 16, 10, 2000, 4, 0), ("spawn", 12, 700, 50, 4, 1)]
    for k in (255, 256, 257, 1023, 1024, 1025, 4095, 4096, 4097, 65535, 65536, 65537):
        t.append(("spawn", 2 + k % 2, k, 3, 1, 0))
    return t


def stress_stage(ctx, cov, viol, quiet):
    runs = stress_shapes(ctx.tier)
    reps = 1 if ctx.tier == "quick" else 3
    bad, total = None, 0
    for profile in PROFILES:
        binp = ctx.bins[profile]
        for sh in runs:
            line = "run %s %d %d %d %d %d" % sh
            for rep in range(reps):
                o = _driver.run_impl(binp, [line])[0]
                total += 1
                if o == "P":
                    bad = (sh, profile, "panic / a child process failed")
                    break
                solo, lists, eq = parse(o)
                if not eq:
                    bad = (sh, profile, "treap results differ from the same program run alone, or an integrity check inside a "
                                        "program failed (shadow sequence / heap order / aggregates / recorded priority)")
                    break
                if not acceptable(solo, lists):
                    fb = next(i for i, l in enumerate(lists) if l != solo[:len(l)])
                    at = next((j for j, x in enumerate(lists[fb]) if j >= len(solo) or x != solo[j]), 0)
                    bad = (sh, profile, "no sequential execution explains the lists; list %d leaves the solo stream at its "
                                        "draw %d: %s vs solo %s" % (fb, at, lists[fb][max(0, at - 2):at + 3], solo[max(0, at - 2):at + 3]))
                    break
            if bad:
                break
        if bad:
            break
    cov["stress_runs"] = total
    cov["stress_shapes"] = ["%s T=%d K=%d P=%d kind=%d uneven=%d" % sh for sh in runs]
    cov["stress_profiles"] = list(PROFILES)
    if bad and not quiet:
        viol.append({"name": "stress", "payload": {
            "what": "real threads observed priority lists that no sequential execution explains (or treap results differ from solo)",
            "executor_line": "run %s %d %d %d %d %d" % bad[0], "profile": bad[1], "detail": bad[2]}})


def extra(ctx, known):
    cov, viol = {}, []
    d = _state.get("discipline", "Unknown")
    cov["extracted_discipline"] = d
    cov["extractor_facts"] = _state.get("facts")
    # 1. obligation: the theorems cover the extracted discipline
    thm = {"ThreadLocal": "c17_threadlocal_safe", "AtomicRMW": "c17_atomic_rmw_safe", "Locked": "c17_locked_safe"}.get(d)
    path = os.path.join(ctx.work, "Current.v")
    with open(path, "w") as f:
        f.write(AUDIT_IMPORT + "\n")
        f.write("(* generated by checks/c17.py from the sources of the treap crate and its path dependencies *)\n")
        f.write("Definition current_discipline : discipline := %s.\n" % (d if d != "Unknown" else "Racy"))
        f.write("Lemma current_safe : forall (G : Type) (step : G -> G) (out : G -> N), safe step out current_discipline.\n")
        f.write("Proof. exact %s. Qed.\nPrint Assumptions current_safe.\n" % (thm or "c17_threadlocal_safe"))
    rc, out = _driver.coqc(path, ctx.work)
    cov["obligation_current_safe"] = "holds" if (rc == 0 and thm) else "FAILS"
    obligation_ok = rc == 0 and thm is not None
    # 2. Miri on the multi-threaded program
    miri_race = miri_stage(ctx, cov, viol, d)
    # 3. stress: big runs, both profiles, checked against the spec in Python (too large for a Coq literal)
    stress_stage(ctx, cov, viol, miri_race)
    if not obligation_ok and not viol:
        viol.append({"name": "discipline", "nofail": True, "payload": {
            "obligation": "current_safe : safe <extracted discipline> (generated Current.v) — extracted discipline is %s, "
                          "for which no safety theorem exists (Racy/SplitAtomic are refuted in Properties.v; Unknown = not "
                          "classified, see extractor_facts.unknown_because)" % d,
            "extractor_facts": _state.get("facts"), "coq_output": out[-1500:]}})
    return {"coverage": cov, "violations": viol, "known": []}
