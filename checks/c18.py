"""C18 — f80 (x87 80-bit extended): correctly rounded arithmetic, exact conversions, IEEE order (rlib/f80)."""
import struct

ID = "C18"
CRATE = "c18"
COQ_DIR = "C18"
COQ_DEPS = []
PROFILES = ["debug"]
CORR_IMPORT = "From Coq Require Import Floats.SpecFloat Uint63.\nFrom RlibV Require Import C18.Model C18.Corr.\nOpen Scope Z_scope.\nOpen Scope uint63_scope."
CASE_TYPE = "case"
AUDIT_IMPORT = ("From Coq Require Import ZArith Reals Bool Floats.SpecFloat.\n"
                "From Flocq Require Import Core.Zaux Core.Raux Core.Defs Core.Generic_fmt Core.FLT Core.Round_NE "
                "IEEE754.BinarySingleNaN.\n"
                "From RlibV Require Import C18.Model C18.Corr C18.Properties.\nOpen Scope Z_scope.")
EXPLAIN = "explain"
AXIOM_ALLOW = []
THEOREMS = []
SHARD = 1250
SEARCH_MAX = 20000
RULE = ("boundary set x boundary set of binary64 bit patterns, exhaustively (signed zeros, min/mid/max subnormals, "
        "MIN_POSITIVE, powers of two and their +-1ulp neighbours, 1-2^-53, 1+2^-52, 0.1, 1/3, huge/tiny exponents, "
        "f64::MAX, +-inf, quiet/signalling/negative NaN), plus random bit patterns, pairs with nearby exponents "
        "(cancellation, carries), half-ulp offsets at 64 and 53 bits (ties), sparse significands; every pair runs "
        "+ - * / neg, the chain (x*y+x)/y (intermediates need all 64 significand bits), f64->f80->f64, f80->f64 of "
        "each result, < <= > >= == partial_cmp min max abs; non-trivial = both operands finite, non-zero, different")
TRUSTED = ["executor harness/crates/c18 (calls rlib_f80 operators/methods, prints the 10 raw bytes of each result "
           "as (sign/exponent word, significand word) and f64 results as bit patterns)",
           "checks/c18.py (case generator, Coq term printer)",
           "x87 instructions are modelled, not verified: IEEE semantics at (prec 64, emax 16384), control word "
           "0x37F (extended precision, round to nearest even); the batch lemmas compare the hardware's raw results "
           "with the model bit for bit on every run"]
ASSUMPTIONS = ["operands are images of binary64 values (as in the property); NaN payloads are not modelled: NaNs are "
               "compared as a class (x87 quiets signalling NaNs on load)",
               "theorems are about the spec_float model; correspondence with the inline assembly is sampled"]

OPS = {"all": "OAll", "add": "OAdd", "sub": "OSub", "mul": "OMul", "div": "ODiv", "neg": "ONeg", "chain": "OChain",
       "conv": "OConv", "rel": "ORel", "minmax": "OMinMax", "abs": "OAbs"}
M64 = (1 << 64) - 1
SIGN = 1 << 63


def bits(x):
    return struct.unpack("<Q", struct.pack("<d", x))[0]


def harness_line(c):
    return "%s %s %s" % (c["op"], c["a"], c["b"])


def w(v):
    v = int(v)
    return "(W %d %d)" % (v >> 32, v & 0xFFFFFFFF)


def r(se, m):
    m = int(m)
    return "(R %s %d %d)" % (se, m >> 32, m & 0xFFFFFFFF)


def coq_term(c, obs, profile):
    a, b = int(c["a"], 16), int(c["b"], 16)
    if obs == "P":
        # no operation of the crate panics; make the case fail both checks
        bad = "(R 0 0 1)"
        return "(Case %s %s %s (mkObs %s 1 1 1 1 1 1 true true true true true 9 %s))" % (
            OPS[c["op"]], w(a), w(b), " ".join([bad] * 9), " ".join([bad] * 3))
    t = obs.split()
    raws = [r(t[2 * i], t[2 * i + 1]) for i in range(9)]
    f64s = [w(v) for v in t[18:24]]
    bools = ["true" if v == "1" else "false" for v in t[24:29]]
    pc = t[29]
    tail = [r(t[30 + 2 * i], t[31 + 2 * i]) for i in range(3)]
    return "(Case %s %s %s (mkObs %s %s %s %s %s))" % (
        OPS[c["op"]], w(a), w(b), " ".join(raws), " ".join(f64s), " ".join(bools), pc, " ".join(tail))


def fclass(h):
    v = int(h, 16)
    e, f = (v >> 52) & 0x7FF, v & ((1 << 52) - 1)
    if e == 0x7FF:
        return "nan" if f else "inf"
    if e == 0:
        return "sub" if f else "zero"
    return "norm"


def nontrivial(c, obs):
    return fclass(c["a"]) in ("sub", "norm") and fclass(c["b"]) in ("sub", "norm") and \
        (int(c["a"], 16) & ~SIGN) != (int(c["b"], 16) & ~SIGN)


def classify(c, obs):
    return "%s/%s,%s" % (c["op"], fclass(c["a"]), fclass(c["b"]))


def hx(v):
    return "%016x" % (v & M64)


# ---------------------------------------------------------------------------- boundary set
def pow2(k):
    """bit pattern of 2^k (k in [-1074, 1023])"""
    if k >= -1022:
        return (k + 1023) << 52
    return 1 << (k + 1074)


def boundary(tier):
    mags = [
        0, 1, 2, (1 << 52) - 1, 1 << 51,                      # zero, min / mid / max subnormals
        1 << 52, (1 << 52) + 1,                               # MIN_POSITIVE and its successor
        0x3FEFFFFFFFFFFFFF, 0x3FF0000000000000, 0x3FF0000000000001,   # 1-2^-53, 1, 1+2^-52
        bits(0.1), bits(1.0 / 3.0), bits(3.0), bits(0.5), bits(2.0), bits(1e17),
        0x3FFFFFFFFFFFFFFF,                                   # 2 - 2^-52: all-ones significand
        pow2(-64), pow2(-63), pow2(-53), pow2(53), pow2(63), pow2(64),
        pow2(-1021), pow2(-537), pow2(512), pow2(1023),
        0x7FEFFFFFFFFFFFFF, 0x7FEFFFFFFFFFFFFE,               # f64::MAX and its predecessor
        0x7FF0000000000000,                                   # inf
    ]
    nans = [0x7FF8000000000000, 0x7FF0000000000001, 0xFFF8000000000000]
    if tier != "quick":
        extra = []
        for k in [-1074, -1073, -1050, -1023, -1022, -1000, -600, -512, -256, -128, -65, -62, -54, -52, -51, -32, -12,
                  -11, -2, -1, 1, 2, 10, 11, 12, 31, 32, 51, 52, 54, 62, 65, 100, 127, 128, 255, 256, 511, 600, 1000,
                  1022]:
            p = pow2(k)
            extra += [p, p + 1] + ([p - 1] if p > 1 else [])
        extra += [bits(v) for v in (2.0 / 3.0, 3.141592653589793, 2.718281828459045, 1e-17, 1e308, 1e-308, 123.456,
                                    100.1, 0.7, 1e16, 9007199254740993.0, 4503599627370497.0, 1.5, 0.75, 7.0, 10.0)]
        extra += [0x3FF5555555555555, 0x3FFAAAAAAAAAAAAA, 0x3FF0000000000FFF, 0x3FF00000FFFFFFFF, 0x3FFFFFFFF0000000,
                  0x000FFFFFFFFFFFFE, 0x0008000000000001, 0x0000000000000003, 0x7FE0000000000001, 0x0010000000000002,
                  0x433FFFFFFFFFFFFF, 0x4340000000000001]
        mags += extra
        nans += [0x7FFFFFFFFFFFFFFF, 0x7FF4000000000000]
    seen, out = set(), []
    for m in mags:
        for v in (m, m | SIGN):
            if v not in seen:
                seen.add(v)
                out.append(v)
    for v in nans:
        if v not in seen:
            seen.add(v)
            out.append(v)
    return out


def mk(e, f, s=0):
    """assemble a pattern from biased exponent e (clamped to finite), 52-bit fraction f, sign s"""
    e = max(0, min(2046, e))
    return (s << 63) | (e << 52) | (f & ((1 << 52) - 1))


def sparse(rng):
    f = 0
    for _ in range(rng.range(0, 3)):
        f |= 1 << rng.below(52)
    if rng.chance(1, 3):
        k = rng.range(1, 52)
        f |= (1 << k) - 1                      # low run of ones: long carry chains
    if rng.chance(1, 4):
        k = rng.range(1, 52)
        f |= ((1 << k) - 1) << (52 - k)        # high run of ones
    return f


def random_pair(rng):
    k = rng.below(10)
    if k == 0:
        return rng.next(), rng.next()
    if k == 1:                                  # moderate exponents, random significands
        return mk(rng.range(900, 1150), rng.next(), rng.below(2)), mk(rng.range(900, 1150), rng.next(), rng.below(2))
    if k in (2, 3):                             # nearby exponents: alignment shifts, carries, cancellation
        e = rng.range(1, 2046)
        d = rng.choice([-65, -64, -63, -54, -53, -52, -13, -12, -11, -10, -2, -1, 0, 0, 1, 2, 11, 12, 53, 64])
        fa = rng.next() if k == 2 else sparse(rng)
        fb = rng.next() if rng.chance(1, 2) else sparse(rng)
        return mk(e, fa, rng.below(2)), mk(e + d, fb, rng.below(2))
    if k == 4:                                  # neighbours: massive cancellation in a-b, quotient near 1
        a = mk(rng.range(1, 2046), rng.next(), rng.below(2))
        b = (a & ~SIGN) + rng.range(-3, 3)
        b = max(1, min(0x7FEFFFFFFFFFFFFF, b)) | (rng.below(2) << 63)
        return a, b
    if k == 5:                                  # half-ulp offsets at 64 bits (and 53 bits): ties in the sum
        e = rng.range(70, 2046)
        a = mk(e, rng.next() if rng.chance(1, 2) else sparse(rng), rng.below(2))
        off = rng.choice([64, 64, 63, 65, 53, 54, 52, 12, 11])
        f = rng.choice([0, 0, 1, 1 << 51, (1 << 52) - 1, rng.next()])
        return a, mk(e - off, f, rng.below(2))
    if k == 6:                                  # sparse x sparse: exact products / exact ties
        return mk(rng.range(1, 2046), sparse(rng), rng.below(2)), mk(rng.range(1, 2046), sparse(rng), rng.below(2))
    if k == 7:                                  # subnormal operand
        a = rng.next() & ((1 << 52) - 1) if rng.chance(1, 2) else (1 << rng.below(52)) | rng.below(4)
        a |= rng.below(2) << 63
        b = mk(rng.range(0, 2046), rng.next() if rng.chance(1, 2) else sparse(rng), rng.below(2))
        return (a, b) if rng.chance(1, 2) else (b, a)
    if k == 8:                                  # results that overflow / underflow binary64 on the way back
        e = rng.choice([1, 2, 30, 500, 511, 512, 513, 1023, 1500, 1535, 1536, 2000, 2045, 2046])
        e2 = rng.choice([1, 2, 30, 500, 511, 512, 513, 1023, 1500, 1535, 1536, 2000, 2045, 2046])
        return mk(e, rng.next(), rng.below(2)), mk(e2, rng.next(), rng.below(2))
    # equal magnitudes, both sign combinations; special operand against random
    a = rng.next()
    if rng.chance(1, 2):
        return a, a ^ (rng.below(2) << 63)
    sp = rng.choice([0, SIGN, 0x7FF0000000000000, 0xFFF0000000000000, 0x7FF8000000000000, 1, 0x7FEFFFFFFFFFFFFF])
    return (a, sp) if rng.chance(1, 2) else (sp, a)


def generate(rng, tier):
    cases = []
    B = boundary(tier)
    for a in B:
        for b in B:
            cases.append({"op": "all", "a": hx(a), "b": hx(b)})
    n = 900 if tier == "quick" else 16000
    for _ in range(n):
        a, b = random_pair(rng)
        cases.append({"op": "all", "a": hx(a), "b": hx(b)})
    return cases


def shrink(c):
    out = []
    if c["op"] == "all":
        for op in OPS:
            if op != "all":
                out.append(dict(c, op=op))
        return out
    for key in ("a", "b"):
        v = int(c[key], 16)
        cands = [0x3FF0000000000000, 0, v & ~SIGN]
        for k in (52, 40, 26, 13, 4, 1):                      # clear low significand bits
            cands.append(v & ~((1 << k) - 1))
        e = (v >> 52) & 0x7FF
        if 0 < e < 0x7FF:
            cands.append((v & ~(0x7FF << 52)) | (1023 << 52))    # move into [1, 2)
            cands.append((v & ~(0x7FF << 52)) | (((e + 1023) // 2) << 52))
        for w in cands:
            if w != v:
                out.append(dict(c, **{key: hx(w)}))
    return out


def known_finding(case, obs, profile):
    return None


MANIFEST = {
    "text": "Coq theorems about an executable spec_float model of rlib_f80 (IEEE operations at prec 64 / emax 16384, "
            "comparisons read from the x87 flags exactly as the code reads them); the model is tied to the inline "
            "assembly on every run: raw results of + - * / neg, an operation chain, all conversions, all relations, "
            "min/max/abs on boundary x boundary binary64 patterns plus random pairs are compared with the model and, "
            "independently, with exact integer/rational arithmetic (nearest-even check against both neighbours).",
    "level_note": "Trusted: Coq kernel + vm_compute, classical-real axioms of the standard library (through Flocq), "
                  "the Rust executor and the Python case printer; x87 semantics are assumed to be the IEEE semantics "
                  "of the model (checked bit for bit on every sampled input, not proved).",
    "technique": "Coq proof over SpecFloat/Flocq model + vm_compute correspondence batches against the real x87 results",
}
