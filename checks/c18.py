"""C18 — f80 (x87 80-bit extended): correctly rounded arithmetic, exact conversions, IEEE order (rlib/f80)."""
import struct
import sys

ID = "C18"
CRATE = "c18"
COQ_DIR = "C18"
COQ_DEPS = []
PROFILES = ["debug", "release"]
CORR_IMPORT = "From Coq Require Import Floats.SpecFloat Uint63.\nFrom RlibV Require Import C18.Model C18.Corr.\nOpen Scope Z_scope.\nOpen Scope uint63_scope."
CASE_TYPE = "case"
AUDIT_IMPORT = ("From Coq Require Import ZArith Reals Bool List Floats.SpecFloat.\n"
                "From Flocq Require Import Core.Zaux Core.Raux Core.Defs Core.Generic_fmt Core.FLT Core.Round_NE "
                "IEEE754.BinarySingleNaN.\n"
                "From RlibV Require Import C18.Model C18.Corr C18.Spec C18.Properties.\nOpen Scope Z_scope.")
EXPLAIN = "explain"
AXIOM_ALLOW = ["ClassicalDedekindReals.sig_forall_dec", "ClassicalDedekindReals.sig_not_dec",
               "FunctionalExtensionality.functional_extensionality_dep", "Classical_Prop.classic"]
THEOREMS = [
    ("c18_transport_add", "forall (prec emax : Z) (Hp : FLX.Prec_gt_0 prec) (He : Prec_lt_emax prec emax) (x y : binary_float prec emax), SFadd prec emax (B2SF x) (B2SF y) = B2SF (@Bplus prec emax Hp He mode_NE x y)"),
    ("c18_transport_sub", "forall (prec emax : Z) (Hp : FLX.Prec_gt_0 prec) (He : Prec_lt_emax prec emax) (x y : binary_float prec emax), SFsub prec emax (B2SF x) (B2SF y) = B2SF (@Bminus prec emax Hp He mode_NE x y)"),
    ("c18_transport_mul", "forall (prec emax : Z) (Hp : FLX.Prec_gt_0 prec) (He : Prec_lt_emax prec emax) (x y : binary_float prec emax), SFmul prec emax (B2SF x) (B2SF y) = B2SF (@Bmult prec emax Hp He mode_NE x y)"),
    ("c18_transport_div", "forall (prec emax : Z) (Hp : FLX.Prec_gt_0 prec) (He : Prec_lt_emax prec emax) (x y : binary_float prec emax), SFdiv prec emax (B2SF x) (B2SF y) = B2SF (@Bdiv prec emax Hp He mode_NE x y)"),
    ("c18_add_correct", "forall a b : spec_float, valid64 a -> valid64 b -> finite a -> finite b -> let r := add80 (widen a) (widen b) in val r = rnd80 (val a + val b) /\\ finite r /\\ valid80 r /\\ sign_SF r = sum_sign (val a + val b) (sign_SF a) (sign_SF b)"),
    ("c18_sub_correct", "forall a b : spec_float, valid64 a -> valid64 b -> finite a -> finite b -> let r := sub80 (widen a) (widen b) in val r = rnd80 (val a - val b) /\\ finite r /\\ valid80 r /\\ sign_SF r = sum_sign (val a - val b) (sign_SF a) (negb (sign_SF b))"),
    ("c18_mul_correct", "forall a b : spec_float, valid64 a -> valid64 b -> finite a -> finite b -> let r := mul80 (widen a) (widen b) in val r = rnd80 (val a * val b) /\\ finite r /\\ valid80 r /\\ sign_SF r = xorb (sign_SF a) (sign_SF b)"),
    ("c18_div_correct", "forall a b : spec_float, valid64 a -> valid64 b -> finite a -> finite b -> val b <> 0%R -> let r := div80 (widen a) (widen b) in val r = rnd80 (val a / val b) /\\ finite r /\\ valid80 r /\\ sign_SF r = xorb (sign_SF a) (sign_SF b)"),
    ("c18_add_correct_f80", "forall x y : spec_float, valid80 x -> valid80 y -> finite x -> finite y -> (Rabs (rnd80 (val x + val y)) < bpow radix2 e80)%R -> val (add80 x y) = rnd80 (val x + val y) /\\ finite (add80 x y) /\\ valid80 (add80 x y) /\\ sign_SF (add80 x y) = sum_sign (val x + val y) (sign_SF x) (sign_SF y)"),
    ("c18_sub_correct_f80", "forall x y : spec_float, valid80 x -> valid80 y -> finite x -> finite y -> (Rabs (rnd80 (val x - val y)) < bpow radix2 e80)%R -> val (sub80 x y) = rnd80 (val x - val y) /\\ finite (sub80 x y) /\\ valid80 (sub80 x y) /\\ sign_SF (sub80 x y) = sum_sign (val x - val y) (sign_SF x) (negb (sign_SF y))"),
    ("c18_mul_correct_f80", "forall x y : spec_float, valid80 x -> valid80 y -> finite x -> finite y -> (Rabs (rnd80 (val x * val y)) < bpow radix2 e80)%R -> val (mul80 x y) = rnd80 (val x * val y) /\\ finite (mul80 x y) /\\ valid80 (mul80 x y) /\\ sign_SF (mul80 x y) = xorb (sign_SF x) (sign_SF y)"),
    ("c18_div_correct_f80", "forall x y : spec_float, valid80 x -> valid80 y -> finite x -> finite y -> val y <> 0%R -> (Rabs (rnd80 (val x / val y)) < bpow radix2 e80)%R -> val (div80 x y) = rnd80 (val x / val y) /\\ finite (div80 x y) /\\ valid80 (div80 x y) /\\ sign_SF (div80 x y) = xorb (sign_SF x) (sign_SF y)"),
    ("c18_add_special", "(forall y, add80 S754_nan y = S754_nan) /\\ (forall x, add80 x S754_nan = S754_nan) /\\ (forall s, add80 (S754_infinity s) (S754_infinity s) = S754_infinity s) /\\ (forall s, add80 (S754_infinity s) (S754_infinity (negb s)) = S754_nan) /\\ (forall s y, finite y -> add80 (S754_infinity s) y = S754_infinity s /\\ add80 y (S754_infinity s) = S754_infinity s) /\\ (forall s1 s2, add80 (S754_zero s1) (S754_zero s2) = S754_zero (andb s1 s2)) /\\ (forall s y, is_finite_strict_SF y = true -> add80 (S754_zero s) y = y /\\ add80 y (S754_zero s) = y)"),
    ("c18_sub_special", "(forall y, sub80 S754_nan y = S754_nan) /\\ (forall x, sub80 x S754_nan = S754_nan) /\\ (forall s, sub80 (S754_infinity s) (S754_infinity (negb s)) = S754_infinity s) /\\ (forall s, sub80 (S754_infinity s) (S754_infinity s) = S754_nan) /\\ (forall s y, finite y -> sub80 (S754_infinity s) y = S754_infinity s /\\ sub80 y (S754_infinity s) = S754_infinity (negb s)) /\\ (forall s1 s2, sub80 (S754_zero s1) (S754_zero s2) = S754_zero (andb s1 (negb s2))) /\\ (forall s y, is_finite_strict_SF y = true -> sub80 (S754_zero s) y = SFopp y /\\ sub80 y (S754_zero s) = y)"),
    ("c18_mul_special", "(forall y, mul80 S754_nan y = S754_nan) /\\ (forall x, mul80 x S754_nan = S754_nan) /\\ (forall s1 s2, mul80 (S754_infinity s1) (S754_infinity s2) = S754_infinity (xorb s1 s2)) /\\ (forall s1 s2, mul80 (S754_infinity s1) (S754_zero s2) = S754_nan /\\ mul80 (S754_zero s2) (S754_infinity s1) = S754_nan) /\\ (forall s y, is_finite_strict_SF y = true -> mul80 (S754_infinity s) y = S754_infinity (xorb s (sign_SF y)) /\\ mul80 y (S754_infinity s) = S754_infinity (xorb (sign_SF y) s)) /\\ (forall s y, finite y -> mul80 (S754_zero s) y = S754_zero (xorb s (sign_SF y)) /\\ mul80 y (S754_zero s) = S754_zero (xorb (sign_SF y) s))"),
    ("c18_div_special", "(forall y, div80 S754_nan y = S754_nan) /\\ (forall x, div80 x S754_nan = S754_nan) /\\ (forall s1 s2, div80 (S754_infinity s1) (S754_infinity s2) = S754_nan) /\\ (forall s1 s2, div80 (S754_zero s1) (S754_zero s2) = S754_nan) /\\ (forall s y, finite y -> div80 (S754_infinity s) y = S754_infinity (xorb s (sign_SF y)) /\\ div80 y (S754_infinity s) = S754_zero (xorb (sign_SF y) s)) /\\ (forall s y, is_finite_strict_SF y = true -> div80 y (S754_zero s) = S754_infinity (xorb (sign_SF y) s) /\\ div80 (S754_zero s) y = S754_zero (xorb s (sign_SF y)))"),
    ("c18_neg", "forall x : spec_float, val (neg80 x) = (- val x)%R /\\ neg80 (neg80 x) = x /\\ (x <> S754_nan -> sign_SF (neg80 x) = negb (sign_SF x)) /\\ is_finite_SF (neg80 x) = is_finite_SF x /\\ is_nan_SF (neg80 x) = is_nan_SF x /\\ (valid80 x -> valid80 (neg80 x))"),
    ("c18_widen_exact", "forall a : spec_float, valid64 a -> valid80 (widen a) /\\ val (widen a) = val a /\\ is_finite_SF (widen a) = is_finite_SF a /\\ is_nan_SF (widen a) = is_nan_SF a /\\ sign_SF (widen a) = sign_SF a /\\ (forall s, widen a = S754_zero s <-> a = S754_zero s) /\\ (forall s, widen a = S754_infinity s <-> a = S754_infinity s) /\\ (widen a = S754_nan <-> a = S754_nan)"),
    ("c18_widen_injective", "forall a b : spec_float, valid64 a -> valid64 b -> widen a = widen b -> a = b"),
    ("c18_roundtrip_f64", "forall a : spec_float, valid64 a -> narrow (widen a) = a"),
    ("c18_narrow_correct", "forall (s : bool) (m : positive) (e : Z), let x := S754_finite s m e in ((Rabs (rnd64 (val x)) < bpow radix2 e64)%R -> val (narrow x) = rnd64 (val x) /\\ is_finite_SF (narrow x) = true /\\ sign_SF (narrow x) = s /\\ valid64 (narrow x)) /\\ ((bpow radix2 e64 <= Rabs (rnd64 (val x)))%R -> narrow x = S754_infinity s)"),
    ("c18_narrow_special", "(forall s, narrow (S754_zero s) = S754_zero s) /\\ (forall s, narrow (S754_infinity s) = S754_infinity s) /\\ narrow S754_nan = S754_nan"),
    ("c18_lt_is_ieee", "forall x y : spec_float, (lt80 x y = true <-> SFcompare x y = Some Lt) /\\ (gt80 x y = true <-> SFcompare x y = Some Gt)"),
    ("c18_eq_is_ieee", "forall x y : spec_float, eq80 x y = true <-> SFcompare x y = Some Eq"),
    ("c18_le_ge_partial_cmp", "forall x y : spec_float, (le80 x y = true <-> SFcompare x y = Some Lt \\/ SFcompare x y = Some Eq) /\\ (ge80 x y = true <-> SFcompare x y = Some Gt \\/ SFcompare x y = Some Eq) /\\ partial_cmp80 x y = SFcompare x y /\\ (partial_cmp80 x y = None <-> x = S754_nan \\/ y = S754_nan)"),
    ("c18_eq_consistent", "forall x y : spec_float, eq80 x y = true <-> partial_cmp80 x y = Some Eq"),
    ("c18_compare_real", "forall a b : spec_float, valid64 a -> valid64 b -> finite a -> finite b -> partial_cmp80 (widen a) (widen b) = Some (Rcompare (val a) (val b))"),
    ("c18_compare_real_f80", "forall x y : spec_float, valid80 x -> valid80 y -> finite x -> finite y -> SFcompare x y = Some (Rcompare (val x) (val y))"),
    ("c18_compare_inf", "(forall s y, finite y -> SFcompare (S754_infinity s) y = Some (if s then Lt else Gt) /\\ SFcompare y (S754_infinity s) = Some (if s then Gt else Lt)) /\\ SFcompare (S754_infinity true) (S754_infinity false) = Some Lt /\\ SFcompare (S754_infinity false) (S754_infinity true) = Some Gt /\\ (forall s, SFcompare (S754_infinity s) (S754_infinity s) = Some Eq)"),
    ("c18_nan_unordered", "forall y : spec_float, le80 S754_nan y = false /\\ ge80 S754_nan y = false /\\ le80 y S754_nan = false /\\ ge80 y S754_nan = false /\\ partial_cmp80 S754_nan y = None /\\ eq80 S754_nan y = false /\\ eq80 y S754_nan = false"),
    ("c18_zeros_equal", "forall s1 s2 : bool, eq80 (S754_zero s1) (S754_zero s2) = true"),
    ("c18_min_max_abs", "forall x y : spec_float, x <> S754_nan -> y <> S754_nan -> ((min80 x y = x \\/ min80 x y = y) /\\ SFleb (min80 x y) x = true /\\ SFleb (min80 x y) y = true) /\\ ((max80 x y = x \\/ max80 x y = y) /\\ SFleb x (max80 x y) = true /\\ SFleb y (max80 x y) = true) /\\ val (abs80 x) = Rabs (val x) /\\ abs80 x = match x with S754_zero _ => x | _ => SFabs x end"),
    ("c18_min_max_ties", "forall x y : spec_float, (SFcompare x y = Some Eq -> min80 x y = y /\\ max80 x y = x) /\\ (x = S754_nan \\/ y = S754_nan -> min80 x y = y /\\ max80 x y = x)"),
    ("c18_rne_ok_sound", "forall prec emax : Z, 1 < prec -> prec < emax -> forall (num den E : Z) (r : spec_float), 0 < num -> 0 < den -> rne_ok prec emax num den E r = true -> let rv := round radix2 (FLT_exp (3 - emax - prec) prec) ZnearestE (IZR num / IZR den * bpow radix2 E) in match r with | S754_finite _ m e => rv = F2R (Float radix2 (Zpos m) e) /\\ bounded prec emax m e = true | S754_zero _ => rv = 0%R | S754_infinity _ => (bpow radix2 emax <= rv)%R | S754_nan => False end"),
    ("c18_spec_check_sound", "forall (op : opk) (a b : Z) (o : obs), spec_check (Case op a b o) = true -> let x := decode80 (o_wa o) in let y := decode80 (o_wb o) in (sel op OAdd = true -> valid80 x /\\ valid80 y /\\ decode80 (o_add o) = add80 x y /\\ decode64 (o_nadd o) = narrow (decode80 (o_add o))) /\\ (sel op OSub = true -> valid80 x /\\ valid80 y /\\ decode80 (o_sub o) = sub80 x y /\\ decode64 (o_nsub o) = narrow (decode80 (o_sub o))) /\\ (sel op OMul = true -> valid80 x /\\ valid80 y /\\ decode80 (o_mul o) = mul80 x y /\\ decode64 (o_nmul o) = narrow (decode80 (o_mul o))) /\\ (sel op ODiv = true -> valid80 x /\\ valid80 y /\\ decode80 (o_div o) = div80 x y /\\ decode64 (o_ndiv o) = narrow (decode80 (o_div o))) /\\ (sel op OChain = true -> valid80 x /\\ valid80 y /\\ valid80 (decode80 (o_mul o)) /\\ decode80 (o_mad o) = add80 (decode80 (o_mul o)) x /\\ decode80 (o_chain o) = div80 (decode80 (o_mad o)) y /\\ decode64 (o_nchain o) = narrow (decode80 (o_chain o))) /\\ (sel op OExt = true -> (forall (u v : raw) (r : relobs), In (u, v, r) (ext_pairs o) -> let X := decode80 u in let Y := decode80 v in valid80 X /\\ valid80 Y /\\ r_lt r = lt80 X Y /\\ r_le r = le80 X Y /\\ r_gt r = gt80 X Y /\\ r_ge r = ge80 X Y /\\ r_eq r = eq80 X Y /\\ r_pcmp r = pcmp_code (partial_cmp80 X Y) /\\ (X <> S754_nan -> Y <> S754_nan -> ((decode80 (r_min r) = X \\/ decode80 (r_min r) = Y) /\\ SFleb (decode80 (r_min r)) X = true /\\ SFleb (decode80 (r_min r)) Y = true) /\\ ((decode80 (r_max r) = X \\/ decode80 (r_max r) = Y) /\\ SFleb X (decode80 (r_max r)) = true /\\ SFleb Y (decode80 (r_max r)) = true))) /\\ (forall u t : raw, In (u, t) (ext_abs o) -> match decode80 u with | S754_nan => True | S754_zero _ => exists s : bool, decode80 t = S754_zero s | E => decode80 t = SFabs E end) /\\ decode64 (x_nmad (o_ext o)) = narrow (decode80 (o_mad o)) /\\ (forall (n : Z) (w : raw), In (n, w) (ext_widened o) -> decode80 w = widen (decode64 n)))"),
    ("c18_spec_trace_sound", "forall (a b : Z) (wa wb : raw) (steps : list tstep), spec_check (Trace a b wa wb steps) = true -> decode80 wa = widen (decode64 a) /\\ decode80 wb = widen (decode64 b) /\\ forall (k : nat) (op : top) (i j : nat) (r : raw) (n code : Z), nth_error steps k = Some (TS op i j r n code) -> let regs := wa :: wb :: map step_raw (firstn k steps) in let U := decode80 (nth i regs (0, 0)) in let V := decode80 (nth j regs (0, 0)) in let R := decode80 r in (i < k + 2)%nat /\\ (j < k + 2)%nat /\\ valid80 U /\\ valid80 V /\\ match op with | TAdd => R = add80 U V | TSub => R = sub80 U V | TMul => R = mul80 U V | TDiv => R = div80 U V | TNeg => R = neg80 U | TRnd => R = widen (narrow U) | TAbs => match U with | S754_nan => True | S754_zero _ => exists s : bool, R = S754_zero s | E => R = SFabs E end | TMin => U <> S754_nan -> V <> S754_nan -> (R = U \\/ R = V) /\\ SFleb R U = true /\\ SFleb R V = true | TMax => U <> S754_nan -> V <> S754_nan -> (R = U \\/ R = V) /\\ SFleb U R = true /\\ SFleb V R = true end /\\ decode64 n = narrow R /\\ code = rel_code U V"),
]
# Driver limitation (checks/_driver.py parse_assumptions): the block of text after an "Axioms:" header runs up to
# the next header and therefore contains the output of the NEXT `Check (name : statement).`, whose first line
# "c18_xxx : ..." is mistaken for one more axiom of the previous theorem.  Until the driver cuts a block at the first
# unindented line that is not followed by an indented type, the names of the pinned theorems are tolerated here.
# (No constant of that name can be an axiom: the forbidden-token scan rejects every Axiom/Parameter declaration.)
AXIOM_ALLOW += [n for n, _ in THEOREMS]
SHARD = 1350
# experiments only (is a seeded change caught by the routes / the traces alone?): C18_NO_X=1 makes the executor
# keep printing observation lines when one of its internal consistency checks fails
import os as _os
HARNESS_ENV = {"C18_NO_X": "1"} if _os.environ.get("C18_NO_X") else None
SEARCH_MAX = 20000
RULE = ("boundary set x boundary set of binary64 bit patterns, exhaustively (signed zeros, min/mid/max subnormals, "
        "MIN_POSITIVE, powers of two and their +-1ulp neighbours, 1-2^-53, 1+2^-52, 0.1, 1/3, huge/tiny exponents, "
        "f64::MAX, +-inf, quiet/signalling/negative NaN), plus random bit patterns, pairs with nearby exponents "
        "(cancellation, carries), half-ulp offsets at 64 and 53 bits (ties), sparse significands; every pair runs "
        "+ - * / neg, the chain (x*y+x)/y (intermediates need all 64 significand bits), f64->f80->f64, f80->f64 of "
        "each result, < <= > >= == partial_cmp min max abs on (x, y); and the same relations, min, max, abs on "
        "EXTENDED-FORMAT operands that are not images of binary64 values: e in {x*y+x, x*y, x/y, x+y} against "
        "n_e = f80(f64(e)) in both orders (equal, one 64-bit ulp apart, +-inf when e is beyond the binary64 range, "
        "+-0 when below it) and the pairs (x*y+x, x*y), (x*y, x+y), (x+y, x/y); dedicated random categories: e and "
        "n_e one 64-bit ulp apart (sums a +- 2^(E-63), products (1+f 2^-52)(1+2^-11)), products/quotients outside "
        "the binary64 exponent range, x*y+x against x*y with |y| >= 2^52; corpus witnesses 1e17+1, f64::MAX*16, "
        "f64::MAX^2, MIN_POSITIVE^2, 2^-1076, 1+2^-63, 1-2^-64, 1/3 (coverage counters ext_* in the evidence); "
        "targeted pairs at the format ends (f64::MAX + 2^970: the binary64 overflow tie, its neighbours, 2^969, "
        "2^971; smallest subnormal x values around 1/2: the 2^-1075 tie). OTHER ENTRY POINTS that must print the "
        "very same observation line and are fed to the same Coq case (routes; a spread subset of the pairs each): "
        "a = arithmetic through += -= *= /= (t = x; t += y; acc = p; acc += x; acc /= y), c = operands +0.0 / 1.0 "
        "taken from f80::ZERO / f80::default() / f80::ONE (every boundary value against both), s = a == b with the "
        "SAME reference on both sides of every relation (x == x, x.partial_cmp(&x); every boundary value incl. NaN), "
        "l = every partial_cmp of the line evaluated on copies made by a loop pattern, t = the script on a freshly "
        "spawned thread that never called f80_init, i = f80_init called again before and in the middle of the "
        "script, and all of them together. HISTORIES THAT END ABNORMALLY before the script, on the same thread (the "
        "operations depend on hidden x87 state: rounding / precision control, masks, register stack; an entry point "
        "that changes it must restore it on every exit): operands and results of the case (x, y, x+y, x*y, x/y, "
        "x*y+x) and six fixed values (2.5, -0.1, 1/3, 123456.789, 1e17+1, -0.99999..) are formatted with Display / Debug "
        "/ LowerExp / UpperExp (when implemented) under 22 specifications ({} {:?} {:.3} {:.18} {:10.2} {:.0} {:+.6?} "
        "{:<12.4} {:08.3} {:.*} {:>24.17?} {:.19} {:.40?}, slices, Option under {:#?}, a derived Debug struct, four "
        "values in one call, a user Display that returns Err after the f80) into f = a String and a sink that does f80 "
        "arithmetic of its own inside write_str (must see the caller's state), b = a bounded fmt::Write sink and a "
        "bounded io::Write sink that fail after 0, 1, 2, len/2, len-1 bytes, p = a sink that panics, user Display "
        "impls that panic before / after the f80, to_string of a Display returning Err, rlib_show::Show (panics "
        "caught), u = user closures that compare / convert / add f80 values and panic or stop early (sort_by, "
        "sort_unstable_by, max_by, min_by, binary_search_by with a comparator that panics at its k-th call or does "
        "partial_cmp(..).unwrap() on a NaN, folds with += *=, map with conversions, f80 operations in a Drop during "
        "unwinding, try_fold / find / any / position / take_while), h = the script on a thread spawned after the "
        "preamble from the thread that ran it (inherits the floating-point environment); formatted text must be the "
        "same before and after the abnormal exits and a bounded sink must have received a prefix of it. HIDDEN STATE: "
        "every case first runs every kind of operation once on its operands (conversions, + - * / and assigning "
        "forms, neg, abs, six relations, partial_cmp, min, max, Display, Debug, with a precision, Show) and compares "
        "the x87 control word (fnstcw), TOP / stack fault (fnstsw) and the MXCSR control bits before and after EACH; so "
        "does every formatting call / closure of the preamble and every step of a straight-line program; the whole "
        "case is bracketed including the tag word (fnstenv); a difference is the internal check "
        "x87-state-changed-by-<operation>. Every case additionally evaluates internal consistency checks whose "
        "failure replaces the line by `X <names>` (fails both Coq checks): assigning vs by-value operators bit for "
        "bit, != is the negation of ==, the six relations through the same reference vs two objects with equal "
        "bytes (x, y, m, p, q, s, -x), ZERO / default() / ONE have the bytes of from(0.0) / from(1.0), "
        "partial_cmp inside filter/count, running maximum, fold minimum, max_by, sort_by over fresh copies vs the "
        "operators on the stored values. STRAIGHT-LINE PROGRAMS (Coq constructor Trace; registers x, y and one per "
        "step; each step records raw result, f64::from of it, and the relation code of its operand pair, the same "
        "register twice for unary steps): family fold (p - q, s * m, x / p, y + m, -m, ((p-q)(s m) - x/p)/(y+m), "
        "abs/min/max/round trip of those: every operator with extended-format operands on both sides), minmaxabs "
        "(results of neg/abs/min/max as operands of arithmetic and relations), square (x at an end of the binary64 "
        "range squared five times, scaled by y: f80 overflow to infinity, f80 denormals with exponent word 0, "
        "underflow to zero, narrowing of such values), random programs of 5-12 steps; each program also with all "
        "arithmetic through the assigning operators, and a spread subset with the abnormal-exit preamble before the "
        "program and a failing / panicking format of the step's result (or a panicking comparator) after EVERY step "
        "(families *-abnormal-exits; coverage counters trace_* in the evidence). LEAF KERNELS (op kern, "
        "executor src/kern.rs; the asm blocks' options(nostack) / missing pure, nomem, preserves_flags / x87 stack "
        "promises only matter once a block is INLINED into optimised user code): 20 `#[inline(never)]` functions without "
        "any call, formatting, allocation or panic path (slices only iterated / zipped), taking their f64 inputs as "
        "arguments, in which f80 locals stay alive - in release / lto in the RED ZONE below rsp - across conversions "
        "from and to f64, relations, min, max, abs, neg inside loops: line (count of a*x+b*y+c > 0), recur (acc = "
        "acc*a + k*b, count of acc > lim), dot, horner, runsum (invariant factor and limit), limit (if-chain < == >), "
        "minmax (scan), absneg, tof64 (f64 / SSE arithmetic and comparisons interleaved with f80 relations), mixed "
        "(integer flags and f80 relations in one if-chain), inv2 / inv4 / inv5 / inv6 / inv8 (that many loop-invariant "
        "f80 locals; eight fill the red zone), carried3 (three loop-carried values), pcmp, convonly (conversions only, "
        "one live invariant), sides (line with extra integer state), flags (integer comparisons - selects, the carry of "
        "a 128-bit sum - used on both sides of f80 relations / min within one basic block); results are counters, raw bytes, f64 bit patterns. "
        "Each is computed a second time step by step (every primitive a call of the straight-line interpreter's "
        "`apply` / `rel_code`, every value through black_box: non-leaf, ordinary frame) and must agree bit for bit "
        "(internal check leaf-kernel-<kind>-differs-from-the-step-by-step-computation); the kernels run in a child "
        "process with a watchdog, a kernel that kills it (an overwritten slice pointer / loop bound) is the internal check "
        "leaf-kernel-<kind>-killed-the-process; and the plugin compares the integers with exact rational arithmetic "
        "(each f80 operation rounded once to nearest-even at 64 bits; on family dyadic - k/2^j, |k| <= 64, j <= 4 - mostly "
        "nothing is rounded and the counters are plain integer facts; family moderate: random 53-bit significands, "
        "exponents within +-8, zeros; 0..24 elements, unequal slice lengths, limits equal to a scaled input); the case's "
        "Coq term is the Trace of mul/add/sub on its first two numbers. Beside debug and "
        "release (both Coq-checked) the executor is built with fat LTO + one codegen unit and run in a process that "
        "never calls f80_init: both must reproduce the debug observations (thorough: on 400000 more pairs, the "
        "routes taken in turn); non-trivial = both operands finite, non-zero, different")
TRUSTED = ["executor harness/crates/c18 (calls rlib_f80 operators/methods, prints the 10 raw bytes of each result "
           "as (sign/exponent word, significand word), f64 results as bit patterns, the six relations of a pair of "
           "extended operands as one code lt+2le+4gt+8ge+16eq+32partial_cmp; interprets the straight-line programs; "
           "runs the leaf kernels of src/kern.rs in a child process of itself and their step-by-step twins; "
           "its internal consistency checks compare entry points of the crate with each other and can only turn an "
           "observation line into an `X` line that fails both Coq checks; src/hidden.rs reads the x87 control / status "
           "/ tag words and MXCSR with fnstcw / fnstsw / fnstenv+fldenv / stmxcsr and, AFTER a case has been reported, "
           "puts the main thread back into its start-up state with fninit / fldcw / ldmxcsr)",
           "checks/c18.py (case generator, Coq term printer; in the extended-operand group a raw that repeats an "
           "operand raw word for word is printed as a back-reference, resolved by Corr.v's OBS/pick; kern_expected: "
           "the leaf kernels once more over Fractions with round-to-nearest-even at 64 / 53 bits, compared with the "
           "executor's integers in Python - a mismatch turns the case into a term that fails both Coq checks)",
           "x87 instructions are modelled, not verified: IEEE semantics at (prec 64, emax 16384), control word "
           "0x37F (extended precision, round to nearest even); the batch lemmas compare the hardware's raw results "
           "with the model bit for bit on every run"]
ASSUMPTIONS = ["operands of the arithmetic are images of binary64 values (as in the property) or, in the chain, in "
               "the relations on extended operands and in the straight-line programs, results of up to about twenty "
               "operations on such images; NaN payloads are not modelled: NaNs are compared as a class (x87 quiets "
               "signalling NaNs on load)",
               "the TEXT produced by Display / Debug / Show of f80 is not specified (only: it is deterministic, a bounded "
               "sink receives a prefix of it, and formatting - completed, failed or panicking - leaves the hidden "
               "floating-point state and all later results unchanged); build configurations "
               "other than dev, release and release + fat LTO (opt-level s/z, i686, windows `finit`) are not built",
               "leaf kernels: whether a wrong asm promise is hit depends on the code LLVM generates for the surrounding "
               "function (which local lands in which stack slot); 20 shapes x 3 optimised builds are a sample of such "
               "surroundings, not all of them (seed C18p: 9 of the 20 kernels see it; a wrong `preserves_flags` on "
               "the comparing blocks changes the generated code but, with this compiler, never so that a flag "
               "consumer sits behind the x87 comparison: not observable by any kernel). The crate's API offers no way "
               "to keep the x87 register stack non-empty around an operation (every block pops what it pushes), so no "
               "such variant exists",
               "theorems are about the spec_float model; correspondence with the inline assembly is sampled"]

OPS = {"all": "OAll", "add": "OAdd", "sub": "OSub", "mul": "OMul", "div": "ODiv", "neg": "ONeg", "chain": "OChain",
       "conv": "OConv", "rel": "ORel", "minmax": "OMinMax", "abs": "OAbs", "ext": "OExt"}
# layout of one observation line (harness/crates/c18/src/main.rs)
N_TOK = 108            # 36 tokens of the f64-image groups + 72 of the extended-operand group
EXT0 = 36              # bits(f64(m)); 4 raws n_m n_p n_q n_s; 11 x (code, raw min, raw max); 4 raws abs
N_REL = 11
M64 = (1 << 64) - 1
SIGN = 1 << 63


def bits(x):
    return struct.unpack("<Q", struct.pack("<d", x))[0]


def harness_line(c):
    if c["op"] == "kern":
        return "kern %s %s %s %s" % (c["kind"], c["a"], c["b"], " ".join(
            "%d %s" % (len(c[k]), " ".join(c[k])) if c[k] else "0" for k in ("xs", "ys", "p")))
    if c["op"] == "trace":
        st = c["steps"]
        line = "trace %s %s %d %s" % (c["a"], c["b"], len(st), " ".join("%s %d %d" % (o, i, j) for (o, i, j) in st))
        return line + (" " + c["route"] if c.get("route") else "")
    return "%s %s %s %s" % (c["op"], c["a"], c["b"], c.get("route") or "-")


def w(v):
    v = int(v)
    return "(W %d %d)" % (v >> 32, v & 0xFFFFFFFF)


def r(se, m):
    m = int(m)
    return "(RW %s %d %d)" % (se, m >> 32, m & 0xFFFFFFFF)


def rsel(t, k, u, v):
    """the raw at tokens k, k+1 as a back-reference to the operand raw at u / at v when it is the very same two
    words, in full otherwise (Corr.v: rsel / pick)"""
    if t[k] == t[u] and t[k + 1] == t[u + 1]:
        return "SU"
    if t[k] == t[v] and t[k + 1] == t[v + 1]:
        return "SV"
    m = int(t[k + 1])
    return "(SR %s %d %d)" % (t[k], m >> 32, m & 0xFFFFFFFF)


# token positions of the raws of m = x*y+x, p = x*y, q = x/y, s = x+y and of n_m n_p n_q n_s
T_M, T_P, T_Q, T_S = 14, 8, 10, 4
T_N = {T_M: 37, T_P: 39, T_Q: 41, T_S: 43}


def ext_term(t):
    """the group OExt: tokens EXT0.. of the observation line, as the trailing arguments of Corr.v's OBS"""
    out = [w(t[EXT0])]
    es = (T_M, T_P, T_Q, T_S)
    out += [rsel(t, T_N[e], e, e) for e in es]
    pairs = []
    for e in es:
        pairs += [(e, T_N[e]), (T_N[e], e)]
    pairs += [(T_M, T_P), (T_P, T_S), (T_S, T_Q)]
    k = EXT0 + 9
    for (u, v) in pairs:
        out.append("(RL %s %s %s)" % (t[k], rsel(t, k + 1, u, v), rsel(t, k + 3, u, v)))
        k += 5
    out += [rsel(t, k + 2 * i, e, e) for i, e in enumerate(es)]
    return " ".join(out)


TOPS = {"add": "TAdd", "sub": "TSub", "mul": "TMul", "div": "TDiv", "adda": "TAdd", "suba": "TSub", "mula": "TMul",
        "diva": "TDiv", "neg": "TNeg", "abs": "TAbs", "min": "TMin", "max": "TMax", "rnd": "TRnd"}
ASSIGN_OF = {"add": "adda", "sub": "suba", "mul": "mula", "div": "diva"}
UNARY = ("neg", "abs", "rnd")


def trace_term(c, obs):
    """`T raw(r0) raw(r1) (raw(result) bits(f64(result)) code)*`  ->  Corr.v's `Trace`"""
    a, b = int(c["a"], 16), int(c["b"], 16)
    t = obs.split()
    st = c["steps"]
    if not t or t[0] != "T" or len(t) != 5 + 4 * len(st):
        # a panic, a failed internal consistency check (`X ...`) or a malformed line: fails both checks
        # (one constant term: thousands of failing cases then cost one Coq evaluation; the replay names the case)
        return "(Trace (W 0 0) (W 0 0) (RW 0 0 1) (RW 0 0 1) [TSI TAdd 9 9 (RW 0 0 1) 1 0])"
    steps = []
    for k, (o, i, j) in enumerate(st):
        q = 5 + 4 * k
        steps.append("TSI %s %d %d %s %s %s" % (TOPS[o], i, j, r(t[q], t[q + 1]), w(t[q + 2]), t[q + 3]))
    return "(Trace %s %s %s %s [%s])" % (w(a), w(b), r(t[1], t[2]), r(t[3], t[4]), "; ".join(steps))


def coq_term(c, obs, profile):
    if c["op"] == "kern":
        return kern_term(c, obs)
    if c["op"] == "trace":
        return trace_term(c, obs)
    a, b = int(c["a"], 16), int(c["b"], 16)
    t = obs.split()
    if obs == "P" or len(t) != N_TOK or t[0] == "X":
        # no operation of the crate panics, and `X <names>` reports a failed internal consistency check of the
        # executor (assigning vs by-value operators, != vs ==, ...): make the case fail both checks
        bad = "(RW 0 0 1)"
        # (one constant term: thousands of failing cases then cost one Coq evaluation; the replay names the case)
        return "(Case OAll (W 0 0) (W 0 0) (OBS %s 1 1 1 1 1 1 true true true true true 9 %s 1 %s %s %s))" % (
            " ".join([bad] * 9), " ".join([bad] * 3),
            " ".join(["SU"] * 4), " ".join(["(RL 0 SU SU)"] * N_REL), " ".join(["SU"] * 4))
    raws = [r(t[2 * i], t[2 * i + 1]) for i in range(9)]
    f64s = [w(v) for v in t[18:24]]
    bools = ["true" if v == "1" else "false" for v in t[24:29]]
    pc = t[29]
    tail = [r(t[30 + 2 * i], t[31 + 2 * i]) for i in range(3)]
    return "(Case %s %s %s (OBS %s %s %s %s %s %s))" % (
        OPS[c["op"]], w(a), w(b), " ".join(raws), " ".join(f64s), " ".join(bools), pc, " ".join(tail), ext_term(t))


def raw_class(se, m):
    se, m = int(se), int(m)
    e = se & 0x7FFF
    if e == 0x7FFF:
        return "inf" if m == 1 << 63 else "nan"
    return "zero" if m == 0 else "fin"


def ext_coverage(obs_lines):
    """how meaningful the group OExt is on these observation lines: over all (case, e in {m, p, q, s})"""
    cov = {"ext_values": 0, "ext_e_differs_from_n_e": 0, "ext_e_beyond_f64_range_n_e_inf": 0,
           "ext_e_below_f64_range_n_e_zero": 0, "ext_e_n_e_one_64bit_ulp_apart": 0,
           "ext_n_e_binary64_subnormal": 0, "ext_cases_with_a_differing_pair": 0,
           "ext_unrelated_pairs_ordered_but_equal_through_f64": 0}
    for line in obs_lines:
        t = line.split()
        if len(t) != N_TOK:
            continue
        any_diff = False
        for e in (T_M, T_P, T_Q, T_S):
            n = T_N[e]
            ce, cn = raw_class(t[e], t[e + 1]), raw_class(t[n], t[n + 1])
            if ce == "nan":
                continue
            cov["ext_values"] += 1
            if (t[e], t[e + 1]) == (t[n], t[n + 1]):
                continue
            any_diff = True
            cov["ext_e_differs_from_n_e"] += 1
            if ce == "fin" and cn == "inf":
                cov["ext_e_beyond_f64_range_n_e_inf"] += 1
            elif ce == "fin" and cn == "zero":
                cov["ext_e_below_f64_range_n_e_zero"] += 1
            elif ce == "fin" and cn == "fin":
                ve = ((int(t[e]) & 0x7FFF) << 64) + int(t[e + 1])      # monotone in the magnitude
                vn = ((int(t[n]) & 0x7FFF) << 64) + int(t[n + 1])
                if abs(ve - vn) == 1:
                    cov["ext_e_n_e_one_64bit_ulp_apart"] += 1
                if (int(t[n]) & 0x7FFF) < 16383 - 1022:
                    cov["ext_n_e_binary64_subnormal"] += 1
        cov["ext_cases_with_a_differing_pair"] += any_diff
        # the three pairs of unrelated extended values: ordered (code says < or >) although their binary64
        # roundings coincide
        k = EXT0 + 9 + 5 * 8
        f64_of = {T_M: EXT0, T_P: 21, T_Q: 22, T_S: 19}
        for (u, v) in ((T_M, T_P), (T_P, T_S), (T_S, T_Q)):
            code = int(t[k])
            k += 5
            if (code >> 5) in (1, 3) and t[f64_of[u]] == t[f64_of[v]]:
                cov["ext_unrelated_pairs_ordered_but_equal_through_f64"] += 1
    return cov


def fclass(h):
    v = int(h, 16)
    e, f = (v >> 52) & 0x7FF, v & ((1 << 52) - 1)
    if e == 0x7FF:
        return "nan" if f else "inf"
    if e == 0:
        return "sub" if f else "zero"
    return "norm"


def nontrivial(c, obs):
    if c["op"] == "kern":
        return len(c["xs"]) >= 2 and (not KERNELS[c["kind"]][0] or len(c["ys"]) >= 2)
    return fclass(c["a"]) in ("sub", "norm") and fclass(c["b"]) in ("sub", "norm") and \
        (int(c["a"], 16) & ~SIGN) != (int(c["b"], 16) & ~SIGN)


def classify(c, obs):
    if c["op"] == "kern":
        return "kern-%s/%s" % (c["kind"], c.get("family", "replay"))
    if c["op"] == "trace":
        return "trace-%s/%s,%s" % (c.get("family", "replay"), fclass(c["a"]), fclass(c["b"]))
    return "%s/%s,%s" % (c["op"], fclass(c["a"]), fclass(c["b"]))


def hx(v):
    return "%016x" % (v & M64)


# ---------------------------------------------------------------------------- boundary set
def pow2(k):
    """bit pattern of 2^k (k in [-1074, 1023])"""
    if k >= -1022:
        return (k + 1023) << 52
    return 1 << (k + 1074)


def boundary(tier):
    mags = [
        0, 1, 2, (1 << 52) - 1, 1 << 51,                      # zero, min / mid / max subnormals
        1 << 52, (1 << 52) + 1,                               # MIN_POSITIVE and its successor
        0x3FEFFFFFFFFFFFFF, 0x3FF0000000000000, 0x3FF0000000000001,   # 1-2^-53, 1, 1+2^-52
        bits(0.1), bits(1.0 / 3.0), bits(3.0), bits(0.5), bits(2.0), bits(1e17),
        0x3FFFFFFFFFFFFFFF,                                   # 2 - 2^-52: all-ones significand
        pow2(-64), pow2(-63), pow2(-53), pow2(53), pow2(63), pow2(64),
        pow2(-1021), pow2(-537), pow2(512), pow2(1023),
        0x7FEFFFFFFFFFFFFF, 0x7FEFFFFFFFFFFFFE,               # f64::MAX and its predecessor
        0x7FF0000000000000,                                   # inf
    ]
    nans = [0x7FF8000000000000, 0x7FF0000000000001, 0xFFF8000000000000]
    if tier != "quick":
        extra = []
        for k in [-1074, -1073, -1050, -1023, -1022, -1000, -600, -512, -256, -128, -65, -62, -54, -52, -51, -32, -12,
                  -11, -2, -1, 1, 2, 10, 11, 12, 31, 32, 51, 52, 54, 62, 65, 100, 127, 128, 255, 256, 511, 600, 970, 1000,
                  1022]:           # 2^970: f64::MAX + 2^970 is the binary64 overflow tie
            p = pow2(k)
            extra += [p, p + 1] + ([p - 1] if p > 1 else [])
        extra += [bits(v) for v in (2.0 / 3.0, 3.141592653589793, 2.718281828459045, 1e-17, 1e308, 1e-308, 123.456,
                                    100.1, 0.7, 1e16, 9007199254740993.0, 4503599627370497.0, 1.5, 0.75, 7.0, 10.0)]
        extra += [0x3FF5555555555555, 0x3FFAAAAAAAAAAAAA, 0x3FF0000000000FFF, 0x3FF00000FFFFFFFF, 0x3FFFFFFFF0000000,
                  0x000FFFFFFFFFFFFE, 0x0008000000000001, 0x0000000000000003, 0x7FE0000000000001, 0x0010000000000002,
                  0x433FFFFFFFFFFFFF, 0x4340000000000001]
        mags += extra
        nans += [0x7FFFFFFFFFFFFFFF, 0x7FF4000000000000]
    seen, out = set(), []
    for m in mags:
        for v in (m, m | SIGN):
            if v not in seen:
                seen.add(v)
                out.append(v)
    for v in nans:
        if v not in seen:
            seen.add(v)
            out.append(v)
    return out


def mk(e, f, s=0):
    """assemble a pattern from biased exponent e (clamped to finite), 52-bit fraction f, sign s"""
    e = max(0, min(2046, e))
    return (s << 63) | (e << 52) | (f & ((1 << 52) - 1))


def sparse(rng):
    f = 0
    for _ in range(rng.range(0, 3)):
        f |= 1 << rng.below(52)
    if rng.chance(1, 3):
        k = rng.range(1, 52)
        f |= (1 << k) - 1                      # low run of ones: long carry chains
    if rng.chance(1, 4):
        k = rng.range(1, 52)
        f |= ((1 << k) - 1) << (52 - k)        # high run of ones
    return f


def odd_int(rng, nbits):
    """odd integer with exactly nbits bits"""
    if nbits <= 1:
        return 1
    return (1 << (nbits - 1)) | (rng.next() & ((1 << (nbits - 1)) - 1)) | 1


def from_int(n, shift, s=0):
    """pattern of n * 2^shift (n < 2^53), exponent clamped into the normal range"""
    bl = n.bit_length()
    e = max(1, min(2046, bl - 1 + shift + 1023))
    return (s << 63) | (e << 52) | ((n << (53 - bl)) & ((1 << 52) - 1))


def random_pair(rng):
    k = rng.below(15)
    if k == 12:                                 # e and n_e = f80(f64(e)) one 64-bit ulp apart
        if rng.chance(1, 2):
            # sum: a +- 2^(E-63) (+- 3*2^(E-65): rounds to the same last bit): a 64-bit significand whose low 11
            # bits are 0..01 resp. 1..11, so that the binary64 rounding is a itself
            e = rng.range(70, 2046)
            a = mk(e, rng.next() if rng.chance(1, 2) else sparse(rng), rng.below(2))
            b = mk(e - 63, 0, rng.below(2)) if rng.chance(2, 3) else mk(e - 65, 1 << 51, rng.below(2))
            return (a, b) if rng.chance(1, 2) else (b, a)
        # product (1 + f 2^-52)(1 + 2^-11) with the low 11 bits of f equal to 0..01 / 1..11: exact with 64 bits
        f = (rng.next() & ((1 << 52) - 1) & ~0x7FF) | rng.choice([1, 0x7FF])
        a = mk(rng.range(100, 1900), f, rng.below(2))
        b = mk(rng.range(900, 1100), 1 << 41, rng.below(2))
        return (a, b) if rng.chance(1, 2) else (b, a)
    if k == 13:                                 # products / quotients outside the binary64 exponent range but
        big = rng.chance(1, 2)                  # finite and non-zero in the extended format
        fa = rng.next() if rng.chance(2, 3) else sparse(rng)
        fb = rng.next() if rng.chance(2, 3) else sparse(rng)
        if rng.chance(1, 2):                    # product: unbiased exponents add up to >= 1024 resp. <= -1080
            if big:
                ea = rng.range(1030, 2046)
                eb = rng.range(3070 - ea, 2046)
            else:
                ea = rng.range(0, 966)
                eb = rng.range(0, 966 - ea)
        else:                                   # quotient: exponents differ by >= 1025 resp. <= -1080
            if big:
                ea = rng.range(1026, 2046)
                eb = rng.range(0, ea - 1025)
            else:
                ea = rng.range(0, 966)
                eb = rng.range(ea + 1080, 2046)
        return mk(ea, fa, rng.below(2)), mk(eb, fb, rng.below(2))
    if k == 14:                                 # x*y + x against x*y: |y| large, so that x only moves the last
        ea = rng.range(200, 1800)               # bits of the product (or is absorbed entirely)
        eb = 1023 + rng.choice([52, 53, 54, 60, 62, 63, 64, 65, 66])
        return (mk(ea, rng.next(), rng.below(2)),
                mk(eb, rng.next() if rng.chance(1, 2) else sparse(rng), rng.below(2)))
    if k == 10:                                 # odd k-bit x odd l-bit: the exact product has k+l-1 or k+l bits and is
        total = rng.choice([54, 55, 65, 66, 64, 53])   # odd: exact ties at 64 bits (f80) resp. 53 bits (narrowing)
        kk = rng.range(max(2, total - 53), min(53, total - 2))
        return (from_int(odd_int(rng, kk), rng.range(-900, 900), rng.below(2)),
                from_int(odd_int(rng, total - kk), rng.range(-100, 100), rng.below(2)))
    if k == 11:                                 # sums with 54..65 significant bits, odd: ties when narrowed
        sh = rng.range(-900, 900)
        gap = rng.choice([1, 1, 2, 11, 12])
        a = from_int(odd_int(rng, 53) if rng.chance(1, 2) else (1 << 52) | sparse(rng), sh + gap, rng.below(2))
        b = from_int(rng.choice([1, 1, 3, odd_int(rng, rng.range(1, gap + 1))]), sh, rng.below(2))
        return (a, b) if rng.chance(1, 2) else (b, a)
    if k == 0:
        return rng.next(), rng.next()
    if k == 1:                                  # moderate exponents, random significands
        return mk(rng.range(900, 1150), rng.next(), rng.below(2)), mk(rng.range(900, 1150), rng.next(), rng.below(2))
    if k in (2, 3):                             # nearby exponents: alignment shifts, carries, cancellation
        e = rng.range(1, 2046)
        d = rng.choice([-65, -64, -63, -54, -53, -52, -13, -12, -11, -10, -2, -1, 0, 0, 1, 2, 11, 12, 53, 64])
        fa = rng.next() if k == 2 else sparse(rng)
        fb = rng.next() if rng.chance(1, 2) else sparse(rng)
        return mk(e, fa, rng.below(2)), mk(e + d, fb, rng.below(2))
    if k == 4:                                  # neighbours: massive cancellation in a-b, quotient near 1
        a = mk(rng.range(1, 2046), rng.next(), rng.below(2))
        b = (a & ~SIGN) + rng.range(-3, 3)
        b = max(1, min(0x7FEFFFFFFFFFFFFF, b)) | (rng.below(2) << 63)
        return a, b
    if k == 5:                                  # half-ulp offsets at 64 bits (and 53 bits): ties in the sum
        e = rng.range(70, 2046)
        a = mk(e, rng.next() if rng.chance(1, 2) else sparse(rng), rng.below(2))
        off = rng.choice([64, 64, 63, 65, 53, 54, 52, 12, 11])
        f = rng.choice([0, 0, 1, 1 << 51, (1 << 52) - 1, rng.next()])
        return a, mk(e - off, f, rng.below(2))
    if k == 6:                                  # sparse x sparse: exact products / exact ties
        return mk(rng.range(1, 2046), sparse(rng), rng.below(2)), mk(rng.range(1, 2046), sparse(rng), rng.below(2))
    if k == 7:                                  # subnormal operand
        a = rng.next() & ((1 << 52) - 1) if rng.chance(1, 2) else (1 << rng.below(52)) | rng.below(4)
        a |= rng.below(2) << 63
        b = mk(rng.range(0, 2046), rng.next() if rng.chance(1, 2) else sparse(rng), rng.below(2))
        return (a, b) if rng.chance(1, 2) else (b, a)
    if k == 8:                                  # results that overflow / underflow binary64 on the way back
        e = rng.choice([1, 2, 30, 500, 511, 512, 513, 1023, 1500, 1535, 1536, 2000, 2045, 2046])
        e2 = rng.choice([1, 2, 30, 500, 511, 512, 513, 1023, 1500, 1535, 1536, 2000, 2045, 2046])
        return mk(e, rng.next(), rng.below(2)), mk(e2, rng.next(), rng.below(2))
    # equal magnitudes, both sign combinations; special operand against random
    a = rng.next()
    if rng.chance(1, 2):
        return a, a ^ (rng.below(2) << 63)
    sp = rng.choice([0, SIGN, 0x7FF0000000000000, 0xFFF0000000000000, 0x7FF8000000000000, 1, 0x7FEFFFFFFFFFFFFF])
    return (a, sp) if rng.chance(1, 2) else (sp, a)


# ---------------------------------------------------------------------------- leaf kernels (executor: src/kern.rs)
# A kern case supplies the f64 inputs of one kernel.  Its observation line is `<T line of KERN_STEPS on (a, b)> K <kind>
# v0 .. v5`; the six integers are compared HERE with exact rational arithmetic (every f80 operation = the exact
# result rounded once to nearest-even at 64 bits, conversions f64 -> f80 exact, f80 -> f64 rounded at 53 bits; on the
# small dyadic inputs nothing is ever rounded and the expected counters are plain integer facts), the T part goes to Coq
# as an ordinary Trace.  A mismatch, a failed internal check of the executor (`X ...`: leaf kernel against its
# step-by-step twin, a kernel that killed its process) or a panic make the case fail both Coq checks.
from fractions import Fraction as _Fr

KERN_STEPS = [["mul", 0, 1], ["add", 2, 0], ["sub", 3, 1]]
KERN_BAD = "(Trace (W 0 0) (W 0 0) (RW 0 0 1) (RW 0 0 1) [TSI TAdd 9 9 (RW 0 0 1) 1 0])"
# kind -> (uses ys, number of scalar arguments)
KERNELS = {"line": (True, 3), "recur": (False, 3), "dot": (True, 0), "horner": (False, 1), "runsum": (False, 2),
           "limit": (False, 2), "minmax": (False, 4), "absneg": (False, 1), "tof64": (False, 3), "mixed": (True, 2),
           "inv2": (False, 2), "inv4": (True, 4), "inv5": (True, 5), "inv6": (True, 6), "inv8": (True, 8),
           "carried3": (True, 0), "pcmp": (False, 2), "convonly": (False, 1), "sides": (True, 3),
           "flags": (True, 2)}
U64 = (1 << 64) - 1


def fval(h):
    return struct.unpack("<d", struct.pack("<Q", int(h, 16)))[0]


def rnd_bits(q, prec):
    """q rounded to nearest, ties to even, at `prec` significant bits (unbounded exponent)"""
    if q == 0:
        return q
    sgn, a = (-1, -q) if q < 0 else (1, q)
    sh = a.numerator.bit_length() - a.denominator.bit_length() - prec
    t = a / (_Fr(2) ** sh)
    while t >= (1 << prec):
        sh += 1
        t /= 2
    while t < (1 << (prec - 1)):
        sh -= 1
        t *= 2
    n = t.numerator // t.denominator
    rem = t - n
    if rem > _Fr(1, 2) or (rem == _Fr(1, 2) and n & 1):
        n += 1
    return sgn * n * (_Fr(2) ** sh)


def r64(q):
    return rnd_bits(q, 64)


def enc_conv(h):
    """(sign/exponent word, significand) of f80::from(f64::from_bits(h)); h zero or normal"""
    v = int(h, 16)
    s, e, f = v >> 63, (v >> 52) & 0x7FF, v & ((1 << 52) - 1)
    if e == 0 and f == 0:
        return (s << 15, 0)
    assert 0 < e < 0x7FF
    return ((s << 15) | (e - 1023 + 16383), (1 << 63) | (f << 11))


def dec_raw(se, m):
    """value of a finite raw, None for inf / NaN / pseudo-denormal encodings"""
    e = se & 0x7FFF
    if e == 0x7FFF:
        return None
    if m == 0:
        return _Fr(0)
    if e == 0 or not (m >> 63):
        return None
    v = _Fr(m) * (_Fr(2) ** (e - 16383 - 63))
    return -v if se >> 15 else v


def dec_f64(b):
    e = (b >> 52) & 0x7FF
    if e == 0x7FF:
        return None
    return _Fr(struct.unpack("<d", struct.pack("<Q", b))[0])


def _min80(u, v):      # x87 sequence of f80::min: v when they compare equal
    return u if v > u else v


def _max80(u, v):
    return u if v <= u else v


def _xor(words):
    a = b = 0
    for (x, y) in words:
        a ^= x
        b ^= y
    return a, b


def kern_expected(c):
    """what src/kern.rs must return: a list of ("i", integer) | ("raw", Fraction) [two integers of the line] |
    ("f64", Fraction)"""
    kind = c["kind"]
    X = [_Fr(fval(h)) for h in c["xs"]]
    Y = [_Fr(fval(h)) for h in c["ys"]]
    ph = list(c["p"]) + ["3ff0000000000000"] * 8
    P = [_Fr(fval(h)) for h in ph]
    E = [enc_conv(h) for h in ph]
    XY = list(zip(X, Y))
    I = lambda n: ("i", n & U64)
    R = lambda q: ("raw", q)
    Z = I(0)
    if kind == "line":
        a, b, cc = P[:3]
        return [I(sum(1 for (x, y) in XY if r64(r64(r64(a * x) + r64(b * y)) + cc) > 0)), Z, Z, Z, Z, Z]
    if kind == "recur":
        a, b, lim = P[:3]
        acc, cnt = _Fr(0), 0
        for k in X:
            acc = r64(r64(acc * a) + r64(k * b))
            cnt += acc > lim
        return [I(cnt), R(acc), Z, Z, Z]
    if kind == "dot":
        acc, pos = _Fr(0), 0
        for (x, y) in XY:
            acc = r64(acc + r64(x * y))
            pos += acc > 0
        return [I(pos), R(acc), Z, Z, Z]
    if kind == "horner":
        acc = _Fr(0)
        for cf in X:
            acc = r64(r64(acc * P[0]) + cf)
        return [Z, R(acc), I(E[0][0]), I(E[0][1]), Z]
    if kind == "runsum":
        f, lim = P[:2]
        s, above, notabove = _Fr(0), 0, 0
        for x in X:
            s = r64(s + r64(x * f))
            above += s > lim
            notabove += s <= lim
        return [I(above), R(s), I(notabove), I(E[0][0]), I(E[0][1])]
    if kind == "limit":
        scale, lim = P[:2]
        vs = [r64(x * scale) for x in X]
        return [I(sum(v < lim for v in vs)), I(sum(v == lim for v in vs)), I(sum(v > lim for v in vs)), Z,
                I(E[1][0]), I(E[1][1])]
    if kind == "minmax":
        scale, off, mn, mx = P[:4]
        moved = 0
        for x in X:
            v = r64(r64(x * scale) + off)
            mn, mx = _min80(mn, v), _max80(mx, v)
            moved += (mn == v or mx == v)
        return [I(moved), R(mn), R(mx), Z]
    if kind == "absneg":
        bias = P[0]
        acc, cnt = _Fr(0), 0
        for x in X:
            acc = r64(acc + abs(r64(x - bias)))
            cnt += -acc < -abs(x)
        return [I(cnt), R(acc), I(E[0][0]), I(E[0][1]), Z]
    if kind == "tof64":
        a, b = P[:2]
        t = fval(ph[2])
        s64, cnt, big = 0.0, 0, 0
        for x in X:
            v = r64(r64(a * x) + b)
            d = float(v)
            s64 += d * 0.5
            if d > t and v > a and s64 > t * 0.25:
                cnt += 1
            if s64 * s64 >= t and b <= v:
                big += 1
        return [I(cnt), ("f64", _Fr(s64)), I(big), I(E[0][0]), I(E[0][1]), Z]
    if kind == "mixed":
        lo, hi = P[:2]
        c0 = c1 = c2 = c3 = h = 0
        for i, (x, y) in enumerate(XY):
            v = r64(x + y)
            odd = i & 1 == 1
            if odd and v < lo:
                c0 += 1
            elif v == lo or (i % 3 == 0 and v >= hi):
                c1 += 1
            elif v <= hi and not odd:
                c2 += 1
            elif i > 4:
                c3 += 1
            h = (h * 31 + (c0 ^ (c2 << 1)) + i) & U64
        return [I(c0), I(c1), I(c2), I(c3), I(h), I(E[1][0] ^ E[0][1])]
    if kind == "inv2":
        a, t = P[:2]
        return [I(sum(r64(a * x) > t for x in X)), I(E[0][0]), I(E[0][1]), I(E[1][0]), I(E[1][1]), Z]
    if kind == "inv4":
        a = P[:4]
        cnt = sum(r64(r64(r64(a[0] * x) + r64(a[1] * y)) + a[2]) > a[3] for (x, y) in XY)
        return [I(cnt), I(_xor(E[:4])[0]), I(E[0][1] ^ E[1][1]), I(E[2][1] ^ E[3][1]), Z, Z]
    if kind == "inv5":
        a = P[:5]
        cnt = sum(r64(r64(r64(a[0] * x) + r64(a[1] * y)) + a[2]) > r64(r64(a[3] * x) + a[4]) for (x, y) in XY)
        return [I(cnt), I(_xor(E[:5])[0]), I(E[0][1] ^ E[1][1]), I(E[2][1] ^ E[3][1]), I(E[4][1]), Z]
    if kind == "inv6":
        a = P[:6]
        cnt = low = 0
        for (x, y) in XY:
            l = r64(r64(r64(a[0] * x) + r64(a[1] * y)) + a[2])
            r = r64(r64(a[3] * x) + r64(a[4] * y))
            if r64(l * r) > a[5]:
                cnt += 1
            elif l < a[5]:
                low += 1
        return [I(cnt), I(low), I(_xor(E[:6])[0]), I(_xor(E[:3])[1]), I(_xor(E[3:6])[1]), Z]
    if kind == "inv8":
        a = P[:8]
        cnt = eqs = 0
        for (x, y) in XY:
            l = r64(r64(r64(a[0] * x) + r64(a[1] * y)) + a[2])
            r = r64(r64(r64(a[3] * x) + r64(a[4] * y)) + a[5])
            cnt += r64(l * a[6]) > r64(r * a[7])
            eqs += (l == r or _min80(l, a[6]) >= _max80(r, a[7]))
        return [I(cnt), I(eqs), I(_xor(E[:8])[0]), I(_xor(E[:4])[1]), I(_xor(E[4:8])[1]), Z]
    if kind == "carried3":
        p, q, r = _Fr(0), _Fr(1), _Fr(0)
        for (x, y) in XY:
            p = r64(p + x)
            q = -r64(q * y)
            r = _max80(r, abs(r64(p - q)))
        return [R(p), R(q), R(r)]
    if kind == "pcmp":
        pivot, scale = P[:2]
        vs = [r64(x * scale) for x in X]
        return [I(sum(v < pivot for v in vs)), I(sum(v == pivot for v in vs)), I(sum(v > pivot for v in vs)), Z,
                I(E[0][0]), I(E[0][1])]
    if kind == "convonly":
        h = 0
        for hx_ in c["xs"]:
            h = (((h << 7) | (h >> 57)) & U64) ^ int(hx_, 16)
        return [I(sum(x == P[0] for x in X)), I(h), I(E[0][0]), I(E[0][1]), Z, Z]
    if kind == "flags":
        lim, m = P[0], int(fval(ph[1]))
        m = max(0, min(m, U64))                       # Rust `as u64` saturates
        h = cnt = wide = 0
        for i, ((x, y), bx, by) in enumerate(zip(XY, (int(v, 16) for v in c["xs"]), (int(v, 16) for v in c["ys"]))):
            below, parity = i < m, (bx ^ by) & 1 == 0
            s1 = bx if below else by
            s2 = by >> 3 if below else bx >> 5
            r1, r2, r3 = x < lim, y == lim, _min80(x, y) >= lim
            sm, carry = (bx + by) & U64, (bx + by) >> 64
            wide = (wide + ((sm << 1) | carry) + (r3 << 64)) & ((1 << 128) - 1)
            h = (h * (3 if parity else 5) + (s1 ^ s2) + ((i if parity else m) + r1 + 2 * r2)) & U64
            cnt += (r1 and below) or (r2 and parity) or (r3 and carry == 1)
        return [I(cnt), I(h), I(wide & U64), I(wide >> 64), I(E[0][0]), I(E[0][1])]
    if kind == "sides":
        a, b, cc = P[:3]
        pos = neg = on = h = 0
        for i, (x, y) in enumerate(XY):
            v = r64(r64(r64(a * x) + r64(b * y)) + cc)
            if v > 0:
                pos += 1
                h = (h * 131 + i) & U64
            elif v < 0:
                neg += 1
                h ^= (i << (neg & 7)) & U64
            else:
                on += 1
        return [I(pos), I(neg), I(on), I(h), I(E[2][0]), I(E[2][1])]
    raise KeyError(kind)


def kern_split(obs):
    """(T part, kind, six integers) of a kern observation line, None when it does not have that shape"""
    if " K " not in obs:
        return None
    head, tail = obs.split(" K ", 1)
    t = tail.split()
    if len(t) != 7 or not all(v.isdigit() for v in t[1:]):
        return None
    return head, t[0], [int(v) for v in t[1:]]


def kern_mismatch(c, obs):
    """None when the kernel part of the line is what exact arithmetic says, else a description"""
    sp = kern_split(obs)
    if sp is None:
        return "no kernel result: " + obs[:120]
    _, kind, got = sp
    if kind != c["kind"]:
        return "kind echoed as " + kind
    k = 0
    for (tag, want) in kern_expected(c):
        if tag == "i":
            if got[k] != want:
                return "integer %d of %s is %d, exact arithmetic says %d" % (k, kind, got[k], want)
            k += 1
        elif tag == "f64":
            if dec_f64(got[k]) != want:
                return "f64 result %d of %s has bits %#x, expected the value %s" % (k, kind, got[k], float(want))
            k += 1
        else:
            if dec_raw(got[k], got[k + 1]) != want:
                return "f80 result at %d of %s is (%d, %d), correctly rounded arithmetic says %s" % (
                    k, kind, got[k], got[k + 1], want)
            k += 2
    return None


def kern_term(c, obs):
    if kern_mismatch(c, obs) is not None:
        return KERN_BAD
    return trace_term({"a": c["a"], "b": c["b"], "steps": KERN_STEPS}, kern_split(obs)[0])


def kern_case(kind, xs, ys, p, family):
    xs, ys, p = [hx(v) for v in xs], [hx(v) for v in ys], [hx(v) for v in p]
    pool = p + xs + ys + [hx(bits(2.0)), hx(bits(3.0))]
    return {"op": "kern", "kind": kind, "a": pool[0], "b": pool[1], "xs": xs, "ys": ys, "p": p, "family": family}


def dyadic(rng, big=64, frac=4):
    """bit pattern of a small dyadic rational k / 2^j"""
    k = rng.range(-big, big)
    return bits(k / float(1 << rng.below(frac + 1)))


def moderate(rng):
    """random 53-bit significand, exponent within +-8, random sign; now and then a short significand or zero"""
    z = rng.below(12)
    if z == 0:
        return rng.choice([0, SIGN])
    f = rng.next() if z > 3 else sparse(rng)
    return mk(1023 + rng.range(-8, 8), f, rng.below(2))


def kern_inputs(rng, kind, fam):
    ys_used, np_ = KERNELS[kind]
    one = (lambda: dyadic(rng)) if fam == "dyadic" else (lambda: moderate(rng))
    n = rng.choice([0, 1, 2, 3, 4, 5, 7, 8, 13, 24]) if rng.chance(1, 2) else rng.range(3, 12)
    xs = [one() for _ in range(n)]
    ys = [one() for _ in range(n if rng.chance(5, 6) else rng.range(0, n + 2))] if ys_used else []
    p = [one() for _ in range(np_)]
    small = (lambda: dyadic(rng, 4, 1)) if fam == "dyadic" else (lambda: mk(1023 + rng.range(-1, 1), rng.next(), rng.below(2)))
    if kind == "flags":
        p[1] = bits(float(rng.range(0, n + 1)))
        if xs and rng.chance(1, 2):
            p[0] = rng.choice(xs + ys)
    if kind in ("recur", "horner"):            # keep the recurrences far from the ends of the format
        p[0] = small()
    if kind in ("limit", "pcmp", "inv2", "convonly") and xs and rng.chance(1, 2):
        # make the equality branch reachable: the limit / pivot is one of the scaled inputs
        if kind == "convonly":
            p[0] = rng.choice(xs)
        elif fam == "dyadic":
            sc = bits(rng.choice([1.0, 2.0, 0.5, -4.0]))
            v = fval(hx(rng.choice(xs))) * fval(hx(sc))
            if kind == "limit":
                p[0], p[1] = sc, bits(v)
            elif kind == "pcmp":
                p[0], p[1] = bits(v), sc
            else:
                p[0], p[1] = sc, bits(v)
    return kern_case(kind, xs, ys, p, fam)


def kerns(rng, tier):
    out = []
    per = 8 if tier == "quick" else 160
    for kind in sorted(KERNELS):
        for fam in ("dyadic", "moderate"):
            for _ in range(per):
                out.append(kern_inputs(rng, kind, fam))
    return out


ONE_BITS = 0x3FF0000000000000
F64_MAX = 0x7FEFFFFFFFFFFFFF


def targeted_pairs():
    """format ends that the cross product of the quick boundary set does not contain: the binary64 overflow tie
    f64::MAX + 2^970 (-> +inf), its two neighbours (stay MAX / go to inf), f64::MAX + 2^969, + 2^971, and products
    of the smallest subnormal with values around 1/2 (the 2^-1075 tie of the narrowing)"""
    out = []
    for sa in (0, SIGN):
        for m in (pow2(970), pow2(970) - 1, pow2(970) + 1, pow2(969), pow2(971)):
            for sb in (0, SIGN):
                out += [(F64_MAX | sa, m | sb), (m | sb, F64_MAX | sa)]
    half = bits(0.5)
    for m in (half, half + 1, half - 1, bits(0.75), bits(1.5), bits(0.25), bits(0.25) + 1):
        for sub in (1, 3, 1 | SIGN):
            out += [(sub, m), (m, sub)]
    return out


# ---------------------------------------------------------------------------- straight-line programs (Trace)
# registers: 0 = x, 1 = y, k + 2 = result of step k
FOLD = [("mul", 0, 1), ("div", 0, 1), ("add", 0, 1), ("add", 2, 0),      # 2 p   3 q   4 s   5 m = p + x
        ("sub", 2, 3), ("mul", 4, 5), ("div", 0, 2), ("add", 1, 5),      # 6 p-q 7 s*m 8 x/p 9 y+m
        ("neg", 5, 5), ("mul", 6, 7), ("sub", 11, 8), ("div", 12, 9),    # 10 -m 11 (p-q)(s m) 12 .. - x/p 13 ../(y+m)
        ("abs", 10, 10), ("min", 6, 10), ("max", 13, 3), ("rnd", 13, 13),
        ("sub", 1, 5), ("div", 3, 13), ("sub", 14, 5)]                   # img - ext, ext / ext, |-m| - m
MMA = [("neg", 0, 0), ("abs", 2, 2), ("min", 0, 1), ("max", 2, 1),        # 2 -x  3 |-x|  4 min(x,y)  5 max(-x,y)
       ("add", 2, 4), ("mul", 3, 5), ("sub", 4, 5), ("div", 6, 7),        # results of neg/abs/min/max as operands
       ("abs", 8, 8), ("neg", 9, 9), ("min", 9, 10), ("max", 11, 10), ("rnd", 11, 11), ("neg", 14, 14),
       ("min", 2, 2), ("max", 12, 12)]
SQUARE = [("mul", 0, 0), ("mul", 2, 2), ("mul", 3, 3), ("mul", 4, 4), ("mul", 5, 5),   # x^2 x^4 x^8 x^16 x^32
          ("mul", 5, 1), ("div", 5, 1), ("mul", 7, 1), ("mul", 6, 1), ("div", 4, 6),   # 7 x^16 y  8 x^16/y  9 x^16 y^2
          ("add", 7, 5), ("sub", 7, 9), ("rnd", 5, 5), ("neg", 7, 7), ("div", 7, 4), ("mul", 7, 7),
          ("add", 7, 9), ("rnd", 7, 7), ("abs", 15, 15), ("min", 7, 9), ("max", 6, 5)]


def random_steps(rng):
    ops = ["add", "sub", "mul", "div"] * 3 + ["neg", "abs", "min", "max", "rnd"]
    st = []
    for k in range(rng.range(5, 12)):
        o = rng.choice(ops)
        nreg = k + 2
        i = nreg - 1 - rng.below(min(3, nreg)) if rng.chance(1, 2) else rng.below(nreg)
        j = nreg - 1 - rng.below(min(3, nreg)) if rng.chance(1, 2) else rng.below(nreg)
        st.append((o, i, i if o in UNARY else j))
    return st


def square_operands(rng):
    """x at an end of the binary64 range (x^16 reaches the ends of the EXTENDED range: overflow beyond 2^16384,
    denormals below 2^-16382, underflow to zero below 2^-16446), y a moderate power-of-two-ish scale"""
    f = rng.choice([0, 0, 1, (1 << 52) - 1, rng.next(), rng.next(), sparse(rng)])
    if rng.chance(1, 2):
        a = mk(rng.choice([2046, 2046, 2045, 2040, 2030]), f, rng.below(2))
        b = mk(1023 + rng.range(-20, 40), rng.choice([0, 0, rng.next()]), rng.below(2))
    else:
        a = rng.choice([mk(rng.choice([1, 1, 2, 3, 8]), f, rng.below(2)),
                        (f & ((1 << 52) - 1)) | (1 << 51) | (rng.below(2) << 63)])      # subnormal near 2^-1023
        b = mk(1023 - rng.range(0, 110), rng.choice([0, 0, 1, rng.next()]), rng.below(2))
    return a, b


def trace_case(a, b, steps, family):
    return {"op": "trace", "a": hx(a), "b": hx(b), "steps": [list(t) for t in steps], "family": family}


def assign_twin(c):
    """the same program through the assigning operators (`t = u; t += v`): the same Coq term when healthy"""
    return dict(c, steps=[[ASSIGN_OF.get(o, o), i, j] for (o, i, j) in c["steps"]], family=c["family"] + "-assign")


def traces(rng, tier, B):
    q = tier == "quick"
    out = []

    def operands():
        if rng.chance(1, 5):
            return rng.choice(B), rng.choice(B)
        return random_pair(rng)

    for fam, steps, n in (("fold", FOLD, 40 if q else 800), ("minmaxabs", MMA, 30 if q else 600)):
        for _ in range(n):
            a, b = operands()
            out.append(trace_case(a, b, steps, fam))
    for _ in range(40 if q else 800):
        a, b = square_operands(rng)
        out.append(trace_case(a, b, SQUARE, "square"))
    for _ in range(110 if q else 3000):
        a, b = operands()
        out.append(trace_case(a, b, random_steps(rng), "random"))
    out = out + [assign_twin(c) for c in out]
    # the same programs with abnormal exits (formatting into failing / panicking sinks, panicking comparators) before
    # the program and between its steps: the same Coq term when healthy
    abn = []
    for c, route in zip(_spread(out, 60 if q else 480), ABN_TRACE_ROUTES * 1000):
        abn.append(dict(c, route=route, family=c["family"] + "-abnormal-exits"))
    return out + abn


ABN_TRACE_ROUTES = ["b", "p", "u", "fbpu", "bp", "f"]


def _spread(xs, n):
    import _driver
    return _driver.spread(xs, n)


def routed(rng, pairs, B, tier):
    """other entry points of the crate that must print the very same observation line (see the executor's header);
    the Coq term does not mention the route, so a healthy implementation costs no additional Coq work"""
    import _driver
    q = tier == "quick"
    out = []

    def some(n, route):
        for c in _driver.spread(pairs, n):
            out.append(dict(c, route=route))

    some(600 if q else 6000, "a")
    some(600 if q else 6000, "l")
    some(200 if q else 2000, "t")
    some(100 if q else 1000, "ti")
    some(200 if q else 2000, "i")
    some(200 if q else 2000, "aclsti")
    # histories that end abnormally before the script (executor: src/preamble.rs) and hidden-state inheritance
    some(40 if q else 300, "f")
    some(70 if q else 600, "b")
    some(40 if q else 300, "p")
    some(70 if q else 1500, "u")
    some(40 if q else 300, "fbpu")
    some(20 if q else 150, "bh")
    some(20 if q else 150, "pt")
    some(20 if q else 400, "uh")
    some(20 if q else 150, "bai")
    some(20 if q else 150, "aclstifbpuh")
    for a in B:                                          # the constants as operands
        for k in (0, ONE_BITS):
            out.append({"op": "all", "a": hx(a), "b": hx(k), "route": "c"})
            out.append({"op": "all", "a": hx(k), "b": hx(a), "route": "c"})
    for a in B:                                          # the same object on both sides of every relation
        out.append({"op": "all", "a": hx(a), "b": hx(a), "route": "s"})
    for _ in range(60 if q else 1000):
        a = random_pair(rng)[0]
        out.append({"op": "all", "a": hx(a), "b": hx(a), "route": rng.choice(["s", "s", "sl", "st"])})
    return out


def generate(rng, tier):
    cases = []
    B = boundary(tier)
    for a in B:
        for b in B:
            cases.append({"op": "all", "a": hx(a), "b": hx(b)})
    n = 900 if tier == "quick" else 16000
    for _ in range(n):
        a, b = random_pair(rng)
        cases.append({"op": "all", "a": hx(a), "b": hx(b)})
    for (a, b) in targeted_pairs():
        cases.append({"op": "all", "a": hx(a), "b": hx(b)})
    cases += routed(rng, list(cases), B, tier)
    cases += traces(rng, tier, B)
    cases += kerns(rng.fork("kern"), tier)
    return cases


def shrink_operands(c):
    out = []
    for key in ("a", "b"):
        v = int(c[key], 16)
        cands = [0x3FF0000000000000, 0, v & ~SIGN]
        for k in (52, 40, 26, 13, 4, 1):                      # clear low significand bits
            cands.append(v & ~((1 << k) - 1))
        e = (v >> 52) & 0x7FF
        if 0 < e < 0x7FF:
            cands.append((v & ~(0x7FF << 52)) | (1023 << 52))    # move into [1, 2)
            cands.append((v & ~(0x7FF << 52)) | (((e + 1023) // 2) << 52))
        for w in cands:
            if w != v:
                out.append(dict(c, **{key: hx(w)}))
    return out


def shrink_kern(c):
    out = []
    for key in ("xs", "ys"):
        v = c[key]
        if len(v) > 1:
            out.append(dict(c, **{key: v[:len(v) // 2]}))
            out.append(dict(c, **{key: v[len(v) // 2:]}))
        for k in range(min(len(v), 8)):
            out.append(dict(c, **{key: v[:k] + v[k + 1:]}))
    simple = [hx(bits(1.0)), hx(bits(2.0)), hx(0)]
    for key in ("p", "xs", "ys"):
        v = c[key]
        for k in range(min(len(v), 8)):
            for w in simple:
                if v[k] != w:
                    out.append(dict(c, **{key: v[:k] + [w] + v[k + 1:]}))
                    break
    return out


def shrink(c):
    out = []
    if c["op"] == "kern":
        return shrink_kern(c)
    if c["op"] == "trace":
        st = [tuple(t) for t in c["steps"]]
        if c.get("route"):
            out.append(dict(c, route=""))                     # the plain program first
            for ch in c["route"]:
                if len(c["route"]) > 1:
                    out.append(dict(c, route=c["route"].replace(ch, "")))
        for k in reversed(range(len(st))):                    # drop a step nobody uses
            reg = k + 2
            if any(i == reg or j == reg for (_, i, j) in st[k + 1:]):
                continue
            new = [[o, i - (i > reg), j - (j > reg)] for (o, i, j) in st[:k] + st[k + 1:]]
            out.append(dict(c, steps=new))
        if any(o in ASSIGN_OF.values() for (o, _, _) in st):
            back = {v: k for k, v in ASSIGN_OF.items()}
            out.append(dict(c, steps=[[back.get(o, o), i, j] for (o, i, j) in st]))
        return out[:24] + shrink_operands(c)
    if c.get("route"):
        out.append(dict(c, route=""))                         # the plain script first
        for ch in c["route"]:
            if len(c["route"]) > 1:
                out.append(dict(c, route=c["route"].replace(ch, "")))
    if c["op"] == "all":
        for op in OPS:
            if op != "all":
                out.append(dict(c, op=op))
        return out
    return out + shrink_operands(c)


def known_finding(case, obs, profile):
    return None


def build_lto(ctx):
    """third build of the executor: profile `lto` of harness/crates/c18/Cargo.toml (release + fat LTO, one codegen
    unit): rlib_f80 is inlined into its callers.  Same directories as checks/_driver.build_harness."""
    import os
    import _driver
    hdir = _driver.HARNESS if ctx.repo == "/repo" else os.path.join(ctx.work, "harness")
    env = dict(os.environ, CARGO_NET_OFFLINE="true")
    if ctx.repo != "/repo":
        env["CARGO_TARGET_DIR"] = os.path.join(ctx.repo, "target", "verif-harness")
    env.setdefault("CARGO_TARGET_DIR", os.path.join(_driver.HARNESS, "target"))
    cmd = ["cargo", "build", "--offline", "-q", "--profile", "lto", "--manifest-path",
           os.path.join(hdir, "crates", CRATE, "Cargo.toml")]
    rc, out = _driver.run(cmd, cwd=hdir, timeout=3600, env=env)
    binp = os.path.join(env["CARGO_TARGET_DIR"], "lto", CRATE)
    return rc == 0 and os.path.exists(binp), out, binp


BULK_ROUTES = ["", "a", "l", "c", "t", "i", "al", "aclsti"] * 16
# abnormal-exit histories in the bulk: the cheap ones (panicking closures) every 16th pair, the formatting ones
# (milliseconds each) twice per 128
for _k, _r in ((8, "u"), (25, "uh"), (42, "u"), (59, "ul"), (76, "ua"), (93, "ut"), (110, "u"), (127, "uh"), (64, "bh"), (0, "fp")):
    BULK_ROUTES[_k] = _r


def extra(ctx, known):
    """Implementation-level: every other build / history of the executor must return exactly what the debug build
    returned (whose results are the ones Coq compared with the model): inline asm without declared x87 clobbers (or
    with wrong `options`) meets the optimiser here.  Compared with the debug observations:
      release            the optimised build
      lto                release + fat LTO + one codegen unit (rlib_f80 inlined into the callers)
      release-no-init    a process that never calls f80_init (C18_NO_INIT=1)
    and, in the bulk of the thorough tier, the release / lto runs take the routes of BULK_ROUTES in turn while the
    debug run takes the plain script."""
    import _driver
    cov, viol = {}, []
    ok, out, binp = _driver.build_harness(ctx, type("P", (), {"CRATE": CRATE}), "release")
    if not ok:
        return {"coverage": {"release_build": "failed"},
                "violations": [{"name": "release-build", "nofail": True, "kind": "broken-correspondence",
                                "payload": {"what": "the executor does not build in release profile", "log": out[-3000:]}}]}
    lok, lout, lbin = build_lto(ctx)
    if not lok:
        return {"coverage": {"lto_build": "failed"},
                "violations": [{"name": "lto-build", "nofail": True, "kind": "broken-correspondence",
                                "payload": {"what": "the executor does not build in the lto profile", "log": lout[-3000:]}}]}
    cases = generate(_driver.Rng(ctx.seed).fork(ID), ctx.tier)
    routes = {}
    for c in cases:
        k = ("kern-" + c["kind"] if c["op"] == "kern" else
             "trace-" + c.get("family", "") if c["op"] == "trace" else "route-" + (c.get("route") or "plain"))
        routes[k] = routes.get(k, 0) + 1
    cov["generated_cases_by_entry_point"] = routes
    lines = [harness_line(c) for c in cases]
    alt1, alt2 = list(lines), list(lines)
    if ctx.tier != "quick":
        rng = _driver.Rng(ctx.seed + 104729).fork(ID)
        for k in range(400000):
            a, b = random_pair(rng)
            if k % 16 == 15:
                b = a
            c = {"op": "all", "a": hx(a), "b": hx(b)}
            cases.append(c)
            lines.append(harness_line(c))
            alt1.append(harness_line(dict(c, route=BULK_ROUTES[k % len(BULK_ROUTES)])))
            alt2.append(harness_line(dict(c, route=BULK_ROUTES[(k + 3) % len(BULK_ROUTES)])))
    dbg = _driver.run_impl(ctx.bins["debug"], lines)
    cov["release_vs_debug_cases"] = len(lines)
    # how meaningful the relations on extended-format operands were on this run (debug observations)
    cov.update(ext_coverage(dbg))
    cov.update(trace_coverage(cases, dbg))
    runs = [("release", binp, alt1, None), ("lto", lbin, alt2, None),
            ("release-no-init", binp, lines, {"C18_NO_INIT": "1"})]
    for (name, b, ls, env) in runs:
        got = _driver.run_impl(b, ls, extra_env=env)
        diff = [i for i in range(len(ls)) if not same_obs(dbg[i], got[i])]
        cov[name.replace("-", "_") + "_vs_debug_differences"] = len(diff)
        if diff:
            i = diff[0]
            viol.append({"name": "%s-%s-%s" % (name, cases[i]["a"], cases[i]["b"]), "nofail": True,
                         "kind": "broken-correspondence",
                         "payload": {"case": cases[i], "executor_line": ls[i],
                                     "what": "the %s run of the executor and the debug build of rlib_f80 return "
                                             "different results" % name,
                                     "debug": dbg[i], name: got[i], "other_differing_cases": len(diff) - 1}})
    return {"coverage": cov, "violations": viol, "known": []}


def trace_coverage(cases, obs_lines):
    """what the straight-line programs reached (debug observations): results per class, f80 denormals, operands of
    the arithmetic that are not images of binary64 values"""
    cov = {"trace_steps": 0, "trace_results_inf": 0, "trace_results_nan": 0, "trace_results_zero": 0,
           "trace_results_f80_denormal": 0, "trace_results_beyond_f64_range": 0,
           "trace_arith_steps_with_an_extended_operand": 0, "trace_same_register_relations": 0}
    for c, line in zip(cases, obs_lines):
        if c["op"] != "trace":
            continue
        t = line.split()
        st = c["steps"]
        if not t or t[0] != "T" or len(t) != 5 + 4 * len(st):
            continue
        regs = [(int(t[1]), int(t[2])), (int(t[3]), int(t[4]))]
        for k, (o, i, j) in enumerate(st):
            q = 5 + 4 * k
            se, m = int(t[q]), int(t[q + 1])
            cov["trace_steps"] += 1
            cl = raw_class(se, m)
            if cl != "fin":
                cov["trace_results_" + cl] += 1
            if cl == "fin":
                e = se & 0x7FFF
                if e == 0:
                    cov["trace_results_f80_denormal"] += 1
                if e > 16383 + 1023 or e < 16383 - 1074:
                    cov["trace_results_beyond_f64_range"] += 1
            if i == j:
                cov["trace_same_register_relations"] += 1
            if o not in UNARY and o not in ("min", "max"):
                if any(raw_class(*regs[z]) == "fin" and (regs[z][1] & 0x7FF) != 0 for z in (i, j)):
                    cov["trace_arith_steps_with_an_extended_operand"] += 1
            regs.append((se, m))
    return cov


RAW_AT = set(list(range(0, 18, 2)) + [30, 32, 34] + list(range(EXT0 + 1, EXT0 + 9, 2))
             + [EXT0 + 9 + 5 * i + j for i in range(N_REL) for j in (1, 3)]
             + list(range(EXT0 + 9 + 5 * N_REL, N_TOK, 2)))
F64_AT = set(list(range(18, 24)) + [EXT0])


def raw_is_nan(se, m):
    return (int(se) & 0x7FFF) == 0x7FFF and int(m) != 1 << 63


def bits_is_nan(v):
    v = int(v)
    return (v >> 52) & 0x7FF == 0x7FF and v & ((1 << 52) - 1) != 0


def same_obs(x, y):
    """equal token by token; two NaN raws / NaN bit patterns count as equal"""
    if x == y:
        return True
    if " K " in x or " K " in y:          # leaf kernels: `<T line> K <kind> v0 .. v5`, the integers exactly
        if " K " not in x or " K " not in y:
            return False
        (hx_, kx), (hy_, ky) = x.split(" K ", 1), y.split(" K ", 1)
        return kx == ky and same_obs(hx_, hy_)
    tx, ty = x.split(), y.split()
    if len(tx) != len(ty) or not tx:
        return False
    if tx[0] == "T" and ty[0] == "T" and len(tx) >= 5 and (len(tx) - 5) % 4 == 0:
        # T raw raw (raw f64 code)*
        def raw_ok(k):
            return (raw_is_nan(tx[k], tx[k + 1]) and raw_is_nan(ty[k], ty[k + 1])) or tx[k:k + 2] == ty[k:k + 2]
        if not (raw_ok(1) and raw_ok(3)):
            return False
        for k in range(5, len(tx), 4):
            if not raw_ok(k):
                return False
            if not ((bits_is_nan(tx[k + 2]) and bits_is_nan(ty[k + 2])) or tx[k + 2] == ty[k + 2]):
                return False
            if tx[k + 3] != ty[k + 3]:
                return False
        return True
    if len(tx) != N_TOK or tx[0] == "X" or ty[0] == "X":
        return False
    i = 0
    while i < N_TOK:
        if i in RAW_AT:
            nx, ny = raw_is_nan(tx[i], tx[i + 1]), raw_is_nan(ty[i], ty[i + 1])
            if not ((nx and ny) or (tx[i] == ty[i] and tx[i + 1] == ty[i + 1])):
                return False
            i += 2
        elif i in F64_AT:
            if not ((bits_is_nan(tx[i]) and bits_is_nan(ty[i])) or int(tx[i]) == int(ty[i])):
                return False
            i += 1
        else:
            if tx[i] != ty[i]:
                return False
            i += 1
    return True


MANIFEST = {
    "text": "Coq theorems (36 pinned; standard-library classical-real axioms through Flocq) about an executable "
            "spec_float model of rlib_f80 (IEEE operations at prec 64 / emax 16384, comparisons read from the x87 flags "
            "exactly as the code reads them): c18_transport_add/sub/mul/div (the executable SpecFloat operations at "
            "(64,16384) ARE Flocq's Bplus/Bminus/Bmult/Bdiv), c18_add/sub/mul/div_correct and *_correct_f80 (for operands "
            "that are images of binary64 values - never overflowing - and for arbitrary extended-format operands while the "
            "result does not overflow: the exact real result rounded once to nearest-even at 64 bits), c18_*_special (signed zeros, infinities, "
            "NaN table), c18_neg, c18_widen_exact / c18_widen_injective / c18_roundtrip_f64 (f64 -> f80 is exact, f64 -> "
            "f80 -> f64 is the identity), c18_narrow_correct / c18_narrow_special (f80 -> f64 rounds correctly), "
            "c18_lt_is_ieee, c18_eq_is_ieee, c18_le_ge_partial_cmp, c18_eq_consistent, c18_compare_real / "
            "c18_compare_real_f80 / c18_compare_inf, c18_nan_unordered, c18_zeros_equal (the relations as coded after the "
            "two repairs are the IEEE relations), c18_min_max_abs / c18_min_max_ties, c18_rne_ok_sound / "
            "c18_spec_check_sound (the per-case exact nearest-even check used by spec_check is sound). The model is tied "
            "to the inline assembly on every run: raw results of + - * / neg, an operation chain, all conversions, all "
            "relations, min/max/abs on boundary x boundary binary64 patterns plus random pairs are compared with the "
            "model and, independently, with exact integer/rational arithmetic (nearest-even check against both "
            "neighbours). The relations, min, max, abs are observed both on images of binary64 values and on "
            "genuinely extended-format operands (x*y+x, x*y, x/y, x+y against their own roundings through binary64 and "
            "against each other: values one 64-bit ulp apart, beyond / below the binary64 range); on those the "
            "specification side compares the observed booleans with the exact order of the OBSERVED raw operands, and "
            "c18_spec_check_sound states that an accepted observation is the model's relation on them. The same "
            "observation line is also required from the other entry points of the crate (assigning operators, the "
            "constants ZERO / ONE / default(), comparisons through one and the same reference, partial_cmp on loop "
            "temporaries, a thread that never called f80_init, repeated f80_init) and after histories that end abnormally "
            "on the same thread (Display / Debug of f80 values under 22 format specifications into a String, into "
            "bounded fmt::Write / io::Write sinks that fail after k bytes, into panicking sinks; panicking user Display "
            "impls; sort_by / max_by / binary_search_by / fold / map closures over f80 values that panic or stop "
            "early; a thread spawned afterwards), while the executor compares the hidden x87 / SSE state (control word, "
            "stack top, tag word, MXCSR control bits) before and after every single operation, formatting call and "
            "program step, and straight-line programs of up to "
            "about twenty steps (Coq constructor Trace, c18_spec_trace_sound: an accepted program's every step is the "
            "model's operation on the observed operand raws) carry every operator, neg, abs, min, max and the relations "
            "to arbitrary extended-format operands, f80 overflow and f80 denormals included. The operations are "
            "also exercised INLINED into 20 leaf kernels (no call inside: dot product, Horner, running sums with "
            "loop-invariant f80 factors, counting against an f80 limit, min/max scans, 2-8 live invariants, f80 mixed "
            "with f64/SSE arithmetic and integer flags) whose f80 locals live in the red zone across conversions, "
            "relations, min, max, abs, neg; each kernel must agree bit for bit with the same quantity computed step "
            "by step through the interpreter (values through memory), with exact rational arithmetic in the plugin, "
            "and across the debug / release / lto builds (this is what sees an asm block whose options(nostack) - or "
            "pure / nomem / preserves_flags - promise is wrong only under inlining). A release build with fat "
            "LTO and a process that never calls f80_init must reproduce the debug observations.",
    "level_note": "Trusted: Coq kernel + vm_compute, classical-real axioms of the standard library (through Flocq), "
                  "the Rust executor and the Python case printer; x87 semantics are assumed to be the IEEE semantics "
                  "of the model (checked bit for bit on every sampled input, not proved).",
    "technique": "Coq proof over SpecFloat/Flocq model + vm_compute correspondence batches against the real x87 results",
}
