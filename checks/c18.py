"""C18 — f80 (x87 80-bit extended): correctly rounded arithmetic, exact conversions, IEEE order (rlib/f80)."""
import struct
import sys

ID = "C18"
CRATE = "c18"
COQ_DIR = "C18"
COQ_DEPS = []
PROFILES = ["debug", "release"]
CORR_IMPORT = "From Coq Require Import Floats.SpecFloat Uint63.\nFrom RlibV Require Import C18.Model C18.Corr.\nOpen Scope Z_scope.\nOpen Scope uint63_scope."
CASE_TYPE = "case"
AUDIT_IMPORT = ("From Coq Require Import ZArith Reals Bool List Floats.SpecFloat.\n"
                "From Flocq Require Import Core.Zaux Core.Raux Core.Defs Core.Generic_fmt Core.FLT Core.Round_NE "
                "IEEE754.BinarySingleNaN.\n"
                "From RlibV Require Import C18.Model C18.Corr C18.Spec C18.Properties.\nOpen Scope Z_scope.")
EXPLAIN = "explain"
AXIOM_ALLOW = ["ClassicalDedekindReals.sig_forall_dec", "ClassicalDedekindReals.sig_not_dec",
               "FunctionalExtensionality.functional_extensionality_dep", "Classical_Prop.classic"]
THEOREMS = [
    ("c18_transport_add", "forall (prec emax : Z) (Hp : FLX.Prec_gt_0 prec) (He : Prec_lt_emax prec emax) (x y : binary_float prec emax), SFadd prec emax (B2SF x) (B2SF y) = B2SF (@Bplus prec emax Hp He mode_NE x y)"),
    ("c18_transport_sub", "forall (prec emax : Z) (Hp : FLX.Prec_gt_0 prec) (He : Prec_lt_emax prec emax) (x y : binary_float prec emax), SFsub prec emax (B2SF x) (B2SF y) = B2SF (@Bminus prec emax Hp He mode_NE x y)"),
    ("c18_transport_mul", "forall (prec emax : Z) (Hp : FLX.Prec_gt_0 prec) (He : Prec_lt_emax prec emax) (x y : binary_float prec emax), SFmul prec emax (B2SF x) (B2SF y) = B2SF (@Bmult prec emax Hp He mode_NE x y)"),
    ("c18_transport_div", "forall (prec emax : Z) (Hp : FLX.Prec_gt_0 prec) (He : Prec_lt_emax prec emax) (x y : binary_float prec emax), SFdiv prec emax (B2SF x) (B2SF y) = B2SF (@Bdiv prec emax Hp He mode_NE x y)"),
    ("c18_add_correct", "forall a b : spec_float, valid64 a -> valid64 b -> finite a -> finite b -> let r := add80 (widen a) (widen b) in val r = rnd80 (val a + val b) /\\ finite r /\\ valid80 r /\\ sign_SF r = sum_sign (val a + val b) (sign_SF a) (sign_SF b)"),
    ("c18_sub_correct", "forall a b : spec_float, valid64 a -> valid64 b -> finite a -> finite b -> let r := sub80 (widen a) (widen b) in val r = rnd80 (val a - val b) /\\ finite r /\\ valid80 r /\\ sign_SF r = sum_sign (val a - val b) (sign_SF a) (negb (sign_SF b))"),
    ("c18_mul_correct", "forall a b : spec_float, valid64 a -> valid64 b -> finite a -> finite b -> let r := mul80 (widen a) (widen b) in val r = rnd80 (val a * val b) /\\ finite r /\\ valid80 r /\\ sign_SF r = xorb (sign_SF a) (sign_SF b)"),
    ("c18_div_correct", "forall a b : spec_float, valid64 a -> valid64 b -> finite a -> finite b -> val b <> 0%R -> let r := div80 (widen a) (widen b) in val r = rnd80 (val a / val b) /\\ finite r /\\ valid80 r /\\ sign_SF r = xorb (sign_SF a) (sign_SF b)"),
    ("c18_add_correct_f80", "forall x y : spec_float, valid80 x -> valid80 y -> finite x -> finite y -> (Rabs (rnd80 (val x + val y)) < bpow radix2 e80)%R -> val (add80 x y) = rnd80 (val x + val y) /\\ finite (add80 x y) /\\ valid80 (add80 x y) /\\ sign_SF (add80 x y) = sum_sign (val x + val y) (sign_SF x) (sign_SF y)"),
    ("c18_sub_correct_f80", "forall x y : spec_float, valid80 x -> valid80 y -> finite x -> finite y -> (Rabs (rnd80 (val x - val y)) < bpow radix2 e80)%R -> val (sub80 x y) = rnd80 (val x - val y) /\\ finite (sub80 x y) /\\ valid80 (sub80 x y) /\\ sign_SF (sub80 x y) = sum_sign (val x - val y) (sign_SF x) (negb (sign_SF y))"),
    ("c18_mul_correct_f80", "forall x y : spec_float, valid80 x -> valid80 y -> finite x -> finite y -> (Rabs (rnd80 (val x * val y)) < bpow radix2 e80)%R -> val (mul80 x y) = rnd80 (val x * val y) /\\ finite (mul80 x y) /\\ valid80 (mul80 x y) /\\ sign_SF (mul80 x y) = xorb (sign_SF x) (sign_SF y)"),
    ("c18_div_correct_f80", "forall x y : spec_float, valid80 x -> valid80 y -> finite x -> finite y -> val y <> 0%R -> (Rabs (rnd80 (val x / val y)) < bpow radix2 e80)%R -> val (div80 x y) = rnd80 (val x / val y) /\\ finite (div80 x y) /\\ valid80 (div80 x y) /\\ sign_SF (div80 x y) = xorb (sign_SF x) (sign_SF y)"),
    ("c18_add_special", "(forall y, add80 S754_nan y = S754_nan) /\\ (forall x, add80 x S754_nan = S754_nan) /\\ (forall s, add80 (S754_infinity s) (S754_infinity s) = S754_infinity s) /\\ (forall s, add80 (S754_infinity s) (S754_infinity (negb s)) = S754_nan) /\\ (forall s y, finite y -> add80 (S754_infinity s) y = S754_infinity s /\\ add80 y (S754_infinity s) = S754_infinity s) /\\ (forall s1 s2, add80 (S754_zero s1) (S754_zero s2) = S754_zero (andb s1 s2)) /\\ (forall s y, is_finite_strict_SF y = true -> add80 (S754_zero s) y = y /\\ add80 y (S754_zero s) = y)"),
    ("c18_sub_special", "(forall y, sub80 S754_nan y = S754_nan) /\\ (forall x, sub80 x S754_nan = S754_nan) /\\ (forall s, sub80 (S754_infinity s) (S754_infinity (negb s)) = S754_infinity s) /\\ (forall s, sub80 (S754_infinity s) (S754_infinity s) = S754_nan) /\\ (forall s y, finite y -> sub80 (S754_infinity s) y = S754_infinity s /\\ sub80 y (S754_infinity s) = S754_infinity (negb s)) /\\ (forall s1 s2, sub80 (S754_zero s1) (S754_zero s2) = S754_zero (andb s1 (negb s2))) /\\ (forall s y, is_finite_strict_SF y = true -> sub80 (S754_zero s) y = SFopp y /\\ sub80 y (S754_zero s) = y)"),
    ("c18_mul_special", "(forall y, mul80 S754_nan y = S754_nan) /\\ (forall x, mul80 x S754_nan = S754_nan) /\\ (forall s1 s2, mul80 (S754_infinity s1) (S754_infinity s2) = S754_infinity (xorb s1 s2)) /\\ (forall s1 s2, mul80 (S754_infinity s1) (S754_zero s2) = S754_nan /\\ mul80 (S754_zero s2) (S754_infinity s1) = S754_nan) /\\ (forall s y, is_finite_strict_SF y = true -> mul80 (S754_infinity s) y = S754_infinity (xorb s (sign_SF y)) /\\ mul80 y (S754_infinity s) = S754_infinity (xorb (sign_SF y) s)) /\\ (forall s y, finite y -> mul80 (S754_zero s) y = S754_zero (xorb s (sign_SF y)) /\\ mul80 y (S754_zero s) = S754_zero (xorb (sign_SF y) s))"),
    ("c18_div_special", "(forall y, div80 S754_nan y = S754_nan) /\\ (forall x, div80 x S754_nan = S754_nan) /\\ (forall s1 s2, div80 (S754_infinity s1) (S754_infinity s2) = S754_nan) /\\ (forall s1 s2, div80 (S754_zero s1) (S754_zero s2) = S754_nan) /\\ (forall s y, finite y -> div80 (S754_infinity s) y = S754_infinity (xorb s (sign_SF y)) /\\ div80 y (S754_infinity s) = S754_zero (xorb (sign_SF y) s)) /\\ (forall s y, is_finite_strict_SF y = true -> div80 y (S754_zero s) = S754_infinity (xorb (sign_SF y) s) /\\ div80 (S754_zero s) y = S754_zero (xorb s (sign_SF y)))"),
    ("c18_neg", "forall x : spec_float, val (neg80 x) = (- val x)%R /\\ neg80 (neg80 x) = x /\\ (x <> S754_nan -> sign_SF (neg80 x) = negb (sign_SF x)) /\\ is_finite_SF (neg80 x) = is_finite_SF x /\\ is_nan_SF (neg80 x) = is_nan_SF x /\\ (valid80 x -> valid80 (neg80 x))"),
    ("c18_widen_exact", "forall a : spec_float, valid64 a -> valid80 (widen a) /\\ val (widen a) = val a /\\ is_finite_SF (widen a) = is_finite_SF a /\\ is_nan_SF (widen a) = is_nan_SF a /\\ sign_SF (widen a) = sign_SF a /\\ (forall s, widen a = S754_zero s <-> a = S754_zero s) /\\ (forall s, widen a = S754_infinity s <-> a = S754_infinity s) /\\ (widen a = S754_nan <-> a = S754_nan)"),
    ("c18_widen_injective", "forall a b : spec_float, valid64 a -> valid64 b -> widen a = widen b -> a = b"),
    ("c18_roundtrip_f64", "forall a : spec_float, valid64 a -> narrow (widen a) = a"),
    ("c18_narrow_correct", "forall (s : bool) (m : positive) (e : Z), let x := S754_finite s m e in ((Rabs (rnd64 (val x)) < bpow radix2 e64)%R -> val (narrow x) = rnd64 (val x) /\\ is_finite_SF (narrow x) = true /\\ sign_SF (narrow x) = s /\\ valid64 (narrow x)) /\\ ((bpow radix2 e64 <= Rabs (rnd64 (val x)))%R -> narrow x = S754_infinity s)"),
    ("c18_narrow_special", "(forall s, narrow (S754_zero s) = S754_zero s) /\\ (forall s, narrow (S754_infinity s) = S754_infinity s) /\\ narrow S754_nan = S754_nan"),
    ("c18_lt_is_ieee", "forall x y : spec_float, (lt80 x y = true <-> SFcompare x y = Some Lt) /\\ (gt80 x y = true <-> SFcompare x y = Some Gt)"),
    ("c18_eq_is_ieee", "forall x y : spec_float, eq80 x y = true <-> SFcompare x y = Some Eq"),
    ("c18_le_ge_partial_cmp", "forall x y : spec_float, (le80 x y = true <-> SFcompare x y = Some Lt \\/ SFcompare x y = Some Eq) /\\ (ge80 x y = true <-> SFcompare x y = Some Gt \\/ SFcompare x y = Some Eq) /\\ partial_cmp80 x y = SFcompare x y /\\ (partial_cmp80 x y = None <-> x = S754_nan \\/ y = S754_nan)"),
    ("c18_eq_consistent", "forall x y : spec_float, eq80 x y = true <-> partial_cmp80 x y = Some Eq"),
    ("c18_compare_real", "forall a b : spec_float, valid64 a -> valid64 b -> finite a -> finite b -> partial_cmp80 (widen a) (widen b) = Some (Rcompare (val a) (val b))"),
    ("c18_compare_real_f80", "forall x y : spec_float, valid80 x -> valid80 y -> finite x -> finite y -> SFcompare x y = Some (Rcompare (val x) (val y))"),
    ("c18_compare_inf", "(forall s y, finite y -> SFcompare (S754_infinity s) y = Some (if s then Lt else Gt) /\\ SFcompare y (S754_infinity s) = Some (if s then Gt else Lt)) /\\ SFcompare (S754_infinity true) (S754_infinity false) = Some Lt /\\ SFcompare (S754_infinity false) (S754_infinity true) = Some Gt /\\ (forall s, SFcompare (S754_infinity s) (S754_infinity s) = Some Eq)"),
    ("c18_nan_unordered", "forall y : spec_float, le80 S754_nan y = false /\\ ge80 S754_nan y = false /\\ le80 y S754_nan = false /\\ ge80 y S754_nan = false /\\ partial_cmp80 S754_nan y = None /\\ eq80 S754_nan y = false /\\ eq80 y S754_nan = false"),
    ("c18_zeros_equal", "forall s1 s2 : bool, eq80 (S754_zero s1) (S754_zero s2) = true"),
    ("c18_min_max_abs", "forall x y : spec_float, x <> S754_nan -> y <> S754_nan -> ((min80 x y = x \\/ min80 x y = y) /\\ SFleb (min80 x y) x = true /\\ SFleb (min80 x y) y = true) /\\ ((max80 x y = x \\/ max80 x y = y) /\\ SFleb x (max80 x y) = true /\\ SFleb y (max80 x y) = true) /\\ val (abs80 x) = Rabs (val x) /\\ abs80 x = match x with S754_zero _ => x | _ => SFabs x end"),
    ("c18_min_max_ties", "forall x y : spec_float, (SFcompare x y = Some Eq -> min80 x y = y /\\ max80 x y = x) /\\ (x = S754_nan \\/ y = S754_nan -> min80 x y = y /\\ max80 x y = x)"),
    ("c18_rne_ok_sound", "forall prec emax : Z, 1 < prec -> prec < emax -> forall (num den E : Z) (r : spec_float), 0 < num -> 0 < den -> rne_ok prec emax num den E r = true -> let rv := round radix2 (FLT_exp (3 - emax - prec) prec) ZnearestE (IZR num / IZR den * bpow radix2 E) in match r with | S754_finite _ m e => rv = F2R (Float radix2 (Zpos m) e) /\\ bounded prec emax m e = true | S754_zero _ => rv = 0%R | S754_infinity _ => (bpow radix2 emax <= rv)%R | S754_nan => False end"),
    ("c18_spec_check_sound", "forall (op : opk) (a b : Z) (o : obs), spec_check (Case op a b o) = true -> let x := decode80 (o_wa o) in let y := decode80 (o_wb o) in (sel op OAdd = true -> valid80 x /\\ valid80 y /\\ decode80 (o_add o) = add80 x y /\\ decode64 (o_nadd o) = narrow (decode80 (o_add o))) /\\ (sel op OSub = true -> valid80 x /\\ valid80 y /\\ decode80 (o_sub o) = sub80 x y /\\ decode64 (o_nsub o) = narrow (decode80 (o_sub o))) /\\ (sel op OMul = true -> valid80 x /\\ valid80 y /\\ decode80 (o_mul o) = mul80 x y /\\ decode64 (o_nmul o) = narrow (decode80 (o_mul o))) /\\ (sel op ODiv = true -> valid80 x /\\ valid80 y /\\ decode80 (o_div o) = div80 x y /\\ decode64 (o_ndiv o) = narrow (decode80 (o_div o))) /\\ (sel op OChain = true -> valid80 x /\\ valid80 y /\\ valid80 (decode80 (o_mul o)) /\\ decode80 (o_mad o) = add80 (decode80 (o_mul o)) x /\\ decode80 (o_chain o) = div80 (decode80 (o_mad o)) y /\\ decode64 (o_nchain o) = narrow (decode80 (o_chain o))) /\\ (sel op OExt = true -> (forall (u v : raw) (r : relobs), In (u, v, r) (ext_pairs o) -> let X := decode80 u in let Y := decode80 v in valid80 X /\\ valid80 Y /\\ r_lt r = lt80 X Y /\\ r_le r = le80 X Y /\\ r_gt r = gt80 X Y /\\ r_ge r = ge80 X Y /\\ r_eq r = eq80 X Y /\\ r_pcmp r = pcmp_code (partial_cmp80 X Y) /\\ (X <> S754_nan -> Y <> S754_nan -> ((decode80 (r_min r) = X \\/ decode80 (r_min r) = Y) /\\ SFleb (decode80 (r_min r)) X = true /\\ SFleb (decode80 (r_min r)) Y = true) /\\ ((decode80 (r_max r) = X \\/ decode80 (r_max r) = Y) /\\ SFleb X (decode80 (r_max r)) = true /\\ SFleb Y (decode80 (r_max r)) = true))) /\\ (forall u t : raw, In (u, t) (ext_abs o) -> match decode80 u with | S754_nan => True | S754_zero _ => exists s : bool, decode80 t = S754_zero s | E => decode80 t = SFabs E end) /\\ decode64 (x_nmad (o_ext o)) = narrow (decode80 (o_mad o)) /\\ (forall (n : Z) (w : raw), In (n, w) (ext_widened o) -> decode80 w = widen (decode64 n)))"),
]
# Driver limitation (checks/_driver.py parse_assumptions): the block of text after an "Axioms:" header runs up to
# the next header and therefore contains the output of the NEXT `Check (name : statement).`, whose first line
# "c18_xxx : ..." is mistaken for one more axiom of the previous theorem.  Until the driver cuts a block at the first
# unindented line that is not followed by an indented type, the names of the pinned theorems are tolerated here.
# (No constant of that name can be an axiom: the forbidden-token scan rejects every Axiom/Parameter declaration.)
AXIOM_ALLOW += [n for n, _ in THEOREMS]
SHARD = 1250
SEARCH_MAX = 20000
RULE = ("boundary set x boundary set of binary64 bit patterns, exhaustively (signed zeros, min/mid/max subnormals, "
        "MIN_POSITIVE, powers of two and their +-1ulp neighbours, 1-2^-53, 1+2^-52, 0.1, 1/3, huge/tiny exponents, "
        "f64::MAX, +-inf, quiet/signalling/negative NaN), plus random bit patterns, pairs with nearby exponents "
        "(cancellation, carries), half-ulp offsets at 64 and 53 bits (ties), sparse significands; every pair runs "
        "+ - * / neg, the chain (x*y+x)/y (intermediates need all 64 significand bits), f64->f80->f64, f80->f64 of "
        "each result, < <= > >= == partial_cmp min max abs on (x, y); and the same relations, min, max, abs on "
        "EXTENDED-FORMAT operands that are not images of binary64 values: e in {x*y+x, x*y, x/y, x+y} against "
        "n_e = f80(f64(e)) in both orders (equal, one 64-bit ulp apart, +-inf when e is beyond the binary64 range, "
        "+-0 when below it) and the pairs (x*y+x, x*y), (x*y, x+y), (x+y, x/y); dedicated random categories: e and "
        "n_e one 64-bit ulp apart (sums a +- 2^(E-63), products (1+f 2^-52)(1+2^-11)), products/quotients outside "
        "the binary64 exponent range, x*y+x against x*y with |y| >= 2^52; corpus witnesses 1e17+1, f64::MAX*16, "
        "f64::MAX^2, MIN_POSITIVE^2, 2^-1076, 1+2^-63, 1-2^-64, 1/3 (coverage counters ext_* in the evidence); "
        "non-trivial = both operands finite, non-zero, different")
TRUSTED = ["executor harness/crates/c18 (calls rlib_f80 operators/methods, prints the 10 raw bytes of each result "
           "as (sign/exponent word, significand word), f64 results as bit patterns, the six relations of a pair of "
           "extended operands as one code lt+2le+4gt+8ge+16eq+32partial_cmp)",
           "checks/c18.py (case generator, Coq term printer; in the extended-operand group a raw that repeats an "
           "operand raw word for word is printed as a back-reference, resolved by Corr.v's OBS/pick)",
           "x87 instructions are modelled, not verified: IEEE semantics at (prec 64, emax 16384), control word "
           "0x37F (extended precision, round to nearest even); the batch lemmas compare the hardware's raw results "
           "with the model bit for bit on every run"]
ASSUMPTIONS = ["operands of the arithmetic are images of binary64 values (as in the property) or, in the chain and in "
               "the relations on extended operands, results of one or two operations on such images; NaN payloads "
               "are not modelled: NaNs are compared as a class (x87 quiets signalling NaNs on load)",
               "theorems are about the spec_float model; correspondence with the inline assembly is sampled"]

OPS = {"all": "OAll", "add": "OAdd", "sub": "OSub", "mul": "OMul", "div": "ODiv", "neg": "ONeg", "chain": "OChain",
       "conv": "OConv", "rel": "ORel", "minmax": "OMinMax", "abs": "OAbs", "ext": "OExt"}
# layout of one observation line (harness/crates/c18/src/main.rs)
N_TOK = 108            # 36 tokens of the f64-image groups + 72 of the extended-operand group
EXT0 = 36              # bits(f64(m)); 4 raws n_m n_p n_q n_s; 11 x (code, raw min, raw max); 4 raws abs
N_REL = 11
M64 = (1 << 64) - 1
SIGN = 1 << 63


def bits(x):
    return struct.unpack("<Q", struct.pack("<d", x))[0]


def harness_line(c):
    return "%s %s %s" % (c["op"], c["a"], c["b"])


def w(v):
    v = int(v)
    return "(W %d %d)" % (v >> 32, v & 0xFFFFFFFF)


def r(se, m):
    m = int(m)
    return "(RW %s %d %d)" % (se, m >> 32, m & 0xFFFFFFFF)


def rsel(t, k, u, v):
    """the raw at tokens k, k+1 as a back-reference to the operand raw at u / at v when it is the very same two
    words, in full otherwise (Corr.v: rsel / pick)"""
    if t[k] == t[u] and t[k + 1] == t[u + 1]:
        return "SU"
    if t[k] == t[v] and t[k + 1] == t[v + 1]:
        return "SV"
    m = int(t[k + 1])
    return "(SR %s %d %d)" % (t[k], m >> 32, m & 0xFFFFFFFF)


# token positions of the raws of m = x*y+x, p = x*y, q = x/y, s = x+y and of n_m n_p n_q n_s
T_M, T_P, T_Q, T_S = 14, 8, 10, 4
T_N = {T_M: 37, T_P: 39, T_Q: 41, T_S: 43}


def ext_term(t):
    """the group OExt: tokens EXT0.. of the observation line, as the trailing arguments of Corr.v's OBS"""
    out = [w(t[EXT0])]
    es = (T_M, T_P, T_Q, T_S)
    out += [rsel(t, T_N[e], e, e) for e in es]
    pairs = []
    for e in es:
        pairs += [(e, T_N[e]), (T_N[e], e)]
    pairs += [(T_M, T_P), (T_P, T_S), (T_S, T_Q)]
    k = EXT0 + 9
    for (u, v) in pairs:
        out.append("(RL %s %s %s)" % (t[k], rsel(t, k + 1, u, v), rsel(t, k + 3, u, v)))
        k += 5
    out += [rsel(t, k + 2 * i, e, e) for i, e in enumerate(es)]
    return " ".join(out)


def coq_term(c, obs, profile):
    a, b = int(c["a"], 16), int(c["b"], 16)
    t = obs.split()
    if obs == "P" or len(t) != N_TOK:
        # no operation of the crate panics; make the case fail both checks
        bad = "(RW 0 0 1)"
        return "(Case %s %s %s (OBS %s 1 1 1 1 1 1 true true true true true 9 %s 1 %s %s %s))" % (
            OPS[c["op"]], w(a), w(b), " ".join([bad] * 9), " ".join([bad] * 3),
            " ".join(["SU"] * 4), " ".join(["(RL 0 SU SU)"] * N_REL), " ".join(["SU"] * 4))
    raws = [r(t[2 * i], t[2 * i + 1]) for i in range(9)]
    f64s = [w(v) for v in t[18:24]]
    bools = ["true" if v == "1" else "false" for v in t[24:29]]
    pc = t[29]
    tail = [r(t[30 + 2 * i], t[31 + 2 * i]) for i in range(3)]
    return "(Case %s %s %s (OBS %s %s %s %s %s %s))" % (
        OPS[c["op"]], w(a), w(b), " ".join(raws), " ".join(f64s), " ".join(bools), pc, " ".join(tail), ext_term(t))


def raw_class(se, m):
    se, m = int(se), int(m)
    e = se & 0x7FFF
    if e == 0x7FFF:
        return "inf" if m == 1 << 63 else "nan"
    return "zero" if m == 0 else "fin"


def ext_coverage(obs_lines):
    """how meaningful the group OExt is on these observation lines: over all (case, e in {m, p, q, s})"""
    cov = {"ext_values": 0, "ext_e_differs_from_n_e": 0, "ext_e_beyond_f64_range_n_e_inf": 0,
           "ext_e_below_f64_range_n_e_zero": 0, "ext_e_n_e_one_64bit_ulp_apart": 0,
           "ext_n_e_binary64_subnormal": 0, "ext_cases_with_a_differing_pair": 0,
           "ext_unrelated_pairs_ordered_but_equal_through_f64": 0}
    for line in obs_lines:
        t = line.split()
        if len(t) != N_TOK:
            continue
        any_diff = False
        for e in (T_M, T_P, T_Q, T_S):
            n = T_N[e]
            ce, cn = raw_class(t[e], t[e + 1]), raw_class(t[n], t[n + 1])
            if ce == "nan":
                continue
            cov["ext_values"] += 1
            if (t[e], t[e + 1]) == (t[n], t[n + 1]):
                continue
            any_diff = True
            cov["ext_e_differs_from_n_e"] += 1
            if ce == "fin" and cn == "inf":
                cov["ext_e_beyond_f64_range_n_e_inf"] += 1
            elif ce == "fin" and cn == "zero":
                cov["ext_e_below_f64_range_n_e_zero"] += 1
            elif ce == "fin" and cn == "fin":
                ve = ((int(t[e]) & 0x7FFF) << 64) + int(t[e + 1])      # monotone in the magnitude
                vn = ((int(t[n]) & 0x7FFF) << 64) + int(t[n + 1])
                if abs(ve - vn) == 1:
                    cov["ext_e_n_e_one_64bit_ulp_apart"] += 1
                if (int(t[n]) & 0x7FFF) < 16383 - 1022:
                    cov["ext_n_e_binary64_subnormal"] += 1
        cov["ext_cases_with_a_differing_pair"] += any_diff
        # the three pairs of unrelated extended values: ordered (code says < or >) although their binary64
        # roundings coincide
        k = EXT0 + 9 + 5 * 8
        f64_of = {T_M: EXT0, T_P: 21, T_Q: 22, T_S: 19}
        for (u, v) in ((T_M, T_P), (T_P, T_S), (T_S, T_Q)):
            code = int(t[k])
            k += 5
            if (code >> 5) in (1, 3) and t[f64_of[u]] == t[f64_of[v]]:
                cov["ext_unrelated_pairs_ordered_but_equal_through_f64"] += 1
    return cov


def fclass(h):
    v = int(h, 16)
    e, f = (v >> 52) & 0x7FF, v & ((1 << 52) - 1)
    if e == 0x7FF:
        return "nan" if f else "inf"
    if e == 0:
        return "sub" if f else "zero"
    return "norm"


def nontrivial(c, obs):
    return fclass(c["a"]) in ("sub", "norm") and fclass(c["b"]) in ("sub", "norm") and \
        (int(c["a"], 16) & ~SIGN) != (int(c["b"], 16) & ~SIGN)


def classify(c, obs):
    return "%s/%s,%s" % (c["op"], fclass(c["a"]), fclass(c["b"]))


def hx(v):
    return "%016x" % (v & M64)


# ---------------------------------------------------------------------------- boundary set
def pow2(k):
    """bit pattern of 2^k (k in [-1074, 1023])"""
    if k >= -1022:
        return (k + 1023) << 52
    return 1 << (k + 1074)


def boundary(tier):
    mags = [
        0, 1, 2, (1 << 52) - 1, 1 << 51,                      # zero, min / mid / max subnormals
        1 << 52, (1 << 52) + 1,                               # MIN_POSITIVE and its successor
        0x3FEFFFFFFFFFFFFF, 0x3FF0000000000000, 0x3FF0000000000001,   # 1-2^-53, 1, 1+2^-52
        bits(0.1), bits(1.0 / 3.0), bits(3.0), bits(0.5), bits(2.0), bits(1e17),
        0x3FFFFFFFFFFFFFFF,                                   # 2 - 2^-52: all-ones significand
        pow2(-64), pow2(-63), pow2(-53), pow2(53), pow2(63), pow2(64),
        pow2(-1021), pow2(-537), pow2(512), pow2(1023),
        0x7FEFFFFFFFFFFFFF, 0x7FEFFFFFFFFFFFFE,               # f64::MAX and its predecessor
        0x7FF0000000000000,                                   # inf
    ]
    nans = [0x7FF8000000000000, 0x7FF0000000000001, 0xFFF8000000000000]
    if tier != "quick":
        extra = []
        for k in [-1074, -1073, -1050, -1023, -1022, -1000, -600, -512, -256, -128, -65, -62, -54, -52, -51, -32, -12,
                  -11, -2, -1, 1, 2, 10, 11, 12, 31, 32, 51, 52, 54, 62, 65, 100, 127, 128, 255, 256, 511, 600, 1000,
                  1022]:
            p = pow2(k)
            extra += [p, p + 1] + ([p - 1] if p > 1 else [])
        extra += [bits(v) for v in (2.0 / 3.0, 3.141592653589793, 2.718281828459045, 1e-17, 1e308, 1e-308, 123.456,
                                    100.1, 0.7, 1e16, 9007199254740993.0, 4503599627370497.0, 1.5, 0.75, 7.0, 10.0)]
        extra += [0x3FF5555555555555, 0x3FFAAAAAAAAAAAAA, 0x3FF0000000000FFF, 0x3FF00000FFFFFFFF, 0x3FFFFFFFF0000000,
                  0x000FFFFFFFFFFFFE, 0x0008000000000001, 0x0000000000000003, 0x7FE0000000000001, 0x0010000000000002,
                  0x433FFFFFFFFFFFFF, 0x4340000000000001]
        mags += extra
        nans += [0x7FFFFFFFFFFFFFFF, 0x7FF4000000000000]
    seen, out = set(), []
    for m in mags:
        for v in (m, m | SIGN):
            if v not in seen:
                seen.add(v)
                out.append(v)
    for v in nans:
        if v not in seen:
            seen.add(v)
            out.append(v)
    return out


def mk(e, f, s=0):
    """assemble a pattern from biased exponent e (clamped to finite), 52-bit fraction f, sign s"""
    e = max(0, min(2046, e))
    return (s << 63) | (e << 52) | (f & ((1 << 52) - 1))


def sparse(rng):
    f = 0
    for _ in range(rng.range(0, 3)):
        f |= 1 << rng.below(52)
    if rng.chance(1, 3):
        k = rng.range(1, 52)
        f |= (1 << k) - 1                      # low run of ones: long carry chains
    if rng.chance(1, 4):
        k = rng.range(1, 52)
        f |= ((1 << k) - 1) << (52 - k)        # high run of ones
    return f


def odd_int(rng, nbits):
    """odd integer with exactly nbits bits"""
    if nbits <= 1:
        return 1
    return (1 << (nbits - 1)) | (rng.next() & ((1 << (nbits - 1)) - 1)) | 1


def from_int(n, shift, s=0):
    """pattern of n * 2^shift (n < 2^53), exponent clamped into the normal range"""
    bl = n.bit_length()
    e = max(1, min(2046, bl - 1 + shift + 1023))
    return (s << 63) | (e << 52) | ((n << (53 - bl)) & ((1 << 52) - 1))


def random_pair(rng):
    k = rng.below(15)
    if k == 12:                                 # e and n_e = f80(f64(e)) one 64-bit ulp apart
        if rng.chance(1, 2):
            # sum: a +- 2^(E-63) (+- 3*2^(E-65): rounds to the same last bit): a 64-bit significand whose low 11
            # bits are 0..01 resp. 1..11, so that the binary64 rounding is a itself
            e = rng.range(70, 2046)
            a = mk(e, rng.next() if rng.chance(1, 2) else sparse(rng), rng.below(2))
            b = mk(e - 63, 0, rng.below(2)) if rng.chance(2, 3) else mk(e - 65, 1 << 51, rng.below(2))
            return (a, b) if rng.chance(1, 2) else (b, a)
        # product (1 + f 2^-52)(1 + 2^-11) with the low 11 bits of f equal to 0..01 / 1..11: exact with 64 bits
        f = (rng.next() & ((1 << 52) - 1) & ~0x7FF) | rng.choice([1, 0x7FF])
        a = mk(rng.range(100, 1900), f, rng.below(2))
        b = mk(rng.range(900, 1100), 1 << 41, rng.below(2))
        return (a, b) if rng.chance(1, 2) else (b, a)
    if k == 13:                                 # products / quotients outside the binary64 exponent range but
        big = rng.chance(1, 2)                  # finite and non-zero in the extended format
        fa = rng.next() if rng.chance(2, 3) else sparse(rng)
        fb = rng.next() if rng.chance(2, 3) else sparse(rng)
        if rng.chance(1, 2):                    # product: unbiased exponents add up to >= 1024 resp. <= -1080
            if big:
                ea = rng.range(1030, 2046)
                eb = rng.range(3070 - ea, 2046)
            else:
                ea = rng.range(0, 966)
                eb = rng.range(0, 966 - ea)
        else:                                   # quotient: exponents differ by >= 1025 resp. <= -1080
            if big:
                ea = rng.range(1026, 2046)
                eb = rng.range(0, ea - 1025)
            else:
                ea = rng.range(0, 966)
                eb = rng.range(ea + 1080, 2046)
        return mk(ea, fa, rng.below(2)), mk(eb, fb, rng.below(2))
    if k == 14:                                 # x*y + x against x*y: |y| large, so that x only moves the last
        ea = rng.range(200, 1800)               # bits of the product (or is absorbed entirely)
        eb = 1023 + rng.choice([52, 53, 54, 60, 62, 63, 64, 65, 66])
        return (mk(ea, rng.next(), rng.below(2)),
                mk(eb, rng.next() if rng.chance(1, 2) else sparse(rng), rng.below(2)))
    if k == 10:                                 # odd k-bit x odd l-bit: the exact product has k+l-1 or k+l bits and is
        total = rng.choice([54, 55, 65, 66, 64, 53])   # odd: exact ties at 64 bits (f80) resp. 53 bits (narrowing)
        kk = rng.range(max(2, total - 53), min(53, total - 2))
        return (from_int(odd_int(rng, kk), rng.range(-900, 900), rng.below(2)),
                from_int(odd_int(rng, total - kk), rng.range(-100, 100), rng.below(2)))
    if k == 11:                                 # sums with 54..65 significant bits, odd: ties when narrowed
        sh = rng.range(-900, 900)
        gap = rng.choice([1, 1, 2, 11, 12])
        a = from_int(odd_int(rng, 53) if rng.chance(1, 2) else (1 << 52) | sparse(rng), sh + gap, rng.below(2))
        b = from_int(rng.choice([1, 1, 3, odd_int(rng, rng.range(1, gap + 1))]), sh, rng.below(2))
        return (a, b) if rng.chance(1, 2) else (b, a)
    if k == 0:
        return rng.next(), rng.next()
    if k == 1:                                  # moderate exponents, random significands
        return mk(rng.range(900, 1150), rng.next(), rng.below(2)), mk(rng.range(900, 1150), rng.next(), rng.below(2))
    if k in (2, 3):                             # nearby exponents: alignment shifts, carries, cancellation
        e = rng.range(1, 2046)
        d = rng.choice([-65, -64, -63, -54, -53, -52, -13, -12, -11, -10, -2, -1, 0, 0, 1, 2, 11, 12, 53, 64])
        fa = rng.next() if k == 2 else sparse(rng)
        fb = rng.next() if rng.chance(1, 2) else sparse(rng)
        return mk(e, fa, rng.below(2)), mk(e + d, fb, rng.below(2))
    if k == 4:                                  # neighbours: massive cancellation in a-b, quotient near 1
        a = mk(rng.range(1, 2046), rng.next(), rng.below(2))
        b = (a & ~SIGN) + rng.range(-3, 3)
        b = max(1, min(0x7FEFFFFFFFFFFFFF, b)) | (rng.below(2) << 63)
        return a, b
    if k == 5:                                  # half-ulp offsets at 64 bits (and 53 bits): ties in the sum
        e = rng.range(70, 2046)
        a = mk(e, rng.next() if rng.chance(1, 2) else sparse(rng), rng.below(2))
        off = rng.choice([64, 64, 63, 65, 53, 54, 52, 12, 11])
        f = rng.choice([0, 0, 1, 1 << 51, (1 << 52) - 1, rng.next()])
        return a, mk(e - off, f, rng.below(2))
    if k == 6:                                  # sparse x sparse: exact products / exact ties
        return mk(rng.range(1, 2046), sparse(rng), rng.below(2)), mk(rng.range(1, 2046), sparse(rng), rng.below(2))
    if k == 7:                                  # subnormal operand
        a = rng.next() & ((1 << 52) - 1) if rng.chance(1, 2) else (1 << rng.below(52)) | rng.below(4)
        a |= rng.below(2) << 63
        b = mk(rng.range(0, 2046), rng.next() if rng.chance(1, 2) else sparse(rng), rng.below(2))
        return (a, b) if rng.chance(1, 2) else (b, a)
    if k == 8:                                  # results that overflow / underflow binary64 on the way back
        e = rng.choice([1, 2, 30, 500, 511, 512, 513, 1023, 1500, 1535, 1536, 2000, 2045, 2046])
        e2 = rng.choice([1, 2, 30, 500, 511, 512, 513, 1023, 1500, 1535, 1536, 2000, 2045, 2046])
        return mk(e, rng.next(), rng.below(2)), mk(e2, rng.next(), rng.below(2))
    # equal magnitudes, both sign combinations; special operand against random
    a = rng.next()
    if rng.chance(1, 2):
        return a, a ^ (rng.below(2) << 63)
    sp = rng.choice([0, SIGN, 0x7FF0000000000000, 0xFFF0000000000000, 0x7FF8000000000000, 1, 0x7FEFFFFFFFFFFFFF])
    return (a, sp) if rng.chance(1, 2) else (sp, a)


def generate(rng, tier):
    cases = []
    B = boundary(tier)
    for a in B:
        for b in B:
            cases.append({"op": "all", "a": hx(a), "b": hx(b)})
    n = 900 if tier == "quick" else 16000
    for _ in range(n):
        a, b = random_pair(rng)
        cases.append({"op": "all", "a": hx(a), "b": hx(b)})
    return cases


def shrink(c):
    out = []
    if c["op"] == "all":
        for op in OPS:
            if op != "all":
                out.append(dict(c, op=op))
        return out
    for key in ("a", "b"):
        v = int(c[key], 16)
        cands = [0x3FF0000000000000, 0, v & ~SIGN]
        for k in (52, 40, 26, 13, 4, 1):                      # clear low significand bits
            cands.append(v & ~((1 << k) - 1))
        e = (v >> 52) & 0x7FF
        if 0 < e < 0x7FF:
            cands.append((v & ~(0x7FF << 52)) | (1023 << 52))    # move into [1, 2)
            cands.append((v & ~(0x7FF << 52)) | (((e + 1023) // 2) << 52))
        for w in cands:
            if w != v:
                out.append(dict(c, **{key: hx(w)}))
    return out


def known_finding(case, obs, profile):
    return None


def extra(ctx, known):
    """Implementation-level: the optimised build must return exactly what the debug build returned (whose results
    are the ones Coq compared with the model): inline asm without declared x87 clobbers meets the optimiser here."""
    import _driver
    cov, viol = {}, []
    ok, out, binp = _driver.build_harness(ctx, type("P", (), {"CRATE": CRATE}), "release")
    if not ok:
        return {"coverage": {"release_build": "failed"},
                "violations": [{"name": "release-build", "nofail": True, "kind": "broken-correspondence",
                                "payload": {"what": "the executor does not build in release profile", "log": out[-3000:]}}]}
    cases = generate(_driver.Rng(ctx.seed).fork(ID), ctx.tier)
    if ctx.tier != "quick":
        rng = _driver.Rng(ctx.seed + 104729).fork(ID)
        for _ in range(400000):
            a, b = random_pair(rng)
            cases.append({"op": "all", "a": hx(a), "b": hx(b)})
    lines = [harness_line(c) for c in cases]
    dbg = _driver.run_impl(ctx.bins["debug"], lines)
    rel = _driver.run_impl(binp, lines)
    diff = [i for i in range(len(lines)) if not same_obs(dbg[i], rel[i])]
    cov["release_vs_debug_cases"] = len(lines)
    # how meaningful the relations on extended-format operands were on this run (debug observations)
    cov.update(ext_coverage(dbg))
    cov["release_vs_debug_differences"] = len(diff)
    if diff:
        i = diff[0]
        viol.append({"name": "release-%s-%s" % (cases[i]["a"], cases[i]["b"]), "nofail": True,
                     "kind": "broken-correspondence",
                     "payload": {"case": cases[i], "what": "release and debug builds of rlib_f80 return different results",
                                 "debug": dbg[i], "release": rel[i], "other_differing_cases": len(diff) - 1}})
    return {"coverage": cov, "violations": viol, "known": []}


RAW_AT = set(list(range(0, 18, 2)) + [30, 32, 34] + list(range(EXT0 + 1, EXT0 + 9, 2))
             + [EXT0 + 9 + 5 * i + j for i in range(N_REL) for j in (1, 3)]
             + list(range(EXT0 + 9 + 5 * N_REL, N_TOK, 2)))
F64_AT = set(list(range(18, 24)) + [EXT0])


def raw_is_nan(se, m):
    return (int(se) & 0x7FFF) == 0x7FFF and int(m) != 1 << 63


def bits_is_nan(v):
    v = int(v)
    return (v >> 52) & 0x7FF == 0x7FF and v & ((1 << 52) - 1) != 0


def same_obs(x, y):
    """equal token by token; two NaN raws / NaN bit patterns count as equal"""
    if x == y:
        return True
    tx, ty = x.split(), y.split()
    if len(tx) != len(ty) or len(tx) != N_TOK:
        return False
    i = 0
    while i < N_TOK:
        if i in RAW_AT:
            nx, ny = raw_is_nan(tx[i], tx[i + 1]), raw_is_nan(ty[i], ty[i + 1])
            if not ((nx and ny) or (tx[i] == ty[i] and tx[i + 1] == ty[i + 1])):
                return False
            i += 2
        elif i in F64_AT:
            if not ((bits_is_nan(tx[i]) and bits_is_nan(ty[i])) or int(tx[i]) == int(ty[i])):
                return False
            i += 1
        else:
            if tx[i] != ty[i]:
                return False
            i += 1
    return True


MANIFEST = {
    "text": "Coq theorems (35 pinned; standard-library classical-real axioms through Flocq) about an executable "
            "spec_float model of rlib_f80 (IEEE operations at prec 64 / emax 16384, comparisons read from the x87 flags "
            "exactly as the code reads them): c18_transport_add/sub/mul/div (the executable SpecFloat operations at "
            "(64,16384) ARE Flocq's Bplus/Bminus/Bmult/Bdiv), c18_add/sub/mul/div_correct and *_correct_f80 (for operands "
            "that are images of binary64 values - never overflowing - and for arbitrary extended-format operands while the "
            "result does not overflow: the exact real result rounded once to nearest-even at 64 bits), c18_*_special (signed zeros, infinities, "
            "NaN table), c18_neg, c18_widen_exact / c18_widen_injective / c18_roundtrip_f64 (f64 -> f80 is exact, f64 -> "
            "f80 -> f64 is the identity), c18_narrow_correct / c18_narrow_special (f80 -> f64 rounds correctly), "
            "c18_lt_is_ieee, c18_eq_is_ieee, c18_le_ge_partial_cmp, c18_eq_consistent, c18_compare_real / "
            "c18_compare_real_f80 / c18_compare_inf, c18_nan_unordered, c18_zeros_equal (the relations as coded after the "
            "two repairs are the IEEE relations), c18_min_max_abs / c18_min_max_ties, c18_rne_ok_sound / "
            "c18_spec_check_sound (the per-case exact nearest-even check used by spec_check is sound). The model is tied "
            "to the inline assembly on every run: raw results of + - * / neg, an operation chain, all conversions, all "
            "relations, min/max/abs on boundary x boundary binary64 patterns plus random pairs are compared with the "
            "model and, independently, with exact integer/rational arithmetic (nearest-even check against both "
            "neighbours). The relations, min, max, abs are observed both on images of binary64 values and on "
            "genuinely extended-format operands (x*y+x, x*y, x/y, x+y against their own roundings through binary64 and "
            "against each other: values one 64-bit ulp apart, beyond / below the binary64 range); on those the "
            "specification side compares the observed booleans with the exact order of the OBSERVED raw operands, and "
            "c18_spec_check_sound states that an accepted observation is the model's relation on them.",
    "level_note": "Trusted: Coq kernel + vm_compute, classical-real axioms of the standard library (through Flocq), "
                  "the Rust executor and the Python case printer; x87 semantics are assumed to be the IEEE semantics "
                  "of the model (checked bit for bit on every sampled input, not proved).",
    "technique": "Coq proof over SpecFloat/Flocq model + vm_compute correspondence batches against the real x87 results",
}
