"""C20 — rec_lambda! (rlib/lambda): muncher model generated from the source + real expansion + compile-and-run battery.

The model of this property is a VALUE (`current_macros : macros`, coq/theories/C20/Model.v) that the TRANSLATOR below
produces from rlib/lambda/src/lib.rs on every run.  The generic theorems (Properties.v) hold for every macro set that
satisfies the decidable predicate `well_formed`; the run applies them to the freshly translated value
(`Lemma current_ok : well_formed current_macros = true. Proof. vm_compute. reflexivity. Qed.` in a generated file).
"""
import os
import re
import subprocess
from math import gcd

ID = "C20"
CRATE = "c20"
COQ_DIR = "C20"
PROFILES = ["debug"]
CASE_TYPE = "case"
EXPLAIN = "explain"
SHARD = 2000
SEARCH_MAX = 160
ESCALATE_MAX = 40
AXIOM_ALLOW = []
ROOT = os.path.dirname(os.path.dirname(os.path.abspath(__file__)))
THEORIES = os.path.join(ROOT, "coq", "theories")
SNAPSHOT = os.path.join(THEORIES, "C20", "Current.v")
# a translation that differs from the snapshot Current.v but is still `well_formed` (proved at run time, so every generic
# theorem applies to it) and passes the enlarged battery is reported in the evidence only; set True to make it a violation
SNAPSHOT_STRICT = False

# CORR_IMPORT is completed by prepare(): the batch files import the generated file of this run
CORR_BASE = "From RlibV Require Import C20.Model C20.Corr.\n"
CORR_IMPORT = CORR_BASE + "From RlibV Require Import C20.Current.\nDefinition model_check := model_check_with current_macros.\n" \
                          "Definition explain := explain_with current_macros.\nOpen Scope N_scope."
AUDIT_IMPORT = "From Coq Require Import List NArith Bool.\nImport ListNotations.\nFrom RlibV Require Import C20.Model C20.Spec C20.Corr C20.Current C20.Properties."
HARNESS_ENV = {}

BODY_T = "selfT V -> list V -> list N -> list N -> store V -> option (V * store V)"
SEM = ("forall (V : Type) (body : %s), body_ext V body -> forall (n : nat) (syn : bool) (args : list V) (st : store V), "
       "closure V body s e n args st = hand V body s n syn args st" % BODY_T)
CORRECT = ("forall s : shape, sh_args s <> [] -> NoDup (all_names s) -> exists e, expand %s s = Some e /\\ consistent s e "
           "/\\ (forall (X : Type) (es : list (X + N)), call_plain e es = call_trailing e es) /\\ " + SEM)
THEOREMS = [
    ("c20_expand_total", "forall (ms : macros) (s : shape), well_formed ms = true -> sh_args s <> [] -> exists e, expand ms s = Some e"),
    ("c20_positional_consistency", "forall (ms : macros) (s : shape), well_formed ms = true -> sh_args s <> [] -> "
                                   "exists e, expand ms s = Some e /\\ consistent s e"),
    ("c20_call_syntaxes_agree", "forall (ms : macros) (s : shape) (e : expansion) (X : Type) (es : list (X + N)), "
                                "well_formed ms = true -> sh_args s <> [] -> expand ms s = Some e -> call_plain e es = call_trailing e es"),
    ("c20_semantics", "forall (ms : macros) (s : shape) (e : expansion), well_formed ms = true -> sh_args s <> [] -> "
                      "expand ms s = Some e -> NoDup (all_names s) -> " + SEM),
    ("c20_current_well_formed", "well_formed current_macros = true"),
    ("c20_current_order", "forall s : shape, sh_args s <> [] -> expand current_macros s = Some (emit (m_final current_macros) "
                          "(mkAccs (rev (caps_of Shared s)) (rev (caps_of Mutable s)) (sh_args s)) (ret_ty (sh_ret s)))"),
    ("c20_current_correct", CORRECT % "current_macros"),
    ("c20_observed_item_correct",
     "forall (ms : macros) (s : shape) (trailing compiled : bool) (e' : expansion) (calls : list (list (N + N))) "
     "(rm rh : list BinNums.Z), well_formed ms = true -> sh_args s <> [] -> NoDup (all_names s) -> "
     "model_check_with ms (Case s trailing (Some (e', calls)) compiled rm rh) = true -> consistent s e' /\\ "
     "Forall (fun c => c = call_trailing e' (map inl (iota (length (sh_args s)) 0%N))) calls /\\ "
     + SEM.replace(" s e n ", " s e' n ")),
    ("c20_rustc_partial", "forall (ms : macros) (s : shape), well_formed ms = true -> sh_args s <> [] -> NoDup (all_names s) -> "
                          "exists e, expand ms s = Some e /\\ " + SEM),
]

RULE = ("invocation shapes of rec_lambda!: capture pattern over {&,&mut} (<= 4 captures, incl. none) x capture types {Vec<u64>,u64} x "
        "1..4 arguments x {return type, none} x {f!(a,b), f!(a,b,)}; quick = 0 captures in all combinations + every non-empty "
        "pattern once + alternating patterns with 3 and 4 arguments in all combinations + 12 spread shapes + count boundaries "
        "(8 and 16 captures, 6 arguments); thorough = all 496 combinations + 5 captures + count boundaries up to 60 captures / 8 "
        "arguments; each shape is expanded by the real rustc (compared with the model's prediction; the expansion under "
        "-C debug-assertions=off must be the same text), compiled and run against the hand-written recursive fn, in a DEBUG "
        "build and in a RELEASE build (-C opt-level=3 -C debug-assertions=off, library built likewise). On top of the base "
        "program every shape carries program families (quick: one family per shape in rotation and all of them on the 12 "
        "spread shapes; thorough: all of them on every shape of the stated quantifier), each again macro version against "
        "hand-written version on the same shape: T recursive calls laid out inline / vertically over several lines / "
        "without spaces (with syn=1 every call ends in a comma; the layouts rotate inside EVERY family); L calls inside "
        "for/while/match arms/inner closures/vec!/format!/assert!/method receivers/operands/indices; E early return, break "
        "with value out of labelled loops, ? in inner closures; A argument expressions that read or mutate captures, nested "
        "calls, also without return value; Y argument types {usize,i64,tuple,array,Option,&[u64],String,&str,&mut Vec,bool,"
        "Vec,Box,&u64}, capture types {Vec<Vec<usize>>,HashMap<(usize,usize),u64>,[u64;3],Cell,String,tuple,Box<dyn FnMut>,"
        "fn pointer,&'static str,Option<Box>}, return types {(),bool,tuple,Vec,Option and Result with ?,Box,array,String,"
        "usize, the opaque types impl Iterator<Item=u64> / impl Fn(u64)->u64 / impl Sized / impl Display (all accepted by "
        "the macro as it stands; not combined with family X on shapes with a &mut capture, an edition-2024 rule), the "
        "references &u64 / Option<&u64> borrowed from the single shared capture of the shape}; every opaque and borrowed "
        "return type occurs in the quick tier (8 dedicated shapes); reference arguments borrowed afresh in every iteration "
        "of the calling loop; D recursion depth 10^4 (quick) / "
        "10^5 (thorough); R the macro site in a loop, repeated arguments, a panic at depth 2 caught by the caller and further "
        "calls; G site inside a generic fn / method / closure, two lambdas with the same recursion name alive, the closure "
        "as Fn+Copy / FnMut / &dyn Fn / Box<dyn ..> / iterator adaptor argument; N recursion name = capture / argument / "
        "binding / std macro name; F recursion name = a free fn the body calls; H 1.2e6 (1.5e6) invocations of one closure "
        "whose body returns early; K the crate's README examples and tests/tests.rs compiled and run against the freshly "
        "built library; X the generated programs type check as edition 2018 and 2024 crates. INVOCATION FORM, orthogonal to "
        "shapes and families (rotates over the cases with a period coprime to the family rotation, so every family meets "
        "every form in the quick tier; base program and expansion use it too; the generated programs have no crate-level "
        "import of the macro): u `use rlib_lambda::rec_lambda;` + rec_lambda!(..); p full path rlib_lambda::rec_lambda!(..) "
        "with nothing imported; r renamed import `use .. as rl;` rl!(..); x through a `pub use` re-export in a nested module "
        "of the program, by path; m from inside a macro_rules! of the program (in p, r, x, m no macro named rec_lambda is in "
        "scope at the invocation site). non-trivial = at least one "
        "mutable capture, a return value or a family (something observable)")
TRUSTED = ["translator in checks/c20.py (macro_rules! arms of rlib/lambda/src/lib.rs -> Gallina value `macros`); its output is "
           "cross-checked on every shape against rustc's real expansion (-Zunpretty=expanded); it refuses (broken obligation) "
           "a macro of the model that is defined more than once or carries a cfg/cfg_attr attribute (directly, on its module, "
           "or #![cfg] on the crate)",
           "executor harness/crates/c20 (generates the programs of a run, compiles them with rustc against the repository's "
           "rlib_lambda in a debug and a release configuration, runs them, returns the expansion text; `[lib] path` and "
           "`edition` are read from rlib/lambda/Cargo.toml)",
           "rustc stable (compile and run) and nightly (-Zunpretty=expanded)",
           "checks/c20.py parser of the expansion text and Coq term printer"]
ASSUMPTIONS = ["NOT modelled, covered only by the compile-and-run battery: rustc's parsing of ty/expr fragments, hygiene and name "
               "resolution, type checking, borrow checking",
               "macro_rules matching is modelled on head classes (capture/argument followed by ',' or by the closing '|'): an arm "
               "matches exactly the heads of its class; `& $t:ty` does not match `&mut T` (observed with rustc: no fatal error)",
               "open-recursion semantics: the body is a function of (self-call, argument values, locations of its shared and "
               "mutable captures, store); recursion is fuel-indexed"]


# ======================================================================================= translator
class Unclassifiable(Exception):
    pass


TOK = re.compile(r"\s+|//[^\n]*|(\$|->|=>|\|\||::|[A-Za-z_][A-Za-z0-9_]*|\"(?:[^\"\\]|\\.)*\"|[0-9]+|.)", re.S)
OPEN = {"(": ")", "[": "]", "{": "}"}


BENIGN_ATTRS = {"allow", "warn", "deny", "expect", "forbid", "inline", "doc", "must_use", "cold", "rustfmt", "clippy"}


def strip_benign_attrs(toks):
    """drop outer attributes that cannot change what a program computes (`#[allow(..)]`, `#[inline]`, `#[doc = ..]`,
    `#[must_use]`, `#[rustfmt::skip]` ...).  Anything else (cfg, cfg_attr, macro_export, path, ...) is kept and is
    either understood by a template or makes the source unclassifiable."""
    out, i = [], 0
    while i < len(toks):
        if toks[i] == "#" and i + 2 < len(toks) and toks[i + 1] == "[" and toks[i + 2] in BENIGN_ATTRS:
            i = matching(toks, i + 1) + 1
            continue
        out.append(toks[i])
        i += 1
    return out


def tokenize(src):
    src = re.sub(r"/\*.*?\*/", " ", src, flags=re.S)      # block comments (doc blocks included); line comments go in TOK
    return strip_benign_attrs([m.group(1) for m in TOK.finditer(src) if m.group(1)])


def matching(toks, i):
    """index of the delimiter closing toks[i]"""
    depth = 0
    for j in range(i, len(toks)):
        if toks[j] in OPEN:
            depth += 1
        elif toks[j] in OPEN.values():
            depth -= 1
            if depth == 0:
                return j
    raise Unclassifiable("unbalanced delimiters")


def matching_back(toks, j):
    """index of the delimiter opening toks[j] (searching backwards), or -1"""
    depth = 0
    for k in range(j, -1, -1):
        if toks[k] in OPEN.values():
            depth += 1
        elif toks[k] in OPEN:
            depth -= 1
            if depth == 0:
                return k
    return -1


def attrs_before(toks, i):
    """first words of the outer attributes `#[word ...]` written directly before the item starting at toks[i]
    (visibility qualifiers are skipped)"""
    out, j = [], i - 1
    while j >= 0:
        if toks[j] == "pub":
            j -= 1
            continue
        if toks[j] == ")" and matching_back(toks, j) >= 1 and toks[matching_back(toks, j) - 1] == "pub":
            j = matching_back(toks, j) - 2
            continue
        if toks[j] != "]":
            break
        o = matching_back(toks, j)
        if o < 1 or toks[o - 1] != "#":
            break
        out.append(toks[o + 1] if o + 1 < j else "")
        j = o - 2
    return out


CFG_WORDS = ("cfg", "cfg_attr")


def conditional_compilation(toks):
    """conditional compilation that decides WHICH macro definition a user gets is outside the model (the translator reads
    one definition per name): a cfg / cfg_attr attribute on a macro_rules item or on a module containing it, or on the
    whole crate (`#![cfg(..)]`).  Returns {macro name: description} ("" = the whole crate).  Other cfg attributes in the
    file are none of our business."""
    gated = {}
    for i, t in enumerate(toks):
        if t == "macro_rules" and i + 2 < len(toks) and toks[i + 1] == "!":
            bad = [a for a in attrs_before(toks, i) if a in CFG_WORDS]
            if bad:
                gated.setdefault(toks[i + 2], "macro_rules! %s carries a #[%s(..)] attribute" % (toks[i + 2], bad[0]))
        if t == "mod" and i + 2 < len(toks) and toks[i + 2] == "{":
            end = matching(toks, i + 2)
            bad = [a for a in attrs_before(toks, i) if a in CFG_WORDS]
            if bad:
                for k in range(i + 3, end):
                    if toks[k] == "macro_rules" and toks[k + 1] == "!":
                        gated.setdefault(toks[k + 2], "module %s, which defines macro_rules! %s, carries a #[%s(..)] attribute" % (
                            toks[i + 1], toks[k + 2], bad[0]))
        if t == "#" and toks[i + 1:i + 4] == ["!", "[", "cfg"]:
            gated.setdefault("", "the crate carries a #![cfg(..)] attribute")
    return gated


def find_macros(toks, dups=None):
    """name -> list of (matcher tokens, transcriber tokens), delimiters stripped; names defined more than once -> dups"""
    res, i = {}, 0
    while i < len(toks):
        if toks[i] == "macro_rules" and toks[i + 1] == "!" and toks[i + 3] == "{":
            name, end = toks[i + 2], matching(toks, i + 3)
            if name in res and dups is not None:
                dups.add(name)
            arms, j = [], i + 4
            while j < end:
                if toks[j] == ";":
                    j += 1
                    continue
                if toks[j] not in OPEN:
                    raise Unclassifiable("macro %s: arm does not start with a delimiter" % name)
                m_end = matching(toks, j)
                if toks[m_end + 1] != "=>" or toks[m_end + 2] not in OPEN:
                    raise Unclassifiable("macro %s: malformed arm" % name)
                t_end = matching(toks, m_end + 2)
                arms.append((toks[j + 1:m_end], toks[m_end + 3:t_end]))
                j = t_end + 1
            res[name] = arms
            i = end + 1
        else:
            i += 1
    return res


def one_definition(toks, dups, involved):
    """the macros the model describes must have exactly one, unconditional definition"""
    gated = conditional_compilation(toks)
    if "" in gated:
        raise Unclassifiable("conditional compilation selects the macro definitions: " + gated[""])
    for n in involved:
        if n in gated:
            raise Unclassifiable("conditional compilation selects the macro definitions: " + gated[n])
        if n in dups:
            raise Unclassifiable("macro %s is defined more than once (the model describes one definition per name, the "
                                 "others may be what some build configuration expands)" % n)


class P:
    """tiny template matcher over a flat token list.  Template words: `?x` binds an identifier (or checks it if bound),
    `=x` must equal the binding of x, anything else is literal."""

    def __init__(self, toks, env=None, what=""):
        self.t, self.i, self.env, self.what = toks, 0, dict(env or {}), what

    def fail(self, msg):
        raise Unclassifiable("%s: %s at token %d: ... %s" % (self.what, msg, self.i, " ".join(self.t[max(0, self.i - 6):self.i + 8])))

    def try_lit(self, template):
        save_i, save_env = self.i, dict(self.env)
        for w in template.split():
            if self.i >= len(self.t):
                self.i, self.env = save_i, save_env
                return False
            tok = self.t[self.i]
            ok = True
            if w.startswith("?") and len(w) > 1:
                k = w[1:]
                if not re.match(r"[A-Za-z_]\w*$", tok):
                    ok = False
                elif k in self.env:
                    ok = self.env[k] == tok
                else:
                    self.env[k] = tok
            elif w.startswith("=") and len(w) > 1 and w != "=>":
                ok = self.env.get(w[1:]) == tok
            else:
                ok = (w == tok)
            if not ok:
                self.i, self.env = save_i, save_env
                return False
            self.i += 1
        return True

    def lit(self, template):
        if not self.try_lit(template):
            self.fail("expected `%s`" % template)

    def at_end(self):
        return self.i == len(self.t)

    def end(self):
        if not self.at_end():
            self.fail("unexpected trailing tokens")


ACC_MATCH = ("$ ?name : ident , [ $ ( $ ?c1 : ident : $ ?c2 : ty , ) * ] , [ $ ( $ ?m1 : ident : $ ?m2 : ty , ) * ] , "
             "[ $ ( $ ?a1 : ident : $ ?a2 : ty , ) * ] ,")
HEADS = [
    ("$ ?v : ident : & mut $ ?t : ty , $ ( $ ?rem : tt ) *", "PCapComma Mutable"),
    ("$ ?v : ident : & $ ?t : ty , $ ( $ ?rem : tt ) *", "PCapComma Shared"),
    ("$ ?v : ident : & mut $ ?t : ty | { | $ ( $ ?rem : tt ) * }", "PCapLast Mutable"),
    ("$ ?v : ident : & $ ?t : ty | { | $ ( $ ?rem : tt ) * }", "PCapLast Shared"),
    ("$ ?v : ident : $ ?t : ty , $ ( $ ?rem : tt ) *", "PArgComma"),
    ("$ ?v : ident : $ ?t : ty | -> $ ?ret : ty { $ ( $ ?rem : tt ) * }", "PArgLast true"),
    ("$ ?v : ident : $ ?t : ty | { $ ( $ ?rem : tt ) * }", "PArgLast false"),
]
ACCS = [("c1", "c2", "AConst"), ("m1", "m2", "AMut"), ("a1", "a2", "AArg")]


def parse_pieces(p):
    """contents of one accumulator list `[ ... ]` in a transcriber"""
    p.lit("[")
    out = []
    while not p.try_lit("]"):
        for n, t, a in ACCS:
            if p.try_lit("$ ( $ =%s : $ =%s , ) *" % (n, t)):
                out.append("PAcc " + a)
                break
        else:
            if p.try_lit("$ =v : $ =t ,"):
                out.append("PVar")
            else:
                p.fail("unrecognised piece of an accumulator list")
    return out


def classify_rule(mname, k, matcher, trans, names):
    what = "%s arm %d" % (mname, k + 1)
    p = P(matcher, what=what + " matcher")
    p.lit(ACC_MATCH)
    pat = None
    for tpl, name in HEADS:
        q = P(p.t[p.i:], p.env, p.what)
        if q.try_lit(tpl) and q.at_end():
            pat, env = name, q.env
            break
    if pat is None:
        p.fail("unrecognised head pattern")
    t = P(trans, env, what + " transcriber")
    t.lit("$ crate :: ?callee ! (")
    callee = t.env["callee"]
    t.lit("$ =name ,")
    if callee == names["final"]:
        if t.try_lit("$ =ret ,") and "ret" in env:
            rs = "RetMatched"
        elif t.try_lit("( ) ,"):
            rs = "RetUnit"
        else:
            t.fail("unrecognised return type passed to the final macro")
        lists = []
        for _ in range(3):
            lists.append(parse_pieces(t))
            t.lit(",")
        if not pat.startswith("PArgLast"):
            t.fail("final macro called from an arm whose remainder is not a braced body")
        t.lit("{ $ ( $ =rem ) * } , $ )")
        t.end()
        nxt = "ToFinal " + rs
    else:
        lists = []
        for _ in range(3):
            lists.append(parse_pieces(t))
            t.lit(",")
        t.lit("$ ( $ =rem ) * )")
        t.end()
        if callee == names["M0"]:
            nxt = "ToMuncher M0"
        elif callee == names["M1"]:
            nxt = "ToMuncher M1"
        else:
            t.fail("call of an unknown macro %s" % callee)
    return {"pat": pat, "const": lists[0], "mut": lists[1], "arg": lists[2], "next": nxt}


DECOS = [("& mut", "RefMut"), ("&", "Ref"), ("", "Plain")]


def parse_param_segs(p, close):
    out = []
    while not p.try_lit(close):
        for n, t, a in ACCS:
            hit = False
            for d, dn in DECOS:
                if p.try_lit("$ ( $ =%s : %s $ =%s , ) *" % (n, d, t)):
                    out.append("mkSeg %s %s" % (a, dn))
                    hit = True
                    break
            if hit:
                break
        else:
            p.fail("unrecognised parameter segment")
    return out


def parse_call_segs(p, close):
    out = []
    while not p.try_lit(close):
        for n, t, a in ACCS:
            hit = False
            for d, dn in DECOS:
                if p.try_lit("$ ( %s $ =%s , ) *" % (d, n)):
                    out.append("mkSeg %s %s" % (a, dn))
                    hit = True
                    break
            if hit:
                break
        else:
            p.fail("unrecognised call segment")
    return out


def classify_final(name, arms):
    if len(arms) != 1:
        raise Unclassifiable("%s: expected exactly one arm" % name)
    matcher, trans = arms[0]
    p = P(matcher, what=name + " matcher")
    p.lit("$ ?name : ident , $ ?ret : ty , [ $ ( $ ?c1 : ident : $ ?c2 : ty , ) * ] , [ $ ( $ ?m1 : ident : $ ?m2 : ty , ) * ] , "
          "[ $ ( $ ?a1 : ident : $ ?a2 : ty , ) * ] , { $ ( $ ?body : tt ) * } , $ ?dol : tt")
    p.end()
    t = P(trans, p.env, name + " transcriber")
    t.lit("{ fn ?fn (")
    params = parse_param_segs(t, ")")
    t.lit("-> $ =ret { macro_rules ! $ =name {")
    t.lit("( $ =dol ?xf : expr $ =dol ( , $ =dol ?x : expr ) * ) => { $ =name ! (")
    rule_a = []
    while not t.try_lit(")"):
        if t.try_lit("$ =dol =xf ,"):
            rule_a.append("FFirst")
        elif t.try_lit("$ =dol ( $ =dol =x , ) *"):
            rule_a.append("FRest")
        else:
            t.fail("unrecognised piece in the inner macro's first arm")
    t.lit("}")
    t.try_lit(";")
    t.lit("( $ =dol ( $ =dol =x : expr , ) * ) => { =fn (")
    rule_b = []
    while not t.try_lit(")"):
        if t.try_lit("$ =dol ( $ =dol =x , ) *"):
            rule_b.append("TCallArgs")
            continue
        for n, _, a in ACCS:
            if t.try_lit("$ ( $ =%s , ) *" % n):
                rule_b.append("TList " + a)
                break
        else:
            t.fail("unrecognised piece in the inner macro's second arm")
    t.lit("}")
    t.try_lit(";")
    t.lit("} $ ( $ =body ) * } |")
    clo_params = parse_param_segs(t, "|")
    t.lit("{ =fn (")
    clo_call = parse_call_segs(t, ")")
    t.lit("} }")
    t.end()
    return {"params": params, "ruleA": rule_a, "ruleB": rule_b, "clo_params": clo_params, "clo_call": clo_call}


def translate(src):
    """macro_rules! source text -> description dict; raises Unclassifiable"""
    toks, dups = tokenize(src), set()
    macros = find_macros(toks, dups)
    if "rec_lambda" not in macros:
        raise Unclassifiable("macro rec_lambda not found")
    one_definition(toks, dups, ["rec_lambda"])
    # entry arms name the two munchers
    entry, names = [], {}
    for k, (matcher, trans) in enumerate(macros["rec_lambda"]):
        p = P(matcher, what="rec_lambda arm %d matcher" % (k + 1))
        if p.try_lit("$ ?name : ident , || { | $ ( $ ?rem : tt ) * }") and p.at_end():
            ep = "ENoCaps"
        elif p.try_lit("$ ?name : ident , | $ ( $ ?rem : tt ) *") and p.at_end():
            ep = "ECaps"
        else:
            p.fail("unrecognised entry pattern")
        t = P(trans, p.env, "rec_lambda arm %d transcriber" % (k + 1))
        t.lit("$ crate :: ?callee ! ( $ =name , [ ] , [ ] , [ ] , $ ( $ =rem ) * )")
        t.end()
        entry.append((ep, t.env["callee"]))
    for ep, callee in entry:
        role = "M1" if ep == "ENoCaps" else "M0"
        names.setdefault(role, callee)
    if "M0" not in names or "M1" not in names or names["M0"] == names["M1"]:
        raise Unclassifiable("the entry macro does not name two distinct munchers")
    for r in ("M0", "M1"):
        if names[r] not in macros:
            raise Unclassifiable("muncher %s not defined" % names[r])
    # the final macro = the one macro the munchers call besides themselves (other macros in the file are ignored)
    finals = set()
    for r in ("M0", "M1"):
        for _, trans in macros[names[r]]:
            if trans[:3] == ["$", "crate", "::"] and len(trans) > 4 and trans[4] == "!" and trans[3] not in (names["M0"], names["M1"]):
                finals.add(trans[3])
    if len(finals) != 1 or list(finals)[0] not in macros:
        raise Unclassifiable("expected exactly one final macro called by the munchers, found %s" % sorted(finals))
    names["final"] = list(finals)[0]
    one_definition(toks, dups, ["rec_lambda", names["M0"], names["M1"], names["final"]])
    desc = {"entry": [(ep, "M0" if c == names["M0"] else "M1") for ep, c in entry]}
    for r in ("M0", "M1"):
        desc[r] = [classify_rule(names[r], k, m, t, names) for k, (m, t) in enumerate(macros[names[r]])]
    desc["final"] = classify_final(names["final"], macros[names["final"]])
    return desc


def coq_list(xs):
    return "[" + "; ".join(xs) + "]"


def gallina(desc):
    def rule(r):
        return "mkRule (%s) %s %s %s (%s)" % (r["pat"], coq_list(r["const"]), coq_list(r["mut"]), coq_list(r["arg"]), r["next"])
    f = desc["final"]
    return ("mkMacros\n  %s\n  %s\n  %s\n  (mkFinal %s %s %s\n     %s %s)" % (
        coq_list("(%s, %s)" % e for e in desc["entry"]),
        coq_list(["\n    " + rule(r) for r in desc["M0"]]),
        coq_list(["\n    " + rule(r) for r in desc["M1"]]),
        coq_list(f["params"]), coq_list(f["ruleA"]), coq_list(f["ruleB"]), coq_list(f["clo_params"]), coq_list(f["clo_call"])))


def snapshot_text(desc):
    return ("(** C20 — SNAPSHOT of the translation of rlib/lambda/src/lib.rs (written by `python3 checks/c20.py --snapshot`).\n"
            "    Every run translates the source again and compares with this value. *)\n"
            "From Coq Require Import List NArith.\nImport ListNotations.\nFrom RlibV Require Import C20.Model.\n\n"
            "Definition current_macros : macros :=\n  %s.\n" % gallina(desc))


def snapshot_value():
    s = open(SNAPSHOT).read()
    m = re.search(r"Definition current_macros : macros :=(.*?)\.\s*$", s, re.S)
    return re.sub(r"\s+", " ", m.group(1)).strip() if m else None


# ======================================================================================= cases
# A case = invocation shape (caps/tys/nargs/ret/syn) + optional program families `fams` (see harness/crates/c20/src/fam.rs):
#   T call layouts, L call-site contexts, E early exits, A argument expressions using captures, Y other types
#   (atys/ctys/rty), D<n> depth, R rounds + repeated calls + caught panic, G usage contexts / closure kind, N name
#   collisions with values, F name collision with a free fn, H<n> n invocations of a body with early returns,
#   K the crate's README + tests, X other editions.  Every family is one more pair of programs
#   (macro version / hand-written) on the same shape; what they print is appended to the two number lists of the case.
PROGRAM_FAMS = "TLEAYDRGNFH"
ARG_TYS = "abcdefghijklmn"        # u64 usize i64 (u64,u64) [u64;2] Option<u64> &[u64] String &str &mut Vec<u64> bool Vec<u64> Box<u64> &u64
ARG_FIRST = "abcdefghilmn"        # types the first (depth) argument may have
CAP_TYS = "VUWHACTPBFRO"          # Vec<u64> u64 Vec<Vec<usize>> HashMap<(usize,usize),u64> [u64;3] Cell<u64> String (u64,String)
#                                   Box<dyn FnMut(u64)->u64> fn(u64)->u64 &'static str Option<Box<u64>>
RET_TYS = "unbtvorxasz"           # u64 () bool (u64,bool) Vec<u64> Option<u64> Result<u64,String> Box<u64> [u64;2] String usize
RET_OPAQUE = "IFSD"               # impl Iterator<Item = u64>, impl Fn(u64) -> u64, impl Sized, impl std::fmt::Display (all four are
#                                   accepted by the macro as it stands: the type is only pasted into the generated fn's signature)
RET_REFS = "RQ"                   # &u64, Option<&u64> borrowed from the shape's single shared capture (lifetime elision in the generated
#                                   fn needs exactly one reference parameter: caps == "S", no reference-typed argument)
REF_ARGS = "gijn"
# INVOCATION FORM of the library macro, orthogonal to shapes and families (every macro version of the case uses it; the
# generated programs have no crate-level import): u `use rlib_lambda::rec_lambda;` + rec_lambda!(..), p full path
# rlib_lambda::rec_lambda!(..) without any import, r renamed import (`use .. as rl;` rl!(..)), x through a `pub use`
# re-export in a nested module of the program (crate::inv_forms::nested::rec_lambda!(..)), m from inside a macro_rules!
# of the program.  In p, r, x, m no macro named `rec_lambda` is in scope at the invocation site.
FORMS = "uprxm"
DEPTH = {"quick": 10000, "thorough": 100000}
HIST = {"quick": 1200000, "thorough": 1500000}     # invocations of one closure (family H)


def harness_line(c):
    base = "%s %s %d %d %d" % (c["caps"] or "-", c["tys"] or "-", c["nargs"], c["ret"], c["syn"])
    fams = c.get("fams") or []
    form = c.get("form") or "u"
    if not fams and form == "u":
        return base
    line = "%s %s %s %s %s" % (base, ",".join(fams) or "-", c.get("atys") or "-", c.get("ctys") or "-", c.get("rty") or "-")
    return line if form == "u" else line + " " + form


def all_patterns(maxlen=4):
    out = [""]
    for n in range(1, maxlen + 1):
        for m in range(1 << n):
            out.append("".join("M" if (m >> (n - 1 - i)) & 1 else "S" for i in range(n)))
    return out


def mk(rng, caps, nargs, ret, syn, fams=(), form="u", rty=None):
    tys = "".join("U" if rng.chance(1, 3) else "V" for _ in caps)
    c = {"caps": caps, "tys": tys, "nargs": nargs, "ret": ret, "syn": syn}
    if form != "u":
        c["form"] = form
    return with_fams(rng, c, fams, rty)


def ret_pool(c, fams):
    """return types of the type family that the unchanged macro supports on this shape"""
    pool = RET_TYS + RET_OPAQUE
    if "X" in fams and "M" in c["caps"]:
        # edition 2024: an opaque return type captures the lifetime of the `&mut` parameter, so neither the hand-written
        # wrapper closure nor the generated one may return it (a rule of the edition, not of the macro)
        pool = RET_TYS
    if c["caps"] == "S":
        pool += RET_REFS
    return pool


def with_fams(rng, c, fams, rty=None):
    fams = [f for f in fams]
    if not fams:
        return c
    c = dict(c, fams=fams)
    if "Y" in fams:
        c["atys"] = rng.choice(ARG_FIRST) + "".join(rng.choice(ARG_TYS) for _ in range(c["nargs"] - 1))
        c["ctys"] = "".join(rng.choice(CAP_TYS) for _ in c["caps"])
        pick = rng.choice(ret_pool(c, fams))
        c["rty"] = (rty or pick) if c["ret"] else "-"
        if c["rty"] in RET_REFS:
            c["atys"] = "".join("a" if t in REF_ARGS else t for t in c["atys"])
            c["ctys"] = "V"
    return c


def fam_cycle(tier):
    return ["T", "L", "E", "A", "Y", "D%d" % DEPTH[tier], "R", "G", "N", "F", "H%d" % HIST[tier]]


def all_fams(tier, extra=""):
    return fam_cycle(tier) + list(extra)


# shapes that get every family in the quick tier (README shape first: it also carries K)
FULL_QUICK = [("SM", 1, 1, 0, "KX"), ("", 1, 1, 1, "X"), ("", 2, 0, 0, ""), ("S", 1, 1, 1, ""), ("M", 2, 0, 1, "X"), ("MS", 2, 1, 1, ""),
              ("SMS", 3, 0, 1, ""), ("MSM", 3, 1, 0, "X"), ("SMSM", 4, 1, 1, ""), ("MMSS", 2, 0, 0, ""), ("", 3, 1, 1, ""), ("SS", 1, 0, 1, "")]
# count boundaries (the munchers use one macro recursion level per head; "any number" of captures)
BIG_QUICK = [("SM" * 4, 6, 1, 1), ("M" * 16, 1, 0, 0)]
# every opaque / borrowed return type of the type family at least once in the quick tier (capture pattern, arguments, type)
RET_QUICK = [("", 1, "I"), ("SM", 2, "I"), ("", 2, "F"), ("MS", 1, "F"), ("S", 3, "S"), ("M", 1, "D"), ("S", 2, "R"), ("S", 1, "Q")]
BIG_THOROUGH = [(p, n, ret, syn) for p in ("SM" * 4, "SM" * 8, "SM" * 16, "SM" * 30, "S" * 8, "S" * 16, "S" * 32, "S" * 60,
                                           "M" * 8, "M" * 16, "M" * 32, "M" * 60, "MMS" * 11, "S" + "M" * 40)
                for (n, ret, syn) in ((1, 1, 0), (6, 0, 1), (8, 1, 1))]


def generate(rng, tier):
    cases = []
    pats = all_patterns(4)
    cyc = fam_cycle(tier)
    if tier == "thorough":
        k = 0
        for p in pats:
            for n in (1, 2, 3, 4):
                for ret in (0, 1):
                    for syn in (0, 1):
                        # every family on every shape of the stated quantifier; README + tests once; editions on a third
                        extra = ("K" if (p, n, ret, syn) == ("SM", 1, 1, 0) else "") + ("X" if k % 3 == 0 else "")
                        cases.append(mk(rng, p, n, ret, syn, all_fams(tier, extra), FORMS[k % 5]))
                        k += 1
        for p in all_patterns(5)[len(pats):]:     # beyond the stated quantifier: 5 captures, 2 and 5 arguments
            for n in (2, 5):
                for ret in (0, 1):
                    for syn in (0, 1):
                        cases.append(mk(rng, p, n, ret, syn, [cyc[k % len(cyc)], cyc[(k + 4) % len(cyc)]], FORMS[k % 5]))
                        k += 1
        for (p, n, ret, syn) in BIG_THOROUGH:
            c = mk(rng, p, n, ret, syn, form=FORMS[k % 5])
            k += 1
            cases.append(dict(c, tys="".join("U" if i % 3 == 2 else "V" for i in range(len(p)))))
        for rty in RET_OPAQUE + RET_REFS:        # every opaque / borrowed return type on a row of shapes, every form
            for p in (("", "S", "M", "SM", "MSS") if rty in RET_OPAQUE else ("S",)):
                for n in (1, 2, 3):
                    cases.append(mk(rng, p, n, 1, k % 2, ["Y"], FORMS[k % 5], rty))
                    k += 1
        # fixed stride permutation: every prefix of the list is a spread sample of all categories (the enlarged searches
        # of the driver and of extra() take prefixes)
        n, stride = len(cases), 389
        while gcd(stride, n) != 1:
            stride += 2
        return [cases[(i * stride) % n] for i in range(n)]
    k = 0
    for n in (1, 2, 3, 4):                       # no captures, everything
        for ret in (0, 1):
            for syn in (0, 1):
                cases.append(mk(rng, "", n, ret, syn, [cyc[k % len(cyc)]], FORMS[k % 5]))
                k += 1
    combos = [(n, ret, syn) for n in (1, 2, 3, 4) for ret in (0, 1) for syn in (0, 1)]
    rng.shuffle(combos)
    for i, p in enumerate(pats[1:]):             # every non-empty pattern, cycling through the combinations
        n, ret, syn = combos[i % len(combos)]
        cases.append(mk(rng, p, n, ret, syn, [cyc[k % len(cyc)]], FORMS[k % 5]))
        k += 1
    for p in ("SMSM", "MSMS", "SMS", "MSM"):     # alternating patterns, 3 and 4 arguments, everything
        for n in (3, 4):
            for ret in (0, 1):
                for syn in (0, 1):
                    cases.append(mk(rng, p, n, ret, syn, [cyc[k % len(cyc)]], FORMS[k % 5]))
                    k += 1
    for (p, n, ret, syn, extra) in FULL_QUICK:   # every family on a spread of shapes
        cases.append(mk(rng, p, n, ret, syn, all_fams(tier, extra), FORMS[k % 5]))
        k += 1
    for (p, n, ret, syn) in BIG_QUICK:
        cases.append(mk(rng, p, n, ret, syn, ["T"], FORMS[k % 5]))
        k += 1
    for (p, n, rty) in RET_QUICK:
        cases.append(mk(rng, p, n, 1, k % 2, ["Y"], FORMS[k % 5], rty))
        k += 1
    return cases


def shrink(c):
    out = []
    fams = c.get("fams") or []
    for i in range(len(fams)):
        d = dict(c, fams=fams[:i] + fams[i + 1:])
        if fams[i] == "Y":
            d = {k: v for k, v in d.items() if k not in ("atys", "ctys", "rty")}
        out.append(d)
    for i, f in enumerate(fams):
        if f[0] in "DH" and int(f[1:]) > 100:
            out.append(dict(c, fams=fams[:i] + ["%s%d" % (f[0], int(f[1:]) // 10)] + fams[i + 1:]))
    cty = c.get("ctys") or ""
    aty = c.get("atys") or ""
    typed = "Y" in fams

    def upd(d, **kw):
        d = dict(d)
        for k, v in kw.items():
            if k in ("atys", "ctys", "rty") and not typed:
                continue
            d[k] = v
        return d
    for i in range(len(c["caps"])):
        out.append(upd(c, caps=c["caps"][:i] + c["caps"][i + 1:], tys=c["tys"][:i] + c["tys"][i + 1:], ctys=cty[:i] + cty[i + 1:]))
    if c["nargs"] > 1:
        out.append(upd(c, nargs=c["nargs"] - 1, atys=aty[:c["nargs"] - 1]))
    if c["ret"]:
        out.append(upd(c, ret=0, rty="-"))
    if c["syn"]:
        out.append(dict(c, syn=0))
    if (c.get("form") or "u") != "u":
        out.append({k: v for k, v in c.items() if k != "form"})
        if c["form"] != "p":
            out.append(dict(c, form="p"))
    if "U" in c["tys"]:
        out.append(dict(c, tys="V" * len(c["tys"])))
    if "Y" in fams:
        for i, t in enumerate(aty):
            if t != "a":
                out.append(dict(c, atys=aty[:i] + "a" + aty[i + 1:]))
        for i, t in enumerate(cty):
            if t not in "VU":
                out.append(dict(c, ctys=cty[:i] + "V" + cty[i + 1:]))
        if c["ret"] and c.get("rty", "u") != "u":
            out.append(dict(c, rty="u"))
    return out


def nontrivial(c, obs):
    return bool(c["ret"]) or ("M" in c["caps"]) or bool(c.get("fams"))


def classify(c, obs):
    return "%dcap/%darg/%s/%s/%s/%s/%s" % (len(c["caps"]), c["nargs"], "ret" if c["ret"] else "noret",
                                           "trailing" if c["syn"] else "plain",
                                           "".join(f[0] for f in (c.get("fams") or [])) or "base",
                                           "form-" + (c.get("form") or "u"), obs.split(" ## ")[0])


def known_finding(c, obs, profile):
    return None


# --------------------------------------------------------------------------------------- expansion text -> Coq
TY_ID = {"()": 0, "Vec<u64>": 1, "u64": 2}


def name_id(s):
    m = re.match(r"^v(\d+)$", s)
    if m:
        return 1 + int(m.group(1))
    m = re.match(r"^x(\d+)$", s)
    if m:
        return 101 + int(m.group(1))
    return 999


def split_top(s):
    out, depth, cur = [], 0, ""
    for ch in s:
        if ch in "(<[{":
            depth += 1
        elif ch in ")>]}":
            depth -= 1
        if ch == "," and depth == 0:
            out.append(cur)
            cur = ""
        else:
            cur += ch
    if cur.strip():
        out.append(cur)
    return [x.strip() for x in out]


def close_paren(s, i, o="(", c=")"):
    depth = 0
    for j in range(i, len(s)):
        if s[j] == o:
            depth += 1
        elif s[j] == c:
            depth -= 1
            if depth == 0:
                return j
    return -1


def nows(s):
    return re.sub(r"\s+", "", s)


def parse_params(txt):
    out = []
    for p in split_top(txt):
        name, _, ty = p.partition(":")
        ty = ty.strip()
        if ty.startswith("&mut "):
            d, ty = "RefMut", ty[5:]
        elif ty.startswith("&"):
            d, ty = "Ref", ty[1:]
        else:
            d = "Plain"
        out.append("(%d, %d, %s)" % (name_id(name.strip()), TY_ID.get(nows(ty), 99), d))
    return out


def call_exprs(n):
    return ["x0-1"] + ["x%d.wrapping_add(%d)" % ((i % (n - 1)) + 1, i) for i in range(1, n)]


def parse_expansion(c, x):
    """returns the Coq term `(expansion, calls)` or None if the text does not have the expected skeleton"""
    i = x.find("fn _lambda_name_(")
    if i < 0:
        return None
    po = i + len("fn _lambda_name_")
    pc = close_paren(x, po)
    params = parse_params(x[po + 1:pc])
    m = re.match(r"\s*->\s*(.*?)\s*\{\s*macro_rules! (\w+) \{", x[pc + 1:])
    if not m:
        return None
    ret = TY_ID.get(nows(m.group(1)), 99)
    fn_open = pc + 1 + x[pc + 1:].find("{")
    fn_close = close_paren(x, fn_open, "{", "}")
    mb_open = pc + 1 + m.end() - 1
    mb_close = close_paren(x, mb_open, "{", "}")
    mac = nows(x[mb_open + 1:mb_close])
    mm = re.match(r"^\(\$xf:expr\$\(,\$x:expr\)\*\)=>\{%s!\((.*)\)\};\(\$\(\$x:expr,\)\*\)=>\{_lambda_name_\((.*)\)\};?$" % re.escape(m.group(2)), mac)
    if not mm:
        return None
    ra, rest = [], mm.group(1)
    while rest:
        if rest.startswith("$xf,"):
            ra.append("FFirst")
            rest = rest[4:]
        elif rest.startswith("$($x,)*"):
            ra.append("FRest")
            rest = rest[7:]
        else:
            return None
    tm, rest = [], mm.group(2)
    while rest:
        if rest.startswith("$($x,)*"):
            tm.append("TIArgs")
            rest = rest[7:]
            continue
        m2 = re.match(r"^(\w+),?", rest)
        if not m2:
            return None
        tm.append("TIName %d" % name_id(m2.group(1)))
        rest = rest[m2.end():]
    # expanded recursive calls in the body
    body = x[mb_close + 1:fn_close]
    es = call_exprs(c["nargs"])
    calls, j = [], 0
    while True:
        j = body.find("_lambda_name_(", j)
        if j < 0:
            break
        o = j + len("_lambda_name_")
        cl = close_paren(body, o)
        items = []
        for a in split_top(body[o + 1:cl]):
            a0 = nows(a)
            if a0 in es:
                items.append("inl %d" % es.index(a0))
            elif re.match(r"^\w+$", a0):
                items.append("inr %d" % name_id(a0))
            else:
                items.append("inl 999")
        calls.append(coq_list(items))
        j = cl
    # the closure
    m3 = re.match(r"^\s*\|(.*?)\|\s*\{\s*_lambda_name_\((.*?)\)\s*\}\s*\}", x[fn_close + 1:])
    if not m3:
        return None
    clo_params = parse_params(m3.group(1))
    clo_call = []
    for a in split_top(m3.group(2)):
        if a.startswith("&mut "):
            clo_call.append("(%d, RefMut)" % name_id(a[5:].strip()))
        elif a.startswith("&"):
            clo_call.append("(%d, Ref)" % name_id(a[1:].strip()))
        else:
            clo_call.append("(%d, Plain)" % name_id(a))
    exp = "mkExp %s %d %s %s %s %s" % (coq_list(params), ret, coq_list(ra), coq_list(tm), coq_list(clo_params), coq_list(clo_call))
    return "(%s, %s)" % (exp, coq_list(calls))


def shape_term(c):
    caps = ["mkCap %s (%d, %d)" % ("Mutable" if k == "M" else "Shared", i + 1, 2 if t == "U" else 1)
            for i, (k, t) in enumerate(zip(c["caps"], c["tys"]))]
    args = ["(%d, 2)" % (101 + i) for i in range(c["nargs"])]
    return "(mkShape %s %s %s)" % (coq_list(caps), coq_list(args), "(Some 2)" if c["ret"] else "None")


def zlist(txt):
    return coq_list("(%s)%%Z" % t for t in txt.split())


def split_obs(obs):
    parts = obs.split(" ## ", 3)
    while len(parts) < 4:
        parts.append("")
    return parts


COUNTS = {"shapes_compiled": 0, "shapes_run_equal_to_hand_written": 0, "expansions_obtained_and_parsed": 0, "failing": 0}


def coq_term(c, obs, profile):
    status, rm, rh, x = split_obs(obs)
    xt = None if x.strip() in ("XE", "") else parse_expansion(c, x)
    COUNTS["shapes_compiled"] += status == "OK"
    COUNTS["shapes_run_equal_to_hand_written"] += (status == "OK" and rm.split() == rh.split())
    COUNTS["expansions_obtained_and_parsed"] += xt is not None
    COUNTS["failing"] += not (status == "OK" and rm.split() == rh.split())
    return "(Case %s %s %s %s %s %s)" % (shape_term(c), "true" if c["syn"] else "false",
                                        "(Some %s)" % xt if xt else "None",
                                        "true" if status == "OK" else "false", zlist(rm), zlist(rh))


# ======================================================================================= run-time obligations
STATE = {}


def coqc(path, cwd):
    p = subprocess.run(["coqc", "-noglob", "-Q", THEORIES, "RlibV", path], cwd=cwd, stdout=subprocess.PIPE,
                       stderr=subprocess.STDOUT, text=True, timeout=1800)
    return p.returncode, p.stdout


GEN_HEAD = ("From Coq Require Import List NArith Bool.\nImport ListNotations.\n"
            "From RlibV Require Import C20.Model C20.Spec C20.Corr C20.Current C20.Proofs C20.ProofsSem C20.Properties.\n")


def lib_source(repo):
    """the file cargo builds as the library: `[lib] path` of rlib/lambda/Cargo.toml, default src/lib.rs (the executor does the same)"""
    path, section = "src/lib.rs", ""
    try:
        for line in open(os.path.join(repo, "rlib", "lambda", "Cargo.toml")):
            l = line.split("#")[0].strip()
            if l.startswith("["):
                section = l
            elif section == "[lib]" and "=" in l and l.split("=")[0].strip() == "path":
                path = l.split("=", 1)[1].strip().strip('"')
    except OSError:
        pass
    return os.path.join(repo, "rlib", "lambda", path)


def prepare(ctx):
    """translate the source of this run, state and check the run-time obligations, point the batch files at the result"""
    global CORR_IMPORT
    HARNESS_ENV["C20_REPO"] = ctx.repo
    HARNESS_ENV["C20_WORK"] = os.path.join(ctx.work, "rust")
    st = {"translated": False, "error": "", "same_as_snapshot": False, "current_ok": False, "corollary_ok": False, "log": ""}
    STATE.clear()
    STATE.update(st)
    src_path = lib_source(ctx.repo)
    value = None
    try:
        desc = translate(open(src_path).read())
        value = gallina(desc)
        STATE["translated"] = True
        STATE["same_as_snapshot"] = re.sub(r"\s+", " ", value).strip() == snapshot_value()
    except (Unclassifiable, OSError, IndexError) as e:
        STATE["error"] = str(e)
    gen = os.path.join(ctx.work, "C20Gen.v")
    tail = ("Definition model_check := model_check_with run_macros.\nDefinition explain := explain_with run_macros.\n")
    if value is not None:
        # 1. the definition alone (always needed by the batch files)
        base = GEN_HEAD + "Definition run_macros : macros :=\n  %s.\n" % value + tail
        full = base + ("Lemma current_ok : well_formed run_macros = true.\nProof. vm_compute. reflexivity. Qed.\n"
                       + RUNTIME_COROLLARIES)
        open(gen, "w").write(full)
        rc, out = coqc(gen, ctx.work)
        if rc == 0:
            STATE["current_ok"] = STATE["corollary_ok"] = True
        else:
            STATE["log"] = out[-2500:]
            open(gen, "w").write(base + "Lemma current_ok : well_formed run_macros = true.\nProof. vm_compute. reflexivity. Qed.\n")
            rc, out = coqc(gen, ctx.work)
            if rc == 0:
                STATE["current_ok"] = True
            else:
                open(gen, "w").write(base)
                rc, out = coqc(gen, ctx.work)
                if rc != 0:
                    STATE["translated"] = False
                    STATE["error"] = "the translated value is not a well-typed `macros`: " + out[-1500:]
                    value = None
    if value is None:
        # fall back on the snapshot so that the cases can still be compared with *a* model
        open(gen, "w").write(GEN_HEAD + "Definition run_macros : macros := current_macros.\n" + tail)
        rc, out = coqc(gen, ctx.work)
        if rc != 0:
            raise RuntimeError("cannot compile the generated model file\n" + out[-2000:])
    CORR_IMPORT = CORR_BASE + "Require Import C20Gen.\nOpen Scope N_scope."
    ctx.say("[C20] translator: %s; same as snapshot: %s; well_formed (run-time lemma current_ok): %s; corollaries: %s" % (
        "ok" if STATE["translated"] else "UNCLASSIFIABLE (%s)" % STATE["error"][:300], STATE["same_as_snapshot"],
        STATE["current_ok"], STATE["corollary_ok"]))


# corollaries for the macros translated on this run (filled in as the generic theorems are proved)
RUNTIME_COROLLARIES = ("Theorem run_correct : %s.\nProof. exact (correct_of_wf run_macros current_ok). Qed.\n" % (CORRECT % "run_macros"))


def battery(ctx, cases):
    """compile-and-run battery only (no Coq): list of cases on which the macro version fails to compile or differs"""
    from _driver import run_impl
    lines = [harness_line(c) for c in cases]
    outs = run_impl(ctx.bins["debug"], lines, extra_env=HARNESS_ENV)
    bad = []
    for c, o in zip(cases, outs):
        status, rm, rh, _ = split_obs(o)
        if status != "OK" or rm.split() != rh.split():
            bad.append((c, o))
    return bad, len(cases)


def extra(ctx, known):
    from _driver import Rng
    cov = {"translator": {k: STATE.get(k) for k in ("translated", "error", "same_as_snapshot", "current_ok", "corollary_ok")},
           "runtime_obligations": 3,
           "runtime_obligations_discharged": int(bool(STATE.get("translated"))) + int(bool(STATE.get("current_ok")))
                                             + int(bool(STATE.get("corollary_ok")))}
    broken = []
    if not STATE.get("translated"):
        broken.append("the translator cannot classify the macro source: " + STATE.get("error", ""))
    elif not STATE.get("current_ok"):
        broken.append("Lemma current_ok : well_formed run_macros = true no longer holds for the macros translated from the source")
    elif not STATE.get("corollary_ok"):
        broken.append("the corollaries of the generic theorems for the translated macros no longer compile: " + STATE.get("log", ""))
    differs = STATE.get("translated") and not STATE.get("same_as_snapshot")
    if differs and SNAPSHOT_STRICT and not broken:
        broken.append("the translation of the source differs from the snapshot coq/theories/C20/Current.v "
                      "(the pinned theorems c20_current_* speak about the snapshot)")
    cov.update({"battery_" + k: v for k, v in COUNTS.items() if k != "failing"})
    viol = []
    if COUNTS["failing"]:
        # the driver has already reported a failing shape (spec_check) with its shrunk replay
        cov["note"] = "broken run-time obligations: %s; failing shapes were found among the generated cases" % (broken or "none")
    elif broken or differs:
        # search for a failing shape with a spread sample of the thorough battery (every family, both build profiles)
        cases = generate(Rng(ctx.seed + 7919 + 31).fork(ID), "thorough")[:SEARCH_MAX]
        try:
            bad, n = battery(ctx, cases)
        except RuntimeError as e:
            bad, n = [], 0
            cov["search_error"] = str(e)[-500:]
        cov["search_shapes_compiled_and_run"] = n
        cov["search_failing_shapes"] = len(bad)
        if bad:
            bad.sort(key=lambda b: (len(b[0]["caps"]) + b[0]["nargs"], b[0]["ret"], b[0]["syn"]))
            c, o = bad[0]
            status, rm, rh, _ = split_obs(o)
            viol.append({"name": "search-%s" % re.sub(r"\W", "", harness_line(c)), "kind": "counterexample", "nofail": False,
                         "payload": {"case": c, "what": "rec_lambda! on this shape %s" % (
                             "does not compile" if status != "OK" else "differs from the hand-written recursive function"),
                             "macro_version_printed": rm, "hand_written_printed": rh, "broken_obligations": broken,
                             "other_failing_shapes": len(bad) - 1}})
        elif broken:
            viol.append({"name": "obligation", "kind": "broken-obligation", "nofail": True,
                         "payload": {"obligation": "; ".join(broken), "searched_shapes": n, "log": STATE.get("log", "")}})
        else:
            cov["note"] = ("the translation differs from the snapshot Current.v but is well_formed (proved on this run, so the "
                           "generic theorems apply to it) and all %d shapes of the enlarged battery agree" % n)
    return {"coverage": cov, "violations": viol, "known": []}


MANIFEST = {
    "text": "rec_lambda!: token-level Gallina model of macro_rules munchers (ordered rules, first match wins, three accumulator "
            "lists, final arm). The description of the macros is TRANSLATED from rlib/lambda/src/lib.rs on every run, proved "
            "well_formed by computation (run-time lemma current_ok) and compared with the pinned snapshot Current.v. Theorems "
            "(Coq, no axioms) for EVERY well_formed macro set and every shape with >= 1 argument (any number/interleaving of "
            "&/&mut captures incl. none, optional return type): c20_expand_total (munching never gets stuck), "
            "c20_positional_consistency (fn signature, inner macro call and closure call use the three lists in the same "
            "positions, each capture once with the right reference kind), c20_call_syntaxes_agree (f!(a,b) and f!(a,b,) reduce "
            "to the same call), c20_semantics (expanded closure = hand-written recursive function in an open-recursion "
            "semantics, all bodies/depths), c20_current_well_formed / c20_current_order (lists come out reversed) / "
            "c20_current_correct for the snapshot, c20_observed_item_correct (the batch lemma carries all of this to the item "
            "rustc really generated). Correspondence: every generated shape is expanded by the real rustc "
            "(-Zunpretty=expanded; parameter list, both inner-macro transcribers, every expanded recursive call, closure "
            "compared with the model's prediction inside Coq), compiled and run against the hand-written recursive fn "
            "(results and final captured state) in a debug and in a release build, together with further programs on the "
            "same shape (see level_note).",
    "level_note": "PARTIAL (c20_rustc_partial): the theorems are about the muncher model and its open-recursion semantics. NOT "
                  "modelled: rustc's fragment parsing (ty, expr), hygiene/name resolution, type checking, borrow checking; "
                  "'compiles' and 'behaves like the hand-written function' are established only for the sampled programs by the "
                  "compile-and-run battery (quick 120 shapes, thorough 880; debug and release build of each; program "
                  "families per shape: call layouts incl. trailing comma and multi-line calls, call-site contexts, early exits, "
                  "argument expressions using captures, other argument/capture/return types incl. opaque `impl Trait` return "
                  "types and references borrowed from a shared capture, depth 1e4/1e5, macro site in a "
                  "loop + caught panic, usage contexts and closure kind, name collisions, 1.2e6 invocations, the crate's own "
                  "README and tests, other editions; each case in one of five invocation forms of the macro: imported, by full "
                  "path without import, renamed import, through a re-export of a nested module, from inside a local macro). Trusted: Coq kernel + vm_compute, the translator and expansion parser in "
                  "checks/c20.py (cross-checked against rustc's expansion on every shape), the executor, rustc stable/nightly. "
                  "A translation that differs from the snapshot but is proved well_formed at run time and passes the enlarged "
                  "battery is reported in the evidence, not as a violation (SNAPSHOT_STRICT=False). Conditional compilation "
                  "around the macro definitions (cfg attributes, duplicate definitions) is reported as a broken obligation.",
    "technique": "Coq proof over a macro-muncher model generated from the source + real-expansion correspondence + compile-and-run battery",
}


if __name__ == "__main__":
    import sys
    d = translate(open(lib_source(os.environ.get("RLIB_REPO", "/repo"))).read())
    if "--snapshot" in sys.argv:
        open(SNAPSHOT, "w").write(snapshot_text(d))
        print("written", SNAPSHOT)
    else:
        print(gallina(d))
