"""C09 — Writer delivers exactly the formatted bytes, in order; round trip with Reader (rlib/io)."""
import subprocess

ID = "C09"
CRATE = "c09"
COQ_DIR = "C09"
COQ_DEPS = []
PROFILES = ["debug", "release"]
CORR_IMPORT = "From Coq Require Import Uint63.\nFrom RlibV Require Import C09.Model C09.Corr.\nOpen Scope Z_scope."
CASE_TYPE = "case"
AUDIT_IMPORT = ("From Coq Require Import ZArith List Bool.\nImport ListNotations.\n"
                # Corr before Spec: unqualified join / flush_points in the pins are Spec.v's
                "From RlibV Require Import C09.Model C09.Corr C09.Spec C09.Properties.\nOpen Scope Z_scope.")
EXPLAIN = "explain"
AXIOM_ALLOW = []
SHARD = 600
SEARCH_MAX = 6000
THEOREMS = [
    ("c09_invariant",
     "forall (BUF : Z) (dbg : bool) (ops : list op), 39 <= BUF -> Forall wf_op ops -> "
     "exists s tr, exec BUF dbg ops init [] = Some (s, tr) "
     "/\\ sink s ++ pending s = rendering ops /\\ zlen (pending s) <= BUF"),
    ("c09_flush_delivers",
     "forall (BUF : Z) (dbg : bool) (ops : list op), 39 <= BUF -> Forall wf_op ops -> "
     "exists s tr, exec BUF dbg ops init [] = Some (s, tr) "
     "/\\ sink (flush s) = rendering ops /\\ pending (flush s) = [] /\\ sink (drop s) = rendering ops "
     "/\\ run BUF dbg ops = Some (rendering ops, flush_points ops 0)"),
    ("c09_piece_any_capacity",
     "forall (BUF : Z) (b : list byte) (s : state), 1 <= BUF -> zlen b <= BUF -> zlen (pending s) <= BUF -> "
     "exists s', write_bytes BUF b s = Some s' "
     "/\\ sink s' ++ pending s' = (sink s ++ pending s) ++ b /\\ zlen (pending s') <= BUF"),
    ("c09_oversized_piece_panics",
     "forall (BUF : Z) (b : list byte) (s : state), BUF < zlen b -> write_bytes BUF b s = None"),
    ("c09_string_any_capacity",
     "forall (BUF : Z) (dbg : bool) (b : list byte) (s : state), 1 <= BUF -> zlen (pending s) <= BUF -> "
     "exists s', write BUF dbg (VStr b) s = Some s' "
     "/\\ sink s' ++ pending s' = (sink s ++ pending s) ++ b /\\ zlen (pending s') <= BUF"),
    ("c09_render_unsigned",
     "forall (t : ity) (v : Z), is_signed t = false -> in_range t v = true -> "
     "canonical_decimal (sdec v) v "
     "/\\ exists L, BASE_10_LEN t = Some L /\\ zlen (sdec v) <= L "
     "/\\ (v <> 0 -> digit_loop (Z.to_nat L) v [] = Some (sdec v))"),
    ("c09_render_signed",
     "forall (t : ity) (v : Z), is_signed t = true -> in_range t v = true -> "
     "canonical_decimal (sdec v) v /\\ unsigned_abs (bits t) v = Z.abs v "
     "/\\ exists L, BASE_10_LEN t = Some L /\\ zlen (sdec v) <= L + 1 "
     "/\\ (v <> 0 -> digit_loop (Z.to_nat L) (unsigned_abs (bits t) v) [] = Some (sdec (Z.abs v)))"),
    ("c09_base10len",
     "forall t : ity, exists L, base_10_len (bits t) = Some L /\\ BASE_10_LEN t = Some L "
     "/\\ 10 ^ (L - 1) <= 2 ^ bits t - 1 < 10 ^ L"),
    ("c09_round_trip",
     "forall (BUF : Z) (dbg : bool) (vs : list (ity * Z)), 39 <= BUF -> "
     "Forall (fun p => in_range (fst p) (snd p) = true) vs -> "
     "exists text, run BUF dbg [OWrite (VVec (int_values vs))] = Some (text, []) "
     "/\\ parse_ints text = Some (map snd vs)"),
    # in_scope c = (39 <=? c_buf c) && executor_verdicts (c_obs c)   (Corr.v)
    ("c09_model_check_spec_check",
     "forall c : case, in_scope c = true -> model_check c = true -> spec_check c = true"),
    ("c09_model_check_spec_check_any_capacity",
     "forall c : case, c_obs c <> Panic -> executor_verdicts (c_obs c) = true -> "
     "model_check c = true -> spec_check c = true"),
    ("c09_run_some_delivers",
     "forall (BUF : Z) (dbg : bool) (ops : list op) (r : list byte * list Z), "
     "Forall wf_op ops -> run BUF dbg ops = Some r -> r = (rendering ops, Spec.flush_points ops 0)"),
    ("c09_sdec_is_dec", "forall v : Z, sdec v = dec v"),
]

RULE = ("scripts of write / write_char / flush / out! / outln! over all 12 integer types (every type's MIN, MAX, 0, +-1, "
        "10^k-1, 10^k, 10^k+1, 9..9, random values of every bit length), ASCII strings as String AND as &str (lengths 0, 1, "
        "BUF-1, BUF, BUF+1, 2*BUF+3, .. 3*BUF+1: constant (`fill`/`rfill`), made of several runs with borders on and next "
        "to the multiples of BUF (`runs`/`rruns`: position and order of every chunk visible), of one 2-/3-/4-byte "
        "character cut by the chunk border (`fillu`)), Vec (empty, nested, natively typed, the end of the buffer inside a "
        "Vec, one Vec larger than the buffer in the thorough tier), tuples of arity 2..8; buffer fill levels BUF-45..BUF "
        "when a multi-byte piece starts, and for 14 kinds of piece the levels at which it (or its first component, or its "
        "'-') fits exactly / by one byte more or less; writers moved to another address with data pending (`mv`); TWO "
        "writers alive with interleaved operations, each observed once (the other one compared with to_string inside "
        "the executor); scripts run in a child process through the real make_io! (stdout lock, drop by leaving the "
        "function), and through make_io! executed 2..4 times one after the other in ONE child process (each in its own "
        "function scope, the earlier Writer and Reader dropped; the script's pieces split between the invocations, an "
        "invocation that writes nothing / more than BUF, a marker printed with plain print! between two invocations, "
        "invocations on a spawned thread, values taken from the child's stdin through the reader of a later invocation, "
        "standard output a pipe / an empty regular file / a regular file holding an earlier line that must survive; the "
        "child's complete standard output is compared); a writer dropped and a NEW writer made over the SAME scripted "
        "sink (`nw`, the sink's length right after the drop is checked like a flush point); a quarter of the cases of every "
        "single-writer family with the writer's life ended by UNWINDING from a panic in the CALLER's code after the last "
        "piece, the sink healthy (index out of range in an argument of writer.write / a user-defined Writable impl that "
        "panics after writing the last piece / panic_any; the script in a closure under catch_unwind, on a worker thread "
        "that panics, or run as a whole inside a destructor while the thread is already unwinding; pieces through "
        "Writer::write or through the trait method Writable::write directly, which leaves bytes pending in debug builds "
        "too; now and then the same bug once in mid-script with the writer only borrowed), a quarter of the two-writer "
        "cases with both writers dropped by unwinding, a quarter of the make_io! cases with the function that called "
        "make_io! panicking at its end (main or worker thread): same expected observation as the ordinary end of life; "
        "sinks accepting 1..k bytes per write call with Interrupted results injected; read back through "
        "Reader element by element (integers, string tokens), with read_vec / the tuple impls, and with read_lines; "
        "each case runs on the debug (flush per write; the executor verifies after every operation that nothing is left "
        "pending) and the release (buffered) executor and is compared with the model instantiated with the hook's "
        "BUF_SIZE and the profile's flush_each_write; all cases are additionally run on a buffered build with overflow "
        "checks and must be answered as by the release build; non-trivial = at least two pieces and a non-empty output")
TRUSTED = ["executor harness/crates/c09 (drives rlib_io::Writer through write/write_char/flush/out!/outln!/make_io!/drop "
           "into a scripted sink (a pipe or a regular file for make_io!; for `e` operations it pipes the values' renderings "
           "into the child's stdin; a lost earlier line of the file is reported as F!earlier-file-content), prints the received bytes; compares with to_string, reads back "
           "through rlib_io::Reader; for the second writer of a two-writer case and for the debug flush-per-write only "
           "its own verdict (F!other / F!dbgflush) reaches Coq; in the unwinding modes it raises the caller's panic itself and "
           "answers P for any other panic)",
           "checks/c09.py (case generator, run-length / period encoding of long byte strings, Coq term printer; `mv` and `nx` are "
           "not events of the model, `nw` is printed as OFlush, a print! marker as the write of that string, `e` as "
           "the write of the value fed to stdin)",
           "std::io::Write::write_all (oracle: delivers its argument whatever partial writes/Interrupted the sink answers)",
           "<[u8]>::chunks, unsigned_abs of std (modelled by their documented contracts)"]
ASSUMPTIONS = ["usize/isize are 64-bit (the target the executor is built for)",
               "the property's quantifier: ASCII strings and chars (write_char truncates the code point to u8), integers "
               "of the 12 primitive types, tuple arity 2..8",
               "BUF_SIZE is a constant of the crate: the implementation is exercised at the hook's value only (the "
               "theorems hold for every BUF_SIZE >= 39)"]

TY = {"i8": (1, 8), "i16": (1, 16), "i32": (1, 32), "i64": (1, 64), "i128": (1, 128), "isize": (1, 64),
      "u8": (0, 8), "u16": (0, 16), "u32": (0, 32), "u64": (0, 64), "u128": (0, 128), "usize": (0, 64)}
TYS = list(TY)
COQ_TY = {t: t[0].upper() + t[1:] for t in TY}
BUF = [None]


def lo_hi(t):
    s, b = TY[t]
    return (-(1 << (b - 1)), (1 << (b - 1)) - 1) if s else (0, (1 << b) - 1)


# ----------------------------------------------------------------------------- executor protocol
def hx(s):
    b = s.encode("utf-8")
    return b.hex() if b else "-"


def val_tokens(v):
    k = v[0]
    if k == "i":
        return [v[1], str(v[2])]
    if k in ("s", "r"):
        return [k, hx(v[1])]
    if k in ("fill", "rfill"):
        return [k, str(v[1]), str(v[2])]
    if k in ("runs", "rruns"):
        return [k, str(len(v[1]))] + [str(x) for r in v[1] for x in r]
    if k in ("fillu", "rfillu"):
        return [k, str(v[1]), str(v[2]), str(v[3]), str(v[4])]
    if k in ("v", "t"):
        out = [k, str(len(v[1]))]
        for x in v[1]:
            out += val_tokens(x)
        return out
    if k == "nv":
        return ["nv", v[1], str(len(v[2]))] + [str(x) for x in v[2]]
    if k == "nvrep":
        return ["nvrep", v[1], str(v[2]), str(v[3])]
    raise ValueError(v)


def op_tokens(o):
    k = o[0]
    if k == "w":
        return ["w"] + val_tokens(o[1])
    if k == "c":
        return ["c", str(o[1])]
    if k in ("f", "mv", "nw", "pn"):
        return [k]
    if k == "nx":
        return ["nx", hx(o[1]), str(o[2])]
    if k == "e":
        return ["e"] + val_tokens(o[1])
    toks = [k, str(len(o[1]))]
    for x in o[1]:
        toks += val_tokens(x)
    return toks


def interleave(c):
    """dual cases: (tag, op) in execution order; c["ops"] belongs to writer d["which"]"""
    d = c["dual"]
    mine, other = d["which"], 1 - d["which"]
    rest = {mine: list(c["ops"]), other: list(d["other"])}
    out = []
    for b in d["sched"]:
        w = b if rest[b] else 1 - b
        if rest[w]:
            out.append((w, rest[w].pop(0)))
    for w in (mine, other):
        out += [(w, o) for o in rest[w]]
    return out


def harness_line(c):
    if c.get("query"):
        return "Q"
    if c.get("makeio"):
        toks = ["M", str(c.get("rt", 0)), str(c.get("out", 0)), str(c.get("thr0", 0))]
        for o in c["ops"]:
            toks += op_tokens(o)
        return " ".join(toks)
    head = [str(x) for x in c["sink"]] + [str(c.get("rt", 0))]
    if c.get("dual"):
        # + 2: both writers are dropped by unwinding from a panic of the caller
        toks = ["D"] + head + [str(c["dual"]["which"]), str(c["dual"]["dropfirst"] + (2 if c["dual"].get("uw") else 0))]
        for w, o in interleave(c):
            toks += [str(w)] + op_tokens(o)
        return " ".join(toks)
    toks = ["S"] + head
    if c.get("uw"):
        # the writer's life ends by unwinding from a panic of the caller: [via, entry, bug, mid]
        toks = ["U"] + [str(x) for x in c["uw"]] + head
    for o in c["ops"]:
        toks += op_tokens(o)
    return " ".join(toks)


def prepare(ctx):
    sizes = set()
    for prof, binp in ctx.bins.items():
        p = subprocess.run([binp], input="Q\n", stdout=subprocess.PIPE, text=True, timeout=60)
        sizes.add(int(p.stdout.split()[1]))
    if len(sizes) != 1:
        raise RuntimeError("profiles report different buffer sizes: %s" % sizes)
    BUF[0] = sizes.pop()


# ----------------------------------------------------------------------------- Coq terms
def z(n):
    return "(%d)" % n if n < 0 else "%d" % n


def wordlist(b):
    """a leading 1 followed by up to seven bytes per 63-bit word"""
    out = []
    for i in range(0, len(b), 7):
        v = 1
        for x in b[i:i + 7]:
            v = v * 256 + x
        out.append(str(v))
    return "[%s]%%uint63" % ";".join(out)


def words(b):
    return "Lit " + wordlist(b)


def extent(b, i, p):
    """largest L with b[i:i+L] of period p (b[j] == b[j+p] inside); assumes b[i:i+p] == b[i+p:i+2p]"""
    n = len(b)
    lo, hi = p, n - i - p          # m = L - p: b[i:i+m] == b[i+p:i+p+m]
    step = 4 * p
    while lo < hi:                 # gallop, then bisect
        m = min(hi, lo + step)
        if b[i + lo:i + m] == b[i + p + lo:i + p + m]:
            lo = m
            step *= 2
        else:
            hi = m - 1
            break
    while lo < hi:
        m = (lo + hi + 1) // 2
        if b[i + lo:i + m] == b[i + p + lo:i + p + m]:
            lo = m
        else:
            hi = m - 1
    return lo + p


def encode(b, per=()):
    """lossless compact form of a byte string: long runs as Run, long periodic stretches (periods listed in `per`,
    hints of the generator) as Cyc, the rest as words.  Returns (Coq list of seg, number of literal bytes)."""
    b = bytes(b)
    out, lit, nlit, i, n = [], [], 0, 0, len(b)
    ps = (1,) + tuple(q for q in per if q > 1)
    while i < n:
        hit = None
        for q in ps:
            if i + 2 * q <= n and b[i:i + q] == b[i + q:i + 2 * q]:
                k = extent(b, i, q) // q
                if k * q >= 24 and k >= 3:
                    hit = (q, k)
                    break
        if hit is None:
            lit.append(b[i])
            nlit += 1
            i += 1
            continue
        if lit:
            out.append(words(lit))
            lit = []
        q, k = hit
        out.append("Run %d %d%%N" % (b[i], k) if q == 1 else "Cyc %s %d" % (wordlist(b[i:i + q]), k))
        i += q * k
    if lit:
        out.append(words(lit))
    return "[" + "; ".join(out) + "]", nlit


def segs(b, per=()):
    return encode(b, per)[0]


def zv(n):
    """integer operand as limbs in base 10^18 (small ones stay ordinary numerals)"""
    if -1000 < n < 1000:
        return z(n)
    m, limbs = abs(n), []
    while m:
        limbs.append(str(m % 10 ** 18))
        m //= 10 ** 18
    return "(zv %s [%s]%%uint63)" % ("true" if n < 0 else "false", ";".join(reversed(limbs)))


def int_term(t, n):
    return "VInt %s %s" % (COQ_TY[t], zv(n))


def val_term(v):
    k = v[0]
    if k == "i":
        return int_term(v[1], v[2])
    if k in ("s", "r"):
        return "str %s" % segs(v[1].encode("utf-8"))
    if k in ("fill", "rfill"):
        return "str [Run %d %d%%N]" % (v[1], v[2])
    if k in ("runs", "rruns"):
        return "str [%s]" % "; ".join("Run %d %d%%N" % (c, n) for c, n in v[1])
    if k in ("fillu", "rfillu"):
        return "str [Run %d %d%%N; Cyc %s %d]" % (v[3], v[4], wordlist(chr(v[1]).encode("utf-8")), v[2])
    if k in ("v", "t"):
        return "%s [%s]" % ("VVec" if k == "v" else "VTup", "; ".join(val_term(x) for x in v[1]))
    if k == "nv":
        return "VVec [%s]" % "; ".join(int_term(v[1], x) for x in v[2])
    if k == "nvrep":
        return "vrep %d (%s)" % (v[3], int_term(v[1], v[2]))
    raise ValueError(v)


def op_term(o):
    k = o[0]
    if k == "w":
        return "OWrite (%s)" % val_term(o[1])
    if k == "c":
        return "OChar %d" % o[1]
    if k == "f":
        return "OFlush"
    return "%s [%s]" % ("OOut" if k == "o" else "OOutln", "; ".join(val_term(x) for x in o[1]))


def ops_term(c):
    # `mv` (the writer is moved to another address) is not an event of the model: a move cannot change anything.
    # `nw` (S: the writer is dropped, a new one is made over the same sink): for the sink this is an explicit flush,
    # the executor reports the sink's length right after the drop as a flush point -> OFlush.
    # `nx` (M: the next make_io! in the same child process): no event; a marker printed with print! in between is
    # part of what standard output has to show -> written like a string.  `e` (M: value read from stdin through the
    # reader of make_io!, then written) -> the write of that value.  No new constructor: same terms, same proofs.
    out = []
    for x in c["ops"]:
        k = x[0]
        if k in ("mv", "pn") or (k == "nx" and not x[1]):
            continue
        if k == "nw":
            out.append("OFlush")
        elif k == "nx":
            out.append(op_term(["w", ["s", x[1]]]))
        elif k == "e":
            out.append(op_term(["w", x[1]]))
        else:
            out.append(op_term(x))
    return "; ".join(out)


def parse_obs(obs):
    t = obs.split()
    if t[0] == "P":
        return None
    data = b"" if t[1] == "-" else bytes.fromhex(t[1])
    nf = int(t[2])
    fl = [int(x) for x in t[3:3 + nf]]
    same = t[3 + nf] == "T"
    rb = {"N": None, "T": True, "F": False}[t[4 + nf]]
    return data, fl, same, rb


def coq_term(c, obs, profile):
    r = parse_obs(obs)
    dbg = "true" if profile == "debug" else "false"
    if r is None:
        o = "Panic"
    else:
        data, fl, same, rb = r
        enc, nlit = encode(data, c.get("per", ()))
        if nlit > 40000:
            if same and rb is not False:
                return "(Case %d %s [%s] (TooLong %d))" % (BUF[0], dbg, ops_term(c), len(data))
            # too irregular to embed AND the executor's own comparison with to_string failed: the verdict must not
            # be lost; the head of the received bytes goes into the case (the model cannot agree with a proper prefix
            # of what arrived unless it disagrees with the implementation)
            enc = encode(data[:4096])[0]
        o = "(Ret (expand %s) [%s] %s %s)" % (enc, ";".join(z(x) for x in fl), "true" if same else "false",
                                              "None" if rb is None else "(Some %s)" % ("true" if rb else "false"))
    return "(Case %d %s [%s] %s)" % (BUF[0], dbg, ops_term(c), o)


# ----------------------------------------------------------------------------- evidence helpers
def pieces(c):
    n = 0
    for o in c["ops"]:
        if o[0] in ("w", "c", "e") or (o[0] == "nx" and o[1]):
            n += 1
        elif o[0] in ("f", "mv", "nw", "nx", "pn"):
            pass
        elif o[0] in ("o", "ol"):
            n += len(o[1]) + 1
    return n


def nontrivial(c, obs):
    r = parse_obs(obs)
    return r is not None and len(r[0]) > 0 and pieces(c) >= 2


def classify(c, obs):
    r = parse_obs(obs)
    size = "panic" if r is None else ("empty" if not r[0] else ("<64" if len(r[0]) < 64 else
                                                                ("<BUF" if len(r[0]) < BUF[0] else ">=BUF")))
    uw = "+unwind" if (c.get("uw") or (c.get("dual") or {}).get("uw") or (c["ops"] and c["ops"][-1][0] == "pn")) else ""
    return "%s%s/out%s" % (c.get("kind", "corpus"), uw, size)


# ----------------------------------------------------------------------------- generator
def extremes(t):
    lo, hi = lo_hi(t)
    vals = {lo, hi, 0, 1, lo + 1, hi - 1}
    k = 0
    while 10 ** k <= hi:
        p = 10 ** k
        for v in (p - 1, p, p + 1, 2 * p - 1, 9 * p, 5 * p):
            vals.add(v)
            vals.add(-v)
        k += 1
    vals.add(int("9" * len(str(hi))) if int("9" * len(str(hi))) <= hi else int("9" * (len(str(hi)) - 1)))
    b = 1
    while b <= hi:
        vals.update((b, b - 1, -b, -b - 1))
        b <<= 8
    return sorted(v for v in vals if lo <= v <= hi)


def rand_int(rng, t):
    lo, hi = lo_hi(t)
    k = rng.below(10)
    if k == 0:
        return rng.choice([lo, hi, 0, lo + 1, hi - 1])
    if k == 1:
        p = 10 ** rng.below(len(str(hi)))
        v = rng.choice([p - 1, p, p + 1])
    else:
        v = rng.next() | (rng.next() << 64)
        v &= (1 << rng.range(1, TY[t][1])) - 1
    if TY[t][0] and rng.chance(1, 2):
        v = -v
    return max(lo, min(hi, v))


ALPHA = "abcdefghijklmnopqrstuvwxyzABCXYZ0123456789 .,-=_/\\!#$%^&*()[]{}<>?'\"`~+|;:@\n\t"


def rand_str(rng, maxlen=12):
    n = rng.choice([0, 0, 1, 1, 2, 3, 5, maxlen]) if rng.chance(1, 2) else rng.range(0, maxlen)
    return "".join(rng.choice(ALPHA) for _ in range(n))


def rand_val(rng, depth=0, ints_only=False):
    k = rng.below(12)
    if depth >= 2 or k < 5:
        return ["i", rng.choice(TYS), None]
    if k < 7 and not ints_only:
        return [rng.choice(["s", "r"]), rand_str(rng)]
    if k < 9:
        n = rng.choice([0, 0, 1, 2, 3, 5]) if not ints_only else rng.choice([1, 2, 3, 5])
        if rng.chance(1, 2):
            t = rng.choice(TYS)
            return ["nv", t, [rand_int(rng, t) for _ in range(n)]]
        # a Vec is homogeneous in Rust; Vec<Val> of the executor may mix, the model allows any list
        proto = rand_val(rng, depth + 1, ints_only)
        return ["v", [fresh_like(rng, proto) for _ in range(n)]]
    n = rng.range(2, 8)
    return ["t", [rand_val(rng, depth + 1, ints_only) for _ in range(n)]]


def fill_ints(rng, v):
    if v[0] == "i" and v[2] is None:
        v[2] = rand_int(rng, v[1])
    elif v[0] in ("v", "t"):
        for x in v[1]:
            fill_ints(rng, x)
    return v


def fresh_like(rng, v):
    if v[0] == "i":
        return ["i", v[1], rand_int(rng, v[1])]
    if v[0] in ("s", "r"):
        return [v[0], rand_str(rng)]
    if v[0] == "nv":
        return ["nv", v[1], [rand_int(rng, v[1]) for _ in range(rng.range(0, 3))]]
    return [v[0], [fresh_like(rng, x) for x in v[1]]]


def rand_sink(rng):
    return [rng.choice([1, 1, 2, 3, 7, 64, 4096, 1000000]), rng.choice([0, 0, 100, 500, 900]), rng.below(1 << 32)]


def rand_script(rng, n, ints_only=False):
    ops = []
    for i in range(n):
        k = rng.below(16)
        if ints_only:
            if k < 9:
                ops.append(["w", fill_ints(rng, rand_val(rng, 0, True))])
            elif k < 12:
                ops.append(["o", [fill_ints(rng, rand_val(rng, 1, True)) for _ in range(rng.range(1, 5))]])
            else:
                ops.append(["ol", [fill_ints(rng, rand_val(rng, 1, True)) for _ in range(rng.range(1, 5))]])
            if ops[-1][0] != "ol" or rng.chance(1, 3):
                ops.append(["c", rng.choice([32, 32, 10, 9, 13])])
            if rng.chance(1, 6):
                ops.append(["f"])
            continue
        if k < 7:
            ops.append(["w", fill_ints(rng, rand_val(rng))])
        elif k < 10:
            ops.append(["c", rng.choice([32, 10, 45, 48, 97, 122, 0, 127, rng.range(0, 127)])])
        elif k < 12:
            ops.append(["f"])
        elif k < 14:
            ops.append(["o", [fill_ints(rng, rand_val(rng, 1)) for _ in range(rng.range(1, 5))]])
        else:
            ops.append(["ol", [fill_ints(rng, rand_val(rng, 1)) for _ in range(rng.range(0, 5))]])
    return ops


def fill(rng, c, n):
    """a string of n copies of one ASCII byte: String or &str (the two impls are separate copies of one loop)"""
    return [rng.choice(["fill", "rfill"]), c, n]


def with_moves(rng, ops, chance=4):
    """now and then the writer is moved while it holds data"""
    if ops and rng.chance(1, chance):
        ops = list(ops)
        ops.insert(rng.range(1, len(ops)), ["mv"])
    return ops


def piece_near_boundary(rng):
    """an operation whose first piece is several bytes long"""
    k = rng.below(10)
    if k < 4:
        t = rng.choice(TYS)
        lo, hi = lo_hi(t)
        v = rng.choice([lo, hi, rand_int(rng, t), rand_int(rng, t)])
        return ["w", ["i", t, v]]
    if k == 4:
        return ["w", [rng.choice(["s", "r"]), "".join(rng.choice(ALPHA[:36]) for _ in range(rng.range(2, 46)))]]
    if k == 5:
        t = rng.choice(TYS)
        return ["w", ["nv", t, [rand_int(rng, t) for _ in range(rng.range(2, 6))]]]
    if k == 6:
        return ["w", ["t", [fill_ints(rng, rand_val(rng, 2)) for _ in range(rng.range(2, 8))]]]
    if k == 7:
        return ["ol", [fill_ints(rng, rand_val(rng, 2)) for _ in range(rng.range(1, 4))]]
    if k == 8:
        return ["w", ["i", "i128", lo_hi("i128")[0]]]
    return ["w", ["i", "u128", lo_hi("u128")[1]]]


def boundary_case(rng, d):
    B = BUF[0]
    ops = []
    level = B - d
    how = rng.below(4)
    if how == 0:
        ops.append(["w", fill(rng, 97 + rng.below(26), level)])
    elif how == 1:
        a = rng.range(1, max(1, level - 1))
        ops += [["w", fill(rng, 97 + rng.below(26), a)], ["w", fill(rng, 65 + rng.below(26), level - a)]]
    elif how == 2:
        # a flushed prefix first: the sink is not empty when the boundary is met
        ops += [["w", ["i", "i32", -7]], ["f"], ["w", fill(rng, 97 + rng.below(26), level)]]
    else:
        tail = rand_script(rng, rng.range(1, 3))
        ops += [o for o in tail if o[0] != "f"]
        ops.append(["w", fill(rng, 97 + rng.below(26), max(0, level - 40))])
    if rng.chance(1, 3):
        ops.append(["mv"])     # a writer with an almost full buffer changes its address
    for _ in range(rng.range(1, 4)):
        ops.append(piece_near_boundary(rng))
        if rng.chance(1, 4):
            ops.append(["c", 32])
        if rng.chance(1, 6):
            ops.append(["f"])
    return {"kind": "boundary", "sink": rand_sink(rng), "rt": 0, "ops": ops}


def follow_ops(rng, follow):
    ops = []
    if follow == 0:
        ops.append(["w", ["i", "u8", 255]])
    elif follow == 1:
        ops.append(["c", 33 + rng.below(90)])          # a single byte through write_char
    elif follow == 2:
        ops.append(["w", ["i", "u8", rng.below(10)]])  # a single byte through write_bytes
    elif follow == 3:
        ops += [["c", 32], ["w", ["i", "i64", -rng.range(1, 10 ** 18)]]]
    # follow == 4: nothing, the drop delivers the tail
    if rng.chance(1, 2):
        ops.append(["f"])
        ops.append(["c", 10])
    return ops


def string_case(rng, n, pre, follow=None, ref=None):
    ops = []
    if pre:
        ops.append(["w", ["s", "x" * pre]])
    v = fill(rng, 97 + rng.below(26), n)
    if ref is not None:
        v[0] = "rfill" if ref else "fill"
    ops.append(["w", v])
    ops += follow_ops(rng, rng.below(5) if follow is None else follow)
    return {"kind": "bigstring", "sink": rand_sink(rng), "rt": 0, "ops": ops}


def run_list(rng, n, shape):
    """a list of (byte, count) with total n: ONE string whose content says where each byte belongs.
    shape 0: run borders exactly on the multiples of BUF (a chunk resent or dropped changes a run's length and a
             shift by one byte at a chunk border is visible), the last run ends with a different byte;
    shape 1: a few long runs with borders near, not on, the multiples of BUF;
    shape 2: many runs of 24..90 (100..500 in strings of several buffers) bytes, bytes cycling through the alphabet: no two BUF-sized windows are equal"""
    B = BUF[0]
    runs, left, c = [], n, rng.below(26)
    def nxt():
        nonlocal c
        c = (c + 1 + rng.below(24)) % 26
        return 97 + c
    if shape == 0:
        while left > 0:
            k = min(left, B)
            if k > 2:
                runs += [[nxt(), 1], [nxt(), k - 2], [nxt(), 1]]
            else:
                runs.append([nxt(), k])
            left -= k
    elif shape == 1:
        while left > 0:
            k = min(left, B + rng.choice([-7, -1, 1, 5, 9]))
            runs.append([nxt(), k])
            left -= k
    else:
        while left > 0:
            k = min(left, rng.range(24, 90) if n < B + 2 else rng.range(100, 500))
            runs.append([nxt(), k])
            left -= k
    return runs


def runs_case(rng, n, pre, shape, ref):
    ops = []
    if pre:
        ops.append(["w", ["s", "x" * pre]])
    ops.append(["w", ["rruns" if ref else "runs", run_list(rng, n, shape)]])
    ops += follow_ops(rng, rng.below(5))
    return {"kind": "runstring", "sink": rand_sink(rng), "rt": 0, "ops": ops}


def unicode_case(rng, cp, nbytes, pk, ref):
    """a long string of one multi-byte character after pk ASCII bytes: the character at the chunk border is cut
    (as_bytes().chunks() may do that, str slicing may not).  Outside the property's quantifier (ASCII): compared with
    the model only."""
    w = len(chr(cp).encode("utf-8"))
    k = (nbytes - pk + w - 1) // w
    ops = [["w", ["rfillu" if ref else "fillu", cp, k, 120, pk]]]
    ops += follow_ops(rng, rng.choice([1, 2, 4]))
    return {"kind": "bigstring-utf8", "sink": rand_sink(rng), "rt": 0, "ops": ops, "per": [w]}


def exact_fill_case(rng, d, how):
    """bring the buffer to B-d bytes with ONE piece (how: 0 string, 1 flushed prefix + string), then d+2 single-byte
    pieces (chars and one-digit integers alternately chosen) so that one of them takes the last free byte and the
    next one meets a completely full buffer"""
    B = BUF[0]
    ops = []
    if how == 1:
        ops += [["w", ["i", "u16", 7]], ["f"]]
    ops.append(["w", fill(rng, 97 + rng.below(26), B - d)])
    for _ in range(d + 2):
        if rng.chance(1, 2):
            ops.append(["c", 33 + rng.below(90)])
        else:
            ops.append(["w", ["i", "u8", rng.below(10)]])
    ops.append(["w", ["i", "i32", -12345]])
    return {"kind": "boundary", "sink": rand_sink(rng), "rt": 0, "ops": ops}


def rendered_len(v):
    k = v[0]
    if k == "i":
        return len(str(v[2]))
    if k in ("s", "r"):
        return len(v[1].encode("utf-8"))
    if k == "nv":
        return sum(len(str(x)) for x in v[2]) + max(0, len(v[2]) - 1)
    if k in ("v", "t"):
        return sum(rendered_len(x) for x in v[1]) + max(0, len(v[1]) - 1)
    raise ValueError(v)


def fit_cases(rng):
    """a multi-byte piece that fits the free space exactly / lacks one byte / leaves one byte; '-' on the last and
    the last but one free byte; for composite values also the FIRST component fitting exactly"""
    B = BUF[0]
    i64min, i8min = ["i", "i64", lo_hi("i64")[0]], ["i", "i8", -128]
    word = lambda n: "".join(ALPHA[(7 * j + n) % 36] for j in range(n))
    things = [("w", i64min, None), ("w", ["i", "u128", lo_hi("u128")[1]], None), ("w", i8min, None),
              ("w", ["i", "u8", 7], None), ("w", ["i", "isize", -1], None)]
    for n in (2, 17, 45):
        things += [("w", ["s", word(n)], None), ("w", ["r", word(n)], None)]
    nv = ["nv", "i32", [-2147483648, 77, 2147483647]]
    tup = ["t", [["i", "i16", -32768], ["r", "ab"]]]
    things += [("w", nv, 11), ("w", tup, 6), ("ol", [["i", "u64", lo_hi("u64")[1]], ["i", "i8", -5]], 20)]
    out = []
    for kind, v, first in things:
        total = sum(rendered_len(x) for x in v) + len(v) - 1 + 1 if kind == "ol" else rendered_len(v)
        levels = {B - total + dl: dl == 0 for dl in (-1, 1, 0)}
        if first is not None:
            levels.update({B - first + dl: dl == 0 for dl in (-1, 1, 0)})
        if kind == "w" and v[0] == "i" and v[2] < 0:
            levels.update({B - 2: False, B - 1: True})
        for lvl in sorted(levels):
            r = rng.fork("fit%s/%d" % (val_tokens(v) if kind == "w" else "ol", lvl))
            how = r.below(3)
            ops = []
            if how == 1:
                ops += [["w", ["i", "u16", 7]], ["f"]]
            if how == 2:
                a = r.range(1, lvl - 1)
                ops += [["w", fill(r, 97 + r.below(26), a)], ["w", fill(r, 65 + r.below(26), lvl - a)]]
            else:
                ops.append(["w", fill(r, 97 + r.below(26), lvl)])
            ops.append(["w", v] if kind == "w" else ["ol", v])
            ops += [["c", 32], ["w", ["i", "i32", -12345]]]
            out.append(({"kind": "fit", "sink": rand_sink(r), "rt": 0, "ops": ops}, levels[lvl]))
    return out


def bigvec_case(rng, which, nmax):
    """a Vec whose rendering meets the end of the buffer in its middle (which = 0) / is larger than the whole buffer.
    (The model appends to a list: a case costs Coq about |pieces| * BUF steps, hence the small numbers; Vecs of 10^5
    elements go through the executor's own comparison, `X .. vec`.)"""
    B = BUF[0]
    if which == 0:
        n = rng.range(nmax // 2, nmax)
        t = rng.choice(["u8", "i8", "u16", "i64"])
        vals = [rand_int(rng, t) if rng.chance(1, 8) else rng.range(0, 99) for _ in range(n)]
        # about 2.9 bytes per element: the buffer is full somewhere in the first third of the Vec
        ops = [["w", fill(rng, 97 + rng.below(26), B - rng.range(3, min(n, 3 * nmax // 4) + 3))], ["w", ["nv", t, vals]], ["c", 10]]
        return {"kind": "bigvec", "sink": rand_sink(rng), "rt": 0, "ops": ops}
    # equal values, rendering > BUF: 39+1, 40+1 bytes per element
    t, v, n = [("u128", lo_hi("u128")[1], 1700), ("i128", lo_hi("i128")[0], 1650)][which - 1]
    n += rng.below(40)
    pre = rng.choice([0, 1, 17])
    ops = ([["w", ["s", "y" * pre]]] if pre else []) + [["w", ["nvrep", t, v, n]], ["c", 10]]
    return {"kind": "bigvec", "sink": rand_sink(rng), "rt": 3 if pre == 0 else 0, "ops": ops, "per": [len(str(v)) + 1]}


def dual_cases(rng, big):
    """two writers alive at the same time, their operations interleaved; each of the two is the observed one once"""
    a = with_moves(rng, rand_script(rng, rng.range(1, 8)), 2)
    b = with_moves(rng, rand_script(rng, rng.range(1, 8)), 2)
    if big:
        a = boundary_case(rng, rng.range(0, 45))["ops"]
        if big == 2:
            b = boundary_case(rng, rng.range(0, 45))["ops"]
    sched = [rng.below(2) for _ in range(len(a) + len(b))]
    sink, dropfirst = rand_sink(rng), rng.below(2)
    return [{"kind": "dual", "sink": sink, "rt": 0, "ops": mine,
             "dual": {"which": w, "other": other, "sched": sched, "dropfirst": dropfirst}}
            for w, mine, other in ((0, a, b), (1, b, a))]


def token(rng):
    return "".join(rng.choice(ALPHA[:36] + ".,-=_/#$%") for _ in range(rng.range(1, 9)))


def token_val(rng, depth=0):
    """values a reader can take apart again: integers, whitespace-free strings, Vec<int>, tuples"""
    k = rng.below(10)
    t = rng.choice(TYS)
    if k < 3 or depth >= 2:
        return ["i", t, rand_int(rng, t)]
    if k < 5:
        return [rng.choice(["s", "r"]), token(rng)]
    if k < 7:
        return ["nv", t, [rand_int(rng, t) for _ in range(rng.choice([0, 1, 2, 3, 7]))]]
    if k < 9:      # a tuple of one integer type: read back through the tuple impl of the same arity
        return ["t", [["i", t, rand_int(rng, t)] for _ in range(rng.range(2, 8))]]
    return ["t", [token_val(rng, depth + 1) for _ in range(rng.range(2, 8))]]


def token_script(rng):
    ops = []
    for _ in range(rng.range(1, 8)):
        k = rng.below(8)
        if k < 5:
            ops.append(["w", token_val(rng)])
            ops.append(["c", rng.choice([32, 32, 10, 9, 13])])
        elif k < 6:
            ops.append(["o", [token_val(rng, 1) for _ in range(rng.range(1, 5))]])
            ops.append(["c", rng.choice([32, 10])])
        else:
            ops.append(["ol", [token_val(rng, 1) for _ in range(rng.range(0, 5))]])
        if rng.chance(1, 6):
            ops.append(["f"])
    return ops


def with_renew(rng, ops, chance):
    """now and then the writer's life ends (drop) and a NEW writer is made over the same sink (S cases only)"""
    if rng.chance(1, chance):
        ops = list(ops)
        for _ in range(rng.choice([1, 1, 2, 3])):
            ops.insert(rng.range(0, len(ops)), ["nw"])
    return ops


def echo_val(rng):
    t = rng.choice(TYS)
    k = rng.below(6)
    if k == 0:
        return [rng.choice(["s", "r"]), token(rng)]
    if k == 1:
        return ["i", t, rng.choice(lo_hi(t))]
    return ["i", t, rand_int(rng, t)]


def makeio_multi_case(rng, j):
    """make_io! 2..4 times one after the other in ONE child process (a solve() per test case that sets its I/O up
    itself): each in its own function scope, so the Writer (and Reader) of an invocation is dropped before the next
    one is made; the pieces of one script are split between the invocations; the child's complete standard output is
    compared with the rendering of the whole script.  Variations: an invocation that writes nothing, one that writes
    more than BUF, a newline-terminated marker printed with plain print! between two invocations (standard output has to stay
    usable for the rest of the program), an invocation on a spawned thread, values that come from the child's stdin through the
    `reader` of ONE invocation (after earlier invocations' readers were dropped), standard output redirected to a
    regular file (empty / holding an earlier line that has to survive)."""
    n_inv = 2 + j % 3
    tokens = j % 3 != 2
    rt = (rng.choice([1, 3]) if tokens else 2)
    parts = []
    for k in range(n_inv):
        if rng.chance(1, 7):
            part = []
        elif tokens:
            part = token_script(rng)
        else:
            part = rand_script(rng, rng.range(1, 5))
        parts.append([o for o in part if o[0] != "f"])
    if j % 8 == 5:      # one invocation writes more than the buffer and more than a pipe holds
        k = rng.below(n_inv)
        parts[k] = parts[k] + [["w", fill(rng, 97 + rng.below(26), BUF[0] + rng.range(1, 5000))], ["c", 10]]
        rt = 0
    if j % 3 == 1:      # input: through the reader of ONE invocation (a Reader keeps what it read ahead to itself)
        k = rng.below(n_inv)
        # only where a token ends (after a blank / newline, or at the start): the script stays readable
        safe = [0] + [i + 1 for i, o in enumerate(parts[k]) if o[0] == "ol" or (o[0] == "c" and o[1] in (32, 10, 9, 13))]
        for at in sorted((rng.choice(safe) for _ in range(rng.range(1, 4))), reverse=True):
            parts[k][at:at] = [["e", echo_val(rng)], ["c", rng.choice([32, 10])]]
    ops = []
    for k, part in enumerate(parts):
        if k:
            # a marker ends its line: std's stdout is line buffered, so print! hands a complete line over at once and
            # the order on the descriptor does not depend on whether the Writer goes through std's buffer or not
            marker = rng.choice(["", "", "case#%d\n" % k, "--\n", "ok\n"])
            ops.append(["nx", marker, 1 if rng.chance(1, 4) else 0])
        ops += with_moves(rng, part, 6)
    return {"kind": "makeio-multi", "makeio": True, "sink": [1000000, 0, 0], "rt": rt, "ops": ops,
            "out": [0, 0, 1, 2][rng.below(4)], "thr0": 1 if rng.chance(1, 4) else 0}


def makeio_case(rng, i):
    if i % 8 == 7:      # more than the writer's buffer and more than a pipe holds
        ops = [["w", fill(rng, 97 + rng.below(26), BUF[0] + rng.range(1, 5000))], ["c", 10]] + token_script(rng)
        rt = 0
    elif i % 2:
        ops, rt = token_script(rng), rng.choice([1, 3])
    else:
        ops, rt = rand_script(rng, rng.range(1, 10)), 2
    ops = with_moves(rng, [o for o in ops if o[0] != "f"])
    return {"kind": "makeio", "makeio": True, "sink": [1000000, 0, 0], "rt": rt, "ops": ops}


def generate(rng, tier):
    if BUF[0] is None:
        BUF[0] = 1 << 16
    B = BUF[0]
    quick = tier == "quick"
    cases = []
    # 1. every type's extreme values, natively typed Vec and one write per value; read back
    for t in TYS:
        ex = extremes(t)
        cases.append({"kind": "extremes-vec", "sink": rand_sink(rng), "rt": 1, "ops": [["w", ["nv", t, ex]]]})
        ops = []
        for i, v in enumerate(ex):
            ops.append(["w", ["i", t, v]])
            ops.append(["c", 10 if i % 7 == 6 else 32])
            if i % 11 == 10:
                ops.append(["f"])
        cases.append({"kind": "extremes-each", "sink": rand_sink(rng), "rt": 1, "ops": ops})
        for v in (lo_hi(t)[0], lo_hi(t)[1], 0):
            cases.append({"kind": "single", "sink": [1000000, 0, 0], "rt": 1, "ops": [["w", ["i", t, v]]]})
    cases.append({"kind": "single", "sink": [1, 0, 0], "rt": 0, "ops": []})
    cases.append({"kind": "single", "sink": [1, 0, 0], "rt": 0, "ops": [["f"], ["f"]]})
    cases.append({"kind": "single", "sink": [1, 0, 0], "rt": 0, "ops": [["w", ["s", ""]], ["w", ["v", []]], ["ol", []]]})
    cases.append({"kind": "single", "sink": [3, 500, 5], "rt": 0,
                  "ops": [["w", ["t", [["i", "u8", 200], ["r", "hello"], ["i", "i8", -111]]]], ["c", 10],
                          ["w", ["t", [["i", "i32", i] for i in range(1, 9)]]]]})
    # non-ASCII: outside the property (write_char truncates), still compared with the model
    cases.append({"kind": "non-ascii", "sink": [2, 100, 9], "rt": 0,
                  "ops": [["w", ["s", "héllo 世界"]], ["c", 233], ["c", 0x4e16], ["c", 255], ["c", 256]]})
    # 2. random scripts; a quarter of them is read back line by line (read_lines), now and then the writer is moved
    n_rand = 600 if quick else 5000
    for i in range(n_rand):
        r = rng.fork("s%d" % i)
        cases.append({"kind": "script", "sink": rand_sink(r), "rt": 2 if i % 4 == 3 else 0,
                      "ops": with_renew(r.fork("nw"), with_moves(r, rand_script(r, r.range(1, 10)), 6), 5)})
    # 3. integer-only scripts, read back through Reader
    n_int = 350 if quick else 3000
    for i in range(n_int):
        r = rng.fork("i%d" % i)
        cases.append({"kind": "ints-readback", "sink": rand_sink(r), "rt": 1,
                      "ops": with_renew(r.fork("nw"), rand_script(r, r.range(1, 8), True), 6)})
    # 3b. integers, string tokens, Vec<int>, tuples: read back element by element (rt 1) or with read_vec / the tuple
    #     impls (rt 3)
    for i in range(100 if quick else 1500):
        r = rng.fork("tok%d" % i)
        cases.append({"kind": "tokens-readback", "sink": rand_sink(r), "rt": 1 if i % 2 else 3, "ops": token_script(r)})
    # 4. the 64 KiB boundary: fill levels BUF-45 .. BUF when a multi-byte piece starts
    ds = list(range(0, 46))
    reps = 1 if quick else 4
    for rep in range(reps):
        for d in ds:
            r = rng.fork("b%d/%d" % (rep, d))
            c = boundary_case(r, d)
            # a writer that dies with an almost full buffer, its successor over the same sink meets the next pieces
            c["ops"] = with_renew(r.fork("nw"), c["ops"], 4)
            cases.append(c)
    # 4a. pieces that fit exactly / by one byte more or less
    fits = fit_cases(rng.fork("fit"))
    # quick: the exact fits and '-' on the last byte for half of the pieces, a sixth of the neighbours
    cases += [c for j, (c, exact) in enumerate(fits) if not quick or (exact and j % 2 == 0) or j % 12 == 1]
    # 5. long strings: chunking by BUF; String and &str
    lens = [B - 1, B, B + 1] if quick else [B - 1, B, B + 1, 2 * B - 1, 2 * B, 2 * B + 3, 3 * B + 1]
    for n in lens:
        for j, pre in enumerate([0, 3] if quick else [0, 1, 3, 45]):
            cases.append(string_case(rng.fork("str%d/%d" % (n, pre)), n, pre, ref=(j + n) % 2))
    # exact multiples of BUF followed by every kind of next piece (a full buffer met by a 1-byte piece)
    for n in ([B, 2 * B] if quick else [B, 2 * B, 3 * B]):
        for follow in ([1, 2] if quick and n > B else range(5)):
            cases.append(string_case(rng.fork("strx%d/%d" % (n, follow)), n, 0, follow, ref=follow % 2))
    # 5b. long strings with structure (several runs in ONE string): order and position of every chunk is visible
    if quick:
        plan = [(B - 1, 0, 2, 1), (B, 0, 0, 1), (B + 1, 1, 1, 0), (2 * B + 3, 0, 0, 0), (2 * B + 3, 3, 2, 1), (3 * B + 1, 0, 1, 1)]
    else:
        plan = [(n, pre, shape, (n + pre + shape) % 2) for n in lens for pre in (0, 1, 45) for shape in (0, 1, 2)]
        plan += [(n, 0, shape, (n + shape + 1) % 2) for n in lens for shape in (0, 1, 2)]
    for n, pre, shape, ref in plan:
        cases.append(runs_case(rng.fork("runs%d/%d/%d/%d" % (n, pre, shape, ref)), n, pre, shape, ref))
    # 5c. long strings of a multi-byte character, one of them cut by the chunk border
    if quick:
        plan = [(233, B + 1, 1, 1), (0x4e16, 2 * B + 1, 0, 0)]
    else:
        plan = [(cp, nb, pk, (pk + k) % 2) for cp in (233, 0x4e16, 0x1f600) for k, nb in enumerate((B + 1, 2 * B + 1, 3 * B + 5))
                for pk in (0, 1)]
    for cp, nb, pk, ref in plan:
        cases.append(unicode_case(rng.fork("u%d/%d/%d" % (cp, nb, pk)), cp, nb, pk, ref))
    # 4b. the last free bytes taken one at a time
    for d in ([0, 1, 2] if quick else range(0, 6)):
        for how in ((d % 2,) if quick else (0, 1)):
            cases.append(exact_fill_case(rng.fork("ef%d/%d" % (d, how)), d, how))
    if quick:
        cases.append(string_case(rng.fork("str2b3"), 2 * B + 3, 1, ref=0))
        cases.append(string_case(rng.fork("str2b3r"), 2 * B + 3, 0, ref=1))
    # 6. Vec: the end of the buffer in the middle of a Vec; (thorough) a Vec larger than the buffer
    for j in range(2 if quick else 12):
        cases.append(bigvec_case(rng.fork("bv%d" % j), 0, 80 if quick else 300))
    if not quick:
        cases.append(bigvec_case(rng.fork("bvrep"), 1 + rng.below(2), 0))
    # 7. two writers alive at the same time (each observed once), writers that are moved
    for j in range(40 if quick else 400):
        cases += dual_cases(rng.fork("dual%d" % j), 0)
    for j in range(2 if quick else 24):
        cases += dual_cases(rng.fork("dualb%d" % j), 1 + j % 2)
    # 8. the real make_io! in a child process: stdout lock, drop at the end of the function
    for j in range(16 if quick else 160):
        cases.append(makeio_case(rng.fork("mio%d" % j), j))
    # 8b. make_io! 2..4 times in sequence in ONE child process
    for j in range(24 if quick else 240):
        cases.append(makeio_multi_case(rng.fork("mio2/%d" % j), j))
    cases = [unwinding(rng.fork("uw%d" % j), c, j) for j, c in enumerate(cases)]
    rng.shuffle(cases)   # spread the expensive cases over the batch files
    return cases


def separated(c):
    """a further integer may follow the script's last piece without gluing to a token"""
    if c.get("rt", 0) in (0, 2) or not c["ops"]:
        return True
    last = [o for o in c["ops"] if o[0] not in ("f", "mv", "nw")][-1:]
    return not last or last[0][0] == "ol" or (last[0][0] == "c" and last[0][1] in (32, 10, 9, 13))


def unwinding(rng, c, j):
    """A fraction of every family: the writer's life ends because the CALLER's code panics after the last piece (index
    out of range in an argument of writer.write / a user-defined Writable impl that panics after writing / panic_any),
    the sink being healthy: the script runs in a closure under catch_unwind (via 0), on a worker thread that panics
    (via 1), or as a whole inside a destructor while the thread is already unwinding (via 2); so impl Drop for Writer
    runs with std::thread::panicking() == true.  entry 1: the `w` pieces go through the trait method Writable::write
    directly (what a user-defined impl calls: no flush per write in debug builds either, so bytes are pending in both
    profiles; half of these scripts get a final integer piece).  mid: the same bug once in the middle of the script with
    the writer only borrowed, caught; the writer lives on.  Two-writer cases: both dropped by unwinding.  make_io!
    cases: the function that called make_io! panics at its end (`pn`), on the main or the worker thread, the child's
    main catches it.  The observation has to be the one of the ordinary run: same Coq term."""
    if c.get("query"):
        return c
    if c.get("makeio"):
        if j % 4 == 1 and not any(o[0] == "pn" for o in c["ops"]):
            return dict(c, ops=c["ops"] + [["pn"]])
        return c
    if c.get("dual"):
        return dict(c, dual=dict(c["dual"], uw=1)) if j % 4 == 1 else c
    if not rng.chance(1, 4):
        return c
    via = rng.choice([0, 0, 1, 1, 2])
    entry = 0 if via == 2 else rng.below(2)
    bug = rng.below(3)
    ops = list(c["ops"])
    if entry == 1 and rng.chance(1, 2) and separated(c) and not (ops and ops[-1][0] == "w"):
        ops.append(["w", ["i", "u32", rng.below(100000)]])
    mid = rng.below(len(ops)) if ops and via != 2 and rng.chance(1, 4) else -1
    return dict(c, ops=ops, uw=[via, entry, bug, mid])


# ----------------------------------------------------------------------------- shrinking
def shrink_val(v):
    k = v[0]
    out = []
    if k == "i":
        for w in {0, v[2] // 2 if v[2] >= 0 else -((-v[2]) // 2), int(str(v[2])[:-1] or 0) if abs(v[2]) > 9 else v[2]}:
            lo, hi = lo_hi(v[1])
            if w != v[2] and lo <= w <= hi:
                out.append(["i", v[1], w])
    elif k in ("s", "r"):
        if v[1]:
            out += [[k, v[1][:len(v[1]) // 2]], [k, v[1][1:]]]
    elif k in ("fill", "rfill"):
        for w in {v[2] // 2, v[2] - 1, v[2] - 16}:
            if 0 <= w < v[2]:
                out.append([k, v[1], w])
    elif k in ("runs", "rruns"):
        rs = v[1]
        if len(rs) > 3:
            out += [[k, rs[:len(rs) // 2]], [k, rs[len(rs) // 2:]]]
        for i in range(min(len(rs), 12)):
            out.append([k, rs[:i] + rs[i + 1:]])
            if rs[i][1] > 1:
                out.append([k, rs[:i] + [[rs[i][0], rs[i][1] // 2]] + rs[i + 1:]])
                out.append([k, rs[:i] + [[rs[i][0], rs[i][1] - 1]] + rs[i + 1:]])
        if len(rs) == 1:
            out.append(["rfill" if k == "rruns" else "fill", rs[0][0], rs[0][1]])
    elif k in ("fillu", "rfillu"):
        for w in {v[2] // 2, v[2] - 1}:
            if 0 <= w < v[2]:
                out.append([k, v[1], w, v[3], v[4]])
        if v[4]:
            out.append([k, v[1], v[2], v[3], v[4] - 1])
    elif k == "nvrep":
        for w in {v[3] // 2, v[3] - 1}:
            if 0 <= w < v[3]:
                out.append([k, v[1], v[2], w])
        if v[3] <= 8:
            out.append(["nv", v[1], [v[2]] * v[3]])
    elif k in ("v", "t"):
        for i in range(len(v[1])):
            if k == "v" or len(v[1]) > 2:
                out.append([k, v[1][:i] + v[1][i + 1:]])
            for w in shrink_val(v[1][i])[:2]:
                out.append([k, v[1][:i] + [w] + v[1][i + 1:]])
        if k == "t" or len(v[1]) == 1:
            out.append(v[1][0])
    elif k == "nv":
        if len(v[2]) == 1:
            out.append(["i", v[1], v[2][0]])
        for i in range(len(v[2])):
            out.append(["nv", v[1], v[2][:i] + v[2][i + 1:]])
        if len(v[2]) > 4:
            out.insert(0, ["nv", v[1], v[2][:len(v[2]) // 2]])
            out.insert(1, ["nv", v[1], v[2][len(v[2]) // 2:]])
        for i in range(len(v[2])):
            if v[2][i] != 0:
                out.append(["nv", v[1], v[2][:i] + [v[2][i] // 2 if v[2][i] > 0 else -((-v[2][i]) // 2)] + v[2][i + 1:]])
    return out


def shrink(c):
    out = []
    ops = c["ops"]
    n = len(ops)
    if n > 3:
        out.append(dict(c, ops=ops[:n // 2]))
        out.append(dict(c, ops=ops[n // 2:]))
    for i in range(n):
        out.append(dict(c, ops=ops[:i] + ops[i + 1:]))
    if c["sink"] != [1000000, 0, 0]:
        out.append(dict(c, sink=[1000000, 0, 0]))
    if c.get("uw"):
        via, entry, bug, mid = c["uw"]
        out.insert(0, {k: v for k, v in c.items() if k != "uw"})      # the ordinary end of life
        # an index into the script does not survive the removal of operations
        out = [dict(x, uw=[via, entry, bug, -1]) if x.get("uw") and len(x["ops"]) != n else x for x in out]
        if mid >= 0:
            out.append(dict(c, uw=[via, entry, bug, -1]))
        if via:
            out.append(dict(c, uw=[0, entry, bug, mid]))
        if bug:
            out.append(dict(c, uw=[via, entry, 0, mid]))
        if entry:
            out.append(dict(c, uw=[via, 0, bug, mid]))
    if c.get("dual"):
        d = c["dual"]
        if d.get("uw"):
            out.insert(0, dict(c, dual={k: v for k, v in d.items() if k != "uw"}))
        oth = d["other"]
        if not oth:
            plain = {k: v for k, v in c.items() if k != "dual"}
            out.insert(0, plain)
        if len(oth) > 3:
            out.append(dict(c, dual=dict(d, other=oth[:len(oth) // 2])))
            out.append(dict(c, dual=dict(d, other=oth[len(oth) // 2:])))
        for i in range(len(oth)):
            out.append(dict(c, dual=dict(d, other=oth[:i] + oth[i + 1:])))
        for i, o in enumerate(oth):
            if o[0] == "w":
                for w in shrink_val(o[1])[:3]:
                    out.append(dict(c, dual=dict(d, other=oth[:i] + [["w", w]] + oth[i + 1:])))
    if c.get("makeio"):
        plain = {k: v for k, v in c.items() if k not in ("makeio", "out", "thr0")}
        pops = []
        if ops and ops[-1][0] == "pn":
            out.insert(0, dict(c, ops=ops[:-1]))
            plain["uw"] = [0, 0, 0, -1]
        for o in ops:            # the same script without the child process: one writer after the other over one sink
            if o[0] == "pn":
                continue
            if o[0] == "nx":
                pops.append(["nw"])
                if o[1]:
                    pops.append(["w", ["s", o[1]]])
            elif o[0] == "e":
                pops.append(["w", o[1]])
            else:
                pops.append(o)
        plain["ops"] = pops
        out.insert(0, plain)
        for key in ("out", "thr0"):
            if c.get(key):
                out.append(dict(c, **{key: 0}))
        for i, o in enumerate(ops):
            if o[0] == "nx" and (o[1] or o[2]):
                out.append(dict(c, ops=ops[:i] + [["nx", "", 0]] + ops[i + 1:]))
            elif o[0] == "e":
                out.append(dict(c, ops=ops[:i] + [["w", o[1]]] + ops[i + 1:]))
                for w in shrink_val(o[1])[:2]:
                    if w[0] == "i" or w[1]:      # read::<String>() needs a token
                        out.append(dict(c, ops=ops[:i] + [["e", w]] + ops[i + 1:]))
    if c.get("rt", 0):
        out.append(dict(c, rt=0))
    for i, o in enumerate(ops):
        if o[0] == "w":
            for w in shrink_val(o[1]):
                out.append(dict(c, ops=ops[:i] + [["w", w]] + ops[i + 1:]))
        elif o[0] in ("o", "ol"):
            for j in range(len(o[1])):
                if len(o[1]) > 1 or o[0] == "ol":
                    out.append(dict(c, ops=ops[:i] + [[o[0], o[1][:j] + o[1][j + 1:]]] + ops[i + 1:]))
                for w in shrink_val(o[1][j])[:2]:
                    out.append(dict(c, ops=ops[:i] + [[o[0], o[1][:j] + [w] + o[1][j + 1:]]] + ops[i + 1:]))
            if len(o[1]) == 1:
                out.append(dict(c, ops=ops[:i] + [["w", o[1][0]]] + ops[i + 1:]))
    return out


# ----------------------------------------------------------------------------- implementation-level search
def extra(ctx, known):
    """Consequences of the theorems checked directly on the implementation at a scale Coq does not run:
    every 8/16-bit value and many random wider ones through ONE writer each (the release build crosses the
    64 KiB boundary at arbitrary offsets with irregular data), compared with to_string, read back with Reader;
    the same as ONE Vec / Vec<Vec> / Vec<tuple> of 70 000+ elements; everything also on a buffered build with
    overflow checks (profile relchk), which has to answer every generated case exactly as the release build."""
    thorough = ctx.tier == "thorough"
    lines = []
    for t in ("i8", "u8", "i16", "u16"):
        lines.append("X %s all 1 0 %d %d" % (t, 4096 if t[1] != "8" else 3, 20))
    n = 400000 if thorough else 30000
    sinks = [(1000000, 0), (4099, 30)] + ([(1, 0), (65536, 500)] if thorough else [])
    for t in ("i32", "u32", "i64", "u64", "i128", "u128", "isize", "usize"):
        for k, (mc, intr) in enumerate(sinks):
            lines.append("X %s rand %d %d %d %d" % (t, ctx.seed * 1000 + k, n, mc, intr))
    # the same kind of values as ONE Vec / Vec<Vec> / Vec<tuple> (a rendering of several buffers in one write call,
    # more elements than a u16 counts), read back with read_vec
    nv = 150000 if thorough else 70000
    for k, t in enumerate(TYS if thorough else ("u8", "i16", "u32", "i64", "i128", "usize")):
        mc, intr = sinks[k % len(sinks)]
        lines.append("X %s vec %d %d %d %d" % (t, ctx.seed * 1000 + 77 + k, nv, mc, intr))
    viol, total_vals, total_bytes = [], 0, 0
    import _driver as D
    bins = dict(ctx.bins)
    third = build_checked_release(ctx)
    if third:
        bins["release+overflow-checks"] = third
    for prof, binp in bins.items():
        outs = D.run_impl(binp, lines)
        for l, o in zip(lines, outs):
            tk = o.split()
            if len(tk) >= 2 and tk[0] == "X" and tk[1] == "ok":
                total_vals += int(tk[2])
                total_bytes += int(tk[3])
            else:
                viol.append({"name": "search-%s-%s" % (prof, l.split()[1]),
                             "payload": {"what": "implementation-level search: the bytes delivered for a long stream of "
                                                 "integers differ from the standard renderings, or Reader does not return "
                                                 "the values (replay with the executor line below)",
                                         "profile": prof, "executor_line": l, "executor_answer": o}})
    cov = {"values_written_and_read_back": total_vals, "bytes_delivered": total_bytes,
           "executor_lines": len(lines) * len(bins),
           "note": "not a proof: to_string and Reader used as oracles on the Rust side"}
    # third build flavour: buffered (no flush per write) WITH overflow checks.  Arithmetic on the fill level that
    # wraps harmlessly in the release build and is never reached with a non-empty buffer in the debug build panics
    # here.  Every generated case must be answered exactly as by the release executor (whose answers Coq checked).
    if third:
        cases = generate(D.Rng(ctx.seed).fork(ID), ctx.tier)
        cl = [harness_line(c) for c in cases]
        a, b = D.run_impl(ctx.bins["release"], cl), D.run_impl(third, cl)
        diff = [(c, x, y) for c, x, y in zip(cases, a, b) if x != y]
        cov["checked_release_cases"] = len(cases)
        for c, x, y in diff[:1]:
            viol.append({"name": "release-with-overflow-checks",
                         "payload": {"what": "a buffered build with overflow checks (profile relchk of the executor crate) "
                                             "answers differently from the release build (P = panic)",
                                     "case": c, "executor_line": harness_line(c)[:2000], "release_answer": x[:300],
                                     "checked_release_answer": y[:300], "cases_differing": len(diff)}})
    else:
        cov["checked_release_cases"] = "profile relchk could not be built"
    return {"coverage": {"impl_search": cov}, "violations": viol[:3]}


def build_checked_release(ctx):
    """cargo build --profile relchk of the executor, next to the release binary the driver built"""
    import os
    import _driver as D
    rel = ctx.bins["release"]
    tdir = os.path.dirname(os.path.dirname(rel))
    hdir = D.HARNESS if ctx.repo == "/repo" else os.path.join(ctx.work, "harness")
    env = dict(os.environ, CARGO_NET_OFFLINE="true", CARGO_TARGET_DIR=tdir)
    rc, out = D.run(["cargo", "build", "--offline", "-q", "--profile", "relchk", "--manifest-path",
                     os.path.join(hdir, "crates", CRATE, "Cargo.toml")], cwd=hdir, timeout=3600, env=env)
    binp = os.path.join(tdir, "relchk", CRATE)
    return binp if rc == 0 and os.path.exists(binp) else None


MANIFEST = {
    "text": "Theorems (Coq, no axioms, 13 pinned) about an executable Gallina model of rlib_io::Writer (state = pending "
            "buffer + sink; reserve/flush/write_bytes, string chunking, the backwards digit loop into a BASE_10_LEN "
            "buffer, '-' + unsigned_abs, Vec/tuple separators, out!/outln!, debug flush after every write, drop) "
            "parametric in BUF_SIZE and the build flavour: c09_invariant (after ANY script of well-formed writes, both "
            "flavours, every BUF_SIZE >= 39: sink ++ pending = concatenation of all renderings in call order, |pending| "
            "<= BUF_SIZE, no panic), c09_flush_delivers (after flush and after drop the sink holds exactly that "
            "concatenation; at every explicit flush everything written before had arrived), c09_piece_any_capacity / "
            "c09_string_any_capacity (any capacity >= 1, any fill level: chunking loses nothing), "
            "c09_oversized_piece_panics, c09_render_unsigned / c09_render_signed (every value of every width incl. MIN: "
            "canonical decimal numeral, unsigned_abs exact, the digit loop stays inside the BASE_10_LEN buffer), "
            "c09_base10len (the base_10_len! loop yields the digit count of MAX for all six widths), c09_round_trip (the "
            "text of any integer vector parses back to the values with a reader that accumulates digits as Reader does). "
            "The model is tied to the code on every run: scripted writes through the public API (String and &str of "
            "up to 3*BUF_SIZE+1 bytes with visible structure, pieces fitting the free space exactly, Vecs crossing the "
            "buffer end, moved writers, two interleaved writers, one writer after the other over one sink, writers "
            "dropped by unwinding from a panic of the caller (catch_unwind, worker thread, inside a destructor; public and "
            "trait entry point), the real "
            "make_io! in a child process -- once, and 2..4 times in sequence in one process with print! in between, on "
            "threads, reading stdin, standard output a pipe or a regular file) into sinks that "
            "accept 1..k bytes per call and return Interrupted, on a debug and a release executor (a third, buffered "
            "build with overflow checks must answer identically); Coq checks model = received "
            "bytes and received bytes = independent rendering (Z.to_int) for every case. The second check is also a "
            "theorem: c09_model_check_spec_check (for every case whose reported BUF_SIZE is >= 39 and whose two "
            "executor-side verdicts -- same bytes as to_string, Reader read the integers back -- are positive, "
            "model_check = true implies spec_check = true: bytes, flush points, no panic on a script of the property's "
            "quantifier; nothing assumed about the script), so the model batch carries the specification to the "
            "implementation by proof; c09_model_check_spec_check_any_capacity (same for non-panic observations at any "
            "BUF_SIZE), built on c09_sdec_is_dec (the digit loop's numeral = the standard library's Z.to_int numeral, "
            "every integer) and c09_run_some_delivers (partial correctness at EVERY capacity: if the model does not "
            "panic it delivers exactly the renderings and flush points).",
    "level_note": "Trusted: Coq kernel + vm_compute; executor and case printer; write_all/chunks/unsigned_abs of std as "
                  "oracles with their documented contracts; BUF_SIZE is exercised at the crate's value only; the "
                  "correspondence is sampled.",
    "technique": "Coq proof over Gallina model + vm_compute correspondence batches against the Rust crate (debug and release)",
}
