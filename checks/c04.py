"""C04 — FFT polynomial multiplication (rlib/fft)."""
import concurrent.futures
import hashlib
import math

ID = "C04"
CRATE = "c04"
COQ_DIR = "C04"
COQ_DEPS = []
PROFILES = ["debug", "release"]          # the crate's own dev profile: opt-level 2 with debug assertions and overflow checks on
CORR_IMPORT = "From Coq Require Import Uint63.\nFrom RlibV Require Import C04.Model C04.Corr.\nOpen Scope Z_scope."
AUDIT_IMPORT = ("From Coq Require Import ZArith List.\nImport ListNotations.\n"
                "From RlibV Require Import C04.Model C04.Corr C04.ProofsState C04.AlgRing C04.ProofsTable C04.ProofsLevels C04.Properties.\n")
EXPLAIN = "explain"
AXIOM_ALLOW = []
SHARD = 110
THEOREMS = [
    ("c04_shape",
     "forall (F : Type) (ops : Ops F) (tw : nat -> nat -> F * F) (s : st (F := F)) (a b : list Z), "
     "(a = [] \\/ b = [] -> multiply ops tw s a b = (s, [])) /\\ "
     "(a <> [] -> b <> [] -> length (snd (multiply ops tw s a b)) = (length a + length b - 1)%nat) /\\ "
     "(forall res, snd (multiply_into ops tw s a b res) = zip_acc Z.add res (snd (multiply ops tw s a b)) /\\ "
     "fst (multiply_into ops tw s a b res) = fst (multiply ops tw s a b)) /\\ "
     "(forall v n, exists X, length X = fft_size (length v) n /\\ "
     "snd (fft ops tw s v n) = zip_acc (cadd ops) (repeat (czero ops) (fft_size (length v) n)) X /\\ "
     "forall dest, snd (fft_into ops tw s v n dest) = zip_acc (cadd ops) dest X) /\\ "
     "(forall (v : list (F * F)) k dest, length v = (2 ^ k)%nat -> "
     "snd (fft_inv_into ops tw s v dest) = zip_acc Z.add dest (snd (fft_inv ops tw s v)))"),
    ("c04_history_independent",
     "forall (F : Type) (ops : Ops F) (tw : nat -> nat -> F * F) (s s' : st (F := F)), "
     "reach ops tw s -> reach ops tw s' -> "
     "(forall a b, snd (multiply ops tw s a b) = snd (multiply ops tw s' a b)) /\\ "
     "(forall a b res, snd (multiply_into ops tw s a b res) = snd (multiply_into ops tw s' a b res)) /\\ "
     "(forall v n dest, (n = 0%nat \\/ exists m, n = (2 ^ m)%nat) -> "
     "snd (fft_into ops tw s v n dest) = snd (fft_into ops tw s' v n dest)) /\\ "
     "(forall (v : list (F * F)) m dest, length v = (2 ^ m)%nat -> (length v <= length (R s))%nat -> "
     "(length v <= length (R s'))%nat -> "
     "snd (fft_inv_into ops tw s v dest) = snd (fft_inv_into ops tw s' v dest))"),
    ("c04_reach_closed",
     "forall (F : Type) (ops : Ops F) (tw : nat -> nat -> F * F) (s : st (F := F)), reach ops tw s -> "
     "(forall a b, reach ops tw (fst (multiply ops tw s a b))) /\\ "
     "(forall a b res, reach ops tw (fst (multiply_into ops tw s a b res))) /\\ "
     "(forall v n dest, (n = 0%nat \\/ exists m, n = (2 ^ m)%nat) -> reach ops tw (fst (fft_into ops tw s v n dest))) /\\ "
     "(forall (v : list (F * F)) m dest, length v = (2 ^ m)%nat -> reach ops tw (fst (fft_inv_into ops tw s v dest)))"),
    ("c04_exact_algebra",
     "forall (F : Type) (ops : Ops F) (inr : Z -> Prop) (tw : nat -> nat -> F * F) (Kmax : nat), "
     "Lawful ops inr -> (forall k, (2 <= k <= Kmax)%nat -> table_ok ops tw k) -> "
     "forall s : st (F := F), reach ops tw s -> (length (R s) <= 2 ^ Kmax)%nat -> "
     "(forall m (v : list (F * F)) k, (m <= Kmax)%nat -> length v = (2 ^ m)%nat -> (k < 2 ^ m)%nat -> "
     "nth k (snd (fft_internal ops tw s v false)) (czero ops) = "
     "dft ops (2 ^ m) (root ops tw (Nat.max (Nat.log2 (length (R s))) m) m false) (vec ops v) k /\\ "
     "nth k (snd (fft_internal ops tw s v true)) (czero ops) = "
     "cscale ops (dft ops (2 ^ m) (root ops tw (Nat.max (Nat.log2 (length (R s))) m) m true) (vec ops v) k) "
     "(fdiv ops (fone ops) (of_Z ops (Z.of_nat (2 ^ m))))) /\\ "
     "(forall (s' : st (F := F)) m (v : list (F * F)), reach ops tw s' -> (length (R s') <= 2 ^ Kmax)%nat -> (m <= Kmax)%nat -> "
     "length v = (2 ^ m)%nat -> snd (fft_internal ops tw s' (snd (fft_internal ops tw s v false)) true) = v) /\\ "
     "(forall a b, a <> [] -> b <> [] -> (next_pow2 2 (length a + length b - 1) <= 2 ^ Kmax)%nat -> "
     "(forall l, (l < length a + length b - 1)%nat -> inr (conv_coef a b l)) -> "
     "snd (multiply ops tw s a b) = conv a b) /\\ "
     "(forall a b j res, a <> [] -> b <> [] -> (S j <= Kmax)%nat -> (length a + length b - 1 <= 2 ^ S j)%nat -> "
     "(forall l, (l < length a + length b - 1)%nat -> inr (conv_coef a b l)) -> inr 0%Z -> "
     "snd (inv_prod_into ops tw s a b (2 ^ S j) res) = "
     "zip_acc Z.add res (conv a b ++ repeat 0%Z (2 ^ S j - (length a + length b - 1))))"),
]
RULE = ("histories of 1-7 calls on FFT<f64> objects: multiply / multiply_into (non-zero destinations, shorter and longer "
        "than the product) / fft / fft_into / fft+product+fft_inv_into, length pairs from {0,1,2,3,4,5,7,8,9,15,16,17,31,32,33,40} "
        "(all pairs with small coefficients, sampled pairs with coefficients of magnitude sqrt(1e12/max(len)) and mixed signs), "
        "reuse histories on one object (grow, shrink, grow; fft then multiply; explicit update_n) against a fresh object; "
        "non-trivial = some product with both lengths >= 2 and at least one negative coefficient")
TRUSTED = ["executor harness/crates/c04 (drives rlib_fft::FFT, prints integer outputs in decimal, floats and the hook's twiddle table as bit patterns)",
           "checks/c04.py (case generator, Coq term printer, envelope search driver)",
           "Coq primitive floats under vm_compute = IEEE-754 binary64 (only in the executed correspondence cases; no theorem mentions them)",
           "libm sin/cos are not modelled: the model is fed the implementation's own twiddle table through the oracle"]
ASSUMPTIONS = ["usize/i64 arithmetic modelled without overflow (sizes <= 2^22, |coefficients of the product| < 2^63)",
               "the floating-point rounding-error bound inside the envelope (c04_rounding_partial) is NOT proved; it is "
               "examined by search only (extra: implementation against exact i128 schoolbook convolution)"]

LENS = [0, 1, 2, 3, 4, 5, 7, 8, 9, 15, 16, 17, 31, 32, 33, 40]


# ----------------------------------------------------------------------------- cases
def zlit(x):
    """Z literal; large magnitudes through primitive 63-bit integers (see Corr.v zp/zn/zh)"""
    if 0 <= x < 10000:
        return "%d" % x
    if -10000 < x < 0:
        return "(%d)" % x
    if x < 0:
        return "(zn %d)" % -x if -x < (1 << 63) else "(%d)" % x
    if x >= 1 << 64:
        return "%d" % x
    if x >= 1 << 63:
        return "(zh %d)" % (x - (1 << 63))
    return "(zp %d)" % x


def zl(v):
    return "[" + ";".join(zlit(x) for x in v) + "]"


def zpl(v):
    return "[" + ";".join("(%s,%s)" % (zlit(v[i]), zlit(v[i + 1])) for i in range(0, len(v), 2)) + "]"


def tok_list(v):
    return [str(len(v))] + [str(x) for x in v]


def harness_line(c):
    t = ["H"]
    for o in c["ops"]:
        k = o[0]
        if k == "F":
            t += ["F"]
        elif k == "D":
            t += ["D"]
        elif k == "U":
            t += ["U", str(o[1])]
        elif k == "M":
            t += ["M"] + tok_list(o[1]) + tok_list(o[2])
        elif k == "MI":
            t += ["MI"] + tok_list(o[1]) + tok_list(o[2]) + tok_list(o[3])
        elif k == "T":
            t += ["T"] + tok_list(o[1]) + [str(o[2])]
        elif k == "TI":
            t += ["TI"] + tok_list(o[1]) + [str(o[2]), str(len(o[3]) // 2)] + [str(x) for x in o[3]]
        elif k == "V":
            t += ["V"] + tok_list(o[1]) + tok_list(o[2]) + [str(o[3])] + tok_list(o[4])
        else:
            raise ValueError(k)
    return " ".join(t)


def fields(obs):
    return [f.strip() for f in obs.split("|")]


def coq_term(c, obs, profile):
    if obs == "P":
        return "(mkcase [] [OPanic])"
    fs = fields(obs)
    table = [int(x) for x in fs[-1].split()[1:]]
    ops = []
    for o, f in zip(c["ops"], fs[:-1]):
        k = o[0]
        if f == "P":
            ops.append("OPanic")
            continue
        plain = []
        if k == "TI":
            f, f2 = f.split(";")
            plain = [int(x) for x in f2.split()]
        r = [int(x) for x in f.split()] if f != "-" else []
        if k in ("F", "D"):            # FFT::new() and FFT::default(): the same fresh object in the model
            ops.append("OFresh")
        elif k == "U":
            ops.append("(OUpd %d)" % o[1])
        elif k == "M":
            ops.append("(OMul %s %s %s)" % (zl(o[1]), zl(o[2]), zl(r)))
        elif k == "MI":
            ops.append("(OMulInto %s %s %s %s)" % (zl(o[1]), zl(o[2]), zl(o[3]), zl(r)))
        elif k == "T":
            ops.append("(OFft %s %d %s)" % (zl(o[1]), o[2], zpl(r)))
        elif k == "TI":
            ops.append("(OFftInto %s %d %s %s %s)" % (zl(o[1]), o[2], zpl(o[3]), zpl(r), zpl(plain)))
        elif k == "V":
            ops.append("(OInv %s %s %d %s %s)" % (zl(o[1]), zl(o[2]), o[3], zl(o[4]), zl(r)))
    return "(mkcase %s [%s])" % (zpl(table), ";".join(ops))


def products(c):
    for o in c["ops"]:
        if o[0] in ("M", "MI", "V"):
            yield o[1], o[2]


def nontrivial(c, obs):
    return any(len(a) >= 2 and len(b) >= 2 and (min(a) < 0 or min(b) < 0) for a, b in products(c))


def classify(c, obs):
    ks = {o[0] for o in c["ops"]}
    kind = "inv" if "V" in ks else ("into" if ks & {"MI", "TI"} else ("fft" if "T" in ks else "mul"))
    size = max([len(a) + len(b) for a, b in products(c)] + [0])
    cls = "n<=8" if size <= 9 else ("n<=32" if size <= 33 else "n<=128")
    return "%s/%s%s%s" % (kind, cls, "/reuse" if len(list(products(c))) > 1 else "",
                          "/panic" if "P" in fields(obs)[:-1] or obs == "P" else "")


def in_known_class(a, b):
    if not a or not b:
        return False
    mx = max(max(abs(x) for x in a), max(abs(x) for x in b))
    return mx * mx * min(len(a), len(b)) <= 10 ** 12 < mx * mx * max(len(a), len(b))


def known_finding(c, obs, profile):
    # a wrong product is the known finding only if the history contains a product in the listed class and none outside it
    # that could be blamed instead: conservative reading = every product of the history lies in the class
    ps = list(products(c))
    if ps and all(in_known_class(a, b) for a, b in ps):
        return "unequal-lengths"
    return None


def bound_for(la, lb):
    m = max(la, lb, 1)
    return min(2 ** 31 - 1, math.isqrt(10 ** 12 // m))


def vec(rng, n, style, mx):
    if style == "small":
        return [rng.range(-3, 3) for _ in range(n)]
    if style == "mid":
        return [rng.range(-1000, 1000) for _ in range(n)]
    if style == "maxpos":
        return [mx] * n
    if style == "maxalt":
        return [mx if i % 2 == 0 else -mx for i in range(n)]
    if style == "maxrnd":
        return [mx if rng.chance(1, 2) else -mx for _ in range(n)]
    if style == "maxneg":
        return [-mx] * n
    return [rng.range(-mx, mx) for _ in range(n)]          # "wide"


STYLES = ["small", "mid", "maxpos", "maxalt", "maxrnd", "maxneg", "wide"]


def pow2_ge(k, start=1):
    n = start
    while n < k:
        n *= 2
    return n


def mk_prod(rng, la, lb, style=None):
    style = style or rng.choice(STYLES)
    mx = bound_for(la, lb)
    sa = style
    sb = style if rng.chance(2, 3) else rng.choice(STYLES)
    return vec(rng, la, sa, mx), vec(rng, lb, sb, mx)


def dest(rng, n):
    return [rng.range(-10 ** 6, 10 ** 6) if rng.chance(3, 4) else 0 for _ in range(n)]


def mk_op(rng, la, lb, kind=None):
    a, b = mk_prod(rng, la, lb)
    kind = kind or rng.choice(["M", "M", "MI", "V", "T", "TI"])
    tot = la + lb - 1
    if kind == "M" or ((la == 0 or lb == 0) and kind == "V"):
        return ["M", a, b]
    if kind == "MI":
        ln = rng.choice([max(tot, 0), max(tot, 0), max(tot - 1, 0), tot + 2, 1, 0])
        return ["MI", a, b, dest(rng, ln)]
    if kind == "V":
        n = pow2_ge(tot)
        if rng.chance(1, 4):
            n *= 2
        ln = rng.choice([n, n, tot, n + 1, max(tot - 1, 0)])
        return ["V", a, b, n, dest(rng, ln) if rng.chance(1, 2) else [0] * ln]
    if kind == "T":
        n = rng.choice([0, pow2_ge(la), 2 * pow2_ge(la)])
        return ["T", a, n]
    n = rng.choice([0, pow2_ge(la), 2 * pow2_ge(la)])
    nn = pow2_ge(la) if n == 0 else n
    ln = rng.choice([nn, nn, nn + 1, max(nn - 1, 0)])
    return ["TI", a, n, [rng.range(-5, 5) for _ in range(2 * ln)]]


def generate(rng, tier):
    cases = []
    # (1) every length pair on a fresh object, small coefficients; (2) the same pair with boundary coefficients on a
    # reused object that has already grown beyond the size needed (stride indexing), then on a fresh one
    for la in LENS:
        for lb in LENS:
            if la > 17 and lb > 17 and tier == "quick" and (la, lb) not in ((32, 32), (33, 32), (40, 40), (31, 33)):
                continue
            a, b = mk_prod(rng, la, lb, "small")
            a2, b2 = mk_prod(rng, la, lb, rng.choice(STYLES[2:]))
            big = rng.choice([16, 32, 64])
            cases.append({"ops": [["M", a, b], ["U", big], ["M", a2, b2], ["M", a, b], ["F"], ["M", a2, b2]]})
    # (3) random histories: grow, shrink, grow; fft then multiply; *_into on non-zero destinations
    n_hist = 120 if tier == "quick" else 1500
    for _ in range(n_hist):
        ops = []
        cap = rng.choice([9, 17, 33, 40])
        for _ in range(rng.range(2, 7)):
            if rng.chance(1, 8):
                ops.append(["F"])
                continue
            if rng.chance(1, 10):
                ops.append(["U", rng.choice([1, 2, 4, 8, 16, 32, 64, 128])])
                continue
            la = rng.choice([l for l in LENS if l <= cap])
            lb = rng.choice([l for l in LENS if l <= cap])
            ops.append(mk_op(rng, la, lb))
        cases.append({"ops": ops})
    # (3b) objects obtained through Default instead of new(): the very first calls on them are the smallest products
    # and transforms (whatever table size the constructor leaves behind must be enough for them)
    small = [(1, 1), (1, 2), (2, 1), (2, 2), (1, 3), (3, 1), (2, 3), (4, 4), (5, 3)]
    for la, lb in small:
        for kind in ("M", "MI", "V"):
            op = mk_op(rng, la, lb, kind)
            cases.append({"ops": [["D"], op, ["D"], mk_op(rng, lb, la, "M"), op]})
    for _ in range(30 if tier == "quick" else 300):
        ops = [["D"]]
        for _ in range(rng.range(1, 4)):
            if rng.chance(1, 5):
                ops.append(["D"])
                continue
            ops.append(mk_op(rng, rng.choice(LENS[:8]), rng.choice(LENS[:8])))
        cases.append({"ops": ops})
    # (4) the documented pattern of clause (iv) after the object was used for something larger / smaller
    for _ in range(40 if tier == "quick" else 400):
        la, lb = rng.choice(LENS[1:12]), rng.choice(LENS[1:12])
        pre = mk_op(rng, rng.choice(LENS[1:]), rng.choice(LENS[1:]), "M")
        v = mk_op(rng, la, lb, "V")
        m = ["M", v[1], v[2]]
        cases.append({"ops": [pre, v, m, ["F"], v, m]})
    return cases


def shrink(c):
    out = []
    ops = c["ops"]
    for i in range(len(ops)):
        out.append({"ops": ops[:i] + ops[i + 1:]})
    for i, o in enumerate(ops):
        if o[0] not in ("M", "MI", "V", "T", "TI"):
            continue
        for pos in (1, 2):
            if o[0] in ("T", "TI") and pos == 2:
                continue
            v = o[pos]
            cands = []
            if len(v) > 1:
                cands += [v[:-1], v[1:], v[:len(v) // 2]]
            if any(abs(x) > 1 for x in v):
                cands += [[int(x / 2) for x in v], [max(-1, min(1, x)) for x in v]]
            if any(x < 0 for x in v):
                cands.append([abs(x) for x in v])
            for w in cands:
                if o[0] == "V" and len(w) + len(o[3 - pos]) - 1 > o[3]:
                    continue
                if o[0] in ("T", "TI") and o[2] != 0 and len(w) > o[2]:
                    continue
                n = list(o)
                n[pos] = w
                out.append({"ops": ops[:i] + [n] + ops[i + 1:]})
        if o[0] == "MI" and any(o[3]):
            n = list(o)
            n[3] = [0] * len(o[3])
            out.append({"ops": ops[:i] + [n] + ops[i + 1:]})
        if o[0] == "V" and any(o[4]):
            n = list(o)
            n[4] = [0] * len(o[4])
            out.append({"ops": ops[:i] + [n] + ops[i + 1:]})
    return out


# ----------------------------------------------------------------------------- envelope search (implementation only)
def env_configs(tier):
    kmax = 14 if tier == "quick" else 20
    samples = 300
    cfgs = []
    seed = 1
    for k in range(0, kmax + 1):
        base = 1 << k
        for L in sorted({base, base - 1, base + 1}):
            if L < 1 or L > (1 << kmax) + 1:
                continue
            partners = sorted({L, max(1, L - 1), max(1, L // 2), max(1, L // 2 + 1), max(1, (3 * L) // 4)})
            for other in partners:
                mx = min(10 ** 6, math.isqrt(10 ** 12 // L))      # symmetric envelope: max^2 * max(len) <= 1e12
                for pat in range(5):
                    for (la, lb) in {(L, other), (other, L)}:
                        seed += 1
                        cfgs.append(("f64", la, lb, mx, pat, seed, samples, 0))
                        if k >= 10 and la == L and other in (L, max(1, L // 2)):
                            # the other route of the property: fft, fft, pointwise product, fft_inv
                            seed += 1
                            cfgs.append(("f64", la, lb, mx, pat, seed, samples, 1))
    # f32: proportional bound max^2 * max(len) <= 1e3
    for L in sorted({1, 2, 3, 4, 5, 7, 8, 9, 15, 16, 17, 31, 32, 33, 63, 64, 65, 100, 127, 128, 129, 250, 255, 256, 257,
                     500, 511, 512, 513, 1000}):
        mx = math.isqrt(1000 // L)
        if mx < 1:
            continue
        for other in sorted({L, max(1, L // 2), max(1, L - 1)}):
            for pat in range(5):
                seed += 1
                cfgs.append(("f32", L, other, mx, pat, seed, samples, 0))
    return cfgs


KNOWN_PROBE = ("f64", 3, 262144, 577350, 0, 1, 200, 0)


def run_lines(binp, lines):
    import subprocess
    p = subprocess.run([binp], input="".join(l + "\n" for l in lines), stdout=subprocess.PIPE, stderr=subprocess.PIPE,
                       text=True, timeout=3600)
    outs = [l for l in p.stdout.split("\n") if l]
    if p.returncode != 0 or len(outs) != len(lines):
        raise RuntimeError("executor failed in envelope mode: rc=%d %s" % (p.returncode, p.stderr[-500:]))
    return outs


def extra(ctx, known):
    binp = ctx.bins["debug"]
    cfgs = env_configs(ctx.tier)
    lines = ["E %s %d %d %d %d %d %d %d" % c for c in cfgs]
    workers = 8
    chunks = [list(range(i, len(lines), workers)) for i in range(workers)]
    results = [None] * len(lines)
    violations, known_keys = [], []
    try:
        with concurrent.futures.ThreadPoolExecutor(workers) as ex:
            for idxs, outs in zip(chunks, ex.map(lambda ix: run_lines(binp, [lines[i] for i in ix]), chunks)):
                for i, o in zip(idxs, outs):
                    results[i] = o
        kp = run_lines(binp, ["E %s %d %d %d %d %d %d %d" % KNOWN_PROBE])[0]
    except RuntimeError as e:
        return {"coverage": {"envelope_search": "executor failed"},
                "violations": [{"name": "envelope-executor", "kind": "broken-correspondence", "nofail": True,
                                "payload": {"what": "the executor crashed in envelope mode", "log": str(e)}}]}
    checked = wrong_cfg = coeffs = 0
    for c, o in zip(cfgs, results):
        t = o.split()
        checked += 1
        if t[0] == "P":
            w, n, err, first = 1, 0, -1, -1
        else:
            w, n, err, first = int(t[1]), int(t[2]), int(t[3]), int(t[4])
        coeffs += n
        if w:
            wrong_cfg += 1
            ty, la, lb, mx, pat, seed, smp, route = c
            inside = mx * mx * max(la, lb) <= (10 ** 12 if ty == "f64" else 10 ** 3)
            if len(violations) < 3:
                violations.append({
                    "name": "envelope-%s" % hashlib.sha256(repr(c).encode()).hexdigest()[:10], "nofail": False,
                    "payload": {"what": "FFT::<%s>: %s returned a wrong coefficient inside the symmetric precision envelope "
                                        "max^2*max(len) <= %s (exact i128 schoolbook reference)" % (
                                            ty, "fft + pointwise product + fft_inv" if route else "multiply", "1e12" if ty == "f64" else "1e3"),
                                "float": ty, "len_a": la, "len_b": lb, "max_abs": mx,
                                "pattern": ["all +max", "a alternating sign, b all +max", "both alternating sign",
                                            "random signs, |coef| = max", "uniform in [-max, max]"][pat],
                                "generator_seed": seed, "wrong_of_sampled": "%d/%d" % (w, n), "max_abs_error": err,
                                "first_wrong_index": first, "inside_symmetric_envelope": inside,
                                "reproduce": "echo 'E %s %d %d %d %d %d %d %d' | harness/target/debug/c04" % c}})
    kt = kp.split()
    kwrong = int(kt[1]) if kt[0] == "E" else 0
    if kwrong > 0:
        known_keys.append("unequal-lengths")
    cov = {"envelope_search": {"configurations": checked, "sampled_coefficients": coeffs, "configurations_with_wrong_coefficient": wrong_cfg,
                               "f64_bound": "max^2*max(len) <= 1e12, lengths up to 2^%d (+1)" % (14 if ctx.tier == "quick" else 20),
                               "f32_bound": "max^2*max(len) <= 1e3, lengths up to 1000",
                               "known_finding_probe": {"len_a": 3, "len_b": 262144, "max_abs": 577350,
                                                       "wrong_of_sampled": "%s/%s" % (kt[1], kt[2]) if kt[0] == "E" else "panic"}}}
    return {"coverage": cov, "violations": violations, "known": known_keys}


MANIFEST = {
    "text": "Coq theorems (no axioms) about an executable Gallina model of rlib_fft::FFT (update_n, fft_internal, fft/fft_into, "
            "fft_inv/fft_inv_into, multiply/multiply_into), polymorphic in the scalar operations and in the twiddle oracle: "
            "c04_shape (empty operand => empty product, length |a|+|b|-1, multiply_into / fft_into / fft_inv_into ADD to the destination "
            "exactly what multiply / fft / fft_inv return) and c04_history_independent + c04_reach_closed (for ANY scalar type and oracle, "
            "hence for binary64 bit for bit: any two reachable object states give the same product and the same transform; fft_inv_into "
            "needs both objects at least as large as its input because it reads max_n without growing the object) hold for the float "
            "instance itself; c04_exact_algebra (over a commutative scalar ring with 2 invertible, exact division by 2^k and a table with "
            "w[0]=1, w[a]w[b]=w[(a+b) mod N], w[N/2]=-1, w[N/4]=i, conj w[a]=w[N-a]: fft_internal computes the DFT, inverse after "
            "forward is the identity, multiply = integer convolution, fft+pointwise product+fft_inv_into = convolution); the hypotheses "
            "are inhabited by an executable instance over Z/998244353 with circle-group twiddles (Examples.v, executed against the direct "
            "convolution). On every run the binary64 instance (Coq primitive floats, fed the implementation's own twiddle table through the "
            "verif hook) is compared with the Rust crate bit for bit on fft outputs and exactly on all integer outputs over call histories "
            "(reuse after growth, *_into on non-zero destinations, lengths around powers of two, boundary coefficients of both signs), and "
            "the integer outputs are compared in Coq with a direct integer convolution. c04_rounding_partial: the floating-point "
            "rounding-error bound inside the envelope is NOT proved; it is examined by search only (implementation against an exact i128 "
            "schoolbook convolution at the boundary max^2*max(len) <= 1e12, f32: <= 1e3). Known finding unequal-lengths: the literal "
            "envelope max^2*min(len) <= 1e12 is violated for very unequal lengths; re-confirmed on every run.",
    "level_note": "proof, partial: shape, history independence (bit-exact, all instances) and algebraic exactness are proved for the "
                  "model; the rounding envelope is search only. Trusted: Coq kernel + vm_compute (primitive floats only in executed "
                  "cases, never in a theorem); the Rust executor and the Python case printer; libm sin/cos enter through the "
                  "implementation's own table; the correspondence model = code is sampled.",
    "technique": "Coq proof over polymorphic Gallina model (3 instances) + vm_compute bit-exact correspondence batches + "
                 "implementation-level envelope search",
}
