"""C04 — FFT polynomial multiplication (rlib/fft)."""
import concurrent.futures
import hashlib
import math

ID = "C04"
CRATE = "c04"
COQ_DIR = "C04"
COQ_DEPS = []
PROFILES = ["debug", "release"]          # the crate's own dev profile: opt-level 2 with debug assertions and overflow checks on
CORR_IMPORT = "From Coq Require Import Uint63.\nFrom RlibV Require Import C04.Model C04.Corr.\nOpen Scope Z_scope."
AUDIT_IMPORT = ("From Coq Require Import ZArith List.\nImport ListNotations.\n"
                "From RlibV Require Import C04.Model C04.Corr C04.ProofsState C04.AlgRing C04.ProofsTable C04.ProofsLevels C04.Properties.\n")
EXPLAIN = "explain"
AXIOM_ALLOW = []
SHARD = 110
THEOREMS = [
    ("c04_shape",
     "forall (F : Type) (ops : Ops F) (tw : nat -> nat -> F * F) (s : st (F := F)) (a b : list Z), "
     "(a = [] \\/ b = [] -> multiply ops tw s a b = (s, [])) /\\ "
     "(a <> [] -> b <> [] -> length (snd (multiply ops tw s a b)) = (length a + length b - 1)%nat) /\\ "
     "(forall res, snd (multiply_into ops tw s a b res) = zip_acc Z.add res (snd (multiply ops tw s a b)) /\\ "
     "fst (multiply_into ops tw s a b res) = fst (multiply ops tw s a b)) /\\ "
     "(forall v n, exists X, length X = fft_size (length v) n /\\ "
     "snd (fft ops tw s v n) = zip_acc (cadd ops) (repeat (czero ops) (fft_size (length v) n)) X /\\ "
     "forall dest, snd (fft_into ops tw s v n dest) = zip_acc (cadd ops) dest X) /\\ "
     "(forall (v : list (F * F)) k dest, length v = (2 ^ k)%nat -> "
     "snd (fft_inv_into ops tw s v dest) = zip_acc Z.add dest (snd (fft_inv ops tw s v)))"),
    ("c04_history_independent",
     "forall (F : Type) (ops : Ops F) (tw : nat -> nat -> F * F) (s s' : st (F := F)), "
     "reach ops tw s -> reach ops tw s' -> "
     "(forall a b, snd (multiply ops tw s a b) = snd (multiply ops tw s' a b)) /\\ "
     "(forall a b res, snd (multiply_into ops tw s a b res) = snd (multiply_into ops tw s' a b res)) /\\ "
     "(forall v n dest, (n = 0%nat \\/ exists m, n = (2 ^ m)%nat) -> "
     "snd (fft_into ops tw s v n dest) = snd (fft_into ops tw s' v n dest)) /\\ "
     "(forall (v : list (F * F)) m dest, length v = (2 ^ m)%nat -> "
     "snd (fft_inv_into ops tw s v dest) = snd (fft_inv_into ops tw s' v dest))"),
    ("c04_inv_old_refuted",
     "exists (F : Type) (ops : Ops F) (tw : nat -> nat -> F * F) (s s' : st (F := F)) (v : list (F * F)) (dest : list Z), "
     "reach ops tw s /\\ reach ops tw s' /\\ length v = (2 ^ 3)%nat /\\ "
     "snd (fft_inv_into_old ops tw s v dest) <> snd (fft_inv_into_old ops tw s' v dest)"),
    ("c04_reach_closed",
     "forall (F : Type) (ops : Ops F) (tw : nat -> nat -> F * F) (s : st (F := F)), reach ops tw s -> "
     "(forall a b, reach ops tw (fst (multiply ops tw s a b))) /\\ "
     "(forall a b res, reach ops tw (fst (multiply_into ops tw s a b res))) /\\ "
     "(forall v n dest, (n = 0%nat \\/ exists m, n = (2 ^ m)%nat) -> reach ops tw (fst (fft_into ops tw s v n dest))) /\\ "
     "(forall (v : list (F * F)) m dest, length v = (2 ^ m)%nat -> reach ops tw (fst (fft_inv_into ops tw s v dest)))"),
    ("c04_exact_algebra",
     "forall (F : Type) (ops : Ops F) (inr : Z -> Prop) (tw : nat -> nat -> F * F) (Kmax : nat), "
     "Lawful ops inr -> (forall k, (2 <= k <= Kmax)%nat -> table_ok ops tw k) -> "
     "forall s : st (F := F), reach ops tw s -> (length (R s) <= 2 ^ Kmax)%nat -> "
     "(forall m (v : list (F * F)) k, (m <= Kmax)%nat -> length v = (2 ^ m)%nat -> (k < 2 ^ m)%nat -> "
     "nth k (snd (fft_internal ops tw s v false)) (czero ops) = "
     "dft ops (2 ^ m) (root ops tw (Nat.max (Nat.log2 (length (R s))) m) m false) (vec ops v) k /\\ "
     "nth k (snd (fft_internal ops tw s v true)) (czero ops) = "
     "cscale ops (dft ops (2 ^ m) (root ops tw (Nat.max (Nat.log2 (length (R s))) m) m true) (vec ops v) k) "
     "(fdiv ops (fone ops) (of_Z ops (Z.of_nat (2 ^ m))))) /\\ "
     "(forall (s' : st (F := F)) m (v : list (F * F)), reach ops tw s' -> (length (R s') <= 2 ^ Kmax)%nat -> (m <= Kmax)%nat -> "
     "length v = (2 ^ m)%nat -> snd (fft_internal ops tw s' (snd (fft_internal ops tw s v false)) true) = v) /\\ "
     "(forall a b, a <> [] -> b <> [] -> (next_pow2 2 (length a + length b - 1) <= 2 ^ Kmax)%nat -> "
     "(forall l, (l < length a + length b - 1)%nat -> inr (conv_coef a b l)) -> "
     "snd (multiply ops tw s a b) = conv a b) /\\ "
     "(forall a b j res, a <> [] -> b <> [] -> (S j <= Kmax)%nat -> (length a + length b - 1 <= 2 ^ S j)%nat -> "
     "(forall l, (l < length a + length b - 1)%nat -> inr (conv_coef a b l)) -> inr 0%Z -> "
     "snd (inv_prod_into ops tw s a b (2 ^ S j) res) = "
     "zip_acc Z.add res (conv a b ++ repeat 0%Z (2 ^ S j - (length a + length b - 1)))) /\\ "
     "(forall (s' : st (F := F)) a b j res, reach ops tw s' -> a <> [] -> b <> [] -> (S j <= Kmax)%nat -> "
     "(length a + length b - 1 <= 2 ^ S j)%nat -> "
     "(forall l, (l < length a + length b - 1)%nat -> inr (conv_coef a b l)) -> inr 0%Z -> "
     "snd (inv_prod_x ops tw s s' a b (2 ^ S j) res) = "
     "zip_acc Z.add res (conv a b ++ repeat 0%Z (2 ^ S j - (length a + length b - 1))))"),
]
RULE = ("histories of 1-12 calls on FFT<f64> objects (two live objects: current + second): multiply / multiply_into (non-zero "
        "destinations, shorter and longer than the product) / fft / fft_into / fft+product+fft_inv(_into) with the user's product "
        "written x*y and x*=y, length pairs from {0,1,2,3,4,5,7,8,9,15,16,17,31,32,33,40} "
        "(all pairs with small coefficients, sampled pairs with coefficients of magnitude sqrt(1e12/max(len)) and mixed signs), "
        "reuse histories on one object (grow, shrink, grow; fft then multiply; explicit update_n) against a fresh object; "
        "forward transforms on one object and the inverse transform on ANOTHER one (fresh, Default, smaller than the spectrum, "
        "larger, clone / clone_from taken before and after the forward transforms; fft_inv and fft_inv_into), swap, both "
        "objects used further; aliased operands (both operands sub-slices of one allocation: p*p, p*p[..k] for k in "
        "{0,1,len-1,random}, both orders, windows with a common tail / start; multiply, multiply_into, the fft route); "
        "the write-out of the inverse transform on its own (ops RS / RX: fft(v, n), every entry of the spectrum times 2^-sh, "
        "fft_inv / fft_inv_into on the same or the second object: the nearest integers of v[j] / 2^sh for entries of "
        "either sign with fractions 0, 1/64, 1/8, 15/64, 1/4, 17/64, 3/8, 7/16, 29/64 on either side of the integer, "
        "n in {1 (the special case), 2, 4, 8, 16, 32}, sh in {0, 2, 6, 10}, |v| < 2^31, zero / non-zero / shorter / longer "
        "destinations); non-trivial = some product with both lengths >= 2 and at least one negative coefficient, or a "
        "rounding case with a negative non-integer entry.  extra (implementation "
        "only, both build profiles): symmetric envelope max^2*max(len) <= 1e12 incl. length ratios up to 2^14 (quick) / 2^20, "
        "seven sign patterns (among them every coefficient negative), "
        "multiply_into / second object / reuse / over-grown / cloned objects at large n, every coefficient checked modulo "
        "2^61-1; the write-out probes again for f64 (n up to 4096 / 65536) and f32 (n <= 64); "
        "the crate's PUBLISHED table (rlib_fft::precision, read from the crate) probed at every frontier cell "
        "(quick: L <= 3e5, thorough: up to L = 5e6) with lengths (L,L), (L-1,L), (L,L-1), (L-2,L), (L-1,L-1), (L/2+1,L/2+1), "
        "magnitudes [A-back..=A] x [B-back..=B], back in {0,1000}, SIX SIGN MODES that all gate (non-negative, alternating, "
        "random, all negative, a negated, b negated - the last two make every coefficient negative with the magnitudes "
        "of the table's own claim), multiply / multiply_into / fft route, fresh and used objects; the (cell, sign mode) "
        "combinations that fail on the reviewed tree (the four f64 cells whose transposed cell claims less: 5e4 x 5e3, "
        "1e5 x 1e4, 5e6 x 5e5, 1e7 x 5e6) are statistics with recorded witnesses, reported through known_findings.txt")
TRUSTED = ["executor harness/crates/c04 (drives rlib_fft::FFT, prints integer outputs in decimal, floats and the hook's twiddle table as bit patterns; "
           "in envelope / published-table mode: its i128 schoolbook reference and its evaluation modulo 2^61-1)",
           "checks/c04.py (case generator, Coq term printer, envelope search driver)",
           "Coq primitive floats under vm_compute = IEEE-754 binary64 (only in the executed correspondence cases; no theorem mentions them)",
           "libm sin/cos are not modelled: the model is fed the implementation's own twiddle table through the oracle"]
ASSUMPTIONS = ["usize/i64 arithmetic modelled without overflow (sizes <= 2^24, |coefficients of the product| < 2^63)",
               "the floating-point rounding-error bound inside the envelope (c04_rounding_partial) is NOT proved; it is "
               "examined by search only (extra: implementation against exact i128 schoolbook convolution and a modular "
               "evaluation of all coefficients, in the symmetric envelope and at the frontier of the crate's published table, "
               "for non-negative operands and five sign modes)",
               "rounding cases (RS / RX): the fraction of every entry stays 3/64 away from a tie; exact ties of the inverse "
               "transform are outside the property"]

LENS = [0, 1, 2, 3, 4, 5, 7, 8, 9, 15, 16, 17, 31, 32, 33, 40]


# ----------------------------------------------------------------------------- cases
def zlit(x):
    """Z literal; large magnitudes through primitive 63-bit integers (see Corr.v zp/zn/zh)"""
    if 0 <= x < 10000:
        return "%d" % x
    if -10000 < x < 0:
        return "(%d)" % x
    if x < 0:
        return "(zn %d)" % -x if -x < (1 << 63) else "(%d)" % x
    if x >= 1 << 64:
        return "%d" % x
    if x >= 1 << 63:
        return "(zh %d)" % (x - (1 << 63))
    return "(zp %d)" % x


def zl(v):
    return "[" + ";".join(zlit(x) for x in v) + "]"


def zpl(v):
    return "[" + ";".join("(%s,%s)" % (zlit(v[i]), zlit(v[i + 1])) for i in range(0, len(v), 2)) + "]"


def tok_list(v):
    return [str(len(v))] + [str(x) for x in v]


def harness_line(c):
    t = ["H"]
    for o in c["ops"]:
        k = o[0]
        if k == "F":
            t += ["F"]
        elif k == "D":
            t += ["D"]
        elif k == "U":
            t += ["U", str(o[1])]
        elif k == "M":
            t += ["M"] + tok_list(o[1]) + tok_list(o[2])
        elif k == "MI":
            t += ["MI"] + tok_list(o[1]) + tok_list(o[2]) + tok_list(o[3])
        elif k == "T":
            t += ["T"] + tok_list(o[1]) + [str(o[2])]
        elif k == "TI":
            t += ["TI"] + tok_list(o[1]) + [str(o[2]), str(len(o[3]) // 2)] + [str(x) for x in o[3]]
        elif k in ("V", "V2", "X", "X2"):
            t += [k] + tok_list(o[1]) + tok_list(o[2]) + [str(o[3])] + tok_list(o[4])
        elif k in ("SW", "C", "CF"):
            t += [k]
        elif k in ("RS", "RX"):
            t += [k] + tok_list(o[1]) + [str(o[2]), str(o[3])] + tok_list(o[4])
        elif k == "MA":
            t += ["MA"] + tok_list(o[1]) + [str(x) for x in o[2:6]]
        elif k == "MIA":
            t += ["MIA"] + tok_list(o[1]) + [str(x) for x in o[2:6]] + tok_list(o[6])
        elif k == "VA":
            t += ["VA"] + tok_list(o[1]) + [str(x) for x in o[2:6]] + [str(o[6])] + tok_list(o[7])
        else:
            raise ValueError(k)
    return " ".join(t)


def fields(obs):
    return [f.strip() for f in obs.split("|")]


def coq_term(c, obs, profile):
    if obs == "P":
        return "(mkcase [] [OPanic])"
    fs = fields(obs)
    table = [int(x) for x in fs[-1].split()[1:]]
    ops = []
    for o, f in zip(c["ops"], fs[:-1]):
        k = o[0]
        if f == "P":
            ops.append("OPanic")
            continue
        plain = []
        if k == "TI":
            f, f2 = f.split(";")
            plain = [int(x) for x in f2.split()]
        r = [int(x) for x in f.split()] if f != "-" else []
        if k in ("F", "D"):            # FFT::new() and FFT::default(): the same fresh object in the model
            ops.append("OFresh")
        elif k == "U":
            ops.append("(OUpd %d)" % o[1])
        elif k == "M":
            ops.append("(OMul %s %s %s)" % (zl(o[1]), zl(o[2]), zl(r)))
        elif k == "MI":
            ops.append("(OMulInto %s %s %s %s)" % (zl(o[1]), zl(o[2]), zl(o[3]), zl(r)))
        elif k == "T":
            ops.append("(OFft %s %d %s)" % (zl(o[1]), o[2], zpl(r)))
        elif k == "TI":
            ops.append("(OFftInto %s %d %s %s %s)" % (zl(o[1]), o[2], zpl(o[3]), zpl(r), zpl(plain)))
        elif k in ("V", "V2"):         # V2: the user's pointwise product written with `*=`; the same model
            ops.append("(OInv %s %s %d %s %s)" % (zl(o[1]), zl(o[2]), o[3], zl(o[4]), zl(r)))
        elif k in ("X", "X2"):         # forward transforms on the current object, inverse on the second one
            ops.append("(OInvX %s %s %d %s %s)" % (zl(o[1]), zl(o[2]), o[3], zl(o[4]), zl(r)))
        elif k in ("RS", "RX"):        # fft, spectrum scaled by 2^-sh, inverse transform (RX: on the second object)
            ops.append("(%s %s %d %d %s %s)" % ("OInvS" if k == "RS" else "OInvSX", zl(o[1]), o[2], o[3], zl(o[4]), zl(r)))
        elif k == "SW":
            ops.append("OSwap")
        elif k in ("C", "CF"):         # clone() and clone_from(): the same copy in the model
            ops.append("OClone")
        # aliased operands: both are sub-slices of ONE allocation; the model is told the two slices only
        elif k == "MA":
            a, b = alias_slices(o)
            ops.append("(OMul %s %s %s)" % (zl(a), zl(b), zl(r)))
        elif k == "MIA":
            a, b = alias_slices(o)
            ops.append("(OMulInto %s %s %s %s)" % (zl(a), zl(b), zl(o[6]), zl(r)))
        elif k == "VA":
            a, b = alias_slices(o)
            ops.append("(OInv %s %s %d %s %s)" % (zl(a), zl(b), o[6], zl(o[7]), zl(r)))
    return "(mkcase %s [%s])" % (zpl(table), ";".join(ops))


def alias_slices(o):
    return o[1][o[2]:o[3]], o[1][o[4]:o[5]]


INV_KINDS = ("V", "V2", "X", "X2")
ROUND_KINDS = ("RS", "RX")
ALIAS_KINDS = ("MA", "MIA", "VA")


def products(c):
    for o in c["ops"]:
        if o[0] in ("M", "MI") + INV_KINDS:
            yield o[1], o[2]
        elif o[0] in ALIAS_KINDS:
            yield alias_slices(o)


def nontrivial(c, obs):
    if any(o[0] in ROUND_KINDS and any(x < 0 and x % (1 << o[3]) for x in o[1]) for o in c["ops"]):
        return True
    return any(len(a) >= 2 and len(b) >= 2 and (min(a) < 0 or min(b) < 0) for a, b in products(c))


def classify(c, obs):
    ks = {o[0] for o in c["ops"]}
    kind = ("round" if ks & set(ROUND_KINDS) else "inv2" if ks & {"X", "X2"} else "alias" if ks & set(ALIAS_KINDS) else "inv" if ks & {"V", "V2"}
            else ("into" if ks & {"MI", "TI"} else ("fft" if "T" in ks else "mul")))
    if ks & {"C", "CF", "SW"}:
        kind += "+2obj"
    size = max([len(a) + len(b) for a, b in products(c)] + [0])
    cls = "n<=8" if size <= 9 else ("n<=32" if size <= 33 else "n<=128")
    return "%s/%s%s%s" % (kind, cls, "/reuse" if len(list(products(c))) > 1 else "",
                          "/panic" if "P" in fields(obs)[:-1] or obs == "P" else "")


def in_known_class(a, b):
    if not a or not b:
        return False
    mx = max(max(abs(x) for x in a), max(abs(x) for x in b))
    return mx * mx * min(len(a), len(b)) <= 10 ** 12 < mx * mx * max(len(a), len(b))


def known_finding(c, obs, profile):
    # a wrong product is the known finding only if the history contains a product in the listed class and none outside it
    # that could be blamed instead: conservative reading = every product of the history lies in the class
    ps = list(products(c))
    if ps and all(in_known_class(a, b) for a, b in ps):
        return "unequal-lengths"
    return None


def bound_for(la, lb):
    m = max(la, lb, 1)
    return min(2 ** 31 - 1, math.isqrt(10 ** 12 // m))


def vec(rng, n, style, mx):
    if style == "small":
        return [rng.range(-3, 3) for _ in range(n)]
    if style == "mid":
        return [rng.range(-1000, 1000) for _ in range(n)]
    if style == "maxpos":
        return [mx] * n
    if style == "maxalt":
        return [mx if i % 2 == 0 else -mx for i in range(n)]
    if style == "maxrnd":
        return [mx if rng.chance(1, 2) else -mx for _ in range(n)]
    if style == "maxneg":
        return [-mx] * n
    return [rng.range(-mx, mx) for _ in range(n)]          # "wide"


STYLES = ["small", "mid", "maxpos", "maxalt", "maxrnd", "maxneg", "wide"]


def pow2_ge(k, start=1):
    n = start
    while n < k:
        n *= 2
    return n


def mk_prod(rng, la, lb, style=None):
    style = style or rng.choice(STYLES)
    mx = bound_for(la, lb)
    sa = style
    sb = style if rng.chance(2, 3) else rng.choice(STYLES)
    return vec(rng, la, sa, mx), vec(rng, lb, sb, mx)


def dest(rng, n):
    return [rng.range(-10 ** 6, 10 ** 6) if rng.chance(3, 4) else 0 for _ in range(n)]


def mk_op(rng, la, lb, kind=None):
    a, b = mk_prod(rng, la, lb)
    kind = kind or rng.choice(["M", "M", "MI", "V", "T", "TI"])
    tot = la + lb - 1
    if kind == "M" or ((la == 0 or lb == 0) and kind == "V"):
        return ["M", a, b]
    if kind == "MI":
        ln = rng.choice([max(tot, 0), max(tot, 0), max(tot - 1, 0), tot + 2, 1, 0])
        return ["MI", a, b, dest(rng, ln)]
    if kind == "V":
        n = pow2_ge(tot)
        if rng.chance(1, 4):
            n *= 2
        ln = rng.choice([n, n, tot, n + 1, max(tot - 1, 0)])
        return ["V", a, b, n, dest(rng, ln) if rng.chance(1, 2) else [0] * ln]
    if kind == "T":
        n = rng.choice([0, pow2_ge(la), 2 * pow2_ge(la)])
        return ["T", a, n]
    n = rng.choice([0, pow2_ge(la), 2 * pow2_ge(la)])
    nn = pow2_ge(la) if n == 0 else n
    ln = rng.choice([nn, nn, nn + 1, max(nn - 1, 0)])
    return ["TI", a, n, [rng.range(-5, 5) for _ in range(2 * ln)]]


def generate(rng, tier):
    cases = []
    # (1) every length pair on a fresh object, small coefficients; (2) the same pair with boundary coefficients on a
    # reused object that has already grown beyond the size needed (stride indexing), then on a fresh one
    for la in LENS:
        for lb in LENS:
            if la > 17 and lb > 17 and tier == "quick" and (la, lb) not in ((32, 32), (33, 32), (40, 40), (31, 33)):
                continue
            a, b = mk_prod(rng, la, lb, "small")
            a2, b2 = mk_prod(rng, la, lb, rng.choice(STYLES[2:]))
            big = rng.choice([16, 32, 64])
            cases.append({"ops": [["M", a, b], ["U", big], ["M", a2, b2], ["M", a, b], ["F"], ["M", a2, b2]]})
    # (3) random histories: grow, shrink, grow; fft then multiply; *_into on non-zero destinations
    n_hist = 120 if tier == "quick" else 1500
    for _ in range(n_hist):
        ops = []
        cap = rng.choice([9, 17, 33, 40])
        for _ in range(rng.range(2, 7)):
            if rng.chance(1, 8):
                ops.append(["F"])
                continue
            if rng.chance(1, 10):
                ops.append(["U", rng.choice([1, 2, 4, 8, 16, 32, 64, 128])])
                continue
            la = rng.choice([l for l in LENS if l <= cap])
            lb = rng.choice([l for l in LENS if l <= cap])
            ops.append(mk_op(rng, la, lb))
        cases.append({"ops": ops})
    # (3b) objects obtained through Default instead of new(): the very first calls on them are the smallest products
    # and transforms (whatever table size the constructor leaves behind must be enough for them)
    small = [(1, 1), (1, 2), (2, 1), (2, 2), (1, 3), (3, 1), (2, 3), (4, 4), (5, 3)]
    for la, lb in small:
        for kind in ("M", "MI", "V"):
            op = mk_op(rng, la, lb, kind)
            cases.append({"ops": [["D"], op, ["D"], mk_op(rng, lb, la, "M"), op]})
    for _ in range(30 if tier == "quick" else 300):
        ops = [["D"]]
        for _ in range(rng.range(1, 4)):
            if rng.chance(1, 5):
                ops.append(["D"])
                continue
            ops.append(mk_op(rng, rng.choice(LENS[:8]), rng.choice(LENS[:8])))
        cases.append({"ops": ops})
    # (4) the documented pattern of clause (iv) after the object was used for something larger / smaller
    for _ in range(40 if tier == "quick" else 400):
        la, lb = rng.choice(LENS[1:12]), rng.choice(LENS[1:12])
        pre = mk_op(rng, rng.choice(LENS[1:]), rng.choice(LENS[1:]), "M")
        v = mk_op(rng, la, lb, "V")
        if v[0] == "V" and rng.chance(1, 3):
            v = as_x(v, "V2")          # the pointwise product written with `*=`
        m = ["M", v[1], v[2]]
        cases.append({"ops": [pre, v, m, ["F"], v, m]})
    cases += gen_two_objects(rng, tier)
    cases += gen_aliased(rng, tier)
    cases += gen_rounding(rng, tier)
    return cases


def as_x(v, kind="X"):
    return [kind] + v[1:]


def gen_two_objects(rng, tier):
    """(5) the inverse transform on ANOTHER object than the forward transforms: fresh (size 4), smaller than the
    spectrum, larger, a clone taken before / after the forward transforms; fft_inv (all-zero destination of full
    length) and fft_inv_into (non-zero, shorter, longer); then both objects are used further.  (5b) clone / clone_from /
    swap mixed into ordinary histories; (5c) the user-side product written with `*=`."""
    cases = []
    pairs = [(1, 1), (1, 2), (2, 2), (2, 3), (3, 3), (4, 4), (5, 4), (4, 5), (8, 8), (9, 8), (7, 9), (16, 16), (17, 16),
             (15, 17), (33, 32), (40, 40), (1, 40), (31, 2)]
    if tier == "quick":
        pairs = pairs[:3] + pairs[5:9] + [(17, 16), (33, 32), (1, 40)]
    for la, lb in pairs:
        tot = la + lb - 1
        n = pow2_ge(tot)
        a, b = mk_prod(rng, la, lb)
        zero = [0] * n
        m = ["M", a, b]
        # very first calls of the process: forward on a fresh object, fft_inv on the other fresh object
        cases.append({"ops": [["X", a, b, n, zero], m, ["SW"], m, ["X", a, b, 2 * n, dest(rng, 2 * n)]]})
        # the forward object has grown, the inverting one is fresh / Default / smaller / larger
        pre = mk_op(rng, rng.choice(LENS[8:]), rng.choice(LENS[8:]), "M")
        small = rng.choice([1, 2, 4, max(4, n // 2)])
        cases.append({"ops": [pre, ["X", a, b, n, dest(rng, rng.choice([n, tot, n + 1, max(tot - 1, 0)]))],
                              ["SW"], ["D"], ["U", small], ["SW"], ["X2", a, b, n, zero],
                              ["SW"], ["U", 4 * n], ["SW"], ["X", a, b, n, zero], m]})
        # clone before the forward transforms (second object = copy of a grown / fresh object), clone_from after them
        cases.append({"ops": [["C"], ["X", a, b, n, zero], pre, ["CF"], ["X", b, a, n, dest(rng, n)], ["SW"], m,
                              ["F"], ["C"], ["SW"], ["V", a, b, n, zero]]})
    for _ in range(25 if tier == "quick" else 400):
        ops = []
        for _ in range(rng.range(2, 7)):
            r = rng.below(16)
            if r == 0:
                ops.append([rng.choice(["F", "D"])])
            elif r == 1:
                ops.append(["U", rng.choice([1, 2, 4, 8, 16, 32, 64, 128])])
            elif r in (2, 3):
                ops.append(["SW"])
            elif r == 4:
                ops.append(["C"])
            elif r == 5:
                ops.append(["CF"])
            else:
                la, lb = rng.choice(LENS[:12]), rng.choice(LENS[:12])
                o = mk_op(rng, la, lb, rng.choice(["M", "MI", "V", "V", "V", "T", "TI"]))
                if o[0] == "V":
                    o = as_x(o, rng.choice(["X", "X", "X", "X2", "V2", "V"]))
                ops.append(o)
        cases.append({"ops": ops})
    return cases


def gen_aliased(rng, tier):
    """(6) both operands are sub-slices of ONE allocation: the whole vector twice, a prefix of itself (k = 0, 1,
    len-1, random), both orders, overlapping windows with a common tail / a common start, multiply / multiply_into /
    the fft route."""
    cases = []
    lens = [1, 2, 3, 4, 5, 8, 9, 16, 17, 33] if tier == "quick" else [1, 2, 3, 4, 5, 7, 8, 9, 15, 16, 17, 31, 32, 33, 40]
    reps = 1 if tier == "quick" else 6
    for L in lens:
        for _ in range(reps):
            style = rng.choice(STYLES)
            p = vec(rng, L, style, bound_for(L, L))
            ks = sorted({0, 1, L - 1, rng.below(L + 1)})
            i, j = rng.below(L), rng.below(L)
            wins = [(0, L, 0, L)] + [(0, L, 0, k) for k in ks] + [(0, k, 0, L) for k in ks] + [(i, L, j, L), (0, L - i, 0, L - j),
                                                                                                (i, L, 0, L - j)]
            ops = []
            for w in wins:
                la, lb = w[1] - w[0], w[3] - w[2]
                tot = la + lb - 1
                kind = rng.choice(["MA", "MA", "MIA", "VA"])
                if kind == "MA" or ((la == 0 or lb == 0) and kind == "VA"):
                    ops.append(["MA", p] + list(w))
                elif kind == "MIA":
                    ops.append(["MIA", p] + list(w) + [dest(rng, rng.choice([max(tot, 0), max(tot, 0), tot + 2, max(tot - 1, 0)]))])
                else:
                    n = pow2_ge(tot)
                    ops.append(["VA", p] + list(w) + [n, dest(rng, n) if rng.chance(1, 2) else [0] * n])
            # histories of at most 6 calls: the first window (the square) on a fresh object in every one
            for q in range(0, len(ops), 5):
                cases.append({"ops": [["MA", p, 0, L, 0, L]] + ops[q:q + 5]})
    return cases


# fractions (in 64ths) an entry of a rounding case may have: everything up to 29/64 away from an integer, on both sides,
# with the quarter (16/64: where a rounding trick that keeps one fraction bit goes wrong) bracketed
FRAC64 = [0, 1, 8, 15, 16, 17, 24, 28, 29]


def round_value(rng, sh, style):
    """an i32 x whose quotient x / 2^sh is at most 29/64 away from an integer"""
    q = 1 << sh
    kmax = ((1 << 31) - 1) // q - 1
    mag = rng.choice([3, 300, 10 ** 5, 10 ** 6, kmax]) if style != "small" else 3
    k = rng.range(0, min(mag, kmax))
    if sh >= 6:
        f = rng.choice(FRAC64) * (q // 64)
        if sh > 6 and rng.chance(1, 3):
            f = rng.range(0, 29 * q // 64)
    else:
        f = rng.range(0, 29 * q // 64)
    x = k * q + (f if rng.chance(1, 2) else -f)
    if style == "neg" or (style != "pos" and rng.chance(1, 2)):
        x = -x
    return x


def gen_rounding(rng, tier):
    """(7) the write-out of the inverse transform on its own: fft(v, n), every entry of the spectrum multiplied by 2^-sh
    (exact), fft_inv / fft_inv_into.  The inverse transform is handed the spectrum of v[j] / 2^sh and must ADD the nearest
    integers, for negative and positive entries, whatever the fraction (up to 29/64 on either side), at n = 1 (the
    special case of fft_inv_into), 2, 4, ... 32, on a fresh / grown / second object."""
    cases = []
    ns = [1, 2, 4, 8, 16, 32]
    reps = 2 if tier == "quick" else 12
    for n in ns:
        for sh in (2, 6, 10, 0):
            for style in ("neg", "pos", "mixed", "small"):
                for _ in range(reps if sh else 1):
                    ln = rng.choice([n, n, max(1, n - 1), max(1, n // 2 + 1)])
                    v = [round_value(rng, sh, style) for _ in range(ln)]
                    res = rng.choice([[0] * n, [0] * n, dest(rng, n), dest(rng, n + 2), dest(rng, max(n - 1, 0))])
                    kind = "RX" if rng.chance(1, 4) else "RS"
                    pre = []
                    if rng.chance(1, 2):
                        pre = [mk_op(rng, rng.choice(LENS[1:12]), rng.choice(LENS[1:12]), "M")]
                        if rng.chance(1, 3):
                            pre.append(["SW"])
                    v2 = [round_value(rng, sh, style) for _ in range(ln)]
                    cases.append({"ops": pre + [[kind, v, n, sh, res], ["RS", v2, n, sh, [0] * n], mk_op(rng, 3, 2, "M")]})
    return cases


def shrink(c):
    out = []
    ops = c["ops"]
    for i in range(len(ops)):
        out.append({"ops": ops[:i] + ops[i + 1:]})
    for i, o in enumerate(ops):
        if o[0] in ALIAS_KINDS:
            # is the aliasing needed at all?  the same call with two separate vectors
            a, b = alias_slices(o)
            plain = {"MA": ["M", a, b], "MIA": ["MI", a, b] + o[6:7], "VA": ["V", a, b] + o[6:8]}[o[0]]
            out.append({"ops": ops[:i] + [plain] + ops[i + 1:]})
            v = o[1]
            for w in ([int(x / 2) for x in v], [max(-1, min(1, x)) for x in v], [abs(x) for x in v]):
                if w != v:
                    n = list(o)
                    n[1] = w
                    out.append({"ops": ops[:i] + [n] + ops[i + 1:]})
            continue
        if o[0] in ROUND_KINDS:
            v, sh = o[1], o[3]
            q = 1 << sh
            cands = []
            if o[0] == "RX":
                cands.append(["RS"] + o[1:])
            if len(v) > 1:
                cands += [[o[0], w] + o[2:] for w in (v[:-1], v[1:], v[:len(v) // 2])]
                for j in range(len(v)):
                    if v[j] % q:
                        w = list(v)
                        w[j] = (v[j] // q) * q          # this entry without its fraction
                        cands.append([o[0], w] + o[2:])
            if any(abs(x) >= 4 * q for x in v):
                # keep every fraction, shrink the integer parts
                def small(x):
                    k = (x + q // 2) // q
                    return max(-3, min(3, k)) * q + (x - k * q)
                cands.append([o[0], [small(x) for x in v]] + o[2:])
            if any(o[4]):
                cands.append(o[:4] + [[0] * len(o[4])])
            for n in cands:
                out.append({"ops": ops[:i] + [n] + ops[i + 1:]})
            continue
        if o[0] in ("X", "X2", "V2"):
            # is the second object / the `*=` needed?  the same call as a plain V
            out.append({"ops": ops[:i] + [["V"] + o[1:]] + ops[i + 1:]})
        if o[0] not in ("M", "MI", "T", "TI") + INV_KINDS:
            continue
        for pos in (1, 2):
            if o[0] in ("T", "TI") and pos == 2:
                continue
            v = o[pos]
            cands = []
            if len(v) > 1:
                cands += [v[:-1], v[1:], v[:len(v) // 2]]
            if any(abs(x) > 1 for x in v):
                cands += [[int(x / 2) for x in v], [max(-1, min(1, x)) for x in v]]
            if any(x < 0 for x in v):
                cands.append([abs(x) for x in v])
            for w in cands:
                if o[0] in INV_KINDS and len(w) + len(o[3 - pos]) - 1 > o[3]:
                    continue
                if o[0] in ("T", "TI") and o[2] != 0 and len(w) > o[2]:
                    continue
                n = list(o)
                n[pos] = w
                out.append({"ops": ops[:i] + [n] + ops[i + 1:]})
        if o[0] == "MI" and any(o[3]):
            n = list(o)
            n[3] = [0] * len(o[3])
            out.append({"ops": ops[:i] + [n] + ops[i + 1:]})
        if o[0] in INV_KINDS and any(o[4]):
            n = list(o)
            n[4] = [0] * len(o[4])
            out.append({"ops": ops[:i] + [n] + ops[i + 1:]})
    return out


# ----------------------------------------------------------------------------- envelope search (implementation only)
PATTERNS = ["all +max", "a alternating sign, b all +max", "both alternating sign", "random signs, |coef| = max",
            "uniform in [-max, max]", "a all -max, b all +max (every coefficient negative)",
            "a uniform in [0, max], b all -max (every coefficient negative)"]
ROUTES = ["multiply", "fft + pointwise product + fft_inv", "multiply_into on a non-zero destination",
          "fft, fft on one object, product (*=), fft_inv_into on a non-zero destination on a FRESH second object",
          "one object: multiply(big), multiply(1/8-length prefixes), multiply(big) again",
          "multiply after update_n(2n) (stride 2)", "multiply on a clone of an object that did a small product"]


def env_configs(tier):
    kmax = 14 if tier == "quick" else 20
    samples = 300
    cfgs = []
    seed = 1
    for k in range(0, kmax + 1):
        base = 1 << k
        for L in sorted({base, base - 1, base + 1}):
            if L < 1 or L > (1 << kmax) + 1:
                continue
            partners = sorted({L, max(1, L - 1), max(1, L // 2), max(1, L // 2 + 1), max(1, (3 * L) // 4)})
            for other in partners:
                mx = min(10 ** 6, math.isqrt(10 ** 12 // L))      # symmetric envelope: max^2 * max(len) <= 1e12
                for pat in range(7):
                    if pat >= 5 and other not in (L, max(1, L // 2)):
                        continue
                    for (la, lb) in sorted({(L, other), (other, L)}):
                        seed += 1
                        cfgs.append(("f64", la, lb, mx, pat, seed, samples, 0))
                        if k >= 10 and la == L and other in (L, max(1, L // 2)):
                            # the other route of the property: fft, fft, pointwise product, fft_inv
                            seed += 1
                            cfgs.append(("f64", la, lb, mx, pat, seed, samples, 1))
    # very unequal lengths INSIDE the symmetric envelope (max^2 * max(len) <= 1e12), both orders: a short vector
    # times a long one (a block-wise repair of the known finding would be executed by exactly these)
    i = 0
    for k in range(10, kmax + 1):
        for lb in ((1 << k) - 1, 1 << k, (1 << k) + 1):
            mx = min(10 ** 6, math.isqrt(10 ** 12 // lb))
            for la in (1, 2, 3, 7, 8, 9, 100):
                for pat in range(5):
                    for (x, y) in ((la, lb), (lb, la)):
                        seed += 1
                        i += 1
                        cfgs.append(("f64", x, y, mx, pat, seed, samples, (0, 0, 2, 1, 0, 3)[i % 6]))
    # accumulate-into variants, a second object, reuse, growth beyond the need, clones - at large n
    for k in range(10, kmax + 1, 1 if tier == "quick" else 2):
        for L in ((1 << k) - 1, 1 << k, (1 << k) + 1):
            mx = min(10 ** 6, math.isqrt(10 ** 12 // L))
            for route in (2, 3, 4, 5, 6):
                for pat in (0, 3, 4, 5, 6):
                    seed += 1
                    other = (L, max(1, L - 1), max(1, L // 2 + 1))[seed % 3]
                    cfgs.append(("f64", L, other, mx, pat, seed, samples, route))
    # f32: proportional bound max^2 * max(len) <= 1e3
    for L in sorted({1, 2, 3, 4, 5, 7, 8, 9, 15, 16, 17, 31, 32, 33, 63, 64, 65, 100, 127, 128, 129, 250, 255, 256, 257,
                     500, 511, 512, 513, 1000}):
        mx = math.isqrt(1000 // L)
        if mx < 1:
            continue
        for other in sorted({L, max(1, L // 2), max(1, L - 1)}):
            for pat in range(7):
                seed += 1
                cfgs.append(("f32", L, other, mx, pat, seed, samples, 0))
                if pat in (0, 3, 5):
                    for route in (1, 2, 3, 4, 6):
                        seed += 1
                        cfgs.append(("f32", L, other, mx, pat, seed, samples, route))
    return cfgs


# max |w[i] - (cos, sin)(2 pi i / n)| on the reviewed tree: 6.9e-16 (f64), 4.1e-7 (f32) (rounding of the argument PI * i / cur)
TW_TOL = {"f64": 2e-15, "f32": 1.5e-6}
KNOWN_PROBE_MAX_ERR = 1000
KNOWN_PROBE = ("f64", 3, 262144, 577350, 0, 1, 200, 0)


def run_lines(binp, lines):
    import subprocess
    p = subprocess.run([binp], input="".join(l + "\n" for l in lines), stdout=subprocess.PIPE, stderr=subprocess.PIPE,
                       text=True, timeout=3600)
    outs = [l for l in p.stdout.split("\n") if l]
    if p.returncode != 0 or len(outs) != len(lines):
        raise RuntimeError("executor failed in envelope mode: rc=%d %s" % (p.returncode, p.stderr[-500:]))
    return outs


def run_parallel(binp, lines, workers, costs=None):
    """one executor process per worker; lines dealt out round robin in order of decreasing cost"""
    order = sorted(range(len(lines)), key=lambda i: -(costs[i] if costs else 0))
    chunks = [order[i::workers] for i in range(workers)]
    chunks = [c for c in chunks if c]
    results = [None] * len(lines)
    with concurrent.futures.ThreadPoolExecutor(workers) as ex:
        for idxs, outs in zip(chunks, ex.map(lambda ix: run_lines(binp, [lines[i] for i in ix]), chunks)):
            for i, o in zip(idxs, outs):
                results[i] = o
    return results


# ----------------------------------------------------------------------------- the PUBLISHED table (rlib_fft::precision)
LMODES = ["(L, L)", "(L-1, L)", "(L, L-1)", "(L-2, L)", "(L-1, L-1)", "(L/2+1, L/2+1)"]
SIGNS = ["non-negative (the table's claim)", "alternating signs", "random signs", "all negative (non-negative product)",
         "a negated, b as in the claim (every coefficient negative)", "a as in the claim, b negated (every coefficient negative)"]
P_ROUTES = ["multiply", "multiply_into on a non-zero destination (length tot or tot+3)", "fft, fft, pointwise product, fft_inv"]
PRES = ["fresh object", "after a small product on the same object", "after update_n(2n)"]
BACKS = [(0, 0), (0, 1000), (1000, 0), (1000, 1000)]
# Cells of the published table that FAIL on the reviewed tree inside their own literal claim (equal lengths L, a in the
# row role, values in [A-back ..= A] x [B-back ..= B], multiply): keyed by (type, A, B).  They are probed on every run and
# reported as statistics; they gate only through known_findings.txt (key "published-cell-<A>-<B>"), never silently.
#   f64 (5e6, 5e5, L = 100): 32 of 1800 random probes wrong (e.g. `P f64 13 11 0 0 0 0 1000 0 2 221075 300`: 2 of 199
#   coefficients off by one); the crate's own test passes only for the values its seed 42 happens to draw.
#   f64 (1e5, 1e4, L = 1e5): 1 of 464 random probes wrong (`P f64 10 8 1 0 0 1000 0 0 0 903461 300`: lengths 99999 x
#   100000, a in [99000 ..= 100000], b = [10000; 100000]: 1 of 199998 coefficients off by one, index 91603).
#   f64 (5e4, 5e3, L = 3e5): 1 of ~300 probes wrong (`P f64 9 7 0 0 0 0 1000 0 0 7326 300`: lengths 300000 x 300000,
#   a = [50000; 300000], b in [4000 ..= 5000]: 2 of 599999 coefficients off by one, first at index 288619).
# All three are cells whose TRANSPOSED cell claims less; the fourth such cell (1e7, 5e6, L = 10) never failed with
# non-negative operands (0 of 432 + the gating probes).
MARGINAL_CELLS = {("f64", 5000000, 500000), ("f64", 100000, 10000), ("f64", 50000, 5000)}
# The property promises the same for negative coefficients, so the sign modes 1-5 GATE on every frontier cell - except
# the (cell, sign mode) combinations that already fail on the reviewed tree.  Measured on /repo 00e0730 (all six sign
# modes, every frontier cell, six length modes, four value windows, three routes; 432-1056 random probes per combination
# up to L = 1e5, 96-672 up to L = 5e5, 16-96 above): every failing combination lies in one of the FOUR cells whose
# transposed cell claims LESS (the claim depends on which operand is packed into the real part), namely
#   f64 (5e6, 5e5, L = 100): alternating 27/432, all negative 7/432, a negated 100/432, b negated 103/432 (non-negative 11/432)
#   f64 (1e5, 1e4, L = 1e5): alternating 2/528, a negated 74/432, b negated 67/432 (non-negative 1/528; all negative is
#                            bit for bit the non-negative computation: -z transforms to -Z and the product is the same)
#   f64 (5e4, 5e3, L = 3e5): alternating 1/336, a negated 13/96, b negated 12/96 (non-negative 0/240 there, 1 wrong among
#                            the thorough tier's own probes; all negative = the non-negative computation)
#   f64 (1e7, 5e6, L = 10):  a negated / b negated 12/432 each, among them the constant vectors themselves
#                            (multiply([-1e7; 10], [5e6; 10]) is off by one at coefficient 10); the other modes 0/432
# and random signs never failed anywhere (0 of 19864).  Every other cell: 0 failures in every mode.  The listed
# combinations are statistics and are reported through known_findings.txt (key "published-cell-<A>-<B>-signs"); a
# mode that was never seen failing on a listed cell still gates there.
SIGN_MARGINAL = {
    ("f64", 5000000, 500000): {1, 3, 4, 5},
    ("f64", 100000, 10000): {1, 3, 4, 5},
    ("f64", 50000, 5000): {1, 3, 4, 5},
    ("f64", 10000000, 5000000): {4, 5},
}
# executor lines that fail on the reviewed tree: run on every run, so that a listed finding is re-confirmed (and
# announced) by every run and not only when one of the run's own probes happens to hit it
WITNESS = {
    "published-cell-5000000-500000": ["P f64 13 11 0 0 0 1000 0 0 0 14836 300"],
    "published-cell-100000-10000": ["P f64 10 8 1 0 0 1000 0 0 0 903461 300"],
    "published-cell-50000-5000": ["P f64 9 7 0 0 0 0 1000 0 0 7326 300"],
    "published-cell-5000000-500000-signs": ["P f64 13 11 0 0 4 0 1000 0 0 912115 300"],
    "published-cell-100000-10000-signs": ["P f64 10 8 0 0 4 0 1000 0 0 5001750 300"],
    "published-cell-50000-5000-signs": ["P f64 9 7 1 0 4 0 0 0 1 6001753 300"],
    "published-cell-10000000-5000000-signs": ["P f64 14 13 0 0 4 0 0 0 0 912961 300"],
}


def parse_table(line):
    parts = [x.split() for x in line.split("|")]
    vals = [int(x) for x in parts[0][1:]]
    rows = [[int(x) for x in r] for r in parts[1:]]
    return vals, rows


def frontier(rows):
    """the cells rlib/fft/tests/precision.rs executes (its 'assume transitivity' rule)"""
    n = len(rows)
    out = []
    for ai in range(n):
        for bi in range(n):
            L = rows[ai][bi]
            if L == 0:
                continue
            if ai + 1 < n and rows[ai + 1][bi] == L:
                continue
            if bi + 1 < n and rows[ai][bi + 1] == L:
                continue
            out.append((ai, bi, L))
    return out


def table_probes(tier, ty, vals, rows):
    """-> list of (gate, cfg).  cfg = (ty, ai, bi, lmode, swap, sign, aback, bback, route, pre, seed, samples).
    gate: the probe lies inside what the table claims, read monotonically in the length and - as the property does -
    for coefficients of either sign: values of magnitude [A-back ..= A] x [B-back ..= B] in one of the six sign modes,
    lengths (L,L), (L-1,L), (L,L-1), (L-2,L), (L-1,L-1), (L/2+1,L/2+1), the operand with bound A first - or the
    operands exchanged when the TRANSPOSED cell claims at least the same length; multiply, multiply_into, the fft route;
    fresh or used object.  Statistics only: exchanged operands of an asymmetric cell, the (cell, sign mode) combinations
    that fail on the reviewed tree (MARGINAL_CELLS, SIGN_MARGINAL), the fft route above L = 3e5."""
    out = []
    seed = 7000
    sseed = 40000
    for (ai, bi, L) in frontier(rows):
        if tier == "quick" and L > 300000:
            continue
        big = L > 10000
        huge = L > 300000
        cellkey = (ty, vals[ai], vals[bi])
        marginal = cellkey in MARGINAL_CELLS
        swaps = [0] + ([1] if rows[bi][ai] >= L else [])
        grid = []
        if not big:
            reps = 1 if tier == "quick" else 3
            for rep in range(reps):
                for lmode in range(6):
                    for bk in BACKS:
                        for route in range(3):
                            grid.append((lmode, bk, route, (lmode + route + rep) % 3))
        else:
            for bk in BACKS if (tier == "thorough" or L <= 100000) else (BACKS[0], BACKS[3]):
                grid.append((0, bk, 0, 0))
            for lmode in range(1, 6):
                grid.append((lmode, BACKS[(lmode + ai) % 4], (0, 1, 0, 2, 0, 0)[lmode], 0))
            grid += [(0, BACKS[3], 1, 0), (0, BACKS[1], 2, 0), (1, BACKS[2], 0, 1)]
            if tier == "thorough" and not huge:
                for lmode in range(6):
                    for bk in BACKS:
                        for route in range(3):
                            grid.append((lmode, bk, route, (lmode + route) % 3))
        for swap in swaps:
            for (lmode, bk, route, pre) in (grid if swap == 0 or not big else grid[:6]):
                seed += 1
                # the fft route is not what the table was measured with: it gates up to L = 3e5 (never wrong on the reviewed
                # tree in 2e4 probes); above that it is statistics (reviewed tree: cell 5e3 x 5e3, L = 5e6, all coefficients
                # = 5000: 360 of 9999999 coefficients off by one through fft/fft/product/fft_inv, multiply exact)
                gate = not marginal and not (huge and route == 2)
                out.append((gate, (ty, ai, bi, lmode, swap, 0, bk[0], bk[1], route, pre, seed, 300)))
        # the sign modes: negative coefficients are inside the property ("for positive and negative coefficients alike")
        sgrid = []
        if not big:
            for rep in range(1 if tier == "quick" else 3):
                sgrid += [(lmode, sign, bk, route, (lmode + route + sign + rep) % 3) for sign in (1, 2, 3, 4, 5) for lmode in (0, 1, 2)
                          for route in (0, 1, 2) for bk in BACKS]
                sgrid += [(lmode, sign, BACKS[(lmode + sign) % 4], (lmode + sign) % 3, 0) for sign in (1, 4, 5) for lmode in (3, 4, 5)]
        elif not huge:
            for sign in (1, 2, 3, 4, 5):
                sgrid += [(0, sign, BACKS[0], 0, 0), ((sign % 2) + 1, sign, BACKS[3], 1, sign % 3)]
                if sign in (1, 4, 5):
                    sgrid += [(0, sign, BACKS[sign % 4], 2, 0)]
                if tier == "thorough":
                    sgrid += [(lmode, sign, bk, route, (lmode + route) % 3) for lmode in (0, 1, 2, 4) for bk in BACKS for route in (0, 1, 2)]
        else:
            sgrid += [(0, sign, BACKS[0] if sign != 1 else BACKS[3], 0, 0) for sign in (1, 4, 5)]
        for n_, (lmode, sign, bk, route, pre) in enumerate(sgrid):
            sseed += 1
            swap = n_ % 2 if 1 in swaps else 0
            gate = sign not in SIGN_MARGINAL.get(cellkey, ()) and not (huge and route == 2)
            out.append((gate, (ty, ai, bi, lmode, swap, sign, bk[0], bk[1], route, pre, sseed, 300)))
        # statistics: the exchanged operands where the transposed cell claims less
        stat = []
        if 1 not in swaps:
            stat += [(lmode, 0, 1, route) for lmode in ((0, 1, 2, 3, 4) if not big else (0, 1)) for route in ((0, 1) if not big else (0,))]
        if huge:
            stat = stat[-1:]
        for (lmode, sign, swap, route) in stat:
            for bk in (BACKS if not big else BACKS[:1]):
                sseed += 1
                out.append((False, (ty, ai, bi, lmode, swap, sign, bk[0], bk[1], route, 0, sseed, 300)))
    return out


def witness_probes(ty, vals, rows, tier):
    """the recorded witnesses of the listed findings as statistics probes (cells beyond the tier's length limit are left out)"""
    out = []
    for key, lines in sorted(WITNESS.items()):
        for l in lines:
            t = l.split()
            if t[1] != ty:
                continue
            c = (t[1],) + tuple(int(x) for x in t[2:])
            if tier == "quick" and rows[c[1]][c[2]] > 300000:
                continue
            out.append((False, c))
    return out


def writeout_configs(tier):
    """the write-out of the inverse transform on its own (executor mode R): fft(v, n), spectrum times 2^-sh (exact),
    fft_inv / fft_inv_into.  -> list of (line, float type, v, n, sh, into)"""
    import random
    rnd = random.Random(40417)
    out = []
    for ty in ("f64", "f32"):
        if ty == "f64":
            ns = [1, 2, 4, 8, 16, 64, 256, 1024, 4096] + ([1 << 14, 1 << 16] if tier == "thorough" else [])
        else:
            ns = [1, 2, 4, 8, 16, 32, 64]
        i = 0
        for n in ns:
            for sh in (2, 6, 10):
                q = 1 << sh
                if ty == "f64":
                    kmax = ((1 << 31) - 1) // q - 1
                else:
                    kmax = 2000 if n >= 8 else min(100000, ((1 << 24) >> sh) - 1)
                for style in ("neg", "pos", "mixed"):
                    for into in (0, 1, 2):
                        i += 1
                        ln = rnd.choice([n, n, max(1, n - 1), max(1, n // 2 + 1)])
                        v = []
                        for _ in range(ln):
                            k = rnd.randint(0, rnd.choice([3, 300, kmax]) if kmax > 300 else kmax)
                            f = (rnd.choice(FRAC64) * (q // 64)) if sh >= 6 and rnd.random() < 0.7 else rnd.randint(0, 29 * q // 64)
                            x = min(k, kmax) * q + (f if rnd.random() < 0.5 else -f)
                            if style == "neg" or (style == "mixed" and rnd.random() < 0.5):
                                x = -x
                            v.append(x)
                        line = "R %s %d %d %d %d %d %s" % (ty, n, sh, into, i % 3, ln, " ".join(str(x) for x in v))
                        out.append((line, ty, v, n, sh, into))
    return out


def p_line(c):
    return "P %s %d %d %d %d %d %d %d %d %d %d %d" % c


def extra(ctx, known):
    violations, known_keys = [], []
    kmax = 14 if ctx.tier == "quick" else 20
    cfgs = env_configs(ctx.tier)
    lines = ["E %s %d %d %d %d %d %d %d" % c for c in cfgs]
    costs = [c[1] + c[2] for c in cfgs]
    rel = ctx.bins.get("release", ctx.bins["debug"])
    try:
        # the release executor sees every configuration; the debug one (opt-level 2 + assertions + overflow checks) those up to 2^17
        sel = {prof: [i for i in range(len(cfgs)) if prof == "release" or "release" not in ctx.bins or costs[i] <= (1 << 17) + 2]
               for prof in PROFILES if prof in ctx.bins}
        res_by_profile = {prof: (ix, run_parallel(ctx.bins[prof], [lines[i] for i in ix], 8, [costs[i] for i in ix]))
                          for prof, ix in sel.items()}
        kp = run_lines(ctx.bins["debug"], ["E %s %d %d %d %d %d %d %d" % KNOWN_PROBE])[0]
        tabs = {ty: parse_table(run_lines(rel, ["PT %s" % ty])[0]) for ty in ("f64", "f32")}
        probes = []
        for ty in ("f64", "f32"):
            probes += table_probes(ctx.tier, ty, *tabs[ty])
            probes += witness_probes(ty, tabs[ty][0], tabs[ty][1], ctx.tier)
        pres = run_parallel(rel, [p_line(c) for _, c in probes], 4 if ctx.tier == "thorough" else 8,
                            [tabs[c[0]][1][c[1]][c[2]] for _, c in probes])
        wo_cfgs = writeout_configs(ctx.tier)
        wo_res = {prof: run_lines(ctx.bins[prof], [c[0] for c in wo_cfgs]) for prof in PROFILES if prof in ctx.bins}
        tw_cfgs = [(ty, k, pre) for ty in ("f64", "f32") for k in range(0, (16 if ctx.tier == "quick" else 22) + 1)
                   for pre in ((0, 1, 2) if k % 2 == 0 or k <= 9 else (0,))]
        tw_res = {prof: run_lines(ctx.bins[prof], ["TW %s %d %d" % c for c in tw_cfgs]) for prof in PROFILES if prof in ctx.bins}
    except RuntimeError as e:
        return {"coverage": {"envelope_search": "executor failed"},
                "violations": [{"name": "envelope-executor", "kind": "broken-correspondence", "nofail": True,
                                "payload": {"what": "the executor crashed in envelope mode", "log": str(e)}}]}
    # ---- symmetric envelope
    checked = wrong_cfg = coeffs = 0
    route_hist = {}
    for prof, (ix, results) in res_by_profile.items():
        for c, o in zip([cfgs[i] for i in ix], results):
            t = o.split()
            checked += 1
            if t[0] == "P" or len(t) < 6:
                w, n, err, first, modfail = 1, 0, -1, -1, 1
            else:
                w, n, err, first, modfail = int(t[1]), int(t[2]), int(t[3]), int(t[4]), int(t[5])
            coeffs += n
            ty, la, lb, mx, pat, seed, smp, route = c
            route_hist[ROUTES[route]] = route_hist.get(ROUTES[route], 0) + 1
            if w or modfail:
                wrong_cfg += 1
                inside = mx * mx * max(la, lb) <= (10 ** 12 if ty == "f64" else 10 ** 3)
                if len(violations) < 3:
                    violations.append({
                        "name": "envelope-%s" % hashlib.sha256(repr((c, prof)).encode()).hexdigest()[:10], "nofail": False,
                        "payload": {"what": "FFT::<%s>: %s returned a wrong coefficient inside the symmetric precision envelope "
                                            "max^2*max(len) <= %s (exact i128 schoolbook reference on sampled coefficients; every "
                                            "coefficient through a(x) b(x) = c(x) at three points modulo 2^61-1)" % (
                                                ty, ROUTES[route], "1e12" if ty == "f64" else "1e3"),
                                    "float": ty, "len_a": la, "len_b": lb, "max_abs": mx, "pattern": PATTERNS[pat], "profile": prof,
                                    "generator_seed": seed, "wrong_of_sampled": "%d/%d" % (w, n), "max_abs_error": err,
                                    "first_wrong_index": first, "modular_check_of_all_coefficients_failed": bool(modfail),
                                    "inside_symmetric_envelope": inside,
                                    "reproduce": "echo 'E %s %d %d %d %d %d %d %d' | harness/target/%s/c04" % (c + (prof,))}})
    kt = kp.split()
    kwrong = int(kt[1]) if kt[0] == "E" else 0
    kerr = int(kt[3]) if kt[0] == "E" else -1
    if kt[0] != "E" or kerr > KNOWN_PROBE_MAX_ERR:
        # the known finding is a ROUNDING failure (reviewed tree: every coefficient compared, 258730 of 262146 wrong, largest
        # error 22); a panic, a wrong length or an error of another order of magnitude is something else
        violations.append({"name": "known-probe-changed", "nofail": False,
                           "payload": {"what": "the input of the known finding unequal-lengths (a=[577350;3], b=[577350;262144]) no longer "
                                               "fails the way it was recorded (rounding errors of at most a few units): " + kp,
                                       "reproduce": "echo 'E %s %d %d %d %d %d %d %d' | harness/target/debug/c04" % KNOWN_PROBE}})
    elif kwrong > 0:
        known_keys.append("unequal-lengths")
    # ---- the plan tables themselves (the Coq model is FED the twiddle table, so nothing else relates it to cos / sin)
    tw_worst = {"f64": 0.0, "f32": 0.0}
    tw_bad = 0
    for prof, outs in tw_res.items():
        for c, o in zip(tw_cfgs, outs):
            t = o.split()
            ok = t[0] == "TW" and len(t) == 6
            dev = float(t[1]) if ok else float("inf")
            tw_worst[c[0]] = max(tw_worst[c[0]], dev)
            if not ok or not (dev <= TW_TOL[c[0]]) or t[2] != "1" or t[3] != "1" or int(t[4]) != int(t[5]) + 1 or int(t[5]) != max(4, 1 << c[1]):
                tw_bad += 1
                if tw_bad <= 2:
                    violations.append({
                        "name": "tables-%s-%d-%d-%s" % (c + (prof,)), "nofail": False,
                        "payload": {"what": "FFT::<%s>: the plan tables of an object grown to 2^%d are not the roots of unity / the bit-reversal "
                                            "permutation: max |w[i] - (cos, sin)(2 pi i / n)| = %s (bound %g = 3x the reviewed tree), "
                                            "w[0] = w[n] = (1, 0): %s, reversed = bit reversal: %s, lengths %s" % (
                                                c[0], c[1], t[1] if ok else "?", TW_TOL[c[0]], t[2] if ok else "?", t[3] if ok else "?",
                                                t[4:6] if ok else o),
                                    "profile": prof, "reproduce": "echo 'TW %s %d %d' | harness/target/%s/c04" % (c + (prof,))}})
    # ---- the write-out of the inverse transform: nearest integers for entries of either sign, any fraction up to 29/64
    wo_n = wo_bad = wo_neg = 0
    for prof, outs in wo_res.items():
        for (line, ty, v, n, sh, into), o in zip(wo_cfgs, outs):
            q = 1 << sh
            want = [(x + q // 2) // q for x in v] + [0] * (n - len(v) + (3 if into == 2 else 0))
            t = o.split()
            got = None
            if t and t[0] == "R":
                try:
                    got = [int(x) for x in t[1:]]
                except ValueError:
                    got = None
            wo_n += 1
            wo_neg += sum(1 for x in v if x < 0 and x % q)
            if got != want:
                wo_bad += 1
                if wo_bad <= 2:
                    idx = next((j for j in range(min(len(want), len(got or []))) if got[j] != want[j]), -1)
                    violations.append({
                        "name": "writeout-%s" % hashlib.sha256((line + prof).encode()).hexdigest()[:10], "nofail": False,
                        "payload": {"what": "FFT::<%s>: fft(v, %d), every entry of the spectrum multiplied by 2^-%d (exact), %s: the inverse "
                                            "transform was handed the spectrum of the real sequence v[j] / %d, every entry of which is at most "
                                            "29/64 away from an integer, and did not write out the nearest integers; products whose "
                                            "floating-point error comes that close to 1/2 (the edge of the published table) come out wrong "
                                            "the same way" % (ty, n, sh, ("fft_inv", "fft_inv_into on a non-zero destination of length n",
                                                                          "fft_inv_into on a non-zero destination of length n + 3")[into], q),
                                    "profile": prof, "first_wrong_index": idx,
                                    "entry": ("%d / %d = %.6f" % (v[idx], q, v[idx] / q)) if 0 <= idx < len(v) else None,
                                    "expected": want[idx] if idx >= 0 else "length %d" % len(want),
                                    "got": (got[idx] if idx >= 0 else "length %d" % len(got)) if got is not None else o[:80],
                                    "reproduce": "echo '%s' | harness/target/%s/c04" % (line if len(line) < 400 else line[:400] + " ...", prof)}})
    # ---- published table
    gate_n = gate_bad = stat_n = stat_bad = 0
    gate_by_sign = {}
    stat_cells, marginal_seen, sign_marginal_seen, fftroute_seen = {}, {}, {}, {}
    for (gate, c), o in zip(probes, pres):
        t = o.split()
        ty, ai, bi, lmode, swap, sign, ab, bb, route, pre, seed, smp = c
        vals, rows = tabs[ty]
        if t[0] != "P" or len(t) < 9:
            bad, L, la, lb, w, n, err, first, modfail = True, rows[ai][bi], -1, -1, 1, 0, -1, -1, 1
        else:
            L, la, lb, w, n, err, first, modfail = [int(x) for x in t[1:9]]
            bad = w > 0 or modfail != 0
        cell = "%s A=%d B=%d L=%d" % (ty, vals[ai], vals[bi], L)
        cellkey = (ty, vals[ai], vals[bi])
        if gate:
            gate_n += 1
            gate_by_sign[SIGNS[sign]] = gate_by_sign.get(SIGNS[sign], 0) + 1
            if bad:
                gate_bad += 1
                if len(violations) < 5:
                    violations.append({
                        "name": "published-%s" % hashlib.sha256(repr(c).encode()).hexdigest()[:10], "nofail": False,
                        "payload": {"what": "FFT::<%s>: wrong coefficient INSIDE the precision table published by the crate itself "
                                            "(rlib_fft::precision, read from the crate at run time): cell A=%d, B=%d claims exact "
                                            "products up to length L=%d%s" % (
                                                ty, vals[ai], vals[bi], L,
                                                "" if sign == 0 else "; the operands have the cell's magnitudes with signs (%s), which the "
                                                "property covers ('for positive and negative coefficients alike') and which is exact "
                                                "on the reviewed tree" % SIGNS[sign]),
                                    "float": ty, "cell": [vals[ai], vals[bi], L], "len_a": la, "len_b": lb, "lengths": LMODES[lmode],
                                    "operands_exchanged": bool(swap), "signs": SIGNS[sign],
                                    "a_magnitudes": "[%d ..= %d]" % (max(vals[ai] - ab, 0), vals[ai]),
                                    "b_magnitudes": "[%d ..= %d]" % (max(vals[bi] - bb, 0), vals[bi]), "call": P_ROUTES[route],
                                    "object": PRES[pre], "generator_seed": seed, "wrong_of_checked": "%d/%d" % (w, n),
                                    "max_abs_error": err, "first_wrong_index": first,
                                    "modular_check_of_all_coefficients_failed": bool(modfail),
                                    "reproduce": "echo '%s' | harness/target/release/c04" % p_line(c)}})
        else:
            stat_n += 1
            if bad:
                stat_bad += 1
                if cellkey in MARGINAL_CELLS and sign == 0 and swap == 0:
                    marginal_seen.setdefault(cellkey, []).append(p_line(c))
                elif sign != 0 and sign in SIGN_MARGINAL.get(cellkey, ()):
                    sign_marginal_seen.setdefault(cellkey, []).append(p_line(c))
                elif route == 2 and sign == 0 and swap == 0 and L > 300000:
                    # inside the table's claim except for the route: a recorded finding (key fft-route-above-3e5), never silent
                    fftroute_seen.setdefault(cell, []).append(p_line(c))
                else:
                    k = "%s | %s%s%s" % (cell, SIGNS[sign], " | operands exchanged" if swap else "",
                                         " | fft route" if route == 2 else "")
                    stat_cells[k] = stat_cells.get(k, 0) + 1
    for (ty, A, B) in sorted(MARGINAL_CELLS):
        key = "published-cell-%d-%d" % (A, B)
        if (ty, A, B) in marginal_seen and key in known:
            known_keys.append(key)
    for (ty, A, B) in sorted(SIGN_MARGINAL):
        key = "published-cell-%d-%d-signs" % (A, B)
        if (ty, A, B) in sign_marginal_seen and key in known:
            known_keys.append(key)
    if fftroute_seen:
        if "fft-route-above-3e5" in known:
            known_keys.append("fft-route-above-3e5")
        else:
            violations.append({"name": "published-fft-route", "nofail": False,
                               "payload": {"what": "fft, fft, pointwise product, fft_inv returned a wrong coefficient inside a cell of the "
                                                   "published precision table with L > 3e5 (multiply itself is exact there)",
                                           "cells": fftroute_seen}})
    cov = {"envelope_search": {"configurations": checked, "profiles": sorted(res_by_profile), "sampled_coefficients": coeffs,
                               "all_coefficients_checked_modulo_2^61-1": True,
                               "configurations_with_wrong_coefficient": wrong_cfg, "by_route": route_hist,
                               "f64_bound": "max^2*max(len) <= 1e12, lengths up to 2^%d (+1), length ratios up to 2^%d" % (kmax, kmax),
                               "f32_bound": "max^2*max(len) <= 1e3, lengths up to 1000",
                               "known_finding_probe": {"len_a": 3, "len_b": 262144, "max_abs": 577350,
                                                       "wrong_of_compared": "%s/%s" % (kt[1], kt[2]) if kt[0] == "E" else "panic",
                                                       "max_abs_error": kerr}},
           "plan_tables": {"objects_checked": sum(len(v) for v in tw_res.values()), "sizes": "2^0 .. 2^%d, f64 and f32, grown in one step / two steps / "
                           "through a product" % (16 if ctx.tier == "quick" else 22), "max_abs_deviation_from_cos_sin": tw_worst,
                           "tolerance": TW_TOL, "bad": tw_bad},
           "inverse_transform_write_out": {"probes": wo_n, "wrong": wo_bad, "negative_entries_with_a_fraction": wo_neg,
                                           "what": "fft(v, n), spectrum times 2^-sh, fft_inv / fft_inv_into (non-zero destinations of length n, "
                                                   "n + 3): nearest integers of v[j] / 2^sh, fractions up to 29/64 on either side, f64 n <= %d "
                                                   "with |v| < 2^31, f32 n <= 64" % (4096 if ctx.tier == "quick" else 65536)},
           "published_table": {"source": "rlib_fft::precision::{VALS_TO_CHECK, CORRECT_F64_BOUNDS, CORRECT_F32_BOUNDS} as compiled into the executor",
                               "frontier_cells": {ty: len(frontier(tabs[ty][1])) for ty in tabs},
                               "cells_probed": len({(c[0], c[1], c[2]) for _, c in probes}),
                               "max_length_probed": max([tabs[c[0]][1][c[1]][c[2]] for _, c in probes] + [0]),
                               "gating_probes": gate_n, "gating_probes_wrong": gate_bad, "gating_probes_by_sign_mode": gate_by_sign,
                               "statistics_probes": stat_n, "statistics_probes_wrong": stat_bad,
                               "statistics_wrong_by_cell": stat_cells,
                               "cells_failing_inside_their_literal_claim_on_the_reviewed_tree": {
                                   "listed": ["%s A=%d B=%d" % m for m in sorted(MARGINAL_CELLS)],
                                   "wrong_this_run": {"%s A=%d B=%d" % k: v for k, v in sorted(marginal_seen.items())}},
                               "cell_sign_mode_combinations_failing_on_the_reviewed_tree": {
                                   "listed": {"%s A=%d B=%d" % k: [SIGNS[x] for x in sorted(v)] for k, v in sorted(SIGN_MARGINAL.items())},
                                   "wrong_this_run": {"%s A=%d B=%d" % k: {"probes_wrong": len(v), "first": v[:4]}
                                                      for k, v in sorted(sign_marginal_seen.items())}},
                               "fft_route_wrong_above_3e5_this_run": fftroute_seen}}
    return {"coverage": cov, "violations": violations, "known": known_keys}


MANIFEST = {
    "text": "Coq theorems (no axioms) about an executable Gallina model of rlib_fft::FFT (update_n, fft_internal, fft/fft_into, "
            "fft_inv/fft_inv_into, multiply/multiply_into), polymorphic in the scalar operations and in the twiddle oracle: "
            "c04_shape (empty operand => empty product, length |a|+|b|-1, multiply_into / fft_into / fft_inv_into ADD to the destination "
            "exactly what multiply / fft / fft_inv return) and c04_history_independent + c04_reach_closed (for ANY scalar type and oracle, "
            "hence for binary64 bit for bit: any two reachable object states give the same product, the same transform and the same "
            "inverse transform, with NO size condition on the objects since /repo 23bca24 - fft_inv_into grows the object before it reads "
            "max_n; c04_inv_old_refuted: the code before that commit returned different coefficients on a fresh object and on one of "
            "size 8, exact Z/p instance) hold for the float "
            "instance itself; c04_exact_algebra (over a commutative scalar ring with 2 invertible, exact division by 2^k and a table with "
            "w[0]=1, w[a]w[b]=w[(a+b) mod N], w[N/2]=-1, w[N/4]=i, conj w[a]=w[N-a]: fft_internal computes the DFT, inverse after "
            "forward is the identity, multiply = integer convolution, fft+pointwise product+fft_inv_into = convolution, also with the inverse transform on ANY "
            "other reachable object); the hypotheses "
            "are inhabited by an executable instance over Z/998244353 with circle-group twiddles (Examples.v, executed against the direct "
            "convolution). On every run the binary64 instance (Coq primitive floats, fed the implementation's own twiddle table through the "
            "verif hook) is compared with the Rust crate bit for bit on fft outputs and exactly on all integer outputs over call histories "
            "(reuse after growth, *_into on non-zero destinations, lengths around powers of two, boundary coefficients of both signs, "
            "inverse transform on a second object that is fresh / smaller / cloned, aliased operands, the inverse transform "
            "handed an exactly scaled spectrum whose entries are up to 29/64 away from integers - negative and positive), and "
            "the integer outputs are compared in Coq with a direct integer convolution (scaled spectra: with the nearest integers). "
            "c04_rounding_partial: the floating-point "
            "rounding-error bound inside the envelope is NOT proved; it is examined by search only (implementation against an exact i128 "
            "schoolbook convolution and a modular evaluation of every coefficient, at the boundary max^2*max(len) <= 1e12, f32: <= 1e3, "
            "and at the frontier cells of the table the crate publishes in rlib_fft::precision, read from the crate at run time, with "
            "non-negative operands AND five sign modes that all gate, every coefficient negative among them). Known finding unequal-lengths: the literal "
            "envelope max^2*min(len) <= 1e12 is violated for very unequal lengths; re-confirmed on every run. Findings inside the published "
            "table on the reviewed tree (statistics, announced only when listed in known_findings.txt, witnesses re-run on every run): "
            "three cells fail inside their literal non-negative claim (5e6 x 5e5, 1e5 x 1e4, 5e4 x 5e3) and the four cells whose transposed cell "
            "claims less fail once one operand is negated (e.g. multiply([-1e7; 10], [5e6; 10]), multiply([-50000; 299999], [5000; 300000])).",
    "level_note": "proof, partial: shape, history independence (bit-exact, all instances) and algebraic exactness are proved for the "
                  "model; the rounding envelope is search only. Trusted: Coq kernel + vm_compute (primitive floats only in executed "
                  "cases, never in a theorem); the Rust executor and the Python case printer; libm sin/cos enter through the "
                  "implementation's own table; the correspondence model = code is sampled.",
    "technique": "Coq proof over polymorphic Gallina model (3 instances) + vm_compute bit-exact correspondence batches + "
                 "implementation-level envelope search",
}
