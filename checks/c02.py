"""C02 — segment-tree boundary search returns the exact first/last satisfying index (rlib/segtree).

Shares model, executor, printer and history generator with C01 (checks/c01.py); the histories are search-heavy."""
import c01 as base

ID = "C02"
CRATE = "c01"
COQ_DIR = "C02"
COQ_DEPS = ["C01"]
PROFILES = ["debug", "release"]
CORR_IMPORT = "From RlibV Require Import C01.Model C01.Items C01.Spec C01.Corr C02.Corr.\nOpen Scope Z_scope."
AUDIT_IMPORT = ("From Coq Require Import ZArith List Bool Arith.\nImport ListNotations.\n"
                "From RlibV Require Import C01.Model C01.Items C01.Spec C01.Laws C01.Corr C01.ProofsCore C01.ProofsTree "
                "C02.Corr C02.Properties.\nOpen Scope nat_scope.\n")
CASE_TYPE = "C02.Corr.case"
EXPLAIN = "C02.Corr.explain"
AXIOM_ALLOW = []
SHARD = 750
SEARCH_MAX = 1500
THEOREMS = [
    ('c02_lower_bound_spec',
     "forall (T M V : Type) (merge : T -> T -> T) (update : T -> T -> T -> T) (modify : T -> M -> T) (push : T -> T -> T -> T * T * T) (obs : T -> V) (vmerge : V -> V -> V) (act : M -> V -> V) (Pending : T -> list M -> Prop), lawful merge update modify push obs vmerge act Pending -> forall (dflt : T) (f : T -> bool) (g : V -> bool), (forall x : T, f x = g (obs x)) -> forall (t : tree T) (vs : list V) (l : nat), RepT obs vmerge act Pending t vs -> l < tn t -> (forall k, l <= k -> k < tn t -> vmerge (obs dflt) (range vmerge (obs dflt) vs l k) = range vmerge (obs dflt) vs l k) -> (forall j k, l <= j -> j <= k -> k < tn t -> g (range vmerge (obs dflt) vs l j) = true -> g (range vmerge (obs dflt) vs l k) = true) -> exists t' res tr, lower_bound merge push dflt t l f = Some (t', res, tr) /\\ tn t' = tn t /\\ RepT obs vmerge act Pending t' vs /\\ match res with | Some r => l <= r /\\ r < tn t /\\ g (range vmerge (obs dflt) vs l r) = true /\\ (forall j, l <= j -> j < r -> g (range vmerge (obs dflt) vs l j) = false) | None => forall j, l <= j -> j < tn t -> g (range vmerge (obs dflt) vs l j) = false end"),
    ('c02_lower_bound_trace',
     "forall (T M V : Type) (merge : T -> T -> T) (update : T -> T -> T -> T) (modify : T -> M -> T) (push : T -> T -> T -> T * T * T) (obs : T -> V) (vmerge : V -> V -> V) (act : M -> V -> V) (Pending : T -> list M -> Prop), lawful merge update modify push obs vmerge act Pending -> forall (dflt : T) (f : T -> bool) (g : V -> bool), (forall x : T, f x = g (obs x)) -> forall (t : tree T) (vs : list V) (l : nat), RepT obs vmerge act Pending t vs -> l < tn t -> (forall k, l <= k -> k < tn t -> vmerge (obs dflt) (range vmerge (obs dflt) vs l k) = range vmerge (obs dflt) vs l k) -> exists t' res tr, lower_bound merge push dflt t l f = Some (t', res, tr) /\\ RepT obs vmerge act Pending t' vs /\\ (forall x, In x tr -> exists k, l <= k /\\ k < tn t /\\ obs x = range vmerge (obs dflt) vs l k)"),
    ('c02_lower_bound_rev_spec',
     "forall (T M V : Type) (merge : T -> T -> T) (update : T -> T -> T -> T) (modify : T -> M -> T) (push : T -> T -> T -> T * T * T) (obs : T -> V) (vmerge : V -> V -> V) (act : M -> V -> V) (Pending : T -> list M -> Prop), lawful merge update modify push obs vmerge act Pending -> forall (dflt : T) (f : T -> bool) (g : V -> bool), (forall x : T, f x = g (obs x)) -> forall (t : tree T) (vs : list V) (r : nat), RepT obs vmerge act Pending t vs -> r < tn t -> (forall k, k <= r -> vmerge (range vmerge (obs dflt) vs k r) (obs dflt) = range vmerge (obs dflt) vs k r) -> (forall j k, j <= k -> k <= r -> g (range vmerge (obs dflt) vs k r) = true -> g (range vmerge (obs dflt) vs j r) = true) -> exists t' res tr, lower_bound_rev merge push dflt t r f = Some (t', res, tr) /\\ tn t' = tn t /\\ RepT obs vmerge act Pending t' vs /\\ match res with | Some l => l <= r /\\ g (range vmerge (obs dflt) vs l r) = true /\\ (forall j, l < j -> j <= r -> g (range vmerge (obs dflt) vs j r) = false) | None => forall j, j <= r -> g (range vmerge (obs dflt) vs j r) = false end"),
    ('c02_lower_bound_rev_trace',
     "forall (T M V : Type) (merge : T -> T -> T) (update : T -> T -> T -> T) (modify : T -> M -> T) (push : T -> T -> T -> T * T * T) (obs : T -> V) (vmerge : V -> V -> V) (act : M -> V -> V) (Pending : T -> list M -> Prop), lawful merge update modify push obs vmerge act Pending -> forall (dflt : T) (f : T -> bool) (g : V -> bool), (forall x : T, f x = g (obs x)) -> forall (t : tree T) (vs : list V) (r : nat), RepT obs vmerge act Pending t vs -> r < tn t -> (forall k, k <= r -> vmerge (range vmerge (obs dflt) vs k r) (obs dflt) = range vmerge (obs dflt) vs k r) -> exists t' res tr, lower_bound_rev merge push dflt t r f = Some (t', res, tr) /\\ RepT obs vmerge act Pending t' vs /\\ (forall x, In x tr -> exists k, k <= r /\\ obs x = range vmerge (obs dflt) vs k r)"),
    ('c02_model_check_spec_check',
     'forall c : C02.Corr.case, C02.Corr.model_check c = true -> C02.Corr.spec_check c = true'),
]
RULE = ("same 11 item types and history shapes as C01 with set:modify:ask:bound about 1:3:1:5, so that most searches run over "
        "lazy tags still pending in the tree; plus the two targeted families of C01, search-heavy: Flip (lazy, modifier type "
        "()) histories where a flip over whole inner nodes is immediately followed by lower_bound / lower_bound_rev through "
        "those nodes with thresholds ones >= k aimed at a position inside them (also len >= k, always true / false, and a "
        "few non-monotone ones <= k), and trees constructed from items carrying their own lazy tag; predicates: thresholds "
        "aimed at a range aggregate that really occurs (le on min, ge "
        "on max / sum / len, componentwise through the combinator), 'is not a prefix of w' and length thresholds for Concat, "
        "always-true, always-false, and a few non-monotone ones (model only); non-trivial = a search preceded by a range modify "
        "over a different, overlapping range; plus, search-heavy, the families added to C01: 10 item types where ties and operand "
        "order are observable (Min / Max / MinAdd / MaxAdd over Keyed {key, id} with thresholds on the key - the first closure "
        "argument is the rightmost extremum - and a few on the id, Min / Max over the two zeros of f64, Sum over strings, "
        "Combinator<Concat, Concat>, Combinator<Min, Combinator<Max, Sum>>, Combinator<Flip, Sum>), the ties family, large trees "
        "(n up to 4097; searches from the ends up to n = 257), and one search in six first run with a predicate that panics on "
        "its 1st-6th call (caught) and then repeated, followed by a query or debug(); plus the width family of C01 (h), "
        "search-heavy: lower_bound / lower_bound_rev of every built-in item over every primitive element type (i8 ... u128, isize, "
        "usize, f32, f64) - the searches start from the item's Default, i.e. from MinMax::{MIN, MAX} / Default of the element type as "
        "rlib_num_traits defines them for that type - on the fixed item x type grid and on random histories (tiny values for the "
        "8-bit types, 2^64..2^100 on i128 / u128), all checked against the Coq term of the i64 kind")
TRUSTED = base.TRUSTED
ASSUMPTIONS = base.ASSUMPTIONS + ["for the element type Keyed the identity law of Default fails on elements whose key equals i64::MAX / MIN (the id "
                                  "differs): such keys are not generated, so no search falls into the vacuous branch of spec_check",
                                  "searches with a non-monotone predicate are compared with the model only (the crate leaves them unspecified)"]

harness_line = base.harness_line
coq_term = base.coq_term
classify = base.classify
shrink = base.shrink


# besides the files properties.jsonl anchors C02 in: the searches start from every item's Default and use its merge
SOURCES = ["rlib/segtree/src/segtree_items.rs", "rlib/num_traits/src/lib.rs"]


def generate(rng, tier):
    count, nflip, ntag, nnew, nties = (1200, 180, 120, 240, 110) if tier == "quick" else (30000, 5000, 3000, 9000, 4000)
    r1, r2, r3 = rng.fork("hist"), rng.fork("flip"), rng.fork("tagged")
    r4, r5, r6 = rng.fork("newkinds"), rng.fork("ties"), rng.fork("big")
    r7 = rng.fork("width")
    return base.interleave([base.width_grid(), base.width_cases(r7, tier, 120 if tier == "quick" else 3000, (1, 3, 1, 5), 6),
                            [base.gen_history(r1, tier, (1, 3, 1, 5), 45, base.KINDS, 6) for _ in range(count)],
                            [base.gen_flip(r2, tier, 8) for _ in range(nflip)],
                            [base.gen_tagged(r3, tier, 7) for _ in range(ntag)],
                            [base.gen_history(r4, tier, (1, 3, 1, 5), 35, base.NEW_KINDS, 6) for _ in range(nnew)],
                            [base.gen_ties(r5, tier, 7) for _ in range(nties)],
                            base.big_cases(r6, tier)])


def nontrivial(c, obs):
    writes = []
    for o in c["ops"]:
        t = o["op"]
        if t in ("new", "slice", "iter"):
            writes = []
        elif t == "mod":
            writes.append(base.op_range(o))
        elif t in ("lb", "lbr"):
            l, r = base.op_range(o)
            for (a, b) in writes:
                if a <= r and l <= b and (a, b) != (l, r):
                    return True
    return False


MANIFEST = {
    "text": "Coq theorems (5 pinned, no axioms) about the same executable model as C01, for every lawful item whose default is the "
            "identity of merge on the range merges met and every predicate monotone along the growing ranges: c02_lower_bound_spec "
            "(lower_bound(l, f) returns the least r >= l with f(merge of [l..r]), None iff there is none, the logical array is "
            "unchanged whatever lazy tags are pending), c02_lower_bound_rev_spec (greatest l <= r), c02_lower_bound_trace / "
            "c02_lower_bound_rev_trace (every argument shown to the predicate is the in-order merge of such a range; no "
            "commutativity, no monotonicity needed), c02_model_check_spec_check.  Every run compares the real lower_bound / "
            "lower_bound_rev (results and the exact list of closure arguments) with the model and with the plain-array "
            "specification on search-heavy histories for 21 item types (one of them lazy with the zero-sized modifier type (), ten "
            "where tied or non-commuting operands are distinguishable) and for every built-in item over each of the 14 primitive "
            "number types rlib_num_traits supports (same Coq terms as the i64 kinds; the searches start from the Default the item "
            "derives from that crate's constants for the type), including searches repeated after the predicate panicked "
            "in the middle of a first attempt.",
    "level_note": "Trusted: Coq kernel + vm_compute; the Rust executor and the Python printer/parsers; Z for i64; sampled "
                  "correspondence; searches with non-monotone predicates are compared with the model only; positions >= n are "
                  "outside the model (the crate panics by out-of-bounds indexing there).",
    "technique": "Coq proof over Gallina model + vm_compute correspondence batches against the Rust crate",
}
