"""C02 — segment-tree boundary search returns the exact first/last satisfying index (rlib/segtree).

Shares model, executor, printer and history generator with C01 (checks/c01.py); the histories are search-heavy."""
import c01 as base

ID = "C02"
CRATE = "c01"
COQ_DIR = "C02"
COQ_DEPS = ["C01"]
PROFILES = ["debug"]
CORR_IMPORT = "From RlibV Require Import C01.Model C01.Items C01.Spec C01.Corr C02.Corr.\nOpen Scope Z_scope."
AUDIT_IMPORT = ("From Coq Require Import ZArith List Bool Arith.\nImport ListNotations.\n"
                "From RlibV Require Import C01.Model C01.Items C01.Spec C01.Corr C02.Corr.\n")
CASE_TYPE = "C02.Corr.case"
EXPLAIN = "C02.Corr.explain"
AXIOM_ALLOW = []
SHARD = 700
SEARCH_MAX = 1500
THEOREMS = []
RULE = ("same 10 item types and history shapes as C01 with set:modify:ask:bound about 1:3:1:5, so that most searches run over "
        "lazy tags still pending in the tree; predicates: thresholds aimed at a range aggregate that really occurs (le on min, ge "
        "on max / sum / len, componentwise through the combinator), 'is not a prefix of w' and length thresholds for Concat, "
        "always-true, always-false, and a few non-monotone ones (model only); non-trivial = a search preceded by a range modify "
        "over a different, overlapping range")
TRUSTED = base.TRUSTED
ASSUMPTIONS = base.ASSUMPTIONS + ["searches with a non-monotone predicate are compared with the model only (the crate leaves them unspecified)"]

harness_line = base.harness_line
coq_term = base.coq_term
classify = base.classify
shrink = base.shrink


def generate(rng, tier):
    count = 1200 if tier == "quick" else 30000
    return [base.gen_history(rng, tier, (1, 3, 1, 5), 45) for _ in range(count)]


def nontrivial(c, obs):
    writes = []
    for o in c["ops"]:
        t = o["op"]
        if t in ("new", "slice", "iter"):
            writes = []
        elif t == "mod":
            writes.append(base.op_range(o))
        elif t in ("lb", "lbr"):
            l, r = base.op_range(o)
            for (a, b) in writes:
                if a <= r and l <= b and (a, b) != (l, r):
                    return True
    return False


MANIFEST = {
    "text": "Coq theorems (no axioms) about the same executable model as C01: for a lawful item whose default is the identity of "
            "merge on the values met, lower_bound(l, f) returns the least r >= l with f(merge of [l..r]) and lower_bound_rev(r, f) "
            "the greatest l <= r, None exactly when there is none, for every predicate monotone along the growing ranges; every "
            "argument shown to the predicate is the in-order merge of such a range (no commutativity assumed) and pending lazy "
            "tags do not influence the answer (the representation invariant is preserved).  Every run compares the real "
            "lower_bound / lower_bound_rev (results and closure arguments) with the model and with the plain-array specification.",
    "level_note": "Trusted: Coq kernel + vm_compute; the Rust executor and the Python printer/parsers; Z for i64; sampled correspondence.",
    "technique": "Coq proof over Gallina model + vm_compute correspondence batches against the Rust crate",
}
