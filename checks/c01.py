"""C01 — segment-tree range query = in-order fold of the logical array (rlib/segtree).

Also the shared machinery (history generator, Coq printer, parser of the executor's output) for C02."""
import re

ID = "C01"
CRATE = "c01"
COQ_DIR = "C01"
COQ_DEPS = []
PROFILES = ["debug", "release"]
CORR_IMPORT = "From RlibV Require Import C01.Model C01.Items C01.Spec C01.Corr.\nOpen Scope Z_scope."
AUDIT_IMPORT = ("From Coq Require Import ZArith List Bool Arith.\nImport ListNotations.\n"
                "From RlibV Require Import C01.Model C01.Items C01.Spec C01.Laws C01.Corr C01.ProofsCore C01.ProofsTree "
                "C01.ProofsItems C01.ProofsTop C01.ProofsMorph C01.Properties.\nOpen Scope nat_scope.\n")
CASE_TYPE = "case"
EXPLAIN = "explain"
AXIOM_ALLOW = []
SHARD = 750
SEARCH_MAX = 1500
# besides the anchored segtree.rs / segtree_items.rs: MinMax::{MIN, MAX} and ZeroOne::ONE of the element types come from here
SOURCES = ["rlib/num_traits/src/lib.rs"]
THEOREMS = [
    ('c01_rep_length',
     'forall (T M V : Type) (obs : T -> V) (vmerge : V -> V -> V) (act : M -> V -> V) (Pending : T -> list M -> Prop) (x : T) (s : shape T) (vl vr : nat) (vs : list V), Rep obs vmerge act Pending x s vl vr vs -> length vs = vr - vl + 1 /\\ vl <= vr'),
    ('c01_rep_top',
     'forall (T M V : Type) (obs : T -> V) (vmerge : V -> V -> V) (act : M -> V -> V) (Pending : T -> list M -> Prop) (x : T) (s : shape T) (vl vr : nat) (vs : list V), Rep obs vmerge act Pending x s vl vr vs -> forall d : V, obs x = vfold vmerge d vs'),
    ('c01_rep_leaf_iff',
     'forall (T M V : Type) (obs : T -> V) (vmerge : V -> V -> V) (act : M -> V -> V) (Pending : T -> list M -> Prop) (x : T) (s : shape T) (vl vr : nat) (vs : list V), Rep obs vmerge act Pending x s vl vr vs -> (s = L <-> vl = vr)'),
    ('c01_rep_push',
     "forall (T M V : Type) (merge : T -> T -> T) (update : T -> T -> T -> T) (modify : T -> M -> T) (push : T -> T -> T -> T * T * T) (obs : T -> V) (vmerge : V -> V -> V) (act : M -> V -> V) (Pending : T -> list M -> Prop), lawful merge update modify push obs vmerge act Pending -> forall (x : T) (lt : shape T) (xl xr : T) (rt : shape T) (vl vr : nat) (vs : list V) (x1 xl1 xr1 : T), Rep obs vmerge act Pending x (N lt xl xr rt) vl vr vs -> push x xl xr = (x1, xl1, xr1) -> exists ls rs, vs = ls ++ rs /\\ vl < vr /\\ Rep obs vmerge act Pending xl1 lt vl ((vl + vr) / 2) ls /\\ Rep obs vmerge act Pending xr1 rt ((vl + vr) / 2 + 1) vr rs /\\ Pending x1 [] /\\ obs x1 = obs x /\\ (forall xl' lt' xr' rt', Rep obs vmerge act Pending xl' lt' vl ((vl + vr) / 2) ls -> Rep obs vmerge act Pending xr' rt' ((vl + vr) / 2 + 1) vr rs -> Rep obs vmerge act Pending x1 (N lt' xl' xr' rt') vl vr (ls ++ rs))"),
    ('c01_ask_correct',
     "forall (T M V : Type) (merge : T -> T -> T) (update : T -> T -> T -> T) (modify : T -> M -> T) (push : T -> T -> T -> T * T * T) (obs : T -> V) (vmerge : V -> V -> V) (act : M -> V -> V) (Pending : T -> list M -> Prop), lawful merge update modify push obs vmerge act Pending -> forall (s : shape T) (x : T) (vl vr : nat) (vs : list V) (l r : nat) (x' : T) (s' : shape T) (res : T), Rep obs vmerge act Pending x s vl vr vs -> vl <= l -> l <= r -> r <= vr -> ask_t merge push x s l r vl vr = (x', s', res) -> Rep obs vmerge act Pending x' s' vl vr vs /\\ (forall d : V, obs res = vfold vmerge d (seg vs vl l r))"),
    ('c01_modify_correct',
     "forall (T M V : Type) (merge : T -> T -> T) (update : T -> T -> T -> T) (modify : T -> M -> T) (push : T -> T -> T -> T * T * T) (obs : T -> V) (vmerge : V -> V -> V) (act : M -> V -> V) (Pending : T -> list M -> Prop), lawful merge update modify push obs vmerge act Pending -> forall (s : shape T) (x : T) (vl vr : nat) (vs : list V) (l r : nat) (md : M) (x' : T) (s' : shape T), Rep obs vmerge act Pending x s vl vr vs -> vl <= l -> l <= r -> r <= vr -> modify_t update modify push x s md l r vl vr = (x', s') -> Rep obs vmerge act Pending x' s' vl vr (upd_seg (act md) vs vl l r)"),
    ('c01_set_correct',
     "forall (T M V : Type) (merge : T -> T -> T) (update : T -> T -> T -> T) (modify : T -> M -> T) (push : T -> T -> T -> T * T * T) (obs : T -> V) (vmerge : V -> V -> V) (act : M -> V -> V) (Pending : T -> list M -> Prop), lawful merge update modify push obs vmerge act Pending -> forall (s : shape T) (x : T) (vl vr : nat) (vs : list V) (i : nat) (v x' : T) (s' : shape T), Rep obs vmerge act Pending x s vl vr vs -> vl <= i -> i <= vr -> set_t update push x s i v vl vr = (x', s') -> Rep obs vmerge act Pending x' s' vl vr (upd_at vs (i - vl) (obs v))"),
    ('c01_build_correct',
     'forall (T M V : Type) (merge : T -> T -> T) (update : T -> T -> T -> T) (modify : T -> M -> T) (push : T -> T -> T -> T * T * T) (obs : T -> V) (vmerge : V -> V -> V) (act : M -> V -> V) (Pending : T -> list M -> Prop), lawful merge update modify push obs vmerge act Pending -> forall dflt : T, (forall (n : nat) (v : T), n <> 0 -> exists t, new update n v = Some t /\\ tn t = n /\\ RepT obs vmerge act Pending t (repeat (obs v) n)) /\\ (forall xs : list T, xs <> [] -> exists t, from_slice update xs = Some t /\\ tn t = length xs /\\ RepT obs vmerge act Pending t (map obs xs)) /\\ (forall xs : list T, xs <> [] -> exists t, from_iter update dflt xs = Some t /\\ tn t = length xs /\\ RepT obs vmerge act Pending t (map obs xs))'),
    ('c01_ask_tree_correct',
     "forall (T M V : Type) (merge : T -> T -> T) (update : T -> T -> T -> T) (modify : T -> M -> T) (push : T -> T -> T -> T * T * T) (obs : T -> V) (vmerge : V -> V -> V) (act : M -> V -> V) (Pending : T -> list M -> Prop), lawful merge update modify push obs vmerge act Pending -> forall (dflt : T) (t : tree T) (vs : list V) (l r : nat), RepT obs vmerge act Pending t vs -> l <= r -> r < tn t -> exists t' x, ask merge push t l r = Some (t', x) /\\ tn t' = tn t /\\ RepT obs vmerge act Pending t' vs /\\ obs x = range vmerge (obs dflt) vs l r"),
    ('c01_debug_correct',
     "forall (T M V : Type) (merge : T -> T -> T) (update : T -> T -> T -> T) (modify : T -> M -> T) (push : T -> T -> T -> T * T * T) (obs : T -> V) (vmerge : V -> V -> V) (act : M -> V -> V) (Pending : T -> list M -> Prop), lawful merge update modify push obs vmerge act Pending -> forall (dflt : T) (t : tree T) (vs : list V) (t' : tree T) (xs : list T), RepT obs vmerge act Pending t vs -> debug merge push t = (t', xs) -> tn t' = tn t /\\ RepT obs vmerge act Pending t' vs /\\ map obs xs = vs"),
    ('c01_history',
     'forall (T M V : Type) (merge : T -> T -> T) (update : T -> T -> T -> T) (modify : T -> M -> T) (push : T -> T -> T -> T * T * T) (obs : T -> V) (vmerge : V -> V -> V) (act : M -> V -> V) (Pending : T -> list M -> Prop), lawful merge update modify push obs vmerge act Pending -> forall (P : Type) (dflt : T) (pv : P -> V -> bool) (ops : list (op T M P)), Forall2 (out_match obs vmerge pv (obs dflt)) (run merge update modify push (fun p x => pv p (obs x)) dflt None ops) (spec_run obs vmerge act (obs dflt) None ops)'),
    ('c01_kit_history',
     'forall (T M V : Type) (k : kit T M V) (Pending : T -> list M -> Prop), kit_lawful k Pending -> forall ops : list (op T M pred), Forall2 (out_match (k_obs k) (k_vmerge k) (k_pv k) (k_obs k (k_dflt k))) (model_outs k ops) (spec_outs k ops)'),
    ('c01_min_lawful',
     'kit_lawful kit_min no_pending'),
    ('c01_max_lawful',
     'kit_lawful kit_max no_pending'),
    ('c01_sum_lawful',
     'kit_lawful kit_sum no_pending'),
    ('c01_minadd_lawful',
     'kit_lawful kit_minadd va_pending'),
    ('c01_maxadd_lawful',
     'kit_lawful kit_maxadd va_pending'),
    ('c01_sumadd_lawful',
     'kit_lawful kit_sumadd sa_pending'),
    ('c01_combinator_lawful',
     'forall (T1 T2 M V1 V2 : Type) (a : kit T1 M V1) (b : kit T2 M V2) (PA : T1 -> list M -> Prop) (PB : T2 -> list M -> Prop), k_update a = upd_of (k_merge a) -> k_update b = upd_of (k_merge b) -> kit_lawful a PA -> kit_lawful b PB -> kit_lawful (kit_comb a b) (comb_pending PA PB)'),
    ('c01_comb2_lawful',
     'kit_lawful kit_comb2 (comb_pending va_pending va_pending)'),
    ('c01_comb3_lawful',
     'kit_lawful kit_comb3 (comb_pending (comb_pending va_pending va_pending) sa_pending)'),
    ('c01_combinator_side_by_side',
     'forall (U W M P : Type) (mu : U -> U -> U) (du : U -> M -> U) (pu : U -> U -> U -> U * U * U) (mw : W -> W -> W) (dw : W -> M -> W) (pw : W -> W -> W -> W * W * W) (interp : P -> U * W -> bool) (iu : P -> U -> bool) (iw : P -> W -> bool) (d0 : U) (d1 : W) (ops : list (op (U * W) M P)), (Forall (search_ok fst interp iu) ops -> map (rmap fst) (run (comb_merge mu mw) (upd_of (comb_merge mu mw)) (comb_modify du dw) (comb_push pu pw) interp (d0, d1) None ops) = run mu (upd_of mu) du pu iu d0 None (map (omap fst) ops)) /\\ (Forall (search_ok snd interp iw) ops -> map (rmap snd) (run (comb_merge mu mw) (upd_of (comb_merge mu mw)) (comb_modify du dw) (comb_push pu pw) interp (d0, d1) None ops) = run mw (upd_of mw) dw pw iw d1 None (map (omap snd) ops))'),
    ('c01_concat_lawful',
     'kit_lawful kit_concat cc_pending'),
    ('c01_affine_lawful',
     'kit_lawful kit_affine af_pending'),
    ('c01_flip_lawful',
     'kit_lawful kit_flip fl_pending'),
    ('c01_minkey_lawful',
     'kit_lawful kit_minkey no_pending'),
    ('c01_maxkey_lawful',
     'kit_lawful kit_maxkey no_pending'),
    ('c01_key_tie_right',
     'forall a b : Z * Z, fst a = fst b -> kmin_merge a b = b /\\ kmax_merge a b = b'),
    ('c01_minf_lawful',
     'kit_lawful kit_minf no_pending'),
    ('c01_maxf_lawful',
     'kit_lawful kit_maxf no_pending'),
    ('c01_minaddkey_lawful',
     'kit_lawful kit_minaddkey kva_pending'),
    ('c01_maxaddkey_lawful',
     'kit_lawful kit_maxaddkey kva_pending'),
    ('c01_sumcat_lawful',
     'kit_lawful kit_sumcat no_pending'),
    ('c01_combcat_lawful',
     'kit_lawful kit_combcat (comb_pending cc_pending cc_pending)'),
    ('c01_combunit_lawful',
     'kit_lawful kit_combunit (comb_pending no_pending (comb_pending no_pending no_pending))'),
    ('c01_combflip_lawful',
     'kit_lawful kit_combflip (comb_pending fl_pending no_pending)'),
    ('c01_model_check_spec_check',
     'forall c : C01.Corr.case, C01.Corr.model_check c = true -> C01.Corr.spec_check c = true'),
]
RULE = ("histories on 21 item types (plus 9 built-in items x 14 primitive element types, see (h)); the first 11 (Min, Max, Sum, MinAdd, MaxAdd, SumAdd over i64, Combinator<MinAdd,MaxAdd>, "
        "Combinator<Combinator<MinAdd,MaxAdd>,SumAdd>, a user Concat item with non-commutative merge and Assign|Append "
        "modifiers, a user affine-tag item mod 998244353, a user bit-flip item whose modifier type is the zero-sized () "
        "although it is lazy): sizes 1-40 (mostly <= 17 and 15,16,17,31,32,33), 1-60 operations, "
        "set:modify:ask:bound about 2:3:3:2 plus debug(), re-construction (new / from_slice / from_iter) and a few operations "
        "violating the asserted preconditions; ranges biased to node boundaries (vl, m, m+1, vr of the implicit tree), single "
        "elements and the full range; non-trivial = a range modify or a set is later followed by a query or search over a "
        "different, overlapping range; plus two targeted families: (a) Flip histories where a flip over a range made of "
        "whole inner nodes is immediately followed by searches / queries that must descend through those nodes, (b) "
        "constructions (new / from_slice / from_iter) and sets whose items carry a non-zero lazy tag of their own (MinAdd / "
        "MaxAdd / SumAdd { md != 0 }, componentwise in the Combinators, Flip { flip: true }), in particular as the fill value "
        "of new and as the first element of a slice, then single-element and range queries, debug(), searches, "
        "modifications, and trees rebuilt from the items another tree returned (for (b) non-trivial also = a query after "
        "such a construction); "
        "(c) 10 more item types where the choice and the order of operands is observable - Min / Max / MinAdd / MaxAdd over an "
        "element type Keyed {key, id} ordered by key only (ties keep the right operand; ids tell tied elements apart), Min / Max "
        "over f64 on the two zeros and small integral values (observed through to_bits), Sum over strings with + = "
        "concatenation, Combinator<Concat, Concat>, the right-nested Combinator<Min, Combinator<Max, Sum>> built with From, "
        "Combinator<Flip, Sum> - in general histories and in a ties family (2-3 distinct keys, sizes 2-33, sets with fresh ids, "
        "range adds of +-1 that create and destroy ties, queries on node ranges, searches, debug()); (d) boundary inputs of the "
        "old kinds: Min / Max elements at i64::MIN / MAX (their Default values), MinAdd / MaxAdd / comb2 elements at and next "
        "to i64::MAX with modifiers <= 0 or at i64::MIN with modifiers >= 0 (no overflow), SumAdd leaves with len 0, 2, 3, 5 "
        "(also in comb3), MinAdd<i32>, SumAdd<u64> and - through the order isomorphism x -> x + 2^63, which maps the Default "
        "values onto each other - Min<u64> / Max<u64> instantiations checked against the same model, Min / Max / Sum built through "
        "From half of the time, from_iter fed a Vec iterator, a lazy map adaptor or a rev() by length mod 3; (e) entry points "
        "and preconditions: Segtree::new_raw for the idempotent kinds (same model op as new), from_slice(&[]), "
        "from_iter(empty), new_raw(0), modify and ask with l > r (also beyond n); (f) large trees n in {63..65, 127..129, "
        "255..257, 1000, 1024, 1025, 4097} with 6-10 operations (4 cases in the quick tier, 52 in the thorough tier); (g) "
        "searches whose predicate first panics on its 1st-6th call (caught) and are then repeated: the repeated search and the "
        "queries after it must not notice; executor self-checks that make the observation unreadable when they fail: after "
        "every debug() each range is asked again and compared with the left fold of merge over the single-element answers "
        "(stored inner nodes = query-time merges, for any element type), Concat::push verifies that its two arguments are its "
        "left and right child in this order, Concat overrides update; "
        "(h) the width family - behaviour the items inherit from the sibling crate rlib_num_traits through trait impls "
        "selected by the element type (MinMax::{MIN, MAX} = the Default of Min / Max / MinAdd / MaxAdd, ZeroOne::ONE = the len of a "
        "fresh SumAdd leaf): a macro table in the executor instantiates Min, Max, Sum, MinAdd, MaxAdd, SumAdd, "
        "Combinator<MinAdd,MaxAdd>, Combinator<Combinator<MinAdd,MaxAdd>,SumAdd>, Combinator<Min,Combinator<Max,Sum>> over each of "
        "i8, i16, i32, i64, i128, isize, u8, u16, u32, u64, u128, usize, f32, f64 (kinds w.<type>.<kind>, built through new and "
        "From alternately); a history whose every intermediate number fits the type (bound computed by the generator) must print "
        "the observation line of the i64 kind, so all copies share one Coq term: a fixed grid (every item x every type, every run: "
        "tagged and weighted leaves, range adds, queries, both searches, all three constructors, debug(); a twin with negative "
        "numbers on the signed types and floats; scaled by 2^70 on i128 / u128) plus random histories in three magnitudes (values "
        "0..3 / -3..3 on sizes 1-6 for the 8-bit types, the ordinary ranges for 16 bits and up, 2^64..2^100 on i128 / u128 only); "
        "at every debug() the executor also compares, with std's values, ZeroOne::{ZERO, ONE}, MinMax::{MIN, MAX} and Default of "
        "the element type as the items see them, every field of Default::default() of the item (componentwise for the "
        "Combinators) and of new(1) / from(1) (the len of a fresh SumAdd leaf included); a difference makes the observation "
        "unreadable; (i) queries that fail: a user item CkSum (Sum<i64> whose merge is checked_add().expect, same tokens and "
        "Coq terms as the kind sum) over arrays with 2-4 values next to +-i64::MAX among small ones, chosen so that every tree "
        "node fits i64 but some ranges do not (sets keep that invariant); a query over such a range may panic, the panic is "
        "caught and the very next operations are ordinary queries on the same tree, compared with the plain array as usual "
        "(history continues after a caught panic: a refused query - chunk p on a range some contiguous part of which does not "
        "fit i64 - is taken out of the history given to Coq; any other panic, and an answer where the total does not fit, "
        "stays in and fails); (j) pairs with a user half: Combinator<MinAdd<i64>, Raise> and Combinator<MaxAdd<i64>, "
        "Combinator<MinAdd<i64>, Raise>> where Raise is a lawful user item over the same modifier type (merge = max, modify m: "
        "v = max(v, m), pending modifiers composed by max, so they do not cancel when the adds do), sizes 2-17, range "
        "modifications on whole inner nodes followed 3 times out of 5 by the cancelling one (+m then -m) and 0 modifiers on "
        "the same ranges, then sets and queries below that node, tagged input items; the executor runs the pair beside its "
        "two halves in separate trees and beside a plain array of items (modify = T::modify elementwise, query = left fold of "
        "T::merge) and compares every answer by value with both - a difference prints the failure token X (an observation no "
        "model value equals and no specification accepts) - while the first half's fields go to Coq as a minadd / maxadd "
        "history")
TRUSTED = ["executor harness/crates/c01 (drives rlib_segtree::Segtree with the listed item types, defines the three user items "
           "and the element types Keyed and Cat, "
           "prints every returned item with all its fields, the debug() string and the arguments each search closure received; "
           "its self-checks - the comparison of the constants of rlib_num_traits with std's included - only ever turn an "
           "observation into an unreadable one; it also defines the user items CkSum and Raise, and for the pair kinds craise / "
           "craise3 the side-by-side trees, the plain array of items and their comparison by value, whose failure token X the "
           "plugin maps to an observation nothing accepts)",
           "checks/c01.py refused_asks: for CkSum the plugin, not Coq, decides which caught query panics were legitimate (some "
           "contiguous part of the range has a sum outside i64, computed on its own plain array) and removes exactly those "
           "queries from the history before it is printed as a Coq term",
           "checks/c01.py (history generator, Coq term printer, parser of the derived-Debug rendering: the rendering is "
           "re-generated from the parsed numbers and compared with the string the implementation produced)"]
ASSUMPTIONS = ["i64 values are modelled as unbounded Z: generated values keep every intermediate below 2^40, or sit next to one end "
               "of i64 with all modifiers pointing away from it (Min / Max, which do no arithmetic, see both ends); MinAdd<i32> and "
               "SumAdd<u64> are compared with the same Z model on small values, Min<u64> / Max<u64> on values shifted by 2^63",
               "the width family (every built-in item over i8 ... u128, isize, usize, f32, f64) is compared with the same Z model on "
               "histories whose intermediate numbers all fit the type (for f32 / f64: are integers the type holds exactly): the "
               "bound is computed by the generator (sum of all |values| and |tags| plus |modifier| * total length); overflow and "
               "rounding behaviour of the narrow types is outside the check; on i128 / u128 magnitudes up to 2^107 occur",
               "f64 elements are the two zeros and integral values below 2^50, modelled as (value, sign bit of a zero); NaN and "
               "infinities are not generated",
               "a search interrupted by a panicking predicate is not modelled itself: the executor repeats it, and the model "
               "(pushes are idempotent, searches leave the array alone) predicts the repeated search and everything after it",
               "CkSum: the model has no refused query; a query the implementation refuses (caught panic) on a range with a part "
               "that does not fit i64 is not an operation of the modelled history (which association of merges overflows first is "
               "left open), everything after it is; Raise and the pair-level comparison (craise / craise3) are not modelled in Coq "
               "beyond c01_combinator_side_by_side: only the first half's observation is",
               "the model branches on the shape (leaf / inner node) where the code tests vl == vr; both are built over the same ranges",
               "lower_bound(l, _) with l >= n (out-of-bounds indexing inside the code, not asserted) is outside the model and never generated"]

PM = 998244353
I64_MAX, I64_MIN = 2 ** 63 - 1, -2 ** 63
KINDS = ["min", "max", "sum", "minadd", "maxadd", "sumadd", "comb2", "comb3", "concat", "affine", "flip"]
# element types / combinations where the choice and the order of operands is observable
KEYED_KINDS = ("minkey", "maxkey", "minaddkey", "maxaddkey", "minf", "maxf")   # item values are strings "key/id"
F64_KINDS = ("minf", "maxf")
STR_KINDS = ("concat", "sumcat", "combcat")                                     # item values are strings
NEW_KINDS = ["minkey", "maxkey", "minaddkey", "maxaddkey", "minf", "maxf", "sumcat", "combcat", "combunit", "combflip"]
CTOR = {"min": "CMin", "max": "CMax", "sum": "CSum", "minadd": "CMinAdd", "maxadd": "CMaxAdd", "sumadd": "CSumAdd",
        "comb2": "CComb2", "comb3": "CComb3", "concat": "CConcat", "affine": "CAffine", "flip": "CFlip",
        "minkey": "CMinKey", "maxkey": "CMaxKey", "minaddkey": "CMinAddKey", "maxaddkey": "CMaxAddKey",
        "minf": "CMinF", "maxf": "CMaxF", "sumcat": "CSumCat", "combcat": "CCombCat", "combunit": "CCombUnit",
        "combflip": "CCombFlip"}
ARITY = {"min": 1, "max": 1, "sum": 1, "minadd": 2, "maxadd": 2, "sumadd": 3, "comb2": 4, "comb3": 7, "affine": 4, "flip": 3,
         "minkey": 2, "maxkey": 2, "minf": 2, "maxf": 2, "minaddkey": 4, "maxaddkey": 4, "combunit": 3, "combflip": 4}
UNIT_KINDS = ("min", "max", "sum", "minkey", "maxkey", "minf", "maxf", "sumcat", "combunit")   # M = () and really non-lazy
UNIT_MOD_KINDS = UNIT_KINDS + ("flip", "combflip")   # M = (): the modifier is the unit value (Flip is lazy all the same)
# input items may carry a lazy tag: value [v, md] (sumadd / comb3 also [v, md, len]: a weighted leaf)
MD_KINDS = ("minadd", "maxadd", "sumadd", "comb2", "comb3", "flip", "minaddkey", "maxaddkey", "combflip")
LEN_KINDS = ("sumadd", "comb3")
IDEMPOTENT_KINDS = ("min", "max", "minkey", "maxkey", "minf", "maxf")   # merge(v, v) = v: new_raw(n, v) is new(n, v)
# the same model kind run on another instantiation of the executor (case key "exe")
EXE_OF = {"minadd32": "minadd", "sumaddu64": "sumadd", "minu64": "min", "maxu64": "max",
          "cksum": "sum", "craise": "minadd", "craise3": "maxadd"}
# cksum: a user item like Sum<i64> whose merge is checked_add().expect(): queries may panic (caught), see refused_asks.
# craise / craise3: Combinator<MinAdd, Raise> / Combinator<MaxAdd, Combinator<MinAdd, Raise>> (Raise: user chmax item over
# the same modifier type) run beside their components in separate trees and a plain array; the observation is the
# first half's (= the minadd / maxadd line), a disagreement prints `X ...`.  These cases never leave their executor.
STICKY_EXE = ("cksum", "craise", "craise3")
# Min<u64> / Max<u64>: the executor maps the i64 input x to the u64 x + 2^63 (order isomorphism; u64::MAX <-> i64::MAX,
# 0 <-> i64::MIN: the Default values correspond) and prints items back the same way; debug() shows the raw u64
SHIFTED_EXE = {"minu64": 2 ** 63, "maxu64": 2 ** 63}
# The width family: executor kind "w.<type>.<kind>" = the built-in item <kind> over the primitive <type> (every type for
# which rlib_num_traits implements MinMax / ZeroOne).  Same tokens, same encodings, hence the same observation line and the
# same Coq term as the i64 kind on a history whose intermediate values all fit the type: (lowest, highest) value the type
# represents exactly (f32 / f64: the integers it holds without rounding).
WKINDS = ["min", "max", "sum", "minadd", "maxadd", "sumadd", "comb2", "comb3", "combunit"]
WTYPES = [("i8", -2 ** 7, 2 ** 7 - 1), ("u8", 0, 2 ** 8 - 1), ("i16", -2 ** 15, 2 ** 15 - 1), ("u16", 0, 2 ** 16 - 1),
          ("i32", -2 ** 31, 2 ** 31 - 1), ("u32", 0, 2 ** 32 - 1), ("i64", -2 ** 63, 2 ** 63 - 1), ("u64", 0, 2 ** 64 - 1),
          ("isize", -2 ** 63, 2 ** 63 - 1), ("usize", 0, 2 ** 64 - 1), ("i128", -2 ** 127, 2 ** 127 - 1),
          ("u128", 0, 2 ** 128 - 1), ("f32", -2 ** 24, 2 ** 24), ("f64", -2 ** 53, 2 ** 53)]
WFLOAT = ("f32", "f64")
BIG_LIM = 2 ** 126


def width_exe(exe):
    """(type, kind) of a width executor kind, None for the others"""
    if exe and exe.startswith("w."):
        _w, ty, kind = exe.split(".")
        if kind not in WKINDS or ty not in [t[0] for t in WTYPES]:
            raise ValueError("bad width executor kind %r" % exe)
        return ty, kind
    return None


class BadObs(Exception):
    """the executor printed something that cannot be the expected kind of observation (a self-check failed)"""


def key_of(v):
    return int(v.split("/")[0])


def id_of(v):
    return int(v.split("/")[1])


def rot(s):
    return s.translate({97: 98, 98: 99, 99: 97})


# ----------------------------------------------------------------------------- printing
def z(v):
    return "(%d)" % v if v < 0 else "%d" % v


def nat(v):
    return "%d%%nat" % v


def coq_str(s):
    return "[" + ";".join(str(ord(ch)) for ch in s) + "]"


def tok_str(s):
    return s if s else "_"


def item_from_fields(kind, f):
    """Coq term of a full item from the flat list of its integer fields"""
    if kind in ("min", "max", "sum"):
        return z(f[0])
    if kind in ("minadd", "maxadd"):
        return "(VA %s %s)" % (z(f[0]), z(f[1]))
    if kind == "sumadd":
        return "(SA %s %s %s)" % (z(f[0]), z(f[1]), z(f[2]))
    if kind == "comb2":
        return "(VA %s %s, VA %s %s)" % tuple(z(x) for x in f)
    if kind == "comb3":
        return "((VA %s %s, VA %s %s), SA %s %s %s)" % tuple(z(x) for x in f)
    if kind == "affine":
        return "(AF %s %s %s %s)" % tuple(z(x) for x in f)
    if kind == "flip":
        if f[2] not in (0, 1):
            raise ValueError("bad flip flag %r" % (f,))
        return "(FL %s %s %s)" % (z(f[0]), z(f[1]), "true" if f[2] else "false")
    if kind in ("minkey", "maxkey", "minf", "maxf"):
        return "(%s, %s)" % (z(f[0]), z(f[1]))
    if kind in ("minaddkey", "maxaddkey"):
        return "(KVA (%s, %s) (%s, %s))" % tuple(z(x) for x in f)
    if kind == "combunit":
        return "(%s, (%s, %s))" % tuple(z(x) for x in f)
    if kind == "combflip":
        return "(%s, %s)" % (item_from_fields("flip", f[0:3]), z(f[3]))
    raise ValueError(kind)


def v_md(kind, v):
    """an input item value is v, or [v, md] (MD_KINDS only): the item carries the pending lazy tag md"""
    if isinstance(v, list):
        if kind not in MD_KINDS or len(v) != (3 if len(v) == 3 and kind in LEN_KINDS else 2):
            raise ValueError("bad item value %r for %s" % (v, kind))
        return v[0], v[1]
    return v, 0


def len_of(v):
    """len field of a SumAdd leaf: 1 (SumAdd::new) unless the item is the weighted [v, md, len]"""
    return v[2] if isinstance(v, list) and len(v) == 3 else 1


def val_of(v):
    return v[0] if isinstance(v, list) else v


def input_fields(kind, v):
    """fields of the item the executor builds from the input token v (v:md for a tagged item)"""
    if kind == "affine":
        return [v % PM, 1, 1, 0]
    ln = len_of(v)
    v, md = v_md(kind, v)
    if kind in KEYED_KINDS:
        k, i = key_of(v), id_of(v)
        if kind in F64_KINDS and (i not in (0, 1) or (i == 1 and k != 0)):
            raise ValueError("bad f64 item %r" % (v,))
        return [k, i, md, 0] if kind in ("minaddkey", "maxaddkey") else [k, i]
    return {"min": [v], "max": [v], "sum": [v], "minadd": [v, md], "maxadd": [v, md], "sumadd": [v, ln, md],
            "comb2": [v, md, v, md], "comb3": [v, md, v, md, v, ln, md], "flip": [v, 1, md],
            "combunit": [v, v, v], "combflip": [v, 1, md, v]}[kind]


def coq_item_in(kind, v):
    if kind == "concat":
        return "(CC [%s] None)" % coq_str(v)
    if kind == "sumcat":
        return coq_str(v)
    if kind == "combcat":
        return "(CC [%s] None, CC [%s] None)" % (coq_str(v), coq_str(rot(v)))
    return item_from_fields(kind, input_fields(kind, v))


def coq_mod(kind, m):
    if kind in UNIT_MOD_KINDS:
        return "tt"
    if kind in ("concat", "combcat"):
        return "(%s %s)" % ("CAssign" if m[0] == "as" else "CAppend", coq_str(m[1]))
    if kind == "affine":
        return "(%s, %s)" % (z(m[0]), z(m[1]))
    if kind in ("minaddkey", "maxaddkey"):
        return "(%s, 0)" % z(m)
    return z(m)


def coq_pred(p):
    h = p[0]
    if h == "T":
        return "PTrue"
    if h == "F":
        return "PFalse"
    if h == "ge":
        return "(PGe %s)" % z(p[1])
    if h == "le":
        return "(PLe %s)" % z(p[1])
    if h == "fst":
        return "(PFst %s)" % coq_pred(p[1])
    if h == "snd":
        return "(PSnd %s)" % coq_pred(p[1])
    if h == "np":
        return "(PNotPrefix %s)" % coq_str(p[1])
    if h == "lenge":
        return "(PLenGe %s)" % z(p[1])
    raise ValueError(p)


def tok_pred(p):
    h = p[0]
    if h in ("T", "F"):
        return h
    if h in ("ge", "le", "lenge"):
        return "%s %d" % (h, p[1])
    if h in ("fst", "snd"):
        return "%s %s" % (h, tok_pred(p[1]))
    if h == "np":
        return "np %s" % tok_str(p[1])
    raise ValueError(p)


def coq_op(kind, o):
    t = o["op"]
    if t == "new":
        return "ONew %s %s" % (nat(o["n"]), coq_item_in(kind, o["v"]))
    if t in ("slice", "iter"):
        return "%s [%s]" % ("OFromSlice" if t == "slice" else "OFromIter", "; ".join(coq_item_in(kind, v) for v in o["xs"]))
    if t == "set":
        return "OSet %s %s" % (nat(o["i"]), coq_item_in(kind, o["v"]))
    if t == "mod":
        return "OModify %s %s %s" % (nat(o["l"]), nat(o["r"]), coq_mod(kind, o["m"]))
    if t == "ask":
        return "OAsk %s %s" % (nat(o["l"]), nat(o["r"]))
    if t == "lb":
        return "OLowerBound %s %s" % (nat(o["l"]), coq_pred(o["p"]))
    if t == "lbr":
        return "OLowerBoundRev %s %s" % (nat(o["r"]), coq_pred(o["p"]))
    if t == "dbg":
        return "ODebug"
    raise ValueError(t)


def tok_item(kind, v):
    if kind in STR_KINDS:
        return tok_str(v)
    if isinstance(v, list):
        if len(v) == 3:
            v_md(kind, v)
            return "%d:%d:%d" % tuple(v)
        return "%s:%d" % v_md(kind, v)
    return str(v)


def tok_mod(kind, m):
    if kind in UNIT_MOD_KINDS:
        return "0"
    if kind in ("concat", "combcat"):
        return "%s %s" % (m[0], tok_str(m[1]))
    if kind == "affine":
        return "%d %d" % (m[0], m[1])
    return str(m)


def tok_op(kind, o):
    t = o["op"]
    if t == "new":
        # "raw": Segtree::new_raw instead of Segtree::new (generated for idempotent merges only: same model op)
        return "%s %d %s" % ("raw" if o.get("raw") else "new", o["n"], tok_item(kind, o["v"]))
    if t in ("slice", "iter"):
        return "%s %d %s" % (t, len(o["xs"]), " ".join(tok_item(kind, v) for v in o["xs"]))
    if t == "set":
        return "set %d %s" % (o["i"], tok_item(kind, o["v"]))
    if t == "mod":
        return "mod %d %d %s" % (o["l"], o["r"], tok_mod(kind, o["m"]))
    if t == "ask":
        return "ask %d %d" % (o["l"], o["r"])
    if t == "lb":
        # "panic" k: the search is first run with a predicate that panics on its k-th call, then again, plainly
        if o.get("panic"):
            return "lbp %d %d %s" % (o["l"], o["panic"], tok_pred(o["p"]))
        return "lb %d %s" % (o["l"], tok_pred(o["p"]))
    if t == "lbr":
        if o.get("panic"):
            return "lbrp %d %d %s" % (o["r"], o["panic"], tok_pred(o["p"]))
        return "lbr %d %s" % (o["r"], tok_pred(o["p"]))
    return "dbg"


def harness_line(c):
    exe = c.get("exe", c["kind"])
    w = width_exe(exe)
    if (w[1] if w else EXE_OF.get(exe, exe)) != c["kind"]:
        raise ValueError("bad executor kind %r for %s" % (exe, c["kind"]))
    return " ".join([exe] + [tok_op(c["kind"], o) for o in c["ops"]])


# ----------------------------------------------------------------------------- parsing the executor's output
def untok(s):
    return "" if s == "_" else s


def parse_enc(kind, s):
    """executor encoding of a full item -> Coq term"""
    if kind == "concat":
        m = re.fullmatch(r"(\d+):([a-z_|]*);(N|[AP][a-z_]+)", s)
        if not m:
            raise ValueError("bad concat item %r" % s)
        k = int(m.group(1))
        parts = [untok(p) for p in m.group(2).split("|")] if k > 0 else []
        if len(parts) != k:
            raise ValueError("bad concat item %r" % s)
        tag = m.group(3)
        tagt = "None" if tag == "N" else "(Some (%s %s))" % ("CAssign" if tag[0] == "A" else "CAppend", coq_str(untok(tag[1:])))
        return "(CC [%s] %s)" % ("; ".join(coq_str(p) for p in parts), tagt)
    if kind == "sumcat":
        if not re.fullmatch(r"[a-z_]+", s):
            raise ValueError("bad string item %r" % s)
        return coq_str(untok(s))
    if kind == "combcat":
        a, _, b = s.partition(",")
        return "(%s, %s)" % (parse_enc("concat", a), parse_enc("concat", b))
    if "X" in s.split(","):
        raise BadObs("a float that is neither a small integral value nor a zero")
    f = [int(x) for x in s.split(",")]
    if len(f) != ARITY[kind]:
        raise ValueError("bad item %r for %s" % (s, kind))
    if kind in F64_KINDS and (f[1] not in (0, 1) or (f[1] == 1 and f[0] != 0)):
        raise BadObs("bad f64 encoding %r" % s)
    return item_from_fields(kind, f)


def render_debug(kind, f):
    """Rust's derived Debug rendering of one built-in item with integer fields f"""
    if kind in ("min", "max", "sum"):
        return "%s { v: %d }" % ({"min": "Min", "max": "Max", "sum": "Sum"}[kind], f[0])
    if kind in ("minadd", "maxadd"):
        return "%s { v: %d, md: %d }" % ("MinAdd" if kind == "minadd" else "MaxAdd", f[0], f[1])
    if kind == "sumadd":
        return "SumAdd { v: %d, len: %d, md: %d }" % tuple(f)
    if kind == "comb2":
        return "Combinator(%s, %s)" % (render_debug("minadd", f[0:2]), render_debug("maxadd", f[2:4]))
    if kind == "comb3":
        return "Combinator(%s, %s)" % (render_debug("comb2", f[0:4]), render_debug("sumadd", f[4:7]))
    if kind in ("minkey", "maxkey"):
        return "%s { v: Keyed { key: %d, id: %d } }" % ("Min" if kind == "minkey" else "Max", f[0], f[1])
    if kind in ("minaddkey", "maxaddkey"):
        return "%s { v: Keyed { key: %d, id: %d }, md: Keyed { key: %d, id: %d } }" % (
            ("MinAdd" if kind == "minaddkey" else "MaxAdd",) + tuple(f))
    if kind == "combunit":
        return "Combinator(Min { v: %d }, Combinator(Max { v: %d }, Sum { v: %d }))" % tuple(f)
    if kind == "combflip":
        return "Combinator(%d,%d,%d, Sum { v: %d })" % tuple(f)
    raise ValueError(kind)


def parse_debug(kind, s, shift=0, flt=False):
    """debug() string -> list of Coq item terms; None if the rendering is not the expected one
    (shift: the executor's element values are the model's plus shift, see SHIFTED_EXE; flt: the width family over f32 /
    f64, whose integral values are rendered `3.0` - a `-0.0` stays unreadable)"""
    if not (s.startswith("[") and s.endswith("]")):
        return None
    if flt:
        # anything else (3.5, 1e16, -0.0 -> -0) fails the re-rendering comparison below
        s = re.sub(r"(?<![\d.])(-?\d+)\.0\b", r"\1", s)
    if kind in ("concat", "affine", "flip"):     # their Debug impl (in the executor) prints the item encoding
        body = s[1:-1]
        try:
            return [parse_enc(kind, e) for e in body.split(", ")] if body else []
        except ValueError:
            return None
    if kind == "sumcat":                          # Sum { v: <Cat> }, Cat's Debug (executor) prints the string token
        strs = re.findall(r"Sum \{ v: ([a-z_]+) \}", s)
        if "[" + ", ".join("Sum { v: %s }" % e for e in strs) + "]" != s:
            return None
        return [coq_str(untok(e)) for e in strs]
    if kind == "combcat":                         # derived Debug of the tuple struct around Concat's own Debug
        prs = re.findall(r"Combinator\(([^,() ]+), ([^,() ]+)\)", s)
        if "[" + ", ".join("Combinator(%s, %s)" % e for e in prs) + "]" != s:
            return None
        try:
            return ["(%s, %s)" % (parse_enc("concat", a), parse_enc("concat", b)) for a, b in prs]
        except ValueError:
            return None
    if kind in F64_KINDS:                         # Min { v: -0.0 } / Min { v: 3.0 }
        nm = "Min" if kind == "minf" else "Max"
        vals = re.findall(nm + r" \{ v: (-?\d+)\.0 \}", s)
        if "[" + ", ".join("%s { v: %s.0 }" % (nm, e) for e in vals) + "]" != s:
            return None
        out = []
        for e in vals:
            k = int(e)
            if str(k) != e and e != "-0":
                return None
            out.append(item_from_fields(kind, [k, 1 if e == "-0" else 0]))
        return out
    nums = [int(x) for x in re.findall(r"-?\d+", s)]
    a = ARITY[kind]
    if len(nums) % a:
        return None
    groups = [nums[i:i + a] for i in range(0, len(nums), a)]
    if "[" + ", ".join(render_debug(kind, g) for g in groups) + "]" != s:
        return None
    return [item_from_fields(kind, [x - shift for x in g]) for g in groups]


def coq_out(kind, chunk, shift=0, flt=False):
    if chunk == "u":
        return "OUnit"
    if chunk == "p":
        return "OPanic"
    tag, _, rest = chunk.partition(" ")
    if tag == "X":
        return "OBound None []"      # failed executor self-check (pair kinds): no query / update / construction ever gives this
    if tag == "i":
        try:
            return "OItem %s" % parse_enc(kind, rest)
        except BadObs:
            return "OPanic"
    if tag == "d":
        items = parse_debug(kind, rest, shift, flt)
        if items is None:
            return "OPanic"          # unexpected rendering: cannot agree with the model's OItems
        return "OItems [%s]" % "; ".join(items)
    if tag == "b":
        t = rest.split(" ")
        res = "None" if t[0] == "-" else "(Some %s)" % nat(int(t[0]))
        try:
            return "OBound %s [%s]" % (res, "; ".join(parse_enc(kind, e) for e in t[1:]))
        except BadObs:
            return "OPanic"
    raise ValueError("bad chunk %r" % chunk)


def fits64(x):
    return I64_MIN <= x <= I64_MAX


def ck_nodes_fit(a):
    """every node of the implicit tree over the array a holds a sum that fits i64"""
    pre = [0]
    for x in a:
        pre.append(pre[-1] + x)
    return all(fits64(x) for x in a) and all(fits64(pre[vr + 1] - pre[vl]) for vl, vr, _ in nodes_of(len(a)))


def ck_may_refuse(a, l, r):
    """some contiguous part of a[l..r] has a sum outside i64: a checked merge, in whatever association, may panic"""
    pre = [0]
    for x in a[l:r + 1]:
        pre.append(pre[-1] + x)
    return any(not fits64(pre[j] - pre[i]) for i in range(len(pre)) for j in range(i + 1, len(pre)))


def ck_arrays(ops):
    """cksum: the plain array before each operation (None: no tree yet), and whether every history state is one in
    which all tree nodes fit i64 (constructions and sets then cannot panic)"""
    a, before, ok = None, [], True
    for o in ops:
        before.append(None if a is None else list(a))
        t = o["op"]
        if t == "new" and o["n"] >= 1:
            a = [o["v"]] * o["n"]
        elif t in ("slice", "iter") and o["xs"]:
            a = list(o["xs"])
        elif t == "set" and a is not None and o["i"] < len(a):
            a[o["i"]] = o["v"]
        if a is not None and not ck_nodes_fit(a):
            ok = False
    return before, ok


def refused_asks(c, chunks):
    """cksum: indices of the queries the implementation refused (caught panic, chunk `p`) and was entitled to refuse:
    some contiguous part of the range does not fit i64.  They are no operations of the history the model sees; a panic on
    any other query, or an answer to a query whose total does not fit, stays in and fails."""
    if c.get("exe") != "cksum" or len(chunks) != len(c["ops"]):
        return set()
    before, _ = ck_arrays(c["ops"])
    out = set()
    for i, (o, ch) in enumerate(zip(c["ops"], chunks)):
        a = before[i]
        if o["op"] == "ask" and ch == "p" and a is not None and o["l"] <= o["r"] < len(a) and ck_may_refuse(a, o["l"], o["r"]):
            out.add(i)
    return out


def coq_term(c, obs, profile):
    kind = c["kind"]
    ops = c["ops"]
    if obs == "P":
        outs = []
    else:
        shift = SHIFTED_EXE.get(c.get("exe"), 0)
        w = width_exe(c.get("exe"))
        flt = bool(w) and w[0] in WFLOAT
        chunks = obs.split("\t") if obs != "" else []
        skip = refused_asks(c, chunks)
        if skip:
            ops = [o for i, o in enumerate(ops) if i not in skip]
            chunks = [ch for i, ch in enumerate(chunks) if i not in skip]
        outs = [coq_out(kind, ch, shift, flt) for ch in chunks]
    return "(%s ([%s], [%s]))" % (CTOR[kind], "; ".join(coq_op(kind, o) for o in ops), "; ".join(outs))


# ----------------------------------------------------------------------------- generation
def nodes_of(n):
    """(vl, vr, m) of every inner node of the implicit tree over [0, n-1]"""
    out, st = [], [(0, n - 1)]
    while st:
        vl, vr = st.pop()
        if vl == vr:
            continue
        m = (vl + vr) // 2
        out.append((vl, vr, m))
        st.append((vl, m))
        st.append((m + 1, vr))
    return out


def pick_n(rng, tier):
    k = rng.below(20)
    if k < 11:
        return rng.range(1, 17)
    if k < 16:
        return rng.choice([15, 16, 17, 31, 32, 33, 7, 8, 9, 3, 4, 5])
    if tier == "thorough" and k == 19:
        return rng.range(41, 120)
    return rng.range(18, 40)


def pick_range(rng, n, nodes):
    k = rng.below(20)
    if k < 5 or n == 1:
        i = rng.below(n)
        return i, i
    if k < 7:
        return 0, n - 1
    if k < 14 and nodes:
        vl, vr, m = rng.choice(nodes)
        l = rng.choice([vl, m, m + 1, vl, min(vl + 1, m)])
        r = rng.choice([m, m + 1, vr, vr, max(vr - 1, m + 1)])
        if l <= r:
            return l, r
    l = rng.below(n)
    return l, rng.range(l, n - 1)


def pick_pos(rng, n, nodes):
    k = rng.below(10)
    if k < 4 and nodes:
        vl, vr, m = rng.choice(nodes)
        return rng.choice([vl, m, m + 1, vr])
    if k < 5:
        return rng.choice([0, n - 1])
    return rng.below(n)


def rand_str(rng, lo, hi):
    return "".join(rng.choice("abc") for _ in range(rng.range(lo, hi)))


EXTREMES = [I64_MIN, I64_MIN + 1, I64_MAX - 1, I64_MAX, I64_MIN, I64_MAX, 0, -1, 1]


TINY_STYLES = ("tiny", "tinys")
BIG_STYLES = ("bigpos", "bigneg", "bigany")


def big_sign(rng, style):
    return 1 if style == "bigpos" else -1 if style == "bigneg" else rng.choice([1, -1])


def pick_value(rng, kind, style):
    if kind in STR_KINDS:
        return rand_str(rng, 0, 3)
    if kind == "affine":
        return rng.choice([rng.range(0, 9), rng.range(0, 9), rng.range(0, PM - 1), PM - 1, PM, PM + rng.range(1, 5)])
    if kind in ("flip", "combflip"):
        return rng.below(2)
    if kind in F64_KINDS:
        # mostly the two zeros (equal, different bits), a few other integral values
        k = rng.choice([0, 0, 0, 0, 0, -1, 1, 2, -3])
        return "%d/%d" % (k, rng.below(2) if k == 0 else 0)
    if kind in KEYED_KINDS:
        # few distinct keys: the children of inner nodes tie all the time; the id tells tied elements apart
        lo, hi = (0, 2) if style == "nonneg" else (-2, 3)
        return "%d/%d" % (rng.range(lo, hi), rng.range(0, 99))
    if style in TINY_STYLES:    # the width family: everything fits 8 bits
        return rng.range(0 if style == "tiny" else -3, 3)
    if style in BIG_STYLES:     # i128 / u128: magnitudes between 2^96 and 2^100
        return big_sign(rng, style) * rng.range(2 ** 96, 2 ** 100)
    if style == "hi":           # MinAdd / MaxAdd / comb2 next to i64::MAX; every modifier is <= 0, nothing overflows
        return I64_MAX - rng.choice([0, 0, 0, 1, 1, rng.range(2, 60)])
    if style == "lo":           # ... next to i64::MIN with modifiers >= 0
        return I64_MIN + rng.choice([0, 0, 0, 1, 1, rng.range(2, 60)])
    if style == "extreme":      # Min / Max only (no arithmetic): the ends of i64, Min::default() / Max::default() as elements
        return rng.choice(EXTREMES)
    if style == "nonneg":
        return rng.range(0, 30)
    return rng.range(-50, 50)


def pick_md(rng, kind, style):
    """a non-zero lazy tag for an input item"""
    if kind in ("flip", "combflip"):
        return 1
    if kind in KEYED_KINDS:
        return rng.choice([-2, -1, 1, 2])
    if style in TINY_STYLES:
        return rng.choice([1, 2] if style == "tiny" else [-2, -1, 1, 2])
    if style in BIG_STYLES:     # tags and modifiers between 2^64 and 2^80: the values keep their sign
        return (1 if style == "bigpos" else rng.choice([1, -1])) * rng.range(2 ** 64, 2 ** 80)
    if style == "hi":
        return -rng.range(1, 20)
    if style in ("nonneg", "lo"):
        return rng.range(1, 20)
    m = rng.range(-20, 20)
    return m if m else 7


def pick_item(rng, kind, style, tagged):
    """an input item; with probability tagged % (MD_KINDS only) it carries a non-zero lazy tag: [v, md]"""
    v = pick_value(rng, kind, style)
    if tagged and kind in MD_KINDS and rng.below(100) < tagged:
        return [v, pick_md(rng, kind, style)]
    return v


def pick_mod(rng, kind, style):
    if kind in UNIT_MOD_KINDS:
        return 0
    if kind in ("concat", "combcat"):
        return [rng.choice(["as", "ap", "ap"]), rand_str(rng, 0, 2)]
    if kind in KEYED_KINDS:
        return rng.choice([-1, 1, -1, 1, 0, 2, -2])     # small steps: range adds create and destroy ties
    if kind == "affine":
        k = rng.below(8)
        small = rng.chance(2, 3)
        c = rng.range(0, 9) if small else rng.range(0, PM - 1)
        if k < 3:
            return [0, c]                      # assign
        if k < 6:
            return [1, c]                      # add
        return [rng.range(0, 5) if small else rng.range(0, PM - 1), c]
    if style in TINY_STYLES:
        return rng.range(0 if style == "tiny" else -2, 2)
    if style in BIG_STYLES:
        return rng.choice([0, 1, pick_md(rng, kind, style), pick_md(rng, kind, style)])
    if style == "hi":
        return -rng.range(0, 20)
    if style in ("nonneg", "lo"):
        return rng.range(0, 20)
    return rng.range(-20, 20)


def ident(v):
    return v


# kinds whose observable value is a tuple of simpler ones: (kind of the component, path of the component inside the
# value as PFst / PSnd, how the component's element is computed from the input value)
SUBS = {"minkey": [("min", ["fst"], key_of)], "maxkey": [("max", ["fst"], key_of)],
        "minaddkey": [("minadd", ["fst"], key_of)], "maxaddkey": [("maxadd", ["fst"], key_of)],
        "minf": [("min", ["fst"], key_of)], "maxf": [("max", ["fst"], key_of)],
        "combcat": [("concat", ["fst"], ident), ("concat", ["snd"], rot)],
        "combunit": [("min", ["fst"], ident), ("max", ["snd", "fst"], ident), ("sum", ["snd", "snd"], ident)],
        "combflip": [("flip", ["fst"], ident), ("sum", ["snd"], ident)]}


class Plain:
    """plain array kept by the generator only to aim thresholds at values that actually occur"""

    def __init__(self, kind):
        self.kind, self.a, self.w = kind, None, None
        self.lim = (I64_MIN, I64_MAX)      # thresholds are clamped to these (the big styles of i128 / u128 widen them)
        self.subs = [(Plain(k), f) for k, _path, f in SUBS.get(kind, [])]

    def widen(self, lim):
        self.lim = lim
        for sub, _f in self.subs:
            sub.widen(lim)

    def elem(self, v):
        return v % PM if self.kind == "affine" else val_of(v)     # a lazy tag carried by a leaf is not part of its value

    def construct(self, xs):
        if self.subs:
            for sub, f in self.subs:
                sub.construct([f(val_of(v)) for v in xs])
            return
        self.a = [self.elem(v) for v in xs]
        self.w = [len_of(v) for v in xs]

    def set(self, i, v):
        if self.subs:
            for sub, f in self.subs:
                sub.set(i, f(val_of(v)))
            return
        self.a[i] = self.elem(v)
        self.w[i] = len_of(v)

    def mod(self, l, r, m):
        for sub, _f in self.subs:
            sub.mod(l, r, m)
        if self.subs:
            return
        k = self.kind
        for i in range(l, r + 1):
            if k in UNIT_KINDS:
                pass
            elif k == "flip":
                self.a[i] = 1 - self.a[i]
            elif k == "concat":
                self.a[i] = m[1] if m[0] == "as" else self.a[i] + m[1]
            elif k == "affine":
                self.a[i] = (m[0] * self.a[i] + m[1]) % PM
            elif k in LEN_KINDS:
                self.a[i] += m * self.w[i]
            else:
                self.a[i] += m

    def agg(self, l, r):
        xs = self.a[l:r + 1]
        k = self.kind
        if k in ("concat", "sumcat"):
            return "".join(xs)
        if k == "affine":
            return sum(xs) % PM
        return {"min": min(xs), "minadd": min(xs), "max": max(xs), "maxadd": max(xs), "sum": sum(xs), "sumadd": sum(xs),
                "comb2": (min(xs), max(xs)), "comb3": (min(xs), max(xs), sum(xs)), "flip": sum(xs)}[k]


def pick_pred(rng, kind, plain, lo, hi, rev):
    """a predicate for a search over the prefixes [lo..k] (rev: suffixes [k..hi]); mostly monotone ones aimed at a real value"""
    if kind in SUBS:
        if kind in KEYED_KINDS and rng.chance(1, 10):
            return ["snd", [rng.choice(["ge", "le"]), rng.range(0, 99)]]    # looks at the id: hardly ever monotone (model only)
        j = rng.below(len(plain.subs))
        subkind, path, _f = SUBS[kind][j]
        p = pick_pred(rng, subkind, plain.subs[j][0], lo, hi, rev)
        if p[0] in ("T", "F"):
            return p
        for tag in reversed(path):
            p = [tag, p]
        return p
    q = rng.below(20)
    if q == 0:
        return ["T"]
    if q == 1:
        return ["F"]
    k = rng.range(lo, hi)
    v = plain.agg(k, hi) if rev else plain.agg(lo, k)
    d = rng.choice([0, 0, 0, 1, -1, 2, -3])
    wrong = q == 2            # deliberately the non-monotone direction now and then (exercises the model only)
    if kind in ("min", "minadd"):
        return ["ge" if wrong else "le", max(plain.lim[0], min(plain.lim[1], v + d))]
    if kind in ("max", "maxadd"):
        return ["le" if wrong else "ge", max(plain.lim[0], min(plain.lim[1], v + d))]
    if kind == "sum":
        return ["le" if wrong else "ge", v + d]
    if kind == "sumadd":
        if rng.chance(1, 5):
            return ["snd", ["ge", (hi - k + 1 if rev else k - lo + 1) + rng.choice([0, 0, 1])]]
        return ["fst", ["le" if wrong else "ge", v + d]]
    if kind == "comb2":
        clamp = lambda x: max(I64_MIN, min(I64_MAX, x))
        return ["fst", ["le", clamp(v[0] + d)]] if rng.chance(1, 2) else ["snd", ["ge", clamp(v[1] + d)]]
    if kind == "comb3":
        c = rng.below(4)
        if c == 0:
            return ["fst", ["fst", ["le", v[0] + d]]]
        if c == 1:
            return ["fst", ["snd", ["ge", v[1] + d]]]
        if c == 2:
            return ["snd", ["fst", ["ge", v[2] + d]]]
        return ["snd", ["snd", ["ge", (hi - k + 1 if rev else k - lo + 1)]]]
    if kind == "affine":
        if rng.chance(1, 3):
            return ["snd", ["ge", (hi - k + 1 if rev else k - lo + 1)]]
        return ["fst", ["ge", v + d]]
    if kind == "flip":
        if rng.chance(1, 6):
            return ["snd", ["ge", (hi - k + 1 if rev else k - lo + 1)]]
        if wrong:
            return ["fst", ["le", v + d]]
        return ["fst", ["ge", max(1, v + d) if rng.chance(3, 4) else v + d]]
    if kind in ("concat", "sumcat"):
        if rng.chance(1, 3):
            return ["lenge", len(v) + d]
        # "the merged string is not a prefix of w": w = a real aggregate, possibly extended or damaged
        w = v
        c = rng.below(4)
        if c == 0:
            w = w + rand_str(rng, 1, 2)
        elif c == 1 and w:
            w = w[:-1]
        elif c == 2 and w:
            i = rng.below(len(w))
            w = w[:i] + rng.choice("abc") + w[i + 1:]
        if rev:
            # suffix-growing ranges: [k..hi] grows to the left, so "not a prefix" is not monotone; use lengths more often
            if rng.chance(1, 2):
                return ["lenge", len(v) + d]
        return ["np", w]
    raise ValueError(kind)


def gen_history(rng, tier, weights, max_ops, kinds=KINDS, ppanic=12, force_style=None, sizes=None):
    """ppanic: one search in ppanic is run with a predicate that panics on one of its first calls before the real run;
    force_style / sizes: the width family (values of the given style on the plain i64 kind, sizes drawn by sizes(rng))"""
    pick_size = (lambda r, _t: sizes(r)) if sizes else pick_n
    kind = rng.choice(kinds)
    style = "nonneg" if rng.chance(1, 2) else "any"
    exe = None
    if kind in ("min", "max") and rng.chance(1, 6):
        style = "extreme"                       # i64::MIN / MAX (the Default values) among the elements
    if kind in ("min", "max") and rng.chance(1, 6):
        exe = kind + "u64"                      # Min<u64> / Max<u64> (values shifted by 2^63)
    if kind in ("minadd", "maxadd", "comb2") and rng.chance(1, 7):
        # elements at and next to i64::MAX (the value of MinAdd::default()) with modifiers <= 0, or at i64::MIN with >= 0
        style = rng.choice(["hi", "lo"] if kind == "comb2" else ["hi", "hi", "hi", "lo"] if kind == "minadd" else ["lo", "lo", "lo", "hi"])
    if kind == "minadd" and style in ("any", "nonneg") and rng.chance(1, 8):
        exe = "minadd32"                        # MinAdd<i32>
    if kind == "sumadd" and style == "nonneg" and rng.chance(1, 4):
        exe = "sumaddu64"                       # SumAdd<u64>
    if force_style:
        style, exe = force_style, None
    n = pick_size(rng, tier)
    plain = Plain(kind)
    if style in BIG_STYLES:
        plain.widen((-BIG_LIM, BIG_LIM))
    ops = []
    # one history in four on a lazy built-in / Flip kind uses input items that carry a lazy tag of their own
    tagged = rng.choice([0, 0, 0, 35]) if kind in MD_KINDS else 0
    # one SumAdd history in four has weighted leaves (len 0, 2, 3, 5 besides 1: pub field, coordinate compression)
    weighted = kind in LEN_KINDS and rng.chance(1, 4)

    def item():
        v = pick_item(rng, kind, style, tagged)
        if weighted and rng.chance(2, 3):
            v = [val_of(v), v[1] if isinstance(v, list) else 0, rng.choice([0, 0, 1, 2, 3, 5])]
        return v

    def construct():
        nonlocal n
        c = rng.below(3)
        if c == 0:
            v = item()
            o = {"op": "new", "n": n, "v": v}
            if kind in IDEMPOTENT_KINDS and rng.chance(1, 3):
                o["raw"] = 1                    # Segtree::new_raw: all nodes hold v; for these kinds the same tree as new
            ops.append(o)
            plain.construct([v] * n)
        else:
            xs = [item() for _ in range(n)]
            ops.append({"op": "slice" if c == 1 else "iter", "xs": xs})
            plain.construct(xs)

    construct()
    nodes = nodes_of(n)
    nops = rng.range(1, max_ops) if rng.chance(1, 3) else rng.range(1, max(1, max_ops // 3))
    wset, wmod, wask, wbound = weights
    total = wset + wmod + wask + wbound
    for _ in range(nops):
        q = rng.below(100)
        if q < 4:
            ops.append({"op": "dbg"})
            continue
        if q < 6:
            n = pick_size(rng, tier)
            construct()
            nodes = nodes_of(n)
            continue
        if q < 8:
            # violates an asserted precondition: must panic and leave the tree unchanged
            c = rng.below(10)
            if c == 0:
                ops.append({"op": "set", "i": n + rng.below(2), "v": pick_value(rng, kind, style)})
            elif c == 1:
                ops.append({"op": "ask", "l": rng.below(n), "r": n + rng.below(2)})
            elif c == 2 and n > 1:
                l = rng.range(1, n - 1)
                ops.append({"op": "ask", "l": l, "r": rng.below(l)})
            elif c == 3:
                ops.append({"op": "mod", "l": rng.below(n), "r": n, "m": pick_mod(rng, kind, style)})
            elif c == 4 and n > 1:
                l = rng.range(1, n - 1)          # modify with l > r (its own assert)
                ops.append({"op": "mod", "l": l, "r": rng.below(l), "m": pick_mod(rng, kind, style)})
            elif c == 5:
                l = n + rng.range(1, 3)          # both l > r and out of range
                o = {"l": l, "r": n + rng.below(l - n)}
                ops.append(dict(o, op="ask") if rng.chance(1, 2) else dict(o, op="mod", m=pick_mod(rng, kind, style)))
            elif c == 6:
                ops.append({"op": "slice", "xs": []})      # from_slice(&[]): data[0]
            elif c == 7:
                ops.append({"op": "iter", "xs": []})       # from_iter(empty): assert n != 0
            elif c == 8 and kind in IDEMPOTENT_KINDS:
                ops.append({"op": "new", "n": 0, "v": pick_value(rng, kind, style), "raw": 1})
            else:
                ops.append({"op": "new", "n": 0, "v": pick_value(rng, kind, style)})
            continue
        w = rng.below(total)
        if w < wset:
            i = pick_pos(rng, n, nodes)
            v = item()
            ops.append({"op": "set", "i": i, "v": v})
            plain.set(i, v)
        elif w < wset + wmod:
            l, r = pick_range(rng, n, nodes)
            m = pick_mod(rng, kind, style)
            ops.append({"op": "mod", "l": l, "r": r, "m": m})
            plain.mod(l, r, m)
        elif w < wset + wmod + wask:
            l, r = pick_range(rng, n, nodes)
            ops.append({"op": "ask", "l": l, "r": r})
        else:
            pos = pick_pos(rng, n, nodes)
            if rng.chance(1, 2):
                o = {"op": "lb", "l": pos, "p": pick_pred(rng, kind, plain, pos, n - 1, False)}
            else:
                o = {"op": "lbr", "r": pos, "p": pick_pred(rng, kind, plain, 0, pos, True)}
            if rng.chance(1, ppanic):
                # the predicate panics on its k-th call first; what follows must not notice
                o["panic"] = rng.choice([1, 1, 2, 3, 4, 6])
                ops.append(o)
                l, r = pick_range(rng, n, nodes)
                ops.append(rng.choice([{"op": "ask", "l": l, "r": r}, {"op": "ask", "l": 0, "r": n - 1}, {"op": "dbg"}]))
            else:
                ops.append(o)
    c = {"kind": kind, "ops": ops}
    if exe:
        c["exe"] = exe
    return c


def pick_small_n(rng, tier):
    k = rng.below(20)
    if k < 11:
        return rng.range(1, 9)
    if k < 16:
        return rng.choice([2, 3, 4, 5, 7, 8, 9, 15, 16, 17])
    if k < 19 or tier != "thorough":
        return rng.range(10, 20)
    return rng.choice([31, 32, 33, rng.range(21, 48)])


def gen_flip(rng, tier, wbound):
    """Flip (modifier type (), lazy): a flip over a range made of whole inner nodes stays pending on them; the very next
    operations are searches (wbound in 10) or queries that must descend through those nodes."""
    kind = "flip"
    n = max(2, pick_small_n(rng, tier) if rng.chance(2, 3) else pick_n(rng, tier))
    plain = Plain(kind)
    c = rng.below(4)
    if c == 0:
        v = rng.below(2)
        ops = [{"op": "new", "n": n, "v": v}]
        plain.construct([v] * n)
    else:
        xs = [pick_item(rng, kind, "any", 15 if c == 3 else 0) for _ in range(n)]
        ops = [{"op": "slice" if c == 1 else "iter", "xs": xs}]
        plain.construct(xs)
    nodes = nodes_of(n)

    def aimed(lo, hi, rev, t):
        """search over [lo..k] (rev: [k..hi]) whose threshold is the number of ones of the range ending (starting) at t"""
        q = rng.below(24)
        if q == 0:
            return ["T"]
        if q == 1:
            return ["F"]
        if q == 2:
            return ["snd", ["ge", (hi - t + 1 if rev else t - lo + 1)]]
        v = plain.agg(t, hi) if rev else plain.agg(lo, t)
        if q == 3:
            return ["fst", ["le", v]]                  # not monotone: model only
        return ["fst", ["ge", max(1, v + rng.choice([0, 0, 0, 0, 1, -1]))]]

    for _ in range(rng.range(1, 5 if tier == "quick" else 8)):
        vl, vr, m = rng.choice(nodes)
        q = rng.below(10)
        if q < 6:
            l, r = vl, vr                              # exactly one inner node
        elif q < 8:
            vl2, vr2, _m2 = rng.choice(nodes)          # from a node's left end to a node's right end
            l, r = (vl, vr2) if vl <= vr2 else (vl2, vr)
        else:
            l, r = pick_range(rng, n, nodes)
        ops.append({"op": "mod", "l": l, "r": r, "m": 0})
        plain.mod(l, r, 0)
        if rng.chance(1, 5):
            l2, r2 = pick_range(rng, n, nodes)         # a second flip: nested / cancelling pending flags
            ops.append({"op": "mod", "l": l2, "r": r2, "m": 0})
            plain.mod(l2, r2, 0)
        for _k in range(rng.range(1, 3)):
            q = rng.below(10)
            if q < wbound:
                if rng.chance(1, 2):
                    lo = rng.choice([0, vl, vl, rng.range(0, vr), rng.range(vl, vr)])
                    t = rng.range(max(lo, vl), vr) if rng.chance(4, 5) else rng.range(lo, n - 1)
                    ops.append({"op": "lb", "l": lo, "p": aimed(lo, n - 1, False, t)})
                else:
                    hi = rng.choice([n - 1, vr, vr, rng.range(vl, n - 1), rng.range(vl, vr)])
                    t = rng.range(vl, min(hi, vr)) if rng.chance(4, 5) else rng.range(0, hi)
                    ops.append({"op": "lbr", "r": hi, "p": aimed(0, hi, True, t)})
            elif q < 9:
                c = rng.below(5)
                if c == 0:
                    a, b = vl, m
                elif c == 1:
                    a, b = m + 1, vr
                elif c == 2:
                    a = b = rng.range(vl, vr)
                elif c == 3:
                    a = rng.range(0, vr)
                    b = rng.range(max(a, vl), n - 1)
                else:
                    a, b = pick_range(rng, n, nodes)
                ops.append({"op": "ask", "l": a, "r": b})
            elif rng.chance(1, 2):
                i = rng.range(vl, vr)
                v = pick_item(rng, kind, "any", 20)
                ops.append({"op": "set", "i": i, "v": v})
                plain.set(i, v)
            else:
                ops.append({"op": "dbg"})
    return {"kind": kind, "ops": ops}


def gen_tagged(rng, tier, wbound):
    """Construction from items that carry a pending lazy tag of their own (fill value of new, first element of a slice,
    elements of an iterator, set), then queries over single elements and ranges, debug(), searches, modifications."""
    kind = rng.choice(["minadd", "maxadd", "sumadd", "comb2", "comb3", "minadd", "maxadd", "sumadd", "flip",
                       "minaddkey", "combflip"])
    style = "nonneg" if rng.chance(1, 2) else "any"
    plain = Plain(kind)
    ops = []
    n = 0
    nodes = []

    def construct(xs_from=None):
        nonlocal n, nodes
        n = len(xs_from) if xs_from else pick_small_n(rng, tier)
        c = rng.below(6)
        if c < 2 and not xs_from:
            v = pick_item(rng, kind, style, 100)                        # tagged fill value
            ops.append({"op": "new", "n": n, "v": v})
            plain.construct([v] * n)
        else:
            p = [100, 30, 0, 60][rng.below(4)]
            vals = xs_from if xs_from else [pick_value(rng, kind, style) for _ in range(n)]
            xs = [[v, pick_md(rng, kind, style)] if rng.below(100) < p else v for v in vals]
            if c < 5 or rng.chance(1, 2):
                xs[0] = [val_of(xs[0]), pick_md(rng, kind, style)]      # tagged first element (the filler of from_slice)
            ops.append({"op": "slice" if c != 5 else "iter", "xs": xs})
            plain.construct(xs)
        nodes = nodes_of(n)

    construct()
    for _ in range(rng.range(2, 9 if tier == "quick" else 14)):
        q = rng.below(20)
        if q < 4:
            i = rng.choice([0, 0, min(1, n - 1), n - 1, rng.below(n)])
            ops.append({"op": "ask", "l": i, "r": i})
        elif q < 8:
            l, r = (0, n - 1) if rng.chance(1, 3) else pick_range(rng, n, nodes)
            ops.append({"op": "ask", "l": l, "r": r})
        elif q < 10:
            ops.append({"op": "dbg"})
        elif q < 10 + wbound:
            pos = pick_pos(rng, n, nodes)
            if rng.chance(1, 2):
                ops.append({"op": "lb", "l": pos, "p": pick_pred(rng, kind, plain, pos, n - 1, False)})
            else:
                ops.append({"op": "lbr", "r": pos, "p": pick_pred(rng, kind, plain, 0, pos, True)})
        elif q < 15:
            l, r = pick_range(rng, n, nodes)
            md = pick_mod(rng, kind, style)
            ops.append({"op": "mod", "l": l, "r": r, "m": md})
            plain.mod(l, r, md)
        elif q < 18:
            i = pick_pos(rng, n, nodes)
            v = pick_item(rng, kind, style, 80)
            ops.append({"op": "set", "i": i, "v": v})
            plain.set(i, v)
        elif q < 19 and plain.a is not None:
            construct(list(plain.a))        # like a tree rebuilt from the items another tree returned after modifications
        else:
            construct()
    # always end on something observable
    if ops[-1]["op"] not in ("ask", "dbg", "lb", "lbr"):
        ops.append({"op": "ask", "l": 0, "r": n - 1} if rng.chance(1, 2) else {"op": "dbg"})
    return {"kind": kind, "ops": ops}


def gen_ties(rng, tier, wbound):
    """Min / Max / MinAdd / MaxAdd over Keyed and Min / Max over f64: 2-3 distinct keys, so the two children of almost
    every inner node tie; the id (position at construction, a fresh number for every set; for f64 the sign of the zero)
    shows which operand each merge / update kept.  Point assignments, queries over node ranges and ranges straddling a
    node's middle, searches (wbound in 10 of the observations), debug() (with the executor's fold self-check), and for the
    Add kinds range adds of +-1 that create and destroy ties."""
    kind = rng.choice(["minkey", "maxkey", "minaddkey", "maxaddkey", "minkey", "maxkey", "minf", "maxf"])
    lazy = kind in ("minaddkey", "maxaddkey")
    n = rng.range(2, 17) if rng.chance(3, 4) else rng.choice([2, 3, 4, 5, 8, 9, 16, 17, 31, 32, 33])
    keys = [rng.range(-2, 2)]
    keys.append(keys[0] + rng.choice([1, 1, 2]))
    if rng.chance(1, 2):
        keys.append(keys[0] + 3)
    fresh = [n]

    def val(pos=None):
        if kind in F64_KINDS:
            k = rng.choice([0, 0, 0, 0, keys[0], 1])
            return "%d/%d" % (k, rng.below(2) if k == 0 else 0)
        if pos is None:
            pos = fresh[0]
            fresh[0] += 1
        return "%d/%d" % (rng.choice(keys + keys[:1]), pos)

    plain = Plain(kind)
    c = rng.below(4)
    if c == 0:
        v = val(0)
        ops = [{"op": "new", "n": n, "v": v}]
        if not lazy and rng.chance(1, 3):
            ops[0]["raw"] = 1
        plain.construct([v] * n)
    else:
        xs = [val(i) for i in range(n)]
        ops = [{"op": "slice" if c < 3 else "iter", "xs": xs}]
        plain.construct(xs)
    nodes = nodes_of(n)
    for _ in range(rng.range(3, 10 if tier == "quick" else 16)):
        q = rng.below(10)
        if q < 3:
            i = pick_pos(rng, n, nodes)
            v = val()
            if lazy and rng.chance(1, 6):
                v = [v, rng.choice([-1, 1, 2])]
            ops.append({"op": "set", "i": i, "v": v})
            plain.set(i, v)
        elif q < 5 and lazy:
            l, r = pick_range(rng, n, nodes)
            m = rng.choice([-1, 1, -1, 1, 2, -2, 0])
            ops.append({"op": "mod", "l": l, "r": r, "m": m})
            plain.mod(l, r, m)
        else:
            k = rng.below(10)
            if k < wbound:
                pos = pick_pos(rng, n, nodes)
                if rng.chance(1, 2):
                    ops.append({"op": "lb", "l": pos, "p": pick_pred(rng, kind, plain, pos, n - 1, False)})
                else:
                    ops.append({"op": "lbr", "r": pos, "p": pick_pred(rng, kind, plain, 0, pos, True)})
            elif k < 8:
                l, r = pick_range(rng, n, nodes)
                ops.append({"op": "ask", "l": l, "r": r})
            else:
                ops.append({"op": "dbg"})
    if ops[-1]["op"] not in ("ask", "dbg", "lb", "lbr"):
        ops.append({"op": "ask", "l": 0, "r": n - 1} if rng.chance(1, 2) else {"op": "dbg"})
    return {"kind": kind, "ops": ops}


BIG_N = [63, 64, 65, 127, 128, 129, 255, 256, 257, 1000, 1024, 1025, 4097]
BIG_KINDS = ["min", "sum", "minadd", "maxadd", "sumadd", "comb3", "affine", "flip", "minkey", "maxaddkey", "combunit"]


def gen_big(rng, tier, n=None, kind=None):
    """Large trees (depth 7-13, sizes around powers of two and 1000), short histories: full-range and node-aligned
    modifications, queries at both ends and across the root split, searches from the ends; no debug()."""
    n = n or rng.choice(BIG_N)
    kind = kind or rng.choice(BIG_KINDS)
    style = "nonneg" if rng.chance(1, 2) else "any"
    plain = Plain(kind)
    c = rng.below(3)
    if c == 0:
        v = pick_item(rng, kind, style, 30)
        ops = [{"op": "new", "n": n, "v": v}]
        plain.construct([v] * n)
    else:
        xs = [pick_item(rng, kind, style, 5) for _ in range(n)]
        ops = [{"op": "slice" if c == 1 else "iter", "xs": xs}]
        plain.construct(xs)
    m = (n - 1) // 2
    nodes = [(0, n - 1, m), (0, m, m // 2), (m + 1, n - 1, (m + n) // 2)]
    for _ in range(rng.range(5, 10)):
        q = rng.below(10)
        if q < 2:
            i = rng.choice([0, n - 1, m, m + 1, rng.below(n)])
            v = pick_item(rng, kind, style, 20)
            ops.append({"op": "set", "i": i, "v": v})
            plain.set(i, v)
        elif q < 5:
            l, r = rng.choice([(0, n - 1), (0, m), (m + 1, n - 1), (1, n - 2), (m, m + 1), pick_range(rng, n, nodes)])
            md = pick_mod(rng, kind, style)
            ops.append({"op": "mod", "l": l, "r": r, "m": md})
            plain.mod(l, r, md)
        elif q < 8:
            l, r = rng.choice([(0, n - 1), (0, 0), (n - 1, n - 1), (m, m + 1), (0, m), (m + 1, n - 1), (1, n - 2),
                               pick_range(rng, n, nodes)])
            ops.append({"op": "ask", "l": l, "r": r})
        else:
            # the specification lists every candidate range: from the very ends only on the smaller sizes
            if rng.chance(1, 2):
                pos = rng.choice([0, m, m + 1]) if n <= 300 else rng.choice([n - 1, n - 2, n - rng.range(2, 40)])
                ops.append({"op": "lb", "l": pos, "p": pick_pred(rng, kind, plain, pos, n - 1, False)})
            else:
                pos = rng.choice([n - 1, m, m + 1]) if n <= 300 else rng.choice([0, 1, rng.range(1, 40)])
                ops.append({"op": "lbr", "r": pos, "p": pick_pred(rng, kind, plain, 0, pos, True)})
    ops.append({"op": "ask", "l": 0, "r": n - 1})
    return {"kind": kind, "ops": ops}


def hist_bound(ops):
    """(a bound on the magnitude of every number the implementation computes on this history - element values, range
    sums, lazy tags, modifier * len, lengths - , no negative number occurs at all)"""
    acc = tot = peak = 0
    nonneg = True
    for o in ops:
        t = o["op"]
        its = [o["v"]] * max(o["n"], 1) if t == "new" else o["xs"] if t in ("slice", "iter") else [o["v"]] if t == "set" else []
        if t in ("new", "slice", "iter"):
            tot = 0
        for v in its:
            f = [val_of(v), v[1] if isinstance(v, list) else 0, len_of(v)]
            nonneg = nonneg and min(f) >= 0
            acc += abs(f[0]) + abs(f[1])
            tot += abs(f[2])
        if t == "mod":
            nonneg = nonneg and o["m"] >= 0
            acc += abs(o["m"]) * max(tot, 1)
        peak = max(peak, acc, tot)
    return peak, nonneg


def width_types(ops):
    """the primitive types that hold every number of this history exactly"""
    bound, nonneg = hist_bound(ops)
    return [ty for ty, lo, hi in WTYPES if bound <= hi and (lo < 0 or nonneg)]


def on_types(c, types):
    return [dict(c, exe="w.%s.%s" % (ty, c["kind"])) for ty in types]


def gen_width(rng, tier, weights, ppanic=12):
    """One history on a built-in item, run on several primitive element types at once (the executor kinds w.<type>.<kind>):
    they must all print the observation line of the i64 kind, so the copies share one Coq term.  Three magnitudes: tiny
    (sizes 1-6, values 0..3 or -3..3, few operations: fits i8 / u8), the ordinary ranges of the i64 histories (16 bits and
    up, f32, f64) and - on i128 / u128 only - magnitudes between 2^64 and 2^100."""
    q = rng.below(10)
    if q < 5:
        style = rng.choice(["tiny", "tiny", "tinys"])
        c = gen_history(rng, tier, weights, 7, WKINDS, ppanic, style, lambda r: r.choice([1, 2, 2, 3, 3, 4, 4, 5, 6]))
    elif q < 8:
        c = gen_history(rng, tier, weights, 25, WKINDS, ppanic, rng.choice(["nonneg", "any"]), lambda r: pick_small_n(r, tier))
    else:
        ty, kind, style = rng.choice(BIG_WIDTH)
        c = gen_history(rng, tier, weights, 25, [kind], ppanic, style, lambda r: pick_small_n(r, tier))
        return on_types(c, [ty] if hist_bound(c["ops"])[0] <= BIG_LIM else [])
    types = width_types(c["ops"])
    if len(types) > 6:        # the narrowest signed and unsigned type that fit, and four more
        keep = [t for t in types if t[0] == "i"][:1] + [t for t in types if t[0] == "u"][:1]
        rest = [t for t in types if t not in keep]
        rng.shuffle(rest)
        types = keep + rest[:4]
    return on_types(c, types)


# Min / MinAdd: the model's Default is i64::MAX, so the big values are negative; Max / MaxAdd: positive; no Combinator of both
BIG_WIDTH = [("i128", "min", "bigneg"), ("i128", "minadd", "bigneg"), ("i128", "max", "bigpos"), ("i128", "maxadd", "bigpos"),
             ("i128", "sum", "bigany"), ("i128", "sumadd", "bigany"), ("i128", "sumadd", "bigany"),
             ("u128", "max", "bigpos"), ("u128", "maxadd", "bigpos"), ("u128", "sum", "bigpos"), ("u128", "sumadd", "bigpos"),
             ("u128", "sumadd", "bigpos")]


def width_cases(rng, tier, count, weights, ppanic=12):
    out = []
    for _ in range(count):
        out.extend(gen_width(rng, tier, weights, ppanic))
    return out


def grid_history(kind, neg, big=0):
    """a fixed history for the grid: tagged and weighted leaves, range adds, queries, both searches, debug(), all three
    constructors; values 0..5 (neg: -5..5; big: everything multiplied by big)"""
    sg = -1 if neg else 1
    md, ln = kind in MD_KINDS, kind in LEN_KINDS
    b = big or 1

    def it(v, tag=0, w=None):
        v, tag = v * b, tag * b
        return [v, tag, w] if (ln and w is not None) else [v, tag] if (md and tag) else v

    mod = (lambda m: 0) if kind in UNIT_MOD_KINDS else (lambda m: m * b)
    lo, hi = {"min": (["le", 1 * b], ["le", -2 * b]), "max": (["ge", 4 * b], ["ge", 3 * b]), "sum": (["ge", 5 * b], ["ge", 2 * b]),
              "minadd": (["le", 1 * b], ["le", -2 * b]), "maxadd": (["ge", 4 * b], ["ge", 3 * b]),
              "sumadd": (["fst", ["ge", 5 * b]], ["snd", ["ge", 3]]),
              "comb2": (["fst", ["le", 1]], ["snd", ["ge", 3]]),
              "comb3": (["snd", ["fst", ["ge", 6]]], ["fst", ["fst", ["le", -2]]]),
              "combunit": (["snd", ["snd", ["ge", 5]]], ["fst", ["le", -2]])}[kind]
    return {"kind": kind, "ops": [
        {"op": "slice", "xs": [it(2), it(3, 1), it(1 * sg, 0, 2), it(0), it(2 * sg, 2, 0)]},
        {"op": "mod", "l": 1, "r": 3, "m": mod(1)},
        {"op": "ask", "l": 0, "r": 4}, {"op": "ask", "l": 1, "r": 2}, {"op": "ask", "l": 2, "r": 2},
        {"op": "lb", "l": 0, "p": lo}, {"op": "lbr", "r": 4, "p": hi},
        {"op": "set", "i": 2, "v": it(4, 1 * sg)},
        {"op": "mod", "l": 0, "r": 4, "m": mod(2 * sg)},
        {"op": "ask", "l": 0, "r": 4}, {"op": "lb", "l": 1, "p": hi}, {"op": "lbr", "r": 3, "p": lo}, {"op": "dbg"},
        {"op": "new", "n": 3, "v": it(1, 1)}, {"op": "mod", "l": 0, "r": 1, "m": mod(1)}, {"op": "ask", "l": 0, "r": 2},
        {"op": "lb", "l": 0, "p": hi},
        {"op": "iter", "xs": [it(1 * sg), it(2)]}, {"op": "mod", "l": 1, "r": 1, "m": mod(1 * sg)}, {"op": "ask", "l": 0, "r": 1},
        {"op": "lbr", "r": 1, "p": lo}, {"op": "dbg"}]}


def width_grid():
    """EVERY built-in item over EVERY primitive type, every run, whatever the seed: one fixed history without negative
    numbers on all 14 types, its twin with negative values and modifiers on the signed types and the floats, and on
    i128 / u128 the same two scaled by 2^70 (Sum / SumAdd / Max / MaxAdd; i128 also Min / MinAdd on the negative twin).
    Each debug() also runs the executor's comparison of the constants the items take from rlib_num_traits with std's."""
    out = []
    for kind in WKINDS:
        for neg in (False, True):
            c = grid_history(kind, neg)
            types = width_types(c["ops"])
            if len(types) != (8 if neg else 14):
                raise ValueError("the grid history of %s no longer fits every type: %r" % (kind, types))
            out.extend(on_types(c, types))
    for ty, kind, style in sorted(set(BIG_WIDTH)):
        neg = style != "bigpos"
        if style == "bigneg":
            continue            # the grid values are not all negative; the random family covers Min / MinAdd<i128>
        c = grid_history(kind, neg, 2 ** 70)
        out.extend(on_types(c, [ty]))
    return out


def interleave(lists):
    """one list in which every input list is spread evenly (the driver samples prefixes and strides of it)"""
    keyed = []
    for j, xs in enumerate(lists):
        for i, x in enumerate(xs):
            keyed.append(((i + 0.5) / len(xs), j, i, x))
    keyed.sort(key=lambda t: t[:3])
    return [t[3] for t in keyed]


def big_cases(rng, tier):
    if tier == "quick":
        return [gen_big(rng, tier, 64, "minadd"), gen_big(rng, tier, 129, "comb3"), gen_big(rng, tier, 1000, "sumadd"),
                gen_big(rng, tier, 257, "minkey")]
    return [gen_big(rng, tier, BIG_N[i % len(BIG_N)]) for i in range(52)]


CK_DEMO = [1, 7, 2, 3, I64_MAX - 10, 0, 20, -(I64_MAX - 10)]


def ck_array(rng):
    """values next to +-i64::MAX among small ones such that every tree node fits i64 but some range does not"""
    for _ in range(60):
        n = rng.choice([4, 5, 6, 7, 8, 8, 9, 11, 13, 16, 17])
        a = [rng.range(-9, 20) for _ in range(n)]
        for _ in range(rng.range(2, 5)):
            a[rng.below(n)] = rng.choice([1, 1, -1]) * (I64_MAX - rng.below(40))
        if ck_nodes_fit(a) and ck_may_refuse(a, 0, n - 1):
            return a
    return list(CK_DEMO)


def gen_cksum(rng, tier):
    """queries a checked sum refuses (caught panic) followed by queries it must answer like the plain array"""
    a = ck_array(rng)
    n = len(a)
    nodes = nodes_of(n)
    ops = [{"op": rng.choice(["slice", "slice", "iter"]), "xs": list(a)}]
    bad = [(l, r) for l in range(n) for r in range(l + 2, n) if ck_may_refuse(a, l, r)]
    for _ in range(rng.range(6, 18)):
        k = rng.below(10)
        if k < 4 and bad:
            l, r = rng.choice(bad)
            ops.append({"op": "ask", "l": l, "r": r})
            for _ in range(rng.range(1, 2)):           # the very next query shows what the refused one left behind
                l2, r2 = pick_range(rng, n, nodes)
                ops.append({"op": "ask", "l": l2, "r": r2})
        elif k < 6:
            i = rng.below(n)
            v = rng.range(-9, 20) if rng.chance(2, 3) else rng.choice([1, -1]) * (I64_MAX - rng.below(40))
            b = list(a)
            b[i] = v
            if ck_nodes_fit(b):
                a = b
                ops.append({"op": "set", "i": i, "v": v})
                bad = [(l, r) for l in range(n) for r in range(l + 2, n) if ck_may_refuse(a, l, r)]
        else:
            l, r = pick_range(rng, n, nodes)
            ops.append({"op": "ask", "l": l, "r": r})
    return {"kind": "sum", "exe": "cksum", "ops": ops}


def gen_craise(rng, tier):
    """Combinator<MinAdd | MaxAdd first, ... user item Raise>: range adds that cancel on an inner node (+m then -m,
    0 modifiers) while the other half still has something pending there, then queries / sets below that node"""
    exe = rng.choice(["craise", "craise3"])
    kind = EXE_OF[exe]
    n = rng.choice([2, 2, 3, 4, 4, 5, 6, 7, 8, 8, 9, 12, 15, 16, 17])
    nodes = nodes_of(n)

    def item():
        v = rng.range(-20, 20)
        return [v, rng.range(-3, 3)] if rng.chance(1, 6) else v

    ops = [{"op": "new", "n": n, "v": item()} if rng.chance(1, 3) else
           {"op": rng.choice(["slice", "iter"]), "xs": [item() for _ in range(n)]}]
    for _ in range(rng.range(3, 12)):
        k = rng.below(10)
        if k < 5:
            if rng.chance(2, 3):
                vl, vr, _m = rng.choice(nodes)
                l, r = rng.choice([(vl, vr), (vl, vr), (0, n - 1), (vl, min(vr + 1, n - 1))])
            else:
                l, r = pick_range(rng, n, nodes)
            m = rng.choice([0, 0, 1, 5, -5, 7, -2, rng.range(-30, 30)])
            ops.append({"op": "mod", "l": l, "r": r, "m": m})
            if rng.chance(3, 5):
                ops.append({"op": "mod", "l": l, "r": r, "m": -m})
            for _ in range(rng.range(0, 2)):
                if rng.chance(1, 3):
                    ops.append({"op": "set", "i": rng.range(l, r), "v": item()})
                else:
                    l2 = rng.range(l, r)
                    ops.append({"op": "ask", "l": l2, "r": rng.range(l2, r) if rng.chance(2, 3) else rng.range(l2, n - 1)})
        elif k < 6:
            ops.append({"op": "set", "i": rng.below(n), "v": item()})
        else:
            l, r = pick_range(rng, n, nodes)
            ops.append({"op": "ask", "l": l, "r": r})
    ops.append({"op": "ask", "l": 0, "r": n - 1})
    for i in range(min(n, 4)):
        ops.append({"op": "ask", "l": i, "r": i})
    return {"kind": kind, "exe": exe, "ops": ops}


def sticky_cases(rng, tier):
    r8, r9 = rng.fork("cksum"), rng.fork("craise")
    nck, ncr = (60, 120) if tier == "quick" else (1500, 3000)
    return interleave([[gen_cksum(r8, tier) for _ in range(nck)], [gen_craise(r9, tier) for _ in range(ncr)]])


def generate(rng, tier):
    count, nflip, ntag, nnew, nties = (1400, 120, 200, 260, 130) if tier == "quick" else (30000, 3000, 5000, 9000, 4000)
    r1, r2, r3 = rng.fork("hist"), rng.fork("flip"), rng.fork("tagged")
    r4, r5, r6 = rng.fork("newkinds"), rng.fork("ties"), rng.fork("big")
    r7 = rng.fork("width")
    return interleave([width_grid(), width_cases(r7, tier, 150 if tier == "quick" else 4000, (2, 4, 3, 2)),
                       [gen_history(r1, tier, (2, 3, 3, 2), 60) for _ in range(count)],
                       [gen_flip(r2, tier, 4) for _ in range(nflip)],
                       [gen_tagged(r3, tier, 3) for _ in range(ntag)],
                       [gen_history(r4, tier, (2, 3, 3, 2), 40, NEW_KINDS) for _ in range(nnew)],
                       [gen_ties(r5, tier, 3) for _ in range(nties)],
                       big_cases(r6, tier), sticky_cases(rng, tier)])


# ----------------------------------------------------------------------------- evidence helpers
def op_range(o):
    t = o["op"]
    if t in ("mod", "ask"):
        return o["l"], o["r"]
    if t == "set":
        return o["i"], o["i"]
    if t == "lb":
        return o["l"], 10 ** 9
    if t == "lbr":
        return 0, o["r"]
    return None


def op_tagged(o):
    """the operation's input items carry a non-zero lazy tag"""
    if o["op"] in ("new", "set"):
        return isinstance(o["v"], list) and o["v"][1] != 0
    if o["op"] in ("slice", "iter"):
        return any(isinstance(v, list) and v[1] != 0 for v in o["xs"])
    return False


def has_tagged(c):
    return any(op_tagged(o) for o in c["ops"])


def nontrivial(c, obs):
    writes, tagged = [], False
    for o in c["ops"]:
        t = o["op"]
        if t in ("new", "slice", "iter"):
            writes = []
            tagged = op_tagged(o)
        elif t in ("mod", "set"):
            writes.append(op_range(o))
        elif t in ("ask", "lb", "lbr"):
            if tagged:
                return True
            l, r = op_range(o)
            for (a, b) in writes:
                if a <= r and l <= b and (a, b) != (l, r):
                    return True
        elif t == "dbg" and tagged:
            return True
    return False


def size_of(c):
    o = c["ops"][0]
    return o["n"] if o["op"] == "new" else len(o["xs"])


def classify(c, obs):
    n = size_of(c)
    cls = "n=1" if n == 1 else ("n<=8" if n <= 8 else ("n<=17" if n <= 17 else "n>17"))
    cls = "n>=63" if n >= 63 else cls
    w = width_exe(c.get("exe"))
    if w:
        return "%s@%s" % (w[1], w[0])
    return "%s%s/%s%s" % (c.get("exe", c["kind"]), "+tag" if has_tagged(c) else "", cls, "/pow2" if n & (n - 1) == 0 else "")


def clamp_ops(kind, ops):
    """make every index valid again after a size change (drops nothing)"""
    out, n = [], None
    for o in ops:
        o = dict(o)
        t = o["op"]
        if t == "new":
            if o["n"] >= 1:
                n = o["n"]
        elif t in ("slice", "iter"):
            if o["xs"]:
                n = len(o["xs"])
        elif n is not None:
            if t == "set":
                o["i"] = min(o["i"], n - 1)
            elif t in ("mod", "ask"):
                o["r"] = min(o["r"], n - 1)
                o["l"] = min(o["l"], o["r"])
            elif t == "lb":
                o["l"] = min(o["l"], n - 1)
            elif t == "lbr":
                o["r"] = min(o["r"], n - 1)
        out.append(o)
    return out


def shrink(c):
    kind, ops = c["kind"], c["ops"]
    out = []
    if c.get("exe"):
        out.append({k_: v_ for k_, v_ in c.items() if k_ != "exe"})
    if len(ops) > 3:
        out.append(dict(c, ops=ops[:1 + (len(ops) - 1) // 2]))
        out.append(dict(c, ops=ops[:1] + ops[1 + (len(ops) - 1) // 2:]))
    for i in range(len(ops) - 1, 0, -1):
        out.append(dict(c, ops=ops[:i] + ops[i + 1:]))
    # smaller tree
    o0 = ops[0]
    if o0["op"] == "new" and o0["n"] > 1:
        for n2 in (o0["n"] // 2, o0["n"] - 1):
            if n2 >= 1:
                out.append(dict(c, ops=clamp_ops(kind, [dict(o0, n=n2)] + ops[1:])))
    elif o0["op"] in ("slice", "iter") and len(o0["xs"]) > 1:
        xs = o0["xs"]
        for xs2 in (xs[:len(xs) // 2], xs[:-1], xs[1:]):
            if xs2:
                out.append(dict(c, ops=clamp_ops(kind, [dict(o0, xs=xs2)] + ops[1:])))
    # items without their lazy tag / with a simpler value
    for i, o in enumerate(ops):
        if o["op"] in ("set", "new") and isinstance(o.get("v"), list):
            out.append(dict(c, ops=ops[:i] + [dict(o, v=o["v"][0])] + ops[i + 1:]))
            if o["v"][0] not in (0, 1) and kind not in KEYED_KINDS:
                out.append(dict(c, ops=ops[:i] + [dict(o, v=[0, o["v"][1]])] + ops[i + 1:]))
        if o["op"] in ("slice", "iter"):
            xs = o["xs"]
            tg = [j for j, v in enumerate(xs) if isinstance(v, list)]
            if len(tg) > 1:      # keep the first tag only / drop the first tag only
                out.append(dict(c, ops=ops[:i] + [dict(o, xs=[v if j == tg[0] else val_of(v) for j, v in enumerate(xs)])] + ops[i + 1:]))
                out.append(dict(c, ops=ops[:i] + [dict(o, xs=[val_of(v) if j == tg[0] else v for j, v in enumerate(xs)])] + ops[i + 1:]))
            elif len(tg) == 1:
                out.append(dict(c, ops=ops[:i] + [dict(o, xs=[val_of(v) for v in xs])] + ops[i + 1:]))
    # simpler values
    for i, o in enumerate(ops):
        if o["op"] in ("set", "new") and kind not in STR_KINDS + KEYED_KINDS and o.get("v") not in (0, 1):
            out.append(dict(c, ops=ops[:i] + [dict(o, v=0)] + ops[i + 1:]))
        if o["op"] in ("lb", "lbr") and o.get("panic"):
            out.append(dict(c, ops=ops[:i] + [{k_: v_ for k_, v_ in o.items() if k_ != "panic"}] + ops[i + 1:]))
        if o["op"] == "new" and o.get("raw"):
            out.append(dict(c, ops=ops[:i] + [{k_: v_ for k_, v_ in o.items() if k_ != "raw"}] + ops[i + 1:]))
        if o["op"] == "mod" and kind not in UNIT_MOD_KINDS + ("concat", "combcat", "affine") and o["m"] not in (0, 1):
            out.append(dict(c, ops=ops[:i] + [dict(o, m=1)] + ops[i + 1:]))
    if c.get("exe") in STICKY_EXE:
        # stay on the executor; cksum: only histories in which every tree node still fits i64 (nothing but queries may panic)
        out = [x for x in out if x.get("exe") == c["exe"] and x["ops"] and x["ops"][0]["op"] in ("new", "slice", "iter")]
        if c["exe"] == "cksum":
            out = [x for x in out if ck_arrays(x["ops"])[1]]
    w = width_exe(c.get("exe"))
    if w:
        # stay on the element type (the i64 kind may not even hold the numbers) and inside what the type holds exactly
        out = [x for x in out if x.get("exe") == c["exe"] and w[0] in width_types(x["ops"])]
    return out


MANIFEST = {
    "text": "Coq theorems (37 pinned, no axioms) about an executable Gallina transcription of rlib_segtree::Segtree (new / from_slice / "
            "from_iter, set, ask, modify, lower_bound, lower_bound_rev, debug), generic over a lawful-item interface (no "
            "commutativity of merges or modifiers): representation invariant (c01_rep_length/top/leaf_iff/push), c01_build_correct, "
            "c01_set_correct, c01_modify_correct (only positions l..r change, each by the modifier), c01_ask_correct / "
            "c01_ask_tree_correct (answer = in-order merge of the plain array), c01_debug_correct, c01_history / c01_kit_history "
            "(every finite history, precondition violations included, matches the plain-array specification), lawfulness of Min, "
            "Max, Sum, MinAdd, MaxAdd, SumAdd over Z, of the Combinator of lawful items (hence every nesting), of a string-list "
            "concatenation item with Assign|Append, of an affine-tag item mod 998244353 and of a bit-flip item that is lazy "
            "although its modifier type is the zero-sized () (c01_flip_lawful); lawfulness of Min / Max / MinAdd / MaxAdd over "
            "elements (key, id) compared by key only, where merge keeps the right operand on ties (c01_minkey_lawful ... "
            "c01_maxaddkey_lawful, c01_key_tie_right; the same algebra for the two zeros of f64: c01_minf_lawful, c01_maxf_lawful), "
            "of Sum over strings with concatenation (c01_sumcat_lawful) and of three more Combinator nestings (c01_combcat_lawful, "
            "c01_combunit_lawful, c01_combflip_lawful); c01_combinator_side_by_side; "
            "c01_model_check_spec_check.  Every run ties the model to the code: the executor drives the real Segtree on generated "
            "histories for 21 item types - including constructions from items that carry a lazy tag of their own (fill value of "
            "new, first element of from_slice), flips left pending on inner nodes, element types with distinguishable ties and "
            "non-commutative +, weighted SumAdd leaves, i64 extremes, new_raw, empty constructions, reversed ranges, trees of up "
            "to 4097 elements, searches interrupted by a panicking predicate - and, against the same Coq terms as the i64 kinds, "
            "every built-in item (and three Combinator nestings) over each of the 14 primitive number types for which the sibling "
            "crate rlib_num_traits provides MinMax / ZeroOne (i8 ... i128, isize, u8 ... u128, usize, f32, f64; a fixed item x type "
            "grid every run, values above 2^64 on i128 / u128), where the executor also compares the constants the items take from "
            "that crate (Default values, the length of a fresh SumAdd leaf) with std's - and Coq checks model = implementation "
            "(all fields, lazy tags included) and implementation |= plain-array specification on every history.",
    "level_note": "Trusted: Coq kernel + vm_compute; the Rust executor (which also defines the three user items and the element types "
                  "Keyed and Cat, and runs the fold / push-order self-checks) and the Python "
                  "printer/parsers; i64 modelled as unbounded Z (generated values stay below 2^40; the narrower and the float "
                  "element types only see histories whose numbers they hold exactly); the model decides leaf-ness by "
                  "shape where the code tests vl == vr (proved equivalent under the invariant); lower_bound(l >= n) (unasserted "
                  "out-of-bounds panic in the crate) is outside the model; the correspondence is sampled, not exhaustive.",
    "technique": "Coq proof over Gallina model + vm_compute correspondence batches against the Rust crate",
}
