"""C03 — treap = sequence under split/merge/insert/remove/first/last/collect/size with lazy modifications
and per-subtree aggregates, for every assignment of priorities (rlib/treap).  remove_at is observed through the COMPLETE
item it returns (every field), and through "move" = remove_at followed by insert_at of that very item object, possibly
modified by the caller in between (move-and-update): items may enter a treap with a pending tag (from_item, insert_at).
The real insert_at is steered through every rank of the new node (hybrid cases: injected priorities chosen relative to
the predicted draw of the natively created node); boundary priorities (0, 2^32-1) and empty operands; positions up to
usize::MAX; Treap wrappers and TreapNode building blocks."""
ID = "C03"
CRATE = "c03"
# sibling sources whose edits enlarge the quick correspondence (fingerprints in source_pins.json)
SOURCES = ["rlib/rand/src/lcg.rs"]
COQ_DIR = "C03"
COQ_DEPS = []
PROFILES = ["debug", "release"]
CORR_IMPORT = "From RlibV Require Import C03.Model C03.Corr.\nOpen Scope Z_scope."
AUDIT_IMPORT = ("From Coq Require Import ZArith List Bool.\nImport ListNotations.\n"
                "From RlibV Require Import C03.Model C03.Corr C03.Proofs C03.ProofsInst C03.Properties.\nOpen Scope Z_scope.")
EXPLAIN = "explain"
CASE_TYPE = "case"
AXIOM_ALLOW = []
SHARD = 1200
SEARCH_MAX = 3000      # size of the enlarged search after a model-only mismatch
THEOREMS = [
    ('c03_merge_rep',
     'forall (T M V A : Type) (update : T -> option T -> option T -> T) (push : T -> option T -> option T -> T * option T * option T) (size : T -> Z) (modify : M -> T -> T) (elem : T -> V) (agg : T -> A) (act : M -> V -> V) (aggf : list V -> A) (Pending : T -> list M -> Prop), lawful update push size modify elem agg act aggf Pending -> forall (a b : tree) (xs ys : list V), Rep size elem agg act aggf Pending a xs -> Rep size elem agg act aggf Pending b ys -> Rep size elem agg act aggf Pending (merge update push a None b None) (xs ++ ys)'),
    ('c03_split_at_rep',
     'forall (T M V A : Type) (update : T -> option T -> option T -> T) (push : T -> option T -> option T -> T * option T * option T) (size : T -> Z) (modify : M -> T -> T) (elem : T -> V) (agg : T -> A) (act : M -> V -> V) (aggf : list V -> A) (Pending : T -> list M -> Prop), lawful update push size modify elem agg act aggf Pending -> forall (t : tree) (k : Z) (xs : list V) (a b : tree), Rep size elem agg act aggf Pending t xs -> split_at update push size t None k = (a, b) -> Rep size elem agg act aggf Pending a (firstn (Z.to_nat k) xs) /\\ Rep size elem agg act aggf Pending b (skipn (Z.to_nat k) xs) /\\ (len xs <= k -> Rep size elem agg act aggf Pending a xs /\\ b = E)'),
    ('c03_split_by_rep',
     'forall (T M V A : Type) (update : T -> option T -> option T -> T) (push : T -> option T -> option T -> T * option T * option T) (size : T -> Z) (modify : M -> T -> T) (elem : T -> V) (agg : T -> A) (act : M -> V -> V) (aggf : list V -> A) (Pending : T -> list M -> Prop), lawful update push size modify elem agg act aggf Pending -> forall (q : V -> bool) (t : tree) (xs : list V) (a b : tree), Rep size elem agg act aggf Pending t xs -> monotone_on q xs = true -> split_by update push (fun x => q (elem x)) t None = (a, b) -> Rep size elem agg act aggf Pending a (take_while q xs) /\\ Rep size elem agg act aggf Pending b (drop_while q xs)'),
    ('c03_insert_at',
     'forall (T M V A : Type) (update : T -> option T -> option T -> T) (push : T -> option T -> option T -> T * option T * option T) (size : T -> Z) (modify : M -> T -> T) (elem : T -> V) (agg : T -> A) (act : M -> V -> V) (aggf : list V -> A) (Pending : T -> list M -> Prop), lawful update push size modify elem agg act aggf Pending -> forall (t : tree) (k : Z) (x : T) (p : Z) (xs : list V), Rep size elem agg act aggf Pending t xs -> Detached size elem agg aggf Pending x -> Rep size elem agg act aggf Pending (insert_at update push size t k x p) (firstn (Z.to_nat k) xs ++ elem x :: skipn (Z.to_nat k) xs)'),
    ('c03_remove_at',
     "forall (T M V A : Type) (update : T -> option T -> option T -> T) (push : T -> option T -> option T -> T * option T * option T) (size : T -> Z) (modify : M -> T -> T) (elem : T -> V) (agg : T -> A) (act : M -> V -> V) (aggf : list V -> A) (Pending : T -> list M -> Prop), lawful update push size modify elem agg act aggf Pending -> forall (t : tree) (k : Z) (xs : list V) (t' : tree) (res : option T), Rep size elem agg act aggf Pending t xs -> remove_at update push size t k = (t', res) -> Rep size elem agg act aggf Pending t' (firstn (Z.to_nat k) xs ++ skipn (S (Z.to_nat k)) xs) /\\ option_map elem res = nth_error xs (Z.to_nat k) /\\ (forall x : T, res = Some x -> Fresh size elem agg aggf Pending x)"),
    ('c03_first_last_collect_size',
     "forall (T M V A : Type) (update : T -> option T -> option T -> T) (push : T -> option T -> option T -> T * option T * option T) (size : T -> Z) (modify : M -> T -> T) (elem : T -> V) (agg : T -> A) (act : M -> V -> V) (aggf : list V -> A) (Pending : T -> list M -> Prop), lawful update push size modify elem agg act aggf Pending -> forall (t : tree) (xs : list V), Rep size elem agg act aggf Pending t xs -> (forall t' res, first push t None = (t', res) -> Rep size elem agg act aggf Pending t' xs /\\ option_map elem res = hd_error xs) /\\ (forall t' res, last push t None = (t', res) -> Rep size elem agg act aggf Pending t' xs /\\ option_map elem res = last_error xs) /\\ (forall t' ys, collect push t None = (t', ys) -> Rep size elem agg act aggf Pending t' xs /\\ map elem ys = xs) /\\ tsize size t = len xs /\\ option_map agg (item t) = match xs with [] => None | _ => Some (aggf xs) end"),
    ('c03_modify_root',
     'forall (T M V A : Type) (update : T -> option T -> option T -> T) (push : T -> option T -> option T -> T * option T * option T) (size : T -> Z) (modify : M -> T -> T) (elem : T -> V) (agg : T -> A) (act : M -> V -> V) (aggf : list V -> A) (Pending : T -> list M -> Prop), lawful update push size modify elem agg act aggf Pending -> forall (m : M) (t : tree) (xs : list V), Rep size elem agg act aggf Pending t xs -> Rep size elem agg act aggf Pending (modify_root modify m t) (map (act m) xs)'),
    ('c03_history',
     'forall (T M V A : Type) (update : T -> option T -> option T -> T) (push : T -> option T -> option T -> T * option T * option T) (size : T -> Z) (modify : M -> T -> T) (elem : T -> V) (agg : T -> A) (act : M -> V -> V) (aggf : list V -> A) (Pending : T -> list M -> Prop), lawful update push size modify elem agg act aggf Pending -> forall (ps : list Z) (ops : list op) (sst : list (list V)) (outs : list output), Forall (op_detached size elem agg aggf Pending) ops -> srun elem act aggf [] ops = Some (sst, outs) -> map (out_elem elem) (run_outputs update push size modify elem agg ps ops) = outs /\\ Forall (out_fresh size elem agg aggf Pending) (run_outputs update push size modify elem agg ps ops) /\\ Forall2 (Rep size elem agg act aggf Pending) (run_final update push size modify elem agg ps ops) sst'),
    ('c03_isz_lawful',
     'lawful isz_update isz_push isize isz_modify ix ism Z.add zsum isz_pending'),
    ('c03_model_check_spec_check',
     'forall c : case, model_check c = true -> spec_check c = true'),
    ('c03_iaa_lawful',
     'lawful iaa_update iaa_push asize iaa_modify ax asm amod_act zsum iaa_pending'),
    ('c03_ihash_lawful',
     'lawful ihs_update ihs_push hsz ihs_modify hx ihs_agg Z.add hashagg ihs_pending'),
]
RULE = ("every priority assignment {0..n-1}^n (ties included) for n <= 4 (quick) / 5 (thorough) on a build / root-modify / split / aggregate / modify both parts (a tag pending on BOTH roots at the merge) / merge / observe history; "
        "the same assignments on a build / root-modify / MOVE (remove_at(k), then insert_at(k2, the returned item object) on the same treap: every pair (k, k2) for "
        "n <= 3 (quick) / 4 (thorough), so the removed node is every inner node with one or two children, the root, every leaf) / size / aggregate / collect / split_at / "
        "sizes and aggregates of both parts / move across the two treaps / merge / split_at / observe history, over all three item kinds, and with the treap's own "
        "priorities and the real insert_at for n <= 5 (quick) / 8 (thorough); every remove_at (alone or in a move) shows the COMPLETE returned item "
        "(element, aggregate, size, pending tag, extra fields); "
        "ITEMS THAT ENTER A TREAP WITH A PENDING TAG: every other move is a move-and-update (remove_at, the caller modifies the returned item - one or two modifications, "
        "assignments and additions in both orders for the assign-or-add item -, insert_at of that object), every other exhaustive build ends with an insert_at of a "
        "fresh item that was modified first, and a family of its own (hybrid-tagged) sends such an item through the REAL insert_at / from_item for every rank of the new "
        "node: the n <= 3 (quick) / 4 (thorough) nodes already there get injected priorities d + 2(l - r) + 1 resp. d + (l - r) for every level assignment l in {0..n-1}^n and "
        "every rank r, where d is the generator's own draw that the new node keeps (predicted by the plugin: every node creation of a line draws exactly once), so the new node "
        "is above the root, between any two nodes of its search path, below everything, or TIED with any of them; three ways in (insert_at of a modified fresh item; "
        "remove_at from another treap + modify + insert_at; split_at + from_item(modified item) + merge + merge), a modification pending on the root meanwhile; "
        "BOUNDARY PRIORITIES: every assignment over {0, 2^32-2, 2^32-1} for n <= 3 (quick) / 5 (thorough) on the build/split/merge history and n <= 3 / 4 on the move history; "
        "roots of priority 2^32-1, 2^32-2, 0, 1, 2^31-1, 2^31 merged with an EMPTY operand on either side, split at 0 / len and merged back, emptied by remove_at and merged, "
        "grown from an empty treap; a random priority mode drawing from those six values; "
        "POSITIONS 2^32-1, 2^32, 2^32+1, 2^64-2, 2^64-1 in split_at / insert_at / remove_at / move on empty and non-empty treaps (both build profiles); "
        "LONG PATHS: 70 / 130 (quick) and 300 (thorough) elements appended with increasing / decreasing / equal / native priorities (depth = n), then root modify, splits at 1 / mid / n-1, "
        "move-and-update, observations; "
        "plus random multi-treap op histories (1-45 ops, up to 6 live treaps, up to ~35 elements) over three item kinds (lazy add + sum; "
        "assign-or-add + sum, non-commuting modifications; lazy add + positional hash mod 65521, an ORDER-SENSITIVE "
        "aggregate that exposes exchanged children: its histories read the root aggregate after about half of the structural "
        "operations and of every split-out middle, start from a pre-built treap of up to 14 elements, "
        "and have their own exhaustive family over every priority assignment: whole / split halves / middle range / "
        "after remove / after insert aggregates); EVERY history ends with the root aggregate and collect() of every live treap; about a quarter of the items handed to "
        "from_item / insert_at were modified by the caller first, a third of the moves are move-and-update; priorities injected through the public field: random 32-bit, "
        "tiny range (ties), all equal, increasing, decreasing, the six boundary values, the generator's own draws (real insert_at, stream predicted "
        "by the plugin), or HYBRID (a third of the nodes keep the generator's draw and go through the real insert_at, the others get a predicted draw -1 / +0 / +1 or a random value); "
        "a quarter of the histories (and every fifth exhaustive one, half of the empty-operand ones) run merge / split_at / split_by / collect through the public building blocks "
        "TreapNode::{merge, split_at, split_by, collect_into} on `t.root` instead of the Treap wrappers (collect_into appends to a vector that already holds an item); "
        "ATTACH PATH OF A ROOT MODIFICATION, chosen per operation (cycling over case index + op index, so consecutive modifications of one history differ; no rng draw): "
        "a third through the accessor `t.root_mut().unwrap().modify(..)`, a third through the PUBLIC FIELDS `t.root.as_mut().unwrap().item.modify(..)`, a third at node level "
        "(`t.root` taken out, `node.item.modify(..)` on the raw Option<Box<TreapNode>> - the only handle for users of TreapNode::split_at / merge -, put back as the `root` "
        "field of a new treap; two thirds in the histories that run through the building blocks) - in every family, so the modified root is a fresh node, a node that "
        "split / merge / collect / insert / remove already pushed (every split result), with zero, one or two children; same observation (CMod) for all three; "
        "empty treaps come from Treap::new or Treap::default; every size / collect / root-aggregate observation also compares is_empty() with what it sees; "
        "histories are biased to the split-modify-merge pattern (range modify / range aggregate), sorted-set "
        "insertion through split_by, moves within one treap and between two live treaps (about 6% of the operations), boundary positions 0/len/len+1; non-trivial = a root modification on a treap with >= 2 "
        "elements is followed by a split/merge/insert/remove and then by an observation, or an item with a pending tag enters a non-empty treap and an observation follows")
TRUSTED = ["executor harness/crates/c03 (drives rlib_treap::{Treap,TreapNode} through the public API; overwrites the public "
           "priority field of new nodes; attaches root modifications through root_mut(), through the public fields root / item, or on the raw root node taken out of the treap; prints outputs, raw shapes and final collects; prints every field of an item returned by remove_at before "
           "modifying it (move-and-update) and handing that same object to insert_at in a move; puts the process-wide priority generator back to its seed at the "
           "start of every line through the crate's hook verif_reset_priorities (cargo feature `verif`); its is_empty / collect_into consistency checks print a token "
           "that no model output equals)",
           "checks/c03.py (history generator, Coq term printer, prediction of the draws of the process-wide priority generator - one draw per node creation of a line - "
           "for native cases and for the natively drawn nodes of hybrid cases)"]
ASSUMPTIONS = ["items are the harness items (i64, values small enough never to overflow; the positional-hash item of C03 kind 2 reduces mod 65521, every product < 2^40) — the theorems are generic over any lawful item",
               "Box ownership / Option<Box<..>> modelled as a functional tree; usize positions as Z (no operation can overflow; positions up to 2^64-1 are run)",
               "with injected priorities insert_at is replayed through the public API as split_at + from_item + merge + merge (its body); "
               "the real insert_at runs in the native-priority cases and for the natively drawn nodes of the hybrid cases (every rank pattern for n <= 3/4, ties included)",
               "items handed to from_item / insert_at are Detached (one element, aggregate of that element, size 1, ANY pending tag): freshly made items and items returned by "
               "remove_at, modified by the caller any number of times (proved for every concrete history: conv_detached)"]

MASK = (1 << 64) - 1
LCG_A, LCG_C = 6364136223846793005, 1442695040888963407


def lcg_prios(n, seed=42):
    """draws of rlib_treap's process-wide priority generator (one `static RNG: Mutex<Rng>`, put back to its seed by the
    executor at the start of every line through the hook `verif_reset_priorities`): state = state*A + C;
    raw = state ^ (state >> 32); priority = low 32 bits.  EVERY node creation of a line draws once (also when the
    public priority field is overwritten afterwards), so the j-th creation of a line gets lcg_prios(..)[j]."""
    out, s = [], seed
    for _ in range(n):
        s = (s * LCG_A + LCG_C) & MASK
        out.append((s ^ (s >> 32)) & 0xFFFFFFFF)
    return out


# ----------------------------------------------------------------------------- python mirror of the list spec
U32MAX = (1 << 32) - 1
MODS_AT = {"F": 3, "I": 5, "V": 6}      # position of the optional list of caller-side modifications in an op


# how a root modification ["U", i, "a"|"s", c, kind, path] is attached (op[5], absent = 0): 0 `t.root_mut().unwrap().modify(..)`;
# 1 through the public fields, `t.root.as_mut().unwrap().item.modify(..)`; 2 at node level: `t.root` is taken out, the raw
# Option<Box<TreapNode>> gets `node.item.modify(..)` and is put back (the only handle for users of TreapNode::split_at / merge).
# Same Coq constructor (CMod), same observation.
ATTACH_TOK = {0: "U", 1: "Uf", 2: "Un"}


def attach_path(op):
    return op[5] if len(op) > 5 else 0


def with_attach_paths(cases):
    """chooses the attach path of every root modification of the generated cases, per op, without drawing from the rng:
    the paths cycle over (case index + op index), so that consecutive modifications of one history differ and every family
    member of an exhaustive family sees all three over its neighbours; in a case that runs through the TreapNode building
    blocks (`nodeapi`) two out of three are the node-level path"""
    out = []
    for ci, c in enumerate(cases):
        ops = []
        for oi, op in enumerate(c["ops"]):
            if op[0] == "U" and len(op) == 5:
                path = (ci + oi) % 3
                if c.get("nodeapi") and path == 1:
                    path = 2
                op = op + [path]
            ops.append(op)
        out.append(dict(c, ops=ops))
    return out


def op_mods(op):
    """modifications [["a", c] | ["s", c], ...] that the caller applies to the item before from_item / insert_at gets it"""
    at = MODS_AT.get(op[0])
    return op[at] if (at is not None and len(op) > at) else []


def apply_mods(v, ms, kind=1):
    """kind 1: add / set; kinds 0 and 2 treat every modification as an addition (as the harness items and md0 do)"""
    for t, c in ms:
        v = c if (t == "s" and kind == 1) else v + c
    return v


def py_step(L, op, kind=1):
    """mirror of Model.sstep on python lists (used only to generate valid histories)"""
    k = op[0]
    if k in ("N", "D"):
        L.append([])
    elif k == "F":
        L.append([apply_mods(op[1], op_mods(op), kind)])
    elif k == "M":
        i, j = op[1], op[2]
        if i != j and i < len(L) and j < len(L):
            a, b = L[i], L[j]
            for x in sorted([i, j], reverse=True):
                L.pop(x)
            L.append(a + b)
    elif k in ("A", "B"):
        i = op[1]
        if i < len(L):
            xs = L.pop(i)
            if k == "A":
                c = op[2]
            else:
                c = 0
                while c < len(xs) and xs[c] < op[2]:
                    c += 1
            L.append(xs[:c])
            L.append(xs[c:])
    elif k == "I":
        i = op[1]
        if i < len(L):
            L[i].insert(min(op[2], len(L[i])), apply_mods(op[3], op_mods(op), kind))
    elif k == "R":
        i = op[1]
        if i < len(L) and op[2] < len(L[i]):
            L[i].pop(op[2])
    elif k == "V":
        i, j = op[1], op[3]
        if i < len(L) and j < len(L) and op[2] < len(L[i]):
            v = L[i].pop(op[2])
            L[j].insert(min(op[4], len(L[j])), apply_mods(v, op_mods(op), kind))
    elif k == "U":
        i = op[1]
        if i < len(L):
            if op[2] == "s" and op[4] == 1:
                L[i][:] = [op[3]] * len(L[i])
            else:
                L[i][:] = [x + op[3] for x in L[i]]


def monotone(xs, c):
    seen_false = False
    for x in xs:
        if x < c:
            if seen_false:
                return False
        else:
            seen_false = True
    return True


PRIO_MODES = ["random", "random", "tiny", "equal", "inc", "dec", "native", "native", "edge", "hybrid"]
EDGE_PRIOS = [0, 1, (1 << 31) - 1, 1 << 31, U32MAX - 1, U32MAX]      # the public field accepts every u32


def gen_mods(rng, kind, always=False):
    """modifications that the caller applies to an item it holds before from_item / insert_at gets it (about one item in
    four; two stacked modifications in a third of those; kind 1 mixes assignments and additions, which do not commute)"""
    if not always and not rng.chance(1, 4):
        return []
    out = []
    for _ in range(2 if rng.chance(1, 3) else 1):
        if kind == 1 and rng.chance(2, 5):
            out.append(["s", rng.range(-30, 30)])
        else:
            out.append(["a", rng.range(-20, 20)])
    return out


def gen_history(rng, nops, kind, mode, maxel=35, prebuild=0):
    """kinds 0/1/2: random multi-treap history.  kind 2 (positional hash, order-sensitive aggregate): a root aggregate is
    read after about half of the structural operations, and the history may start from a pre-built treap of `prebuild`
    elements (subtree roots with two children from the start).  Every history ends with the root aggregate and the
    collect() of every live treap.  About a quarter of the items handed to from_item / insert_at (fresh ones and the ones
    that remove_at returned) were modified by the caller first.  Mode `edge`: priorities from the boundary values of u32;
    mode `hybrid`: about a third of the nodes keep the generator's own draw (their insert_at is the REAL one), the others
    get injected priorities equal or next to a predicted draw (ties and near-ties with the natively drawn nodes) or
    random.  A quarter of the histories run merge / split_at / split_by / collect through the TreapNode building blocks."""
    L, ops = [], []
    created = [0]                     # node creations so far = index of the next draw of the generator
    draws = lcg_prios(nops + prebuild + 64)

    def draw(j):
        while j >= len(draws):
            draws.extend(lcg_prios(2 * len(draws))[len(draws):])
        return draws[j]

    def prio(creates=True):
        j = created[0]
        if creates:
            created[0] += 1
        if mode == "random":
            return rng.below(1 << 32)
        if mode == "tiny":
            return rng.below(3)
        if mode == "equal":
            return 7
        if mode == "inc":
            return 10 * (j + 1)
        if mode == "dec":
            return 1000000 - 10 * (j + 1)
        if mode == "edge":
            return rng.choice(EDGE_PRIOS)
        if mode == "hybrid":
            r = rng.below(6)
            if r < 2:
                return "n"
            if r < 5:
                # equal / next to the draw of a creation nearby (possibly this one, possibly a later native one)
                d = draw(max(0, j + rng.range(-3, 3)))
                return min(U32MAX, max(0, d + rng.choice([-1, 0, 0, 1])))
            return rng.below(1 << 32)
        return 0   # native: recomputed from the LCG stream

    def emit(op):
        ops.append(op)
        py_step(L, op, kind)
        if kind == 2 and op[0] in "MABIRUV" and L and rng.chance(1, 2):
            # results of merge/split are at the end of the list; insert/remove/modify/move act in place
            if op[0] == "V":
                t = op[3]
            elif op[0] in "IRU":
                t = op[1]
            elif op[0] == "M":
                t = len(L) - 1
            else:
                t = len(L) - 1 - rng.below(2)
            if 0 <= t < len(L):
                ops.append(["G", t])

    def pos(n):
        r = rng.below(8)
        if r == 0:
            return 0
        if r == 1:
            return n
        if r == 2:
            return n + 1 + rng.below(3)
        return rng.below(n + 1)

    def modifier():
        c = rng.range(-20, 20)
        if kind == 1 and rng.chance(2, 5):
            return ["s", rng.range(-30, 30)]
        return ["a", c]

    def total():
        return sum(len(x) for x in L)

    def with_mods(op):
        ms = gen_mods(rng, kind)
        return op + [ms] if ms else op

    if prebuild:
        emit(["F", rng.range(-50, 50), prio()])
        for _ in range(prebuild - 1):
            emit(["I", 0, rng.below(len(L[0]) + 1), rng.range(-50, 50), prio()])
    nops += len(ops)

    while len(ops) < nops:
        n = len(L)
        r = rng.below(100)
        if n == 0 or (r < 4 and n < 6):
            if rng.chance(1, 4):
                emit([rng.choice(["N", "D"])])
            else:
                emit(with_mods(["F", rng.range(-50, 50), prio()]))
            continue
        i = rng.below(n)
        xs = L[i]
        if r < 12 and n < 6 and total() < maxel:
            emit(with_mods(["F", rng.range(-50, 50), prio()]))
        elif r < 22 and n >= 2:
            j = rng.below(n - 1)
            if j >= i:
                j += 1
            emit(["M", i, j])
        elif r < 30 and n < 6:
            emit(["A", i, pos(len(xs))])
        elif r < 45 and total() < maxel:
            emit(with_mods(["I", i, pos(len(xs)), rng.range(-50, 50), prio()]))
        elif r < 50:
            if xs and rng.chance(15, 16):
                emit(["R", i, rng.below(len(xs))])
            else:
                emit(["R", i, len(xs) + rng.below(2)])
        elif r < 57:
            # move: remove_at on treap i, insert_at of the returned item object on treap j (the same one half of the time);
            # a third of the moves modify the item in between (move-and-update)
            j = i if (n == 1 or rng.chance(1, 2)) else rng.below(n)
            if xs and rng.chance(15, 16):
                k = rng.below(len(xs))
                tl = len(L[j]) - (1 if j == i else 0)
                ok = True
            else:
                k = len(xs) + rng.below(2)
                tl = len(L[j])
                ok = False            # remove_at panics: no node is created
            op = ["V", i, k, j, pos(tl), prio(ok)]
            ms = gen_mods(rng, kind, always=True) if rng.chance(1, 3) else []
            emit(op + [ms] if ms else op)
            if rng.chance(1, 2):
                emit([rng.choice(["S", "S", "G", "C"]), j])
        elif r < 65:
            m = modifier()
            emit(["U", i, m[0], m[1], kind])
        elif r < 74 and n + 2 <= 6 and len(xs) >= 1:
            # range modify or range aggregate on [l, r] of treap i: split, split, act, merge, merge
            l_, r_ = sorted([rng.below(len(xs)), rng.below(len(xs))])
            emit(["A", i, r_ + 1])            # t12 at n-1 (after removal), t3 at n
            n2 = len(L)
            emit(["A", n2 - 2, l_])           # t3 at n2-2, t1 at n2-1, t2 at n2
            n3 = len(L)
            t3, t1, t2 = n3 - 3, n3 - 2, n3 - 1
            if rng.chance(2, 3):
                m = modifier()
                emit(["U", t2, m[0], m[1], kind])
            emit(["G", t2])
            if rng.chance(1, 2):
                emit(["S", t2])
            if rng.chance(1, 2):
                # merge(t1, merge(t2, t3))
                emit(["M", t2, t3])           # removes both, result at end; t1 index shifts
                n4 = len(L)
                emit(["M", n4 - 2, n4 - 1])
            else:
                emit(["M", t1, t2])
                n4 = len(L)
                emit(["M", n4 - 1, n4 - 2])
        elif r < 79 and n + 1 <= 6:
            # split_by with a prefix-monotone predicate elem < c
            cands = [c for c in (set(xs) | {x + 1 for x in xs} | {-100, 100}) if monotone(xs, c)]
            c = rng.choice(sorted(cands))
            emit(["B", i, c])
        elif r < 84 and n + 2 <= 6 and total() < maxel and monotone(xs, 10 ** 9) and xs == sorted(xs):
            # sorted-set insertion as in the suite's `set` test: split_by(< v), merge(l, merge(new, r))
            v = rng.range(-50, 50)
            emit(["B", i, v])
            emit(["F", v, prio()])
            n3 = len(L)
            emit(["M", n3 - 3, n3 - 1])       # l ++ [v]
            n4 = len(L)
            emit(["M", n4 - 1, n4 - 2])       # (l ++ [v]) ++ r
        elif r < 88:
            emit(["f", i])
        elif r < 91:
            emit(["l", i])
        elif r < 95:
            emit(["C", i])
        elif r < 97:
            emit(["S", i])
        else:
            emit(["G", i])
    # final observations of everything: the last operations of a history are observed too
    for i in range(len(L)):
        ops.append(["G", i])
        ops.append(["C", i])
    c = {"kind": kind, "native": mode == "native", "mode": mode, "ops": ops}
    if rng.chance(1, 4):
        c["nodeapi"] = True
    return c


def exhaustive_small(nmax, alphabet=None, mode="exhaustive"):
    """every priority assignment {0..n-1}^n (ties included; or alphabet^n for a given list of priority values) for
    n <= nmax: build by appends (every other case: the last appended item was modified by the caller first), modify the
    root, split at a cut, read both aggregates, modify both sides (two out of three cases: a tag is pending on BOTH roots
    when they are merged), merge back, observe"""
    import itertools
    cases, idx = [], 0
    for n in range(1, nmax + 1):
        for f in itertools.product(alphabet if alphabet is not None else range(n), repeat=n):
            idx += 1
            kind = idx % 2
            ops = [["F", 0, f[0]]]
            for i in range(1, n):
                ops.append(["I", 0, i, 10 * i, f[i]])
            if idx % 4 < 2:
                ops[-1] = ops[-1] + [[["s", 5], ["a", 1]] if (kind == 1 and idx % 8 < 4) else [["a", 4]]]
            ops.append(["U", 0, "s", 7, kind] if kind == 1 else ["U", 0, "a", 7, kind])
            ops.append(["U", 0, "a", 1, kind])
            k = idx % (n + 1)
            ops += [["A", 0, k], ["G", 0], ["G", 1], ["U", 1, "a", 3, kind]]
            if idx % 3:
                ops.append(["U", 0, "a", -2, kind])
            ops += [["M", 0, 1], ["C", 0], ["f", 0], ["l", 0], ["S", 0], ["G", 0]]
            c = {"kind": kind, "native": False, "mode": mode, "ops": ops}
            if idx % 5 == 0:
                c["nodeapi"] = True
            cases.append(c)
    return cases


HASH_VALUES = [3, 14, -15, 92, 65, -35]


def exhaustive_hash(nmax):
    """kind 2 (order-sensitive aggregate): every priority assignment {0..n-1}^n (ties included) for n <= nmax.
    Build by appends (pairwise different values), then read the root aggregate of: the whole treap, the whole treap
    under a pending modification, both halves of a split, the merge of the halves after one was modified, a split-out
    middle range (modified) and the re-merged whole, the treap after a remove_at and after an insert_at (every other
    case: of an item that the caller modified first)."""
    import itertools
    cases, idx = [], 0
    for n in range(1, nmax + 1):
        for f in itertools.product(range(n), repeat=n):
            idx += 1
            ops = [["F", HASH_VALUES[0], f[0]]]
            for i in range(1, n):
                ops.append(["I", 0, i, HASH_VALUES[i], f[i]])
            ops += [["G", 0], ["U", 0, "a", 7, 2], ["G", 0]]
            k = idx % (n + 1)
            ops += [["A", 0, k], ["G", 0], ["G", 1], ["U", 1, "a", 3, 2], ["M", 0, 1], ["G", 0], ["C", 0], ["S", 0]]
            # middle range [l, r]: split off t3, then t1 | t2; live treaps become [t3, t1, t2]
            l_ = (idx // 2) % n
            r_ = l_ + (idx // 3) % (n - l_)
            ops += [["A", 0, r_ + 1], ["A", 0, l_], ["G", 2], ["U", 2, "a", -4, 2], ["G", 2],
                    ["M", 1, 2], ["G", 1], ["M", 1, 0], ["G", 0], ["C", 0]]
            ins = ["I", 0, (idx // 5) % (n + 1), HASH_VALUES[5], f[idx % n]]
            if idx % 2:
                ins.append([["a", 11]])
            ops += [["R", 0, idx % n], ["G", 0], ins, ["G", 0], ["f", 0], ["l", 0], ["C", 0]]
            c = {"kind": 2, "native": False, "mode": "exhaustive", "ops": ops}
            if idx % 5 == 0:
                c["nodeapi"] = True
            cases.append(c)
    return cases


MOVE_VALUES = [10 * (i + 1) for i in range(12)]


def move_mods(kind, idx):
    """every other move modifies the item between remove_at and insert_at (move-and-update)"""
    if idx % 2:
        return []
    if kind == 1:
        return [[["s", 4]], [["a", 6]], [["s", 4], ["a", 6]], [["a", 6], ["s", 4]]][(idx // 2) % 4]
    return [[["a", 6]], [["a", 6], ["a", -9]]][(idx // 2) % 2]


def move_ops(n, kind, idx, k, k2, prios, pnew, pnew2, ms1=None, ms2=None):
    """build [10, 20, ...] by appends with the given priorities (`prios[i]`; ignored in native cases), attach a
    modification to the root (it is pending on the inner nodes when remove_at descends), move position k to position k2
    with the returned item object (modified by `ms1` in between, if given), observe size / root aggregate / collect;
    split, observe both sides; move the first element of the left part to the end of the right part (across two treaps;
    `ms2`), observe; merge back, split again, observe"""
    ops = [["F", MOVE_VALUES[0], prios[0]]]
    for i in range(1, n):
        ops.append(["I", 0, i, MOVE_VALUES[i], prios[i]])
    ops.append(["U", 0, "s", 7, kind] if (kind == 1 and idx % 2) else ["U", 0, "a", 7, kind])
    ops += [["V", 0, k, 0, k2, pnew] + ([ms1] if ms1 else []), ["S", 0], ["G", 0], ["C", 0]]
    cut = idx % (n + 1)
    ops += [["A", 0, cut], ["S", 0], ["S", 1], ["G", 0], ["G", 1]]
    ops += [["V", 0, 0, 1, n, pnew2] + ([ms2] if ms2 else []), ["S", 0], ["S", 1], ["G", 1], ["C", 1]]
    ops += [["M", 0, 1], ["S", 0], ["G", 0], ["A", 0, (idx // 2) % (n + 1)], ["S", 0], ["S", 1], ["G", 0], ["G", 1],
            ["M", 0, 1], ["C", 0], ["f", 0], ["l", 0]]
    return ops


def exhaustive_move(nmax, full_upto, kinds=(0, 1, 2), alphabet=None, mode="exhaustive-move"):
    """every priority assignment {0..n-1}^n (ties included; or alphabet^n) for n <= nmax, so that the removed position is,
    over the family, every inner node with one or two children, the root, every leaf.  n <= full_upto: every pair (removed
    position, insert position); larger n: one pair per assignment, cycling through all pairs.  The node created by the
    re-insertion gets a priority in 0..n (cycling; resp. from the alphabet).  Item kinds cycle.  Every other move is a
    move-and-update (the item is modified between remove_at and insert_at)."""
    import itertools
    cases, idx = [], 0
    for n in range(1, nmax + 1):
        pairs = [(k, k2) for k in range(n) for k2 in range(n)]
        newp = list(alphabet) if alphabet is not None else list(range(n + 1))
        for f in itertools.product(alphabet if alphabet is not None else range(n), repeat=n):
            chosen = pairs if n <= full_upto else [pairs[(idx * 7 + 3) % len(pairs)]]
            for (k, k2) in chosen:
                idx += 1
                kind = kinds[idx % len(kinds)]
                ops = move_ops(n, kind, idx, k, k2, f, newp[(idx // 3) % len(newp)], newp[(idx // 5) % len(newp)],
                               move_mods(kind, idx), move_mods(kind, idx // 2))
                cases.append({"kind": kind, "native": False, "mode": mode, "ops": ops})
    return cases


def native_move(nmax, kinds=(0, 1, 2)):
    """the same histories with the treap's own priorities and the real insert_at, every pair of positions, every kind"""
    cases, idx = [], 0
    for n in range(2, nmax + 1):
        for k in range(n):
            for k2 in range(n):
                for kind in kinds:
                    idx += 1
                    ops = move_ops(n, kind, idx, k, k2, [0] * n, 0, 0, move_mods(kind, idx // 3), move_mods(kind, idx // 6))
                    cases.append({"kind": kind, "native": True, "mode": "native-move", "ops": ops})
    return cases


TAG_MODS = {1: [[["a", 5]], [["s", 9]], [["s", 9], ["a", 1]], [["a", 2], ["s", 4]]],
            0: [[["a", 5]], [["a", 2], ["a", -7]]],
            2: [[["a", 5]], [["a", 2], ["a", -7]]]}


def hybrid_tagged(nmax, full_upto, kinds=(0, 1, 2)):
    """An item that still carries a pending tag enters a treap through the REAL insert_at / from_item, for every rank of
    the new node among the nodes already there.  The n nodes of the treap get injected priorities; the tagged item's node
    keeps the generator's own draw d (flag `n`: the real insert_at runs; d is known because every node creation of a line
    draws exactly once).  For every level assignment f in {0..n-1}^n and every rank r, the level l becomes the priority
      d + 2*(l - r) + 1   (no tie: the levels < r are below d, the others above;  r = 0..n)   or
      d + (l - r)         (the level r TIES with d;  r = 0..n-1),
    so over the family the new node is above the root, between any two nodes of its search path, below everything, or
    equal to any of them.  A modification is pending on the root when the insert descends.  Three ways in (cycling):
      0  insert_at(k, <fresh item modified by the caller>)
      1  let mut it = other.remove_at(0); it.modify(..); t.insert_at(k, it)          (move-and-update across treaps)
      2  split_at(k); Treap::from_item(<modified item>) with the generator's priority; merge; merge
    then: size, root aggregate, collect, first, last; split at a cut, both aggregates, a tag on both roots, merge, observe;
    remove_at of the inserted position shows the complete item (its tag was pushed away when it got children)."""
    import itertools
    cases, idx = [], 0
    for n in range(1, nmax + 1):
        for f in itertools.product(range(n), repeat=n):
            for r in range(n + 1):
                for tie in (0, 1):
                    if tie and r == n:
                        continue
                    positions = range(n + 1) if n <= full_upto else [(idx * 5 + 1) % (n + 1)]
                    for k in positions:
                        idx += 1
                        kind = kinds[idx % len(kinds)]
                        way = (idx // 3) % 3
                        ms = TAG_MODS[kind][(idx // 9) % len(TAG_MODS[kind])]
                        d = lcg_prios(n + 2)[n + 1 if way == 1 else n]
                        pr = [min(U32MAX, max(0, d + (l - r) if tie else d + 2 * (l - r) + 1)) for l in f]
                        ops = [["F", MOVE_VALUES[0], pr[0]]]
                        for i in range(1, n):
                            ops.append(["I", 0, i, MOVE_VALUES[i], pr[i]])
                        ops.append(["U", 0, "s", 7, kind] if (kind == 1 and idx % 2) else ["U", 0, "a", 7, kind])
                        if way == 0:
                            ops.append(["I", 0, k, 55, "n", ms])
                        elif way == 1:
                            ops += [["F", 55, 5], ["V", 1, 0, 0, k, "n", ms], ["M", 0, 1]]
                        else:
                            ops += [["A", 0, k], ["F", 55, "n", ms], ["M", 0, 2], ["M", 1, 0]]
                        cut = idx % (n + 2)
                        ops += [["S", 0], ["G", 0], ["C", 0], ["f", 0], ["l", 0],
                                ["A", 0, cut], ["G", 0], ["G", 1], ["U", 0, "a", 3, kind], ["U", 1, "a", -2, kind], ["M", 0, 1],
                                ["G", 0], ["C", 0], ["R", 0, min(k, n)], ["G", 0], ["C", 0]]
                        cases.append({"kind": kind, "native": False, "mode": "hybrid-tagged", "ops": ops})
    return cases


def edge_empty():
    """boundary priorities next to EMPTY operands: a treap whose root has priority 2^32-1 / 2^32-2 / 0 / 1 / 2^31-1 / 2^31
    merged with an empty treap on either side, split at 0 / at len and merged back, emptied by remove_at and merged,
    grown from an empty treap by inserts with one and the same boundary priority; through the Treap wrappers and through
    the TreapNode building blocks"""
    cases, idx = [], 0
    for p in [U32MAX, U32MAX - 1, 0, 1, (1 << 31) - 1, 1 << 31]:
        obs = [["S", 0], ["G", 0], ["C", 0]]
        hists = [
            [["F", 3, p], ["N"], ["M", 0, 1]] + obs,                                   # right operand empty
            [["D"], ["F", 3, p], ["M", 0, 1]] + obs,                                   # left operand empty
            [["F", 3, p], ["A", 0, 1], ["S", 1], ["M", 0, 1]] + obs,                   # split at len, merge back
            [["F", 3, p], ["A", 0, 0], ["S", 0], ["M", 0, 1]] + obs,                   # split at 0, merge back
            [["F", 3, p], ["I", 0, 1, 4, p], ["R", 0, 1]] + obs + [["R", 0, 0]] + obs + [["N"], ["M", 0, 1]] + obs,
            [["N"], ["I", 0, 0, 3, p]] + obs + [["I", 0, 1, 4, p]] + obs + [["I", 0, 0, 2, p, [["a", 5]]]] + obs,
            [["D"], ["N"], ["M", 0, 1]] + obs + [["A", 0, 0], ["M", 1, 0]] + obs,      # merge / split of empty treaps
            [["F", 1, p], ["I", 0, 1, 2, p], ["I", 0, 2, 3, p], ["U", 0, "a", 10, 0], ["A", 0, 3], ["M", 0, 1]] + obs
            + [["A", 0, 0], ["M", 0, 1]] + obs + [["V", 0, 2, 0, 2, p], ["V", 0, 0, 0, 0, p, [["a", 1]]]] + obs,
            [["F", 1, p], ["I", 0, 1, 2, 0], ["I", 0, 0, 0, U32MAX], ["U", 0, "a", 10, 0], ["N"], ["M", 0, 1], ["N"], ["M", 1, 0]] + obs
            + [["R", 0, 2], ["R", 0, 0]] + obs,
        ]
        for h in hists:
            for nodeapi in (False, True):
                idx += 1
                kind = idx % 3
                ops = [(op[:4] + [kind] if op[0] == "U" else op) for op in h]
                c = {"kind": kind, "native": False, "mode": "edge-empty", "ops": ops}
                if nodeapi:
                    c["nodeapi"] = True
                cases.append(c)
    return cases


BIG_POS = [(1 << 32) - 1, 1 << 32, (1 << 32) + 1, (1 << 64) - 2, (1 << 64) - 1]


def big_positions():
    """positions beyond every length, up to usize::MAX, on empty and non-empty treaps (both build profiles): split_at keeps
    everything on the left, insert_at appends, remove_at panics and leaves the sequence as it was"""
    cases, idx = [], 0
    for n in (0, 1, 3):
        for big in BIG_POS:
            for native in (False, True):
                idx += 1
                kind = idx % 3
                ops = [["N"]] if n == 0 else [["F", 10, 3 * idx % 5]]
                for i in range(1, n):
                    ops.append(["I", 0, i, 10 * (i + 1), (7 * i + idx) % 5])
                ops += [["U", 0, "a", 2, kind], ["A", 0, big], ["S", 0], ["S", 1], ["M", 0, 1], ["I", 0, big, 77, 2], ["C", 0],
                        ["R", 0, big], ["V", 0, big, 0, 0, 1], ["V", 0, 0, 0, big, 4, [["a", 1]]], ["G", 0], ["C", 0],
                        ["A", 0, big - 1], ["C", 0], ["C", 1]]
                cases.append({"kind": kind, "native": native, "mode": "big-pos", "ops": ops})
    return cases


def long_chain(n, kind, mode):
    """n elements appended with increasing / decreasing / equal / native priorities (a path of depth n to the right, to
    the left, to the left with ties; a balanced tree), then root modify, split at 1 / mid / n-1 with modifications of the
    parts, move-and-update of the first element to the end, observe, remove from the middle"""
    def pr(j):
        return {"inc": 10 * (j + 1), "dec": 10000000 - 10 * j, "equal": 7}.get(mode, 0)
    ops = [["F", 0, pr(0)]]
    for i in range(1, n):
        ops.append(["I", 0, i, i % 50, pr(i)])
    mid = n // 2
    ops += [["U", 0, "a", 5, kind], ["A", 0, 1], ["G", 1], ["S", 1], ["M", 0, 1],
            ["A", 0, mid], ["U", 1, "s" if kind == 1 else "a", 2, kind], ["G", 0], ["G", 1], ["M", 0, 1],
            ["A", 0, n - 1], ["G", 0], ["G", 1], ["M", 0, 1],
            ["V", 0, 0, 0, n - 1, pr(n), [["a", 3]]], ["S", 0], ["G", 0], ["f", 0], ["l", 0], ["R", 0, mid], ["C", 0]]
    return {"kind": kind, "native": mode == "native", "mode": "chain-" + mode, "ops": ops}


def generate(rng, tier):
    quick = tier == "quick"
    cases = exhaustive_small(4 if quick else 5)
    cases += exhaustive_move(4, 3) if quick else exhaustive_move(5, 4)
    cases += native_move(5 if quick else 8)
    # items that enter a treap with a pending tag, through the real insert_at, for every rank of the new node
    cases += hybrid_tagged(3, 2) if quick else hybrid_tagged(4, 3)
    # boundary priorities: every assignment over {0, 2^32-2, 2^32-1}, and the empty-operand cases
    edge3 = [0, U32MAX - 1, U32MAX]
    cases += exhaustive_small(3 if quick else 5, alphabet=edge3, mode="edge-exhaustive")
    cases += exhaustive_move(3, 2, alphabet=edge3, mode="edge-move") if quick else exhaustive_move(4, 3, alphabet=edge3, mode="edge-move")
    cases += edge_empty()
    cases += big_positions()
    if quick:
        cases += [long_chain(70, 0, "inc"), long_chain(130, 1, "dec"), long_chain(70, 2, "equal"), long_chain(130, 0, "native")]
    else:
        cases += [long_chain(n, kind, mode) for n in (70, 130, 300) for kind in (0, 1, 2) for mode in ("inc", "dec", "equal", "native")]
    n = 1400 if quick else 30000
    for t in range(n):
        kind = t % 2
        mode = PRIO_MODES[rng.below(len(PRIO_MODES))]
        if quick:
            nops = rng.choice([3, 8, 15, 25, 35, 45])
            maxel = 35
        else:
            nops = rng.choice([3, 8, 15, 25, 45, 80])
            maxel = 60
        cases.append(gen_history(rng, nops, kind, mode, maxel))
    # kind 2: the order-sensitive aggregate (own stream of choices: the cases above do not depend on these)
    cases += exhaustive_hash(4 if quick else 5)
    hr = rng.fork("c03-hash")
    for t in range(260 if quick else 8000):
        mode = PRIO_MODES[hr.below(len(PRIO_MODES))]
        if quick:
            nops, maxel = hr.choice([6, 12, 20, 30, 45]), 35
        else:
            nops, maxel = hr.choice([6, 12, 25, 45, 80]), 60
        cases.append(gen_history(hr, nops, 2, mode, maxel, prebuild=hr.choice([0, 0, 4, 8, 14])))
    return with_attach_paths(cases)


# ----------------------------------------------------------------------------- printing
def case_prios(c):
    """priorities consumed by node creation, in order (an insert_at naming a missing treap creates nothing).  The j-th
    creation of a line draws lcg_prios(..)[j] whether or not the field is overwritten afterwards: a node whose
    priority is `n` (or every node of a native case) keeps that draw."""
    ps, L = [], []
    for op in c["ops"]:
        if op[0] == "F":
            ps.append(op[2])
        elif op[0] == "I" and op[1] < len(L):
            ps.append(op[4])
        elif op[0] == "V" and op[1] < len(L) and op[3] < len(L) and op[2] < len(L[op[1]]):
            ps.append(op[5])     # the re-insertion creates a node; nothing is created when remove_at panics
        py_step(L, op, c["kind"])
    draws = lcg_prios(len(ps))
    nat_ = c.get("native")
    return [draws[j] if (nat_ or p == "n") else p for j, p in enumerate(ps)]


def harness_line(c):
    toks = ["h", str(c["kind"])]
    nat = c.get("native")
    nodeapi = c.get("nodeapi")

    def ms(op):
        m = op_mods(op)
        return (":" + ",".join("%s%d" % (t, v) for t, v in m)) if m else ""

    for op in c["ops"]:
        k = op[0]
        if k == "F":
            toks.append("F:%d:%s%s" % (op[1], "n" if nat else op[2], ms(op)))
        elif k == "I":
            toks.append("I:%d:%d:%d:%s%s" % (op[1], op[2], op[3], "n" if nat else op[4], ms(op)))
        elif k == "U":
            toks.append("%s:%d:%s:%d" % (ATTACH_TOK[attach_path(op)], op[1], op[2], op[3]))
        elif k == "V":
            toks.append("V:%d:%d:%d:%d:%s%s" % (op[1], op[2], op[3], op[4], "n" if nat else op[5], ms(op)))
        elif nodeapi and k in ("M", "A", "B", "C"):
            # the same operation through t.root + TreapNode::{merge, split_at, split_by, collect_into}
            toks.append(":".join([k + "n"] + [str(x) for x in op[1:]]))
        else:
            toks.append(":".join([k] + [str(x) for x in op[1:]]))
    return " ".join(toks)


def z(v):
    return "(%d)" % v


def nat(v):
    return "%d%%nat" % v


def coq_mods(op):
    return "[%s]" % "; ".join("%s %s" % ("MSet" if t == "s" else "MAdd", z(v)) for t, v in op_mods(op))


def coq_op(op):
    k = op[0]
    if k in ("N", "D"):
        return "CNew"
    if k == "F":
        return "CFrom %s %s" % (z(op[1]), coq_mods(op))
    if k == "M":
        return "CMerge %s %s" % (nat(op[1]), nat(op[2]))
    if k == "A":
        return "CSplitAt %s %s" % (nat(op[1]), z(op[2]))
    if k == "B":
        return "CSplitBy %s %s" % (nat(op[1]), z(op[2]))
    if k == "I":
        return "CInsert %s %s %s %s" % (nat(op[1]), z(op[2]), z(op[3]), coq_mods(op))
    if k == "R":
        return "CRemove %s %s" % (nat(op[1]), z(op[2]))
    if k == "V":
        return "CMove %s %s %s %s %s" % (nat(op[1]), z(op[2]), nat(op[3]), z(op[4]), coq_mods(op))
    if k == "U":
        return "CMod %s (%s %s)" % (nat(op[1]), "MSet" if op[2] == "s" else "MAdd", z(op[3]))
    return "%s %s" % ({"f": "CFirst", "l": "CLast", "C": "CCollect", "S": "CSize", "G": "CAgg"}[k], nat(op[1]))


def coq_out(tok):
    if tok == "u":
        return "OUnit"
    if tok == "x":
        return "OInvalid"
    if tok == "P":
        return "OPanic"
    if tok.startswith("!"):
        # an internal consistency check of the executor failed (`!is_empty`: is_empty() disagrees with size() / collect()
        # / root(); `!collect_into`: collect_into touched what the vector already held): no model output equals this
        return "OInvalid"
    tag, _, val = tok.partition(":")
    if tag == "e":
        return "OElem None" if val == "none" else "OElem (Some %s)" % z(int(val))
    if tag == "g":
        return "OAgg None" if val == "none" else "OAgg (Some %s)" % z(int(val))
    if tag == "s":
        return "OSize %s" % z(int(val))
    if tag == "r":
        # the complete returned item: element, aggregate, size and the three further numbers of dump()
        f = [int(v) for v in val.split(",")]
        if len(f) != 6:
            raise ValueError("removed item with %d fields: %r" % (len(f), tok))
        return "ORemoved (RItem %s)" % " ".join(z(v) for v in f)
    if tag == "c":
        return "OList [%s]" % "; ".join(z(int(v)) for v in val.split(",") if v != "")
    raise ValueError("unknown output token %r" % tok)


def split_obs(obs):
    """(list of output tokens, shapes text, list of collect tokens) or None if the whole line panicked"""
    if obs.strip() == "P":
        return None
    a, b, c = obs.split("|")
    return a.split(), b.split(), c.split()


def coq_ops(c):
    return "[%s]" % "; ".join(coq_op(op) for op in c["ops"])


def coq_prios(c):
    return "[%s]" % "; ".join(z(p) for p in case_prios(c))


def coq_term(c, obs, profile):
    so = split_obs(obs)
    o = "None" if so is None else "(Some [%s])" % "; ".join(coq_out(t) for t in so[0])
    return "(Case %s %s %s %s)" % (nat(c["kind"]), coq_ops(c), coq_prios(c), o)


def nontrivial(c, obs):
    """a root modification followed by a structural operation and then an observation; or an item with a pending tag
    entering a non-empty treap (insert_at, move-and-update) followed by an observation"""
    stage = 0
    L = []
    for op in c["ops"]:
        if stage == 0 and op[0] == "U":
            stage = 1
        elif stage == 1 and op[0] in ("A", "B", "M", "I", "R", "V"):
            stage = 2
        elif stage == 2 and op[0] in ("C", "G", "f", "l", "R", "V"):
            return True
        if stage < 2 and op_mods(op) and op[0] in ("I", "V"):
            j = op[1] if op[0] == "I" else op[3]
            if j < len(L) and len(L[j]) >= 1:
                stage = 2
        py_step(L, op, c["kind"])
    return False


def classify(c, obs):
    n = len(c["ops"])
    return "kind%d/%s/%s" % (c["kind"], c.get("mode", "?"), "ops<=10" if n <= 10 else ("ops<=30" if n <= 30 else "ops>30"))


def shrink(c):
    out = []
    ops = c["ops"]
    n = len(ops)
    # drop the second half / the last op, then chunks, then single ops (later ones first)
    if n > 1:
        out.append(dict(c, ops=ops[: n // 2]))
        out.append(dict(c, ops=ops[: n - 1]))
    if n >= 8:
        q = n // 4
        for a in range(0, n, q):
            out.append(dict(c, ops=ops[:a] + ops[a + q:]))
    for i in range(n - 1, -1, -1):
        out.append(dict(c, ops=ops[:i] + ops[i + 1:]))
    # once the history is short: the Treap wrappers instead of the building blocks, an item handed over unmodified
    if c.get("nodeapi"):
        out.append({k: v for k, v in c.items() if k != "nodeapi"})
    for i in range(n):
        if op_mods(ops[i]):
            out.append(dict(c, ops=ops[:i] + [ops[i][:MODS_AT[ops[i][0]]]] + ops[i + 1:]))
    # a root modification attached through the accessor instead of the public fields
    for i in range(n):
        if ops[i][0] == "U" and attach_path(ops[i]):
            out.append(dict(c, ops=ops[:i] + [ops[i][:5]] + ops[i + 1:]))
    return out


def known_finding(c, obs, profile):
    return None


MANIFEST = {
    "text": "Coq theorems (no axioms, closed under the global context) about an executable Gallina model of rlib_treap (merge, split_at, "
            "split_by, push/update discipline, collect, first, last, insert_at, remove_at, root modification, a multi-treap machine), "
            "generic over a lawful item interface (elem/agg/size/Pending, modifications need not commute) and over EVERY priority "
            "assignment, ties included: Rep invariant; c03_merge_rep (concatenation), c03_split_at_rep (firstn/skipn for every k, k >= len "
            "as len), c03_split_by_rep (take_while/drop_while for prefix-monotone predicates), c03_insert_at (for every Detached item: one element, ANY pending tag - "
            "the tag of the inserted item never reaches its new neighbours), c03_remove_at (returns the "
            "k-th element; out of range = panic, sequence unchanged), c03_first_last_collect_size (+ root aggregate = fold of exactly that "
            "subsequence), c03_modify_root (a root modification reaches exactly that treap's elements, once, in attachment order), "
            "c03_history (outputs of any history - including from_item / insert_at of items that carry a pending tag and move = remove_at, the caller's modifications of the "
            "returned item object, insert_at of that object - = outputs of the list-of-lists "
            "specification, which inserts the element of the modified item, and every item handed out by remove_at is Fresh, for every priority stream), lawfulness of "
            "the ItemSized-like item (c03_isz_lawful), of an assign-vs-add item (c03_iaa_lawful) and of a positional-hash item whose "
            "aggregate is order-sensitive (c03_ihash_lawful: exchanged children change it), c03_model_check_spec_check (agreement with the model implies the "
            "specification on every correspondence case). The model is tied to the code on every run: histories are run on the real Treap "
            "(wrappers and TreapNode building blocks) with injected (public priority field, boundary values 0 / 2^32-1 included), native or hybrid priorities and Coq proves model = implementation and implementation |= list "
            "specification for every case.",
    "level_note": "Trusted: Coq kernel + vm_compute; the Rust executor and the Python case printer; Box/Option ownership modelled "
                  "functionally; usize as Z; with injected priorities insert_at is replayed as its body (split_at, from_item, merge, merge) "
                  "because the node is created inside insert_at - the real insert_at runs in the native-priority cases and, steered through every rank "
                  "of the new node (ties included, n <= 3/4), in the hybrid cases; the "
                  "correspondence is sampled (histories up to 80 ops, all priority assignments up to 5 nodes, paths up to depth 300).",
    "technique": "Coq proof over Gallina model + vm_compute correspondence batches against the Rust crate",
}
