"""C12 — Bitset<N> = set of indices 0..64*N (rlib/bitset)."""
from math import gcd

ID = "C12"
CRATE = "c12"
COQ_DIR = "C12"
COQ_DEPS = []
PROFILES = ["debug", "release"]
# no Open Scope N_scope here: the driver finds failing case numbers by the "%N" suffix Coq prints outside N_scope
CORR_IMPORT = "From RlibV Require Import C12.Model C12.Corr.\nClose Scope N_scope."
AUDIT_IMPORT = ("From Coq Require Import String Ascii NArith List Bool Sorted.\nImport ListNotations.\n"
                "From RlibV Require Import C12.Model C12.Corr C12.ProofsBase C12.ProofsHist C12.Properties.\n"
                "Open Scope N_scope.")
EXPLAIN = "explain"
AXIOM_ALLOW = []
SHARD = 650
THEOREMS = [
    ("c12_mem_nth", "forall (s : bitset) (i : N), mem s i = N.testbit (nth (N.to_nat (i / 64)) s 0) (i mod 64)"),
    ("c12_set", "forall (s : bitset) (x : N), wfb s = true -> (x < cap s -> exists s', set s x = Some s' /\\ wfb s' = true /\\ length s' = length s /\\ forall i, mem s' i = if i =? x then true else mem s i) /\\ (cap s <= x -> set s x = None)"),
    ("c12_remove", "forall (s : bitset) (x : N), wfb s = true -> (x < cap s -> exists s', remove s x = Some s' /\\ wfb s' = true /\\ length s' = length s /\\ forall i, mem s' i = if i =? x then false else mem s i) /\\ (cap s <= x -> remove s x = None)"),
    ("c12_flip", "forall (s : bitset) (x : N), wfb s = true -> (x < cap s -> exists s', flip s x = Some s' /\\ wfb s' = true /\\ length s' = length s /\\ forall i, mem s' i = if i =? x then negb (mem s i) else mem s i) /\\ (cap s <= x -> flip s x = None)"),
    ("c12_test", "forall (s : bitset) (x : N), test s x = if x <? cap s then Some (mem s x) else None"),
    ("c12_clear", "forall s : bitset, wfb (clear s) = true /\\ length (clear s) = length s /\\ forall i, mem (clear s) i = false"),
    ("c12_new", "forall n : nat, wfb (new n) = true /\\ length (new n) = n /\\ forall i, mem (new n) i = false"),
    ("c12_from_u64", "forall (n : nat) (x : N), (1 <= n)%nat -> x < 2 ^ 64 -> exists s, from_u64 n x = Some s /\\ wfb s = true /\\ length s = n /\\ forall i, mem s i = if i <? 64 then N.testbit x i else false"),
    ("c12_from_u64_zero_words_panics", "forall x : N, from_u64 0 x = None"),
    ("c12_bin_ref", "forall (f : N -> N -> N) (s t : bitset), length s = length t -> bin_ref f s t = Some (bin_assign f s t)"),
    ("c12_and", "forall s t : bitset, wfb s = true -> wfb t = true -> length s = length t -> wfb (bin_assign N.land s t) = true /\\ length (bin_assign N.land s t) = length s /\\ forall i, mem (bin_assign N.land s t) i = mem s i && mem t i"),
    ("c12_or", "forall s t : bitset, wfb s = true -> wfb t = true -> length s = length t -> wfb (bin_assign N.lor s t) = true /\\ length (bin_assign N.lor s t) = length s /\\ forall i, mem (bin_assign N.lor s t) i = mem s i || mem t i"),
    ("c12_xor", "forall s t : bitset, wfb s = true -> wfb t = true -> length s = length t -> wfb (bin_assign N.lxor s t) = true /\\ length (bin_assign N.lxor s t) = length s /\\ forall i, mem (bin_assign N.lxor s t) i = xorb (mem s i) (mem t i)"),
    ("c12_not", "forall s : bitset, wfb s = true -> wfb (bnot s) = true /\\ length (bnot s) = length s /\\ forall i, i < cap s -> mem (bnot s) i = negb (mem s i)"),
    ("c12_count", "forall s : bitset, wfb s = true -> count s = N.of_nat (length (filter (mem s) (indices s)))"),
    ("c12_indices", "forall (s : bitset) (i : N), In i (indices s) <-> i < cap s"),
    ("c12_iter_bits", "forall s : bitset, wfb s = true -> cap s < 2 ^ 64 -> exists l, iter_bits s = Some (cap s, l) /\\ StronglySorted N.lt l /\\ (forall i, In i l <-> i < cap s /\\ mem s i = true) /\\ next s (cap s) = Some (None, cap s)"),
    ("c12_iter_bits_each_once", "forall (s : bitset) (l : list N) (idx : N), wfb s = true -> cap s < 2 ^ 64 -> iter_bits s = Some (idx, l) -> NoDup l"),
    ("c12_next", "forall (s : bitset) (idx : N), wfb s = true -> cap s < 2 ^ 64 -> idx <= cap s -> (exists m, next s idx = Some (Some m, m + 1) /\\ idx <= m /\\ m < cap s /\\ mem s m = true /\\ forall i, idx <= i -> i < m -> mem s i = false) \\/ (next s idx = Some (None, cap s) /\\ forall i, idx <= i -> i < cap s -> mem s i = false)"),
    ("c12_eq", "forall s t : bitset, wfb s = true -> wfb t = true -> length s = length t -> (beq s t = true <-> s = t) /\\ (s = t <-> forall i, i < cap s -> mem s i = mem t i)"),
    ("c12_display", "forall s : bitset, exists str, display s = Some str /\\ String.length str = (64 * length s)%nat /\\ forall i, i < cap s -> String.get (N.to_nat i) str = Some (if mem s i then \"1\"%char else \"0\"%char)"),
    ("c12_history", "forall nw : nat, N.of_nat nw < 2 ^ 58 -> forall ops : list op, Forall op_ok ops -> run (word_impl nw) (init (word_impl nw)) ops = run (naive_impl nw) (init (naive_impl nw)) ops"),
    ("c12_model_check_spec_check", "forall c : case, case_ok c -> model_check c = true -> spec_check c = true"),
    ("c12_enc_display", "forall ws : bitset, display ws = Some (bits_str ws)"),
    ("c12_enc_members", "forall ws : bitset, idx_list 0 ws = filter (mem ws) (indices ws)"),
]
RULE = ("histories of 1-40 operations on four Bitset<N> registers; random histories for N in {1,2,3,10,17,20} (bulk) and "
        "{0,4,8,16,32,33,64,65}, directed histories for every N in {0,1,2,3,4,8,10,16,17,20,32,33,64,65,128,129,157,1024,"
        "1025}: new / Default / from_u64 (0, 1, 2^63, all ones, alternating, random) / set / remove / flip / test / clear / "
        "count / iter_bits (all items + two calls after the end) / &,|,^ by reference and assigning / ! / == / clone / Display / "
        "Debug; indices concentrated on 0, 1, 62, 63, 64, 65, 127, 128, 1023/1024, 4095/4096, 64N-1 and out of range 64N, "
        "64N+63, 2^63, 2^16+k, 2^32+k, 2^38+k, 64*2^8+k, 64*2^16+k, 2^64-64N+k (panic, register unchanged). Other public routes to "
        "the same observation are executed as separate ops that must print what the plain op prints: iterx (after k calls "
        "of next(): size_hint, count, last, nth, fold, sum, min, max, collect, for, for_each, by_ref+take then resume, skip, "
        "step_by, peekable, position, find, all/any, three interleaved live iterators), iterraw (BitsIter::new on a raw "
        "array), clonefrom (clone_from); == is executed together with != and with swapped operands, Display/Debug together "
        "with to_string, {:#?}, width/precision equal to the length, a non-String fmt::Write and a nested format (a "
        "disagreement prints a token X... that no model predicts). Where replaying a rendering or a dense iteration in the "
        "word model is too slow (quadratic in N) the counting forms itern/dispn/dbgn are used: the executor checks the items / "
        "characters against test(i) for every i and prints their number, which the model must predict as count. Directed "
        "families per capacity: boundaries with all observers and both complement directions, all-words-populated operands "
        "through every operator form, clear/new/clone/clone_from/from_u64 on populated registers followed by all observers and "
        "operators, clone_from into destinations with bits in higher words, pairs of sets differing in exactly one bit placed in "
        "every word (of interest) in turn and equal sets reached by different histories, out-of-range indices, abnormal "
        "sinks. Calls that hand control to user code are also made with user code that fails, at random places of one random "
        "history in five (one in ten for N >= 10) and in a directed family for every capacity: fdisp/fdbg render a register "
        "with Display/Debug into a bounded fmt::Write that refuses the chunk that does not fit, or keeps the part that fits and "
        "returns fmt::Error, or keeps it and panics (caught), with room for 0, 1, half, len-1 and len bytes, into a sink that "
        "renders the complement with format! inside write_str, and on a freshly spawned thread (failing sink first, then "
        "format!); xr does the same with a Bitset<M> of another capacity M in {1,2,3,20,65} (from_u64 pattern or its complement) "
        "on the same thread. These ops show nothing new (printed as count / clone 0 0 after executor-side checks: accepted "
        "bytes are a prefix of the rendering given by test(i), Ok only with the whole rendering in the sink, Err only after a "
        "refusal, panic only from the panicking sink); the renderings of the same, the complementary and empty registers that "
        "follow them in the history are ordinary disp/dbg observations decided by Coq. iterp runs for_each/fold/position/all "
        "with a closure that panics at the k-th item (caught) and then lists the iterator as iter does. Every history runs on "
        "a thread of its own (thread-local leftovers cannot travel between cases, replays are self-contained); "
        "non-trivial = at least one mutation touching a word boundary bit or a binary operator, followed by an observation of "
        "that register")
TRUSTED = ["executor harness/crates/c12 (drives rlib_bitset::Bitset<N> for N = 0, 1, 2, 3, 4, 8, 10, 16, 17, 20, 32, 33, 64, 65, "
           "128, 129, 157, 1024, 1025, prints every observable; its internal cross-checks of alternative public routes "
           "(iterx/itern/dispn/dbgn/eq/disp/dbg/fdisp/fdbg/xr/iterp) can only turn an observation into a token that fails both "
           "checks)",
           "checks/c12.py (history generator, Coq term printer; iterx/iterraw/iterp are printed as OIter, itern/dispn/dbgn/fdisp/fdbg "
           "as OCount, clonefrom as OClone, xr as OClone 0 0; a plain-integer simulation of the registers is used only to choose between an observer and "
           "its counting form)"]
ASSUMPTIONS = ["[u64; N] modelled as a list of N words below 2^64, usize indices as unbounded N (all sampled indices are "
               "below 2^64; idx + 64 in the iterator cannot overflow since idx < 64*N)",
               "an out-of-bounds index panics before any write: the register is unchanged afterwards",
               "loops of the iterator are modelled with binary fuel 2^130; the theorems prove the fuel is never exhausted"]

NS = [1, 2, 3, 10, 17, 20]                      # capacities of the bulk of the random histories
NS_MID = [0, 4, 8, 16, 32, 33, 64, 65]          # further capacities with (fewer, shorter) random histories
NS_BIG = [128, 129, 157, 1024, 1025]            # directed histories only
NS_ALL = sorted(NS + NS_MID + NS_BIG)
ARITY = {"new": 1, "from": 2, "set": 2, "rem": 2, "flip": 2, "test": 2, "clear": 1, "count": 1, "iter": 1,
         "and": 3, "or": 3, "xor": 3, "anda": 2, "ora": 2, "xora": 2, "not": 2, "eq": 2, "clone": 2, "disp": 1, "dbg": 1,
         "iterx": 3, "iterraw": 1, "itern": 3, "dispn": 1, "dbgn": 1, "clonefrom": 2,
         "fdisp": 3, "fdbg": 3, "xr": 6, "iterp": 2}
XCAPS = [1, 2, 3, 20, 65]                       # capacities of the foreign bitsets rendered inside a history (op xr)
ABNORMAL = ("fdisp", "fdbg", "xr")
M64 = (1 << 64) - 1


# ----------------------------------------------------------------------------- executor / Coq printing
def harness_line(c):
    toks = [str(c["n"])]
    for o in c["ops"]:
        toks += [str(x) for x in o]
    return " ".join(toks)


def n_(v):
    return "%d%%N" % int(v)


def op_term(o):
    k = o[0]
    a = o[1:]
    if k == "new":
        return "ONew %d" % a[0]
    if k == "from":
        return "OFrom %d %s" % (a[0], n_(a[1]))
    if k in ("set", "rem", "flip", "test"):
        return "%s %d %s" % ({"set": "OSet", "rem": "ORemove", "flip": "OFlip", "test": "OTest"}[k], a[0], n_(a[1]))
    if k in ("clear", "count", "iter", "disp", "dbg"):
        return "%s %d" % ({"clear": "OClear", "count": "OCount", "iter": "OIter", "disp": "ODisplay", "dbg": "ODebug"}[k], a[0])
    # executor ops that reach an existing observation by another public route (see the executor's header): the model
    # and the specification know them only as the plain operation, so any difference is a failed check
    if k in ("iterx", "iterraw", "iterp"):
        return "OIter %d" % a[0]
    if k in ("itern", "dispn", "dbgn", "fdisp", "fdbg"):
        # fdisp / fdbg: a rendering into a failing / panicking / re-entrant sink changes nothing and shows nothing
        # (the executor prints count() after its own checks); its purpose is what LATER disp / dbg ops show
        return "OCount %d" % a[0]
    if k == "xr":
        # rendering of a bitset of another capacity: no register is involved.  `clone 0 0` is the operation that
        # leaves every register as it is and shows `u`
        return "OClone 0 0"
    if k == "clonefrom":
        return "OClone %d %d" % (a[0], a[1])
    if k in ("and", "or", "xor"):
        return "OBinRef %s %d %d %d" % ({"and": "BAnd", "or": "BOr", "xor": "BXor"}[k], a[0], a[1], a[2])
    if k in ("anda", "ora", "xora"):
        return "OBinAssign %s %d %d" % ({"anda": "BAnd", "ora": "BOr", "xora": "BXor"}[k], a[0], a[1])
    if k in ("not", "eq", "clone"):
        return "%s %d %d" % ({"not": "ONot", "eq": "OEq", "clone": "OClone"}[k], a[0], a[1])
    raise ValueError(k)


def obs_term(tok):
    if tok == "u":
        return "VUnit"
    if tok == "P":
        return "VPanic"
    if tok[0] == "X":
        # the executor saw two public routes to the same answer disagree: no model predicts this token
        return 'VStr "%s"%%string' % "".join(ch for ch in tok if ch.isalnum() or ch in "-_")
    if tok[0] == "b":
        return "VBool %s" % ("true" if tok[1] == "1" else "false")
    if tok[0] == "n":
        return "VNum %s" % n_(tok[1:])
    if tok[0] == "l":
        e, items = tok[1], [int(x) for x in tok[3:].split(",") if x]
        ended = "true" if e == "1" else "false"
        if len(items) > 12 and all(a < b for a, b in zip(items, items[1:])) :
            # compact form of the same strictly ascending list (Corr.idx_list)
            ws = [0] * (items[-1] // 64 + 1)
            for v in items:
                ws[v // 64] |= 1 << (v % 64)
            return "VList (idx_list 0%%N [%s]) %s" % ("; ".join(n_(w) for w in ws), ended)
        return "VList [%s] %s" % ("; ".join(n_(x) for x in items), ended)
    if tok[0] == "s":
        t = tok[1:]
        if t and len(t) % 64 == 0 and set(t) <= {"0", "1"}:
            # compact form of the same string (Corr.bits_str): char 64k+j = bit j of the k-th number
            return "VStr (bits_str [%s])" % "; ".join(n_(int(t[k:k + 64][::-1], 2)) for k in range(0, len(t), 64))
        return 'VStr "%s"%%string' % t
    raise ValueError(tok)


def coq_term(c, obs, profile):
    toks = obs.split()
    ops = c["ops"]
    if obs.strip() == "-":
        toks = []
    if len(toks) != len(ops):          # whole-line panic or garbage: cannot match the model
        toks = ["P"] * len(ops)
    return "(Case %d [%s])" % (c["n"], "; ".join("(%s, %s)" % (op_term(o), obs_term(t)) for o, t in zip(ops, toks)))


MUT = ("set", "rem", "flip", "and", "or", "xor", "anda", "ora", "xora", "not", "from")
OBS = ("test", "count", "iter", "eq", "disp", "dbg", "iterx", "iterraw", "itern", "dispn", "dbgn", "iterp", "fdisp", "fdbg")


def nontrivial(c, obs):
    seen_mut = False
    for o in c["ops"]:
        if o[0] in MUT:
            seen_mut = True
        elif o[0] in OBS and seen_mut:
            return True
    return False


def classify(c, obs):
    kinds = {o[0] for o in c["ops"]}
    tag = "N%d" % c["n"]
    tag += "/bin" if kinds & {"and", "or", "xor", "anda", "ora", "xora", "not"} else "/point"
    if kinds & {"iterx", "iterraw", "itern", "dispn", "dbgn", "clonefrom", "iterp"}:
        tag += "/alt-route"
    if kinds & set(ABNORMAL):
        tag += "/abnormal-sink"
    if "P" in obs.split():
        tag += "/panic"
    return tag


# ----------------------------------------------------------------------------- generator
def index(rng, n):
    top = 64 * n
    k = rng.below(10)
    if k < 6:
        cands = [0, 1, 62, 63, 64, 65, 127, 128, top - 1, top - 2, top - 64, top - 65]
        v = rng.choice(cands)
        if 0 <= v < top:
            return v
        return rng.below(top)
    if k < 9:
        return rng.below(top)
    if rng.chance(1, 2):
        return rng.below(top)
    if rng.chance(1, 3):
        return rng.choice(oor_values(n))
    return rng.choice([top, top + 1, top + 63, top + 64, 1 << 63, M64, 64 * 10, 64 * 11 - 1])  # out of range (mostly)


def oor_values(n):
    """indices that expose index arithmetic done in a narrower type: 2^w + k for the usual widths, 64 * 2^w + k (word
    index truncated), and the top of the usize range"""
    top = 64 * n
    out = []
    for base in (64 << 8, 1 << 16, 64 << 16, 1 << 31, 1 << 32, 1 << 38, 1 << 63, (1 << 64) - top):
        for k in (0, 63, max(top - 1, 0)):
            v = base + k
            if v <= M64:
                out.append(v)
    return sorted(set(out))


def pattern(rng):
    k = rng.below(10)
    if k < 6:
        return rng.choice([0, 1, 1 << 63, M64, 0x5555555555555555, 0xAAAAAAAAAAAAAAAA, 3, (1 << 63) | 1,
                           1 << 62, M64 - 1, M64 >> 1, 1 << 32, (1 << 32) - 1, 0xFFFFFFFF00000000])
    if k < 8:
        return rng.next()
    if k == 8:
        return rng.next() & rng.next() & rng.next()      # sparse
    return 1 << rng.below(64)


def popcount(v):
    return bin(v).count("1")


def sim_step(n, regs, o):
    """what the registers hold after op o (plain integers).  Used ONLY to choose between an observer that Coq replays
    item by item and its counting form (cost of the Coq replay); never to decide what is correct."""
    k, top = o[0], 64 * n
    mask = (1 << top) - 1
    if k in ("new", "clear"):
        regs[o[1]] = 0
    elif k == "from":
        if n > 0:
            regs[o[1]] = o[2]
    elif k in ("set", "rem", "flip"):
        if o[2] < top:
            b = 1 << o[2]
            regs[o[1]] = (regs[o[1]] | b) if k == "set" else (regs[o[1]] & ~b) if k == "rem" else (regs[o[1]] ^ b)
    elif k in ("and", "or", "xor"):
        x, y = regs[o[2]], regs[o[3]]
        regs[o[1]] = (x & y) if k == "and" else (x | y) if k == "or" else (x ^ y)
    elif k in ("anda", "ora", "xora"):
        x, y = regs[o[1]], regs[o[2]]
        regs[o[1]] = (x & y) if k == "anda" else (x | y) if k == "ora" else (x ^ y)
    elif k == "not":
        regs[o[1]] = ~regs[o[2]] & mask
    elif k in ("clone", "clonefrom"):
        regs[o[1]] = regs[o[2]]


def cost_iter(n, v):
    """seconds of vm_compute for replaying iter_bits in the word model (measured: about 3.5 us per list step of `get`
    including the arithmetic around it; two word reads per item, one per skipped word)"""
    s, w = 0, 0
    while v:
        c = popcount(v & M64)
        s += c * (w + 1)
        v >>= 64
        w += 1
    return (2 * s + n * n / 2) * 3.5e-6


def cost_disp(n):
    return 32 * n * n * 3.0e-6 + 64 * n * 2e-6


class Budget:
    """seconds of Coq replay that the abstract observers ITER / DISP / DBG of one group of directed histories may
    spend; when it is used up they become the counting forms itern / dispn / dbgn (checked inside the executor)"""

    def __init__(self, secs):
        self.left = secs

    def take(self, c):
        if c < 0.004:
            return True
        if c <= self.left:
            self.left -= c
            return True
        return False


def concretize(n, ops, bud):
    regs = [0, 0, 0, 0]
    out = []
    for o in ops:
        k = o[0]
        if k == "ITER":                 # ["ITER", r, k, j]
            if bud.take(cost_iter(n, regs[o[1]])):
                out.append(["iterx", o[1], o[2], o[3]])
            else:
                out.append(["itern", o[1], o[2], o[3]])
        elif k == "RAW":
            if bud.take(cost_iter(n, regs[o[1]])):
                out.append(["iterraw", o[1]])
            else:
                out.append(["itern", o[1], 0, 0])
        elif k == "ITERP":              # ["ITERP", r, k]
            if bud.take(cost_iter(n, regs[o[1]])):
                out.append(["iterp", o[1], o[2]])
            else:
                out.append(["itern", o[1], o[2], 0])
        elif k in ("DISP", "DBG"):
            if bud.take(cost_disp(n)):
                out.append(["disp" if k == "DISP" else "dbg", o[1]])
            else:
                out.append(["dispn" if k == "DISP" else "dbgn", o[1]])
        else:
            out.append(o)
            sim_step(n, regs, o)
    return out


def gen_history(rng, n, maxlen):
    return concretize(n, gen_history_abs(rng, n, maxlen), Budget(0.25 if n > 20 else 1e9))


def gen_history_abs(rng, n, maxlen):
    ln = rng.range(1, maxlen)
    ops = []
    R = 4
    ndisp = 0
    style = rng.below(4)      # 0 point-heavy, 1 operator-heavy, 2 mixed, 3 dense fill then observe
    for _ in range(ln):
        k = rng.below(100)
        r = rng.below(R)
        if style == 0:
            cut = (45, 60, 63, 66)
        elif style == 1:
            cut = (20, 30, 70, 78)
        else:
            cut = (32, 45, 62, 68)
        if style == 3 and rng.chance(1, 3):
            ops.append([rng.choice(["not", "ora", "xora", "from"])] + ([r, rng.below(R)] if rng.chance(2, 3) else [r, 0]))
            if ops[-1][0] == "from":
                ops[-1] = ["from", r, pattern(rng)]
            continue
        if k < cut[0]:
            ops.append([rng.choice(["set", "set", "rem", "rem", "flip", "flip", "flip"]), r, index(rng, n)])
        elif k < cut[1]:
            ops.append(["from", r, pattern(rng)])
        elif k < cut[2]:
            kind = rng.choice(["and", "or", "xor", "anda", "ora", "xora", "not", "not"])
            if kind in ("and", "or", "xor"):
                ops.append([kind, r, rng.below(R), rng.below(R)])
            else:
                ops.append([kind, r, rng.below(R)])
        elif k < cut[3]:
            kind = rng.choice(["clone", "clone", "clear", "new"])
            if kind == "clone" and rng.chance(1, 3):
                kind = "clonefrom"
            ops.append([kind, r, rng.below(R)] if kind in ("clone", "clonefrom") else [kind, r])
        else:
            kind = rng.choice(["test", "test", "test", "count", "count", "iter", "iter", "eq", "disp", "dbg"])
            if kind in ("disp", "dbg"):
                if ndisp >= 2 or (n == 10 and rng.chance(2, 3)):
                    kind = "iter"
                else:
                    ndisp += 1
            if kind == "test":
                ops.append(["test", r, index(rng, n)])
            elif kind == "eq":
                ops.append(["eq", r, rng.below(R)])
            elif kind == "iter":
                ops.append(alt_iter(rng, r, n))
            elif n > 20:
                ops.append(["DISP" if kind == "disp" else "DBG", r] if kind in ("disp", "dbg") else [kind, r])
            else:
                ops.append([kind, r])
    # always end by observing something of every touched register
    touched = sorted({o[1] for o in ops if o[0] not in OBS and o[0] not in ("ITER", "RAW", "DISP", "DBG")})
    for r in touched:
        ops.append(alt_iter(rng, r, n) if rng.chance(2, 3) else ["count", r])
    if rng.chance(1, 5 if n < 10 else 10):      # renderings cost n^2 in the Coq replay
        inject_abnormal(rng, n, ops)
    return ops


def abnormal_op(rng, n, r):
    """one rendering into a sink that is not a String (executor header: fdisp / fdbg / xr)"""
    mode = rng.choice([0, 0, 0, 1, 1, 2, 2, 2, 3, 4])
    ksel = rng.choice([0, 1, 2, 2, 3, 3, 4])
    if rng.chance(1, 4):                # a bitset of another capacity on the same thread
        pat = pattern(rng) if rng.chance(3, 4) else M64
        return ["xr", rng.choice(XCAPS), rng.below(2), pat, rng.below(2), rng.choice([0, 1, 2, 3, 5, mode]), ksel]
    return ["fdisp" if rng.chance(1, 2) else "fdbg", r, mode, ksel]


def render_op(rng, n, r):
    k = "disp" if rng.chance(1, 2) else "dbg"
    return [k.upper(), r] if n > 20 else [k, r]


def inject_abnormal(rng, n, ops):
    """a rendering whose sink fails, at a random place of the history; after it (not necessarily at once) the same and
    another register are rendered normally: those are ordinary disp / dbg observations"""
    pos = rng.below(len(ops) + 1)
    r = rng.below(4)
    blk = [abnormal_op(rng, n, r)]
    if rng.chance(1, 3):
        blk.append(abnormal_op(rng, n, rng.below(4)))
    ops[pos:pos] = blk
    pos += len(blk)
    later = [render_op(rng, n, (r + 1 + rng.below(3)) % 4)]
    if n < 10 or rng.chance(1, 3):
        later.append(render_op(rng, n, r))
    if n < 10 and rng.chance(1, 2):
        later.append(render_op(rng, n, rng.below(4)))
    for o in later:
        at = pos if rng.chance(1, 3) else pos + rng.below(len(ops) - pos + 1)
        ops.insert(at, o)


def alt_iter(rng, r, n):
    """iter_bits observed through next() only, through every provided Iterator method, or built by BitsIter::new"""
    k = rng.below(8)
    if n > 20:
        return ["RAW", r] if k == 0 else ["ITER", r, rng.choice([0, 1, 2, 3, 5, 8, 13, 63, 64, 65, 100]), rng.below(4)]
    if k < 4:
        return ["iterp", r, rng.choice([0, 0, 1, 2, 5, 63, 64, 64 * n])] if rng.chance(1, 6) else ["iter", r]
    if k < 7:
        return ["iterx", r, rng.choice([0, 1, 2, 3, 5, 8, 13, 63, 64, 65, 100, 64 * n]), rng.choice([0, 1, 2, 3, 7, 64])]
    return ["iterraw", r]


def directed(n):
    """fixed histories that exercise each boundary once per N"""
    top = 64 * n
    hs = []
    edge = sorted({0, 1, 62, 63, top - 1, top - 64} | ({64, 65, 127} if n >= 2 else set()) | ({128} if n >= 3 else set()))
    for x in edge:
        hs.append([["set", 0, x], ["test", 0, x], ["count", 0], ["iter", 0], ["disp", 0], ["flip", 0, x], ["count", 0],
                   ["flip", 0, x], ["rem", 0, x], ["iter", 0], ["test", 0, x]])
        hs.append([["not", 0, 0], ["rem", 0, x], ["count", 0], ["test", 0, x], ["iter", 0], ["dbg", 0]])
    hs.append([["set", 0, top], ["rem", 0, top], ["flip", 0, top], ["test", 0, top], ["count", 0], ["iter", 0]])
    hs.append([["not", 1, 0], ["count", 1], ["iter", 1], ["disp", 1], ["not", 2, 1], ["eq", 2, 0], ["eq", 1, 0]])
    for pat in (0, 1, 1 << 63, M64, 0x5555555555555555, 0xAAAAAAAAAAAAAAAA):
        hs.append([["from", 0, pat], ["count", 0], ["iter", 0], ["disp", 0], ["not", 1, 0], ["iter", 1], ["count", 1],
                   ["xor", 2, 0, 1], ["count", 2], ["and", 3, 0, 1], ["count", 3], ["or", 3, 0, 1], ["eq", 3, 2]])
    # all words populated differently, operators in both forms
    fill = [["set", 0, 64 * w + (w * 7) % 64] for w in range(n)] + [["set", 1, 64 * w + 63 - (w * 5) % 64] for w in range(n)]
    fill += [["set", 1, 64 * w + (w * 7) % 64] for w in range(0, n, 2)]
    for k in ("and", "or", "xor"):
        hs.append(fill + [[k, 2, 0, 1], ["clone", 3, 0], [k + "a", 3, 1], ["eq", 2, 3], ["iter", 2], ["count", 3],
                          [k, 2, 1, 0], ["iter", 2], ["clone", 3, 1], [k + "a", 3, 0], ["iter", 3], ["eq", 2, 3]])
    return hs


# ----------------------------------------------------------------------------- directed families for every capacity
def woi(n):
    """words of interest: all of them for small N, the neighbours of the usual chunk sizes otherwise"""
    if n <= 20:
        return list(range(n))
    if n >= 1024:       # every operation costs 64*N list steps in the specification object: short histories
        return sorted({0, 1, 15, 16, 63, 64, 65, 255, 256, n // 2, n - 2, n - 1})
    return sorted({w for w in (0, 1, 2, 7, 8, 15, 16, 17, 31, 32, 33, 63, 64, 65, 127, 128, 129, 255, 256, n // 2,
                               n - 2, n - 1) if 0 <= w < n})


def edges(n):
    top = 64 * n
    if n >= 1024:
        return [0, 63, 64, 1023, 1024, 4095, 4096, 16383, 16384, 65535, top - 64, top - 1]
    return sorted({x for x in (0, 1, 62, 63, 64, 65, 127, 128, 1023, 1024, 2047, 2048, 4095, 4096, 4159, 4160, 8191,
                               8192, top - 65, top - 64, top - 2, top - 1) if 0 <= x < top})


def wbit(w, v, salt):
    return 64 * w + (w * 7 + v * 13 + salt) % 64


def fill_ops(n, v):
    """registers 0 and 1 with every word populated, differently; 2 and 3 untouched"""
    if n <= 33:
        f = [["set", 0, wbit(w, v, 0)] for w in range(n)] + [["set", 1, 64 * w + 63 - (w * 5 + v) % 64] for w in range(n)]
        f += [["set", 1, wbit(w, v, 0)] for w in range(0, n, 2)]
        return f
    # large N: complement of a one-word pattern (word 0 = !pattern, every other word all ones), then holes
    f = [["from", 0, 0x5555555555555555 ^ (v * 0x0101010101010101 & M64)], ["not", 0, 0], ["from", 1, 0xF0F0F0F00F0F0F0F], ["not", 1, 1]]
    f += [["rem", 0, wbit(w, v, 0)] for w in woi(n)]
    f += [["rem", 1, wbit(w, v, 3)] for w in woi(n)[::2]] + [["rem", 1, wbit(w, v, 0)] for w in woi(n)[1::3]]
    return f


def fam_edges(n, v):
    """G1/G5: every capacity sees its boundaries, all observers, both complement directions, out-of-range panics"""
    top = 64 * n
    e = edges(n) if v == 0 else sorted({wbit(w, v, 1) for w in woi(n)})
    hs = []
    h = [["set", 0, x] for x in e]
    h += [["test", 0, x] for x in e[-2:]] + [["count", 0], ["ITER", 0, len(e) // 2, 1], ["RAW", 0], ["DISP", 0]]
    h += [["set", 0, top], ["rem", 0, top], ["flip", 0, top], ["test", 0, top], ["count", 0]]
    h += [["flip", 0, x] for x in e[::2]] + [["count", 0], ["ITER", 0, 1, 0], ["DBG", 0]]
    hs.append(h)
    h = [["set", 0, x] for x in e] + [["not", 1, 0], ["count", 1], ["ITER", 1, 3, 2], ["DBG", 1], ["not", 2, 1], ["eq", 2, 0],
                                      ["eq", 0, 2], ["ITER", 2, 0, 0], ["from", 3, 0], ["not", 3, 3]]
    h += [["rem", 3, x] for x in e] + [["eq", 3, 1], ["count", 3]]
    if n:
        h += [["flip", 3, top - 1], ["eq", 3, 1], ["eq", 1, 3], ["count", 3], ["test", 3, top - 1], ["DISP", 3]]
    hs.append(h)
    fill = fill_ops(n, v)
    for k in ("and", "or", "xor"):
        hs.append(fill + [[k, 2, 0, 1], ["clonefrom", 3, 0], [k + "a", 3, 1], ["eq", 2, 3], ["ITER", 2, 2, 1], ["count", 3],
                          [k, 2, 1, 0], ["count", 2], ["DISP", 2], ["clone", 3, 1], [k + "a", 3, 0], ["ITER", 3, 0, 3], ["eq", 2, 3]])
    h = fill + [["clear", 0], ["count", 0], ["ITER", 0, 0, 0], ["DISP", 0], ["eq", 0, 3], ["eq", 3, 0], ["test", 0, 0]]
    if n:
        h += [["test", 0, top - 1]]
    h += [["from", 0, M64], ["not", 1, 0], ["count", 0], ["count", 1], ["and", 2, 0, 1], ["count", 2], ["or", 2, 0, 1],
          ["count", 2], ["ITER", 2, 64, 1], ["xor", 3, 0, 1], ["eq", 3, 2], ["DBG", 1], ["clear", 1], ["DBG", 1], ["eq", 1, 3]]
    hs.append(h)
    return hs


def fam_iterx(n, v):
    """G3: the iterator consumed through every provided method after k calls of next(), bits at 62/63/64, last word"""
    top = 64 * n
    bits = sorted({x for x in (62, 63, 64, 65, top - 64, top - 63, top - 2, top - 1) if 0 <= x < top}
                  | {wbit(w, v, 2) for w in woi(n)[1:-1][:6]})
    cnt = len(bits)
    hs = []
    h = [["set", 0, x] for x in bits]
    for k, j in ((0, 0), (1, 1), (max(cnt - 1, 0), 0), (cnt, 1), (cnt + 1, 2), (cnt // 2, cnt), (2, 1)):
        h.append(["ITER", 0, k, j])
    h += [["RAW", 0], ["iter", 0] if n <= 157 else ["RAW", 0]]
    hs.append(h)
    pat = [0x8000000000000001, M64, 0xC000000000000003, 0x5555555555555555, 0xAAAAAAAAAAAAAAAA, 1 << 63][v % 6]
    pc = bin(pat).count("1")
    h = [["from", 0, pat], ["not", 1, 0]]
    for k, j in ((0, 1), (1, 0), (pc - 1, 0), (pc, 0), (pc // 2, 3)):
        h.append(["ITER", 0, k, j])
    for k, j in ((0, 0), (63, 1), (64 * n - pc, 1), (5, 64)):
        h.append(["ITER", 1, max(k, 0), j])
    h += [["RAW", 1], ["set", 0, top - 1] if n else ["count", 0], ["ITER", 0, pc, 0], ["xora", 1, 0], ["ITER", 1, 1, 1]]
    hs.append(h)
    return hs


def fam_clonefrom(n, v):
    """G4: clone_from into a destination that holds bits in higher (and in lower) words than the source; != via eq"""
    top = 64 * n
    if n == 0:
        return [[["clonefrom", 1, 0], ["eq", 1, 0], ["not", 2, 1], ["clonefrom", 0, 2], ["eq", 0, 2], ["count", 0]]]
    ws = woi(n)
    lo = [wbit(0, v, 4), 63][: 2 if n > 1 else 1]
    hi = sorted({top - 1, top - 64, wbit(ws[len(ws) // 2], v, 4), wbit(ws[-1], v, 4)})
    hs = []
    hs.append([["set", 1, x] for x in hi] + [["set", 0, x] for x in lo] +
              [["clonefrom", 1, 0], ["eq", 1, 0], ["eq", 0, 1], ["count", 1], ["ITER", 1, 1, 0], ["test", 1, top - 1], ["DISP", 1],
               ["set", 1, top - 1], ["eq", 1, 0], ["clonefrom", 0, 1], ["eq", 0, 1], ["count", 0], ["test", 0, top - 1],
               ["clear", 1], ["clonefrom", 0, 1], ["count", 0], ["ITER", 0, 0, 0], ["eq", 0, 3]])
    hs.append([["not", 1, 1], ["set", 0, hi[-1]], ["clonefrom", 1, 0], ["count", 1], ["eq", 1, 0], ["not", 2, 0],
               ["clonefrom", 2, 2], ["count", 2], ["clonefrom", 3, 2], ["eq", 3, 2], ["anda", 3, 0], ["count", 3],
               ["clonefrom", 3, 0], ["flip", 3, lo[0]], ["eq", 3, 0], ["ITER", 3, 0, 1], ["DBG", 3]])
    return hs


def fam_neareq(n, v):
    """G6: == / != on sets that differ in exactly one bit, that bit placed in every word (of interest) in turn; the
    same set reached by different histories"""
    h = fill_ops(n, v) + [["clone", 1, 0], ["eq", 0, 1]]
    xs = [64 * w + (w * 11 + 5 + v * 17) % 64 for w in woi(n)]
    for x in xs:
        h += [["flip", 1, x], ["eq", 0, 1], ["eq", 1, 0], ["flip", 1, x], ["eq", 0, 1]]
    h2 = []
    for x in xs[-3:]:
        h2 += [["set", 2, x], ["eq", 2, 3], ["rem", 2, x], ["eq", 2, 3], ["eq", 3, 2]]
    h2 += [["from", 2, 0], ["eq", 2, 3], ["not", 2, 2], ["eq", 2, 3], ["not", 2, 2], ["eq", 2, 3], ["not", 0, 3], ["xor", 1, 0, 0],
           ["eq", 1, 3], ["clear", 0], ["eq", 0, 1], ["new", 2], ["eq", 3, 2], ["count", 2]]
    if xs:
        h2 += [["flip", 2, xs[-1]], ["eq", 3, 2], ["eq", 2, 3], ["clonefrom", 3, 2], ["eq", 3, 2]]
    return [h, h2]


def fam_struct(n, v):
    """G7: clear / new / clone / clone_from / from_u64 on registers whose every word is populated, then all observers,
    then the register as left and right operand of every operator form"""
    top = 64 * n
    hs = []
    for sop in (["clear", 1], ["new", 1], ["clone", 1, 0], ["clonefrom", 1, 0], ["from", 1, 0x8000000000000001 + 2 * v]):
        h = fill_ops(n, v) + [sop, ["count", 1], ["ITER", 1, 1, 1], ["DISP", 1], ["eq", 1, 3], ["eq", 3, 1], ["test", 1, 0]]
        if n:
            h += [["test", 1, top - 1], ["test", 1, wbit(woi(n)[-1], v, 0)]]
        h += [["and", 2, 1, 0], ["count", 2], ["or", 2, 0, 1], ["count", 2], ["xor", 2, 1, 0], ["count", 2],
              ["clone", 2, 0], ["anda", 2, 1], ["count", 2], ["clone", 2, 0], ["ora", 2, 1], ["count", 2],
              ["clone", 2, 0], ["xora", 2, 1], ["count", 2], ["ITER", 2, 0, 2],
              ["ora", 1, 0], ["count", 1], ["xora", 1, 0], ["count", 1], ["anda", 1, 0], ["count", 1],
              ["not", 2, 1], ["count", 2], ["eq", 1, 0], ["eq", 1, 3], ["ITER", 1, 0, 0], ["DBG", 1]]
        hs.append(h)
    return hs


def fam_oor(n, v):
    """G8: indices beyond the capacity that a narrower index type would fold back into range"""
    vals = oor_values(n)
    h = [["set", 0, 5]] if n else []
    kinds = ["set", "flip", "test", "rem"]
    for i, x in enumerate(vals):
        h.append([kinds[(i + v) % 4], 0, x])
    h += [["count", 0], ["ITER", 0, 0, 0]] + ([["test", 0, 5]] if n else [])
    h2 = [["not", 0, 0]]
    for i, x in enumerate(vals):
        h2.append([kinds[(i + v + 3) % 4], 0, x])
    h2 += [["count", 0], ["not", 1, 0], ["ITER", 1, 0, 0]]
    return [h, h2]


def fam_sink(n, v):
    """G9: renderings whose sink reports an error after k bytes (k = 0, 1, half, len-1; len = no failure), panics, renders
    another bitset from inside write_str, or lives on another thread - of a register of this capacity and of bitsets of
    other capacities on the same thread - each followed by ordinary renderings of an empty register, of the same
    register and of its complement"""
    top = 64 * n
    e = sorted({x for x in (0, 3, 63, 64, 70, top - 64, top - 1, wbit(woi(n)[len(woi(n)) // 2], v, 5) if n else 0)
                if 0 <= x < top})
    pre = [["set", 0, x] for x in e] + [["not", 1, 0]]
    combos = [(m, k) for k in (2, 0, 3, 1, 4) for m in (0, 1, 2)]
    rot = (5 * v + 2 * NS_ALL.index(n)) % len(combos)
    combos = combos[rot:] + combos[:rot]
    hs = []
    # (a) error-returning and panicking sinks on the registers of this capacity
    h = list(pre)
    for i, (m, k) in enumerate(combos[:6]):
        r = i % 2
        h += [["fdisp" if (i + v) % 2 == 0 else "fdbg", r, m, k], ["DISP" if i % 2 else "DBG", 2 + i % 2],
              ["DBG" if (i + v) % 2 == 0 else "DISP", r]]
    h += [["count", 0], ["ITERP", 0, 1], ["eq", 2, 3]]
    hs.append(h)
    # (b) bitsets of other capacities (sparse and dense) failing on the same thread, then this capacity
    h = [["xr", XCAPS[(v + NS_ALL.index(n)) % 5], 1, 0x5555555555555555, v % 2, combos[0][0], 2], ["DISP", 0]]
    h += pre
    for i, (m, k) in enumerate(combos[6:11]):
        M = XCAPS[(i + v) % 5]
        h += [["xr", M, i % 2, [M64, 1 << 63 | 9, 0xAAAAAAAAAAAAAAAA][i % 3], (i + v) % 2, m, k],
              ["DISP" if i % 2 else "DBG", 2], ["DBG" if i % 2 else "DISP", i % 2]]
    h += [["xr", XCAPS[v % 5], 1, 6, 0, 5, 0], ["xr", XCAPS[(v + 3) % 5], 0, M64, 1, 5, 0], ["DISP", 3], ["count", 1]]
    hs.append(h)
    # (c) re-entrant sink, other thread, consumers that panic; then a failing sink again and every register
    h = list(pre) + [["fdisp", 0, 3, 0], ["DISP", 2], ["fdbg", 1, 3, 0], ["DBG", 0], ["fdbg", 0, 4, 2], ["fdisp", 1, 4, 0],
                     ["DISP", 3], ["xr", XCAPS[(v + 1) % 5], 1, 1, 0, 3, 0], ["xr", XCAPS[(v + 2) % 5], 0, M64, 1, 4, 3],
                     ["ITERP", 0, 0], ["ITERP", 0, len(e)], ["ITERP", 2, 0], ["ITERP", 0, max(len(e) - 1, 0)],
                     ["fdisp", 1, combos[11][0], combos[11][1]], ["fdbg", 0, combos[12][0], combos[12][1]],
                     ["clear", 1], ["DBG", 1], ["DISP", 2], ["DISP", 0], ["eq", 1, 2], ["count", 0]]
    hs.append(h)
    return hs


ZERO = [["count", 0], ["iter", 0], ["iterx", 0, 0, 0], ["iterx", 0, 1, 1], ["iterraw", 0], ["disp", 0], ["dbg", 0], ["dispn", 0],
        ["itern", 0, 0, 0], ["eq", 0, 1], ["and", 2, 0, 1], ["or", 2, 0, 1], ["xor", 2, 0, 1], ["anda", 0, 1], ["ora", 0, 1],
        ["xora", 0, 1], ["not", 1, 0], ["eq", 1, 0], ["clear", 0], ["clone", 1, 0], ["clonefrom", 2, 1], ["new", 0], ["new", 1],
        ["from", 0, 5], ["from", 1, 0], ["set", 0, 0], ["rem", 0, 0], ["flip", 0, 0], ["test", 0, 0], ["set", 0, 63],
        ["test", 0, 1 << 63], ["flip", 1, M64], ["count", 0], ["iter", 1], ["disp", 1], ["dbg", 2], ["eq", 0, 1], ["count", 3],
        ["fdisp", 0, 0, 0], ["fdbg", 1, 2, 3], ["fdisp", 2, 1, 1], ["fdbg", 0, 3, 0], ["fdisp", 1, 4, 2], ["iterp", 0, 0],
        ["xr", 2, 1, 5, 0, 2, 3], ["disp", 0], ["dbg", 3]]

FAMILIES = [fam_edges, fam_iterx, fam_clonefrom, fam_neareq, fam_struct, fam_oor, fam_sink]


def budget_for(n, tier):
    """seconds of Coq replay per capacity and variant for the expensive observers (rendering and dense iteration are
    quadratic in N in the word model); the rest is observed by the counting forms"""
    if tier == "quick":
        return 0.3 if n <= 20 else 0.6 if n <= 33 else 1.0 if n <= 65 else 1.7
    return 2.0 if n <= 20 else 4.0 if n <= 65 else 8.0


def families(n, tier, v):
    bud = Budget(budget_for(n, tier))
    hs = []
    per = [f(n, v) for f in FAMILIES]
    # round robin over the families so that each gets a share of the budget
    for k in range(max(len(x) for x in per)):
        for x in per:
            if k < len(x):
                hs.append(x[k])
    if tier == "quick":
        # a third of the histories per capacity, a different third for neighbouring capacities: every shape of history
        # runs on about six capacities, every capacity runs six or seven shapes
        off = NS_ALL.index(n) % 3
        hs = [h for k, h in enumerate(hs) if k % 3 == off]
    out = [concretize(n, h, bud) for h in hs]
    if n == 0 and v == 0:
        out.append(ZERO)
    return [{"n": n, "ops": h} for h in out if h]


def interleave(base, extra):
    """spread `extra` evenly through `base` (the expensive large-capacity cases must not pile up in one batch file)"""
    if not extra:
        return base
    # the extra cases arrive ordered by capacity: a fixed stride permutation mixes cheap and expensive ones
    m = len(extra)
    stride = next(d for d in range(max(2, (m * 382) // 1000), 2 * m + 3) if gcd(d, m) == 1)
    extra = [extra[(i * stride) % m] for i in range(m)]
    out, step, k = [], max(1, len(base) // len(extra)), 0
    for i, c in enumerate(base):
        out.append(c)
        if (i + 1) % step == 0 and k < len(extra):
            out.append(extra[k])
            k += 1
    return out + extra[k:]


def generate(rng, tier):
    cases = []
    for n in NS:
        for h in directed(n):
            cases.append({"n": n, "ops": h})
    total = 2200 if tier == "quick" else 30000
    rnd = []
    for _ in range(total):
        n = rng.choice([1, 1, 1, 2, 2, 2, 2, 3, 3, 3, 10, 10, 17, 20] if tier == "quick" else [1, 1, 2, 2, 2, 3, 3, 10, 17, 20])
        maxlen = 40 if n < 10 else (25 if n == 10 else (10 if tier == "quick" else 20))
        if rng.chance(1, 4):
            maxlen = 8
        rnd.append({"n": n, "ops": gen_history(rng, n, maxlen)})
    # every capacity: directed families (variant 0 in the quick tier), random histories for the middle capacities
    extra = []
    for v in range(1 if tier == "quick" else 5):
        for n in NS_ALL:
            extra += families(n, tier, v)
    r2 = rng.fork("mid")
    for _ in range(60 if tier == "quick" else 3000):
        n = r2.choice(NS_MID + [4, 8, 16, 16])
        extra.append({"n": n, "ops": gen_history(r2, n, 25 if n <= 16 else 10)})
    return cases + interleave(rnd, extra)


def shrink(c):
    out = []
    ops = c["ops"]
    for i in range(len(ops)):
        out.append(dict(c, ops=ops[:i] + ops[i + 1:]))
    if len(ops) > 4:
        out.insert(0, dict(c, ops=ops[len(ops) // 2:]))
        out.insert(0, dict(c, ops=ops[:len(ops) // 2]))
    for i, o in enumerate(ops):
        if o[0] in ("set", "rem", "flip", "test", "from") and o[2] > 0:
            for v in {o[2] // 2, o[2] - 1, o[2] & (o[2] - 1)}:
                if o[0] != "from" and (v >= 64 * c["n"]) != (o[2] >= 64 * c["n"]):
                    continue
                out.append(dict(c, ops=ops[:i] + [[o[0], o[1], v]] + ops[i + 1:]))
    alt = {"iterx": "iter", "iterraw": "iter", "itern": "count", "dispn": "count", "dbgn": "count", "clonefrom": "clone",
           "iterp": "iter", "fdisp": "count", "fdbg": "count"}
    for i, o in enumerate(ops):
        if o[0] in alt:
            out.append(dict(c, ops=ops[:i] + [[alt[o[0]]] + o[1:ARITY[alt[o[0]]] + 1]] + ops[i + 1:]))
    if c["n"] > 1:
        for m in NS_ALL:
            if m < c["n"] and all(o[0] not in ("set", "rem", "flip", "test") or o[2] < 64 * m or o[2] >= 64 * c["n"]
                                  for o in ops):
                out.append(dict(c, n=m))
    return [x for x in out if x["ops"]]


MANIFEST = {
    "text": "Coq theorems (25, no axioms) about an executable Gallina model of rlib_bitset::Bitset<N> (list of N words < 2^64, "
            "any N): set/remove/flip change membership exactly at x and panic out of range (c12_set/remove/flip), test = "
            "membership (c12_test), clear/new/from_u64, &,|,^ pointwise in both operator forms (c12_and/or/xor, c12_bin_ref), "
            "complement stays below 2^64 per word (c12_not), count = number of members (c12_count), the iterator as coded "
            "(skip loop, trailing_zeros) terminates and yields exactly the members in strictly ascending order, each once, "
            "then None forever (c12_iter_bits, c12_next), == iff same set (c12_eq), Display/Debug = characteristic string "
            "(c12_display), and every operation history shows the same observations as a naive list-of-booleans set "
            "(c12_history, hence model_check -> spec_check). Tied to the code on every run: generated histories on "
            "Bitset<N> for N in {0,1,2,3,4,8,10,16,17,20,32,33,64,65,128,129,157,1024,1025} are executed by the real crate "
            "(debug and release) and Coq proves model = implementation and implementation = naive set on every case; the "
            "executor additionally reaches each observation by the other public routes (every provided Iterator method "
            "after partial consumption, BitsIter::new, clone_from, !=, to_string and formatter flags) and any disagreement "
            "fails the case. Histories also contain renderings whose sink reports an error after k bytes, panics, re-enters "
            "the formatter or lives on another thread (registers of the capacity under test and bitsets of other capacities "
            "on the same thread) and iterator consumers whose closure panics; the renderings that follow them are ordinary "
            "observations checked against the model and the naive set.",
    "level_note": "Trusted: Coq kernel + vm_compute; the Rust executor and the Python case printer (its two compact notations "
                  "for observed strings/lists are proved to denote the rendering/member list: c12_enc_*); arrays are lists, "
                  "usize is unbounded N with 64*N < 2^64 assumed for the iterator; theorems are about the model, the "
                  "correspondence is sampled (2.5k histories quick, 35k thorough); for N >= 64 most renderings and dense "
                  "iterations are tied to the model through their count and an executor-side comparison with test(i).",
    "technique": "Coq proof over Gallina model + vm_compute correspondence batches against the Rust crate",
}
