"""C12 — Bitset<N> = set of indices 0..64*N (rlib/bitset)."""
ID = "C12"
CRATE = "c12"
COQ_DIR = "C12"
COQ_DEPS = []
PROFILES = ["debug", "release"]
# no Open Scope N_scope here: the driver finds failing case numbers by the "%N" suffix Coq prints outside N_scope
CORR_IMPORT = "From RlibV Require Import C12.Model C12.Corr.\nClose Scope N_scope."
AUDIT_IMPORT = ("From Coq Require Import String Ascii NArith List Bool Sorted.\nImport ListNotations.\n"
                "From RlibV Require Import C12.Model C12.Corr C12.ProofsBase C12.ProofsHist C12.Properties.\n"
                "Open Scope N_scope.")
EXPLAIN = "explain"
AXIOM_ALLOW = []
SHARD = 800
THEOREMS = [
    ("c12_mem_nth", "forall (s : bitset) (i : N), mem s i = N.testbit (nth (N.to_nat (i / 64)) s 0) (i mod 64)"),
    ("c12_set", "forall (s : bitset) (x : N), wfb s = true -> (x < cap s -> exists s', set s x = Some s' /\\ wfb s' = true /\\ length s' = length s /\\ forall i, mem s' i = if i =? x then true else mem s i) /\\ (cap s <= x -> set s x = None)"),
    ("c12_remove", "forall (s : bitset) (x : N), wfb s = true -> (x < cap s -> exists s', remove s x = Some s' /\\ wfb s' = true /\\ length s' = length s /\\ forall i, mem s' i = if i =? x then false else mem s i) /\\ (cap s <= x -> remove s x = None)"),
    ("c12_flip", "forall (s : bitset) (x : N), wfb s = true -> (x < cap s -> exists s', flip s x = Some s' /\\ wfb s' = true /\\ length s' = length s /\\ forall i, mem s' i = if i =? x then negb (mem s i) else mem s i) /\\ (cap s <= x -> flip s x = None)"),
    ("c12_test", "forall (s : bitset) (x : N), test s x = if x <? cap s then Some (mem s x) else None"),
    ("c12_clear", "forall s : bitset, wfb (clear s) = true /\\ length (clear s) = length s /\\ forall i, mem (clear s) i = false"),
    ("c12_new", "forall n : nat, wfb (new n) = true /\\ length (new n) = n /\\ forall i, mem (new n) i = false"),
    ("c12_from_u64", "forall (n : nat) (x : N), (1 <= n)%nat -> x < 2 ^ 64 -> exists s, from_u64 n x = Some s /\\ wfb s = true /\\ length s = n /\\ forall i, mem s i = if i <? 64 then N.testbit x i else false"),
    ("c12_from_u64_zero_words_panics", "forall x : N, from_u64 0 x = None"),
    ("c12_bin_ref", "forall (f : N -> N -> N) (s t : bitset), length s = length t -> bin_ref f s t = Some (bin_assign f s t)"),
    ("c12_and", "forall s t : bitset, wfb s = true -> wfb t = true -> length s = length t -> wfb (bin_assign N.land s t) = true /\\ length (bin_assign N.land s t) = length s /\\ forall i, mem (bin_assign N.land s t) i = mem s i && mem t i"),
    ("c12_or", "forall s t : bitset, wfb s = true -> wfb t = true -> length s = length t -> wfb (bin_assign N.lor s t) = true /\\ length (bin_assign N.lor s t) = length s /\\ forall i, mem (bin_assign N.lor s t) i = mem s i || mem t i"),
    ("c12_xor", "forall s t : bitset, wfb s = true -> wfb t = true -> length s = length t -> wfb (bin_assign N.lxor s t) = true /\\ length (bin_assign N.lxor s t) = length s /\\ forall i, mem (bin_assign N.lxor s t) i = xorb (mem s i) (mem t i)"),
    ("c12_not", "forall s : bitset, wfb s = true -> wfb (bnot s) = true /\\ length (bnot s) = length s /\\ forall i, i < cap s -> mem (bnot s) i = negb (mem s i)"),
    ("c12_count", "forall s : bitset, wfb s = true -> count s = N.of_nat (length (filter (mem s) (indices s)))"),
    ("c12_indices", "forall (s : bitset) (i : N), In i (indices s) <-> i < cap s"),
    ("c12_iter_bits", "forall s : bitset, wfb s = true -> cap s < 2 ^ 64 -> exists l, iter_bits s = Some (cap s, l) /\\ StronglySorted N.lt l /\\ (forall i, In i l <-> i < cap s /\\ mem s i = true) /\\ next s (cap s) = Some (None, cap s)"),
    ("c12_iter_bits_each_once", "forall (s : bitset) (l : list N) (idx : N), wfb s = true -> cap s < 2 ^ 64 -> iter_bits s = Some (idx, l) -> NoDup l"),
    ("c12_next", "forall (s : bitset) (idx : N), wfb s = true -> cap s < 2 ^ 64 -> idx <= cap s -> (exists m, next s idx = Some (Some m, m + 1) /\\ idx <= m /\\ m < cap s /\\ mem s m = true /\\ forall i, idx <= i -> i < m -> mem s i = false) \\/ (next s idx = Some (None, cap s) /\\ forall i, idx <= i -> i < cap s -> mem s i = false)"),
    ("c12_eq", "forall s t : bitset, wfb s = true -> wfb t = true -> length s = length t -> (beq s t = true <-> s = t) /\\ (s = t <-> forall i, i < cap s -> mem s i = mem t i)"),
    ("c12_display", "forall s : bitset, exists str, display s = Some str /\\ String.length str = (64 * length s)%nat /\\ forall i, i < cap s -> String.get (N.to_nat i) str = Some (if mem s i then \"1\"%char else \"0\"%char)"),
    ("c12_history", "forall nw : nat, N.of_nat nw < 2 ^ 58 -> forall ops : list op, Forall op_ok ops -> run (word_impl nw) (init (word_impl nw)) ops = run (naive_impl nw) (init (naive_impl nw)) ops"),
    ("c12_model_check_spec_check", "forall c : case, case_ok c -> model_check c = true -> spec_check c = true"),
    ("c12_enc_display", "forall ws : bitset, display ws = Some (bits_str ws)"),
    ("c12_enc_members", "forall ws : bitset, idx_list 0 ws = filter (mem ws) (indices ws)"),
]
RULE = ("histories of 1-40 operations on four Bitset<N> registers, N in {1,2,3,10}: new / from_u64 (0, 1, 2^63, all ones, "
        "alternating, random) / set / remove / flip / test / clear / count / iter_bits (all items + two calls after the end) / "
        "&,|,^ by reference and assigning / ! / == / clone / Display / Debug; indices concentrated on 0, 1, 62, 63, 64, 65, "
        "127, 128, 64N-1 and 64N, 64N+63, 2^63 (out of range: panic); non-trivial = at least one mutation touching a word "
        "boundary bit or a binary operator, followed by an observation of that register")
TRUSTED = ["executor harness/crates/c12 (drives rlib_bitset::Bitset<N> for N = 1, 2, 3, 10, 17, 20, prints every observable)",
           "checks/c12.py (history generator, Coq term printer)"]
ASSUMPTIONS = ["[u64; N] modelled as a list of N words below 2^64, usize indices as unbounded N (all sampled indices are "
               "below 2^64; idx + 64 in the iterator cannot overflow since idx < 64*N)",
               "an out-of-bounds index panics before any write: the register is unchanged afterwards",
               "loops of the iterator are modelled with binary fuel 2^130; the theorems prove the fuel is never exhausted"]

NS = [1, 2, 3, 10, 17, 20]
ARITY = {"new": 1, "from": 2, "set": 2, "rem": 2, "flip": 2, "test": 2, "clear": 1, "count": 1, "iter": 1,
         "and": 3, "or": 3, "xor": 3, "anda": 2, "ora": 2, "xora": 2, "not": 2, "eq": 2, "clone": 2, "disp": 1, "dbg": 1}
M64 = (1 << 64) - 1


# ----------------------------------------------------------------------------- executor / Coq printing
def harness_line(c):
    toks = [str(c["n"])]
    for o in c["ops"]:
        toks += [str(x) for x in o]
    return " ".join(toks)


def n_(v):
    return "%d%%N" % int(v)


def op_term(o):
    k = o[0]
    a = o[1:]
    if k == "new":
        return "ONew %d" % a[0]
    if k == "from":
        return "OFrom %d %s" % (a[0], n_(a[1]))
    if k in ("set", "rem", "flip", "test"):
        return "%s %d %s" % ({"set": "OSet", "rem": "ORemove", "flip": "OFlip", "test": "OTest"}[k], a[0], n_(a[1]))
    if k in ("clear", "count", "iter", "disp", "dbg"):
        return "%s %d" % ({"clear": "OClear", "count": "OCount", "iter": "OIter", "disp": "ODisplay", "dbg": "ODebug"}[k], a[0])
    if k in ("and", "or", "xor"):
        return "OBinRef %s %d %d %d" % ({"and": "BAnd", "or": "BOr", "xor": "BXor"}[k], a[0], a[1], a[2])
    if k in ("anda", "ora", "xora"):
        return "OBinAssign %s %d %d" % ({"anda": "BAnd", "ora": "BOr", "xora": "BXor"}[k], a[0], a[1])
    if k in ("not", "eq", "clone"):
        return "%s %d %d" % ({"not": "ONot", "eq": "OEq", "clone": "OClone"}[k], a[0], a[1])
    raise ValueError(k)


def obs_term(tok):
    if tok == "u":
        return "VUnit"
    if tok == "P":
        return "VPanic"
    if tok[0] == "b":
        return "VBool %s" % ("true" if tok[1] == "1" else "false")
    if tok[0] == "n":
        return "VNum %s" % n_(tok[1:])
    if tok[0] == "l":
        e, items = tok[1], [int(x) for x in tok[3:].split(",") if x]
        ended = "true" if e == "1" else "false"
        if len(items) > 12 and all(a < b for a, b in zip(items, items[1:])) and items[-1] < 64 * 16:
            # compact form of the same strictly ascending list (Corr.idx_list)
            ws = [0] * (items[-1] // 64 + 1)
            for v in items:
                ws[v // 64] |= 1 << (v % 64)
            return "VList (idx_list 0%%N [%s]) %s" % ("; ".join(n_(w) for w in ws), ended)
        return "VList [%s] %s" % ("; ".join(n_(x) for x in items), ended)
    if tok[0] == "s":
        t = tok[1:]
        if t and len(t) % 64 == 0 and set(t) <= {"0", "1"}:
            # compact form of the same string (Corr.bits_str): char 64k+j = bit j of the k-th number
            return "VStr (bits_str [%s])" % "; ".join(n_(int(t[k:k + 64][::-1], 2)) for k in range(0, len(t), 64))
        return 'VStr "%s"%%string' % t
    raise ValueError(tok)


def coq_term(c, obs, profile):
    toks = obs.split()
    ops = c["ops"]
    if obs.strip() == "-":
        toks = []
    if len(toks) != len(ops):          # whole-line panic or garbage: cannot match the model
        toks = ["P"] * len(ops)
    return "(Case %d [%s])" % (c["n"], "; ".join("(%s, %s)" % (op_term(o), obs_term(t)) for o, t in zip(ops, toks)))


MUT = ("set", "rem", "flip", "and", "or", "xor", "anda", "ora", "xora", "not", "from")
OBS = ("test", "count", "iter", "eq", "disp", "dbg")


def nontrivial(c, obs):
    seen_mut = False
    for o in c["ops"]:
        if o[0] in MUT:
            seen_mut = True
        elif o[0] in OBS and seen_mut:
            return True
    return False


def classify(c, obs):
    kinds = {o[0] for o in c["ops"]}
    tag = "N%d" % c["n"]
    tag += "/bin" if kinds & {"and", "or", "xor", "anda", "ora", "xora", "not"} else "/point"
    if "P" in obs.split():
        tag += "/panic"
    return tag


# ----------------------------------------------------------------------------- generator
def index(rng, n):
    top = 64 * n
    k = rng.below(10)
    if k < 6:
        cands = [0, 1, 62, 63, 64, 65, 127, 128, top - 1, top - 2, top - 64, top - 65]
        v = rng.choice(cands)
        if 0 <= v < top:
            return v
        return rng.below(top)
    if k < 9:
        return rng.below(top)
    if rng.chance(1, 2):
        return rng.below(top)
    return rng.choice([top, top + 1, top + 63, top + 64, 1 << 63, M64, 64 * 10, 64 * 11 - 1])  # out of range (mostly)


def pattern(rng):
    k = rng.below(10)
    if k < 6:
        return rng.choice([0, 1, 1 << 63, M64, 0x5555555555555555, 0xAAAAAAAAAAAAAAAA, 3, (1 << 63) | 1,
                           1 << 62, M64 - 1, M64 >> 1, 1 << 32, (1 << 32) - 1, 0xFFFFFFFF00000000])
    if k < 8:
        return rng.next()
    if k == 8:
        return rng.next() & rng.next() & rng.next()      # sparse
    return 1 << rng.below(64)


def gen_history(rng, n, maxlen):
    ln = rng.range(1, maxlen)
    ops = []
    R = 4
    ndisp = 0
    style = rng.below(4)      # 0 point-heavy, 1 operator-heavy, 2 mixed, 3 dense fill then observe
    for _ in range(ln):
        k = rng.below(100)
        r = rng.below(R)
        if style == 0:
            cut = (45, 60, 63, 66)
        elif style == 1:
            cut = (20, 30, 70, 78)
        else:
            cut = (32, 45, 62, 68)
        if style == 3 and rng.chance(1, 3):
            ops.append([rng.choice(["not", "ora", "xora", "from"])] + ([r, rng.below(R)] if rng.chance(2, 3) else [r, 0]))
            if ops[-1][0] == "from":
                ops[-1] = ["from", r, pattern(rng)]
            continue
        if k < cut[0]:
            ops.append([rng.choice(["set", "set", "rem", "rem", "flip", "flip", "flip"]), r, index(rng, n)])
        elif k < cut[1]:
            ops.append(["from", r, pattern(rng)])
        elif k < cut[2]:
            kind = rng.choice(["and", "or", "xor", "anda", "ora", "xora", "not", "not"])
            if kind in ("and", "or", "xor"):
                ops.append([kind, r, rng.below(R), rng.below(R)])
            else:
                ops.append([kind, r, rng.below(R)])
        elif k < cut[3]:
            kind = rng.choice(["clone", "clone", "clear", "new"])
            ops.append([kind, r, rng.below(R)] if kind == "clone" else [kind, r])
        else:
            kind = rng.choice(["test", "test", "test", "count", "count", "iter", "iter", "eq", "disp", "dbg"])
            if kind in ("disp", "dbg"):
                if ndisp >= 2 or (n == 10 and rng.chance(2, 3)):
                    kind = "iter"
                else:
                    ndisp += 1
            if kind == "test":
                ops.append(["test", r, index(rng, n)])
            elif kind == "eq":
                ops.append(["eq", r, rng.below(R)])
            else:
                ops.append([kind, r])
    # always end by observing something of every touched register
    touched = sorted({o[1] for o in ops if o[0] not in OBS})
    for r in touched[:2]:
        ops.append([rng.choice(["iter", "count", "iter"]), r])
    return ops


def directed(n):
    """fixed histories that exercise each boundary once per N"""
    top = 64 * n
    hs = []
    edge = sorted({0, 1, 62, 63, top - 1, top - 64} | ({64, 65, 127} if n >= 2 else set()) | ({128} if n >= 3 else set()))
    for x in edge:
        hs.append([["set", 0, x], ["test", 0, x], ["count", 0], ["iter", 0], ["disp", 0], ["flip", 0, x], ["count", 0],
                   ["flip", 0, x], ["rem", 0, x], ["iter", 0], ["test", 0, x]])
        hs.append([["not", 0, 0], ["rem", 0, x], ["count", 0], ["test", 0, x], ["iter", 0], ["dbg", 0]])
    hs.append([["set", 0, top], ["rem", 0, top], ["flip", 0, top], ["test", 0, top], ["count", 0], ["iter", 0]])
    hs.append([["not", 1, 0], ["count", 1], ["iter", 1], ["disp", 1], ["not", 2, 1], ["eq", 2, 0], ["eq", 1, 0]])
    for pat in (0, 1, 1 << 63, M64, 0x5555555555555555, 0xAAAAAAAAAAAAAAAA):
        hs.append([["from", 0, pat], ["count", 0], ["iter", 0], ["disp", 0], ["not", 1, 0], ["iter", 1], ["count", 1],
                   ["xor", 2, 0, 1], ["count", 2], ["and", 3, 0, 1], ["count", 3], ["or", 3, 0, 1], ["eq", 3, 2]])
    # all words populated differently, operators in both forms
    fill = [["set", 0, 64 * w + (w * 7) % 64] for w in range(n)] + [["set", 1, 64 * w + 63 - (w * 5) % 64] for w in range(n)]
    fill += [["set", 1, 64 * w + (w * 7) % 64] for w in range(0, n, 2)]
    for k in ("and", "or", "xor"):
        hs.append(fill + [[k, 2, 0, 1], ["clone", 3, 0], [k + "a", 3, 1], ["eq", 2, 3], ["iter", 2], ["count", 3],
                          [k, 2, 1, 0], ["iter", 2], ["clone", 3, 1], [k + "a", 3, 0], ["iter", 3], ["eq", 2, 3]])
    return hs


def generate(rng, tier):
    cases = []
    for n in NS:
        for h in directed(n):
            cases.append({"n": n, "ops": h})
    total = 2200 if tier == "quick" else 30000
    for _ in range(total):
        n = rng.choice([1, 1, 1, 2, 2, 2, 2, 3, 3, 3, 10, 10, 17, 20] if tier == "quick" else [1, 1, 2, 2, 2, 3, 3, 10, 17, 20])
        maxlen = 40 if n < 10 else (25 if n == 10 else 10)
        if rng.chance(1, 4):
            maxlen = 8
        cases.append({"n": n, "ops": gen_history(rng, n, maxlen)})
    return cases


def shrink(c):
    out = []
    ops = c["ops"]
    for i in range(len(ops)):
        out.append(dict(c, ops=ops[:i] + ops[i + 1:]))
    if len(ops) > 4:
        out.insert(0, dict(c, ops=ops[len(ops) // 2:]))
        out.insert(0, dict(c, ops=ops[:len(ops) // 2]))
    for i, o in enumerate(ops):
        if o[0] in ("set", "rem", "flip", "test", "from") and o[2] > 0:
            for v in {o[2] // 2, o[2] - 1, o[2] & (o[2] - 1)}:
                if o[0] != "from" and (v >= 64 * c["n"]) != (o[2] >= 64 * c["n"]):
                    continue
                out.append(dict(c, ops=ops[:i] + [[o[0], o[1], v]] + ops[i + 1:]))
    if c["n"] > 1:
        for m in NS:
            if m < c["n"] and all(o[0] not in ("set", "rem", "flip", "test") or o[2] < 64 * m or o[2] >= 64 * c["n"]
                                  for o in ops):
                out.append(dict(c, n=m))
    return [x for x in out if x["ops"]]


MANIFEST = {
    "text": "Coq theorems (25, no axioms) about an executable Gallina model of rlib_bitset::Bitset<N> (list of N words < 2^64, "
            "any N): set/remove/flip change membership exactly at x and panic out of range (c12_set/remove/flip), test = "
            "membership (c12_test), clear/new/from_u64, &,|,^ pointwise in both operator forms (c12_and/or/xor, c12_bin_ref), "
            "complement stays below 2^64 per word (c12_not), count = number of members (c12_count), the iterator as coded "
            "(skip loop, trailing_zeros) terminates and yields exactly the members in strictly ascending order, each once, "
            "then None forever (c12_iter_bits, c12_next), == iff same set (c12_eq), Display/Debug = characteristic string "
            "(c12_display), and every operation history shows the same observations as a naive list-of-booleans set "
            "(c12_history, hence model_check -> spec_check). Tied to the code on every run: generated histories on "
            "Bitset<1>,<2>,<3>,<10>,<17>,<20> are executed by the real crate and Coq proves model = implementation and "
            "implementation = naive set on every case.",
    "level_note": "Trusted: Coq kernel + vm_compute; the Rust executor and the Python case printer (its two compact notations "
                  "for observed strings/lists are proved to denote the rendering/member list: c12_enc_*); arrays are lists, "
                  "usize is unbounded N with 64*N < 2^64 assumed for the iterator; theorems are about the model, the "
                  "correspondence is sampled (2.3k histories quick, 30k thorough).",
    "technique": "Coq proof over Gallina model + vm_compute correspondence batches against the Rust crate",
}
