"""C19 — Tensor<T, D>: row-major bijection, per-dimension bounds checks, constructors (incl. element counts beyond usize),
iter_mut, IO round trip, equality; element types i64 / i32 / u8 / String at ranks 0..6 and 8, every other element type
rlib_io can read or write (i8 i16 u16 u32 u64 i128 u128 isize usize, char, tuples) at ranks 0..3; both build profiles."""
import itertools
import sys

if hasattr(sys, "set_int_max_str_digits"):
    sys.set_int_max_str_digits(0)      # String elements longer than the io buffers travel as (very long) decimal texts

ID = "C19"
CRATE = "c19"
# sibling sources whose edits enlarge the quick correspondence (fingerprints in source_pins.json)
SOURCES = ["rlib/io/src/reader.rs", "rlib/io/src/writer.rs"]
COQ_DIR = "C19"
COQ_DEPS = []
PROFILES = ["debug", "release"]
CORR_IMPORT = "From Coq Require Import Uint63.\nFrom RlibV Require Import C19.Lit C19.Model C19.Spec C19.Corr."
CASE_TYPE = "case"
AUDIT_IMPORT = ("From Coq Require Import List NArith ZArith Bool.\nImport ListNotations.\n"
                "From RlibV Require Import C19.Model C19.Spec C19.Corr C19.Properties.\nLocal Open Scope N_scope.")
EXPLAIN = "explain"
AXIOM_ALLOW = []
THEOREMS = [
    ('c19_get_index_rowmajor',
     'forall ds idx : list N, valid ds idx -> get_index ds idx = Some (offset ds idx) /\\ offset ds idx < product ds'),
    ('c19_get_index_injective',
     'forall ds idx1 idx2 : list N, valid ds idx1 -> valid ds idx2 -> get_index ds idx1 = get_index ds idx2 -> idx1 = idx2'),
    ('c19_get_index_surjective',
     "forall (ds : list N) (k : N), k < product ds -> exists idx, valid ds idx /\\ get_index ds idx = Some k /\\ forall idx', valid ds idx' -> get_index ds idx' = Some k -> idx' = idx"),
    ('c19_out_of_range_rejected',
     'forall (A : Type) (t : tensor A) (idx : list N) (n : nat) (i d : N), nth_error idx n = Some i -> nth_error (dims t) n = Some d -> d <= i -> get_index (dims t) idx = None /\\ index t idx = None /\\ forall v, index_mut t idx v = None'),
    ('c19_get_index_total',
     'forall ds idx : list N, get_index ds idx = if validb ds idx then Some (offset ds idx) else None'),
    ('c19_get_index_no_overflow',
     'forall (W : N) (ds idx : list N), positive ds -> product ds <= W -> get_index_chk W ds idx = get_index ds idx'),
    ('c19_constructors_reject',
     'forall (A : Type) (ds : list N) (l : list A) (v : A), (In 0 ds -> from_vec ds l = None /\\ from_slice ds l = None /\\ new ds v = None) /\\ (N.of_nat (length l) <> product ds -> from_vec ds l = None /\\ from_slice ds l = None) /\\ (~ In 0 ds -> N.of_nat (length l) = product ds -> from_vec ds l = Some (mk ds l) /\\ from_slice ds l = Some (mk ds l) /\\ wf (mk ds l)) /\\ (~ In 0 ds -> new ds v = Some (mk ds (repeat v (N.to_nat (product ds)))) /\\ wf (mk ds (repeat v (N.to_nat (product ds)))))'),
    ('c19_checked_volume',
     'forall (A : Type) (W : N) (ds : list N) (l : list A) (v : A) (toks : list (tok A)), 0 < W -> (N.of_nat (length l) <= W -> from_vec_chk W ds l = from_vec ds l /\\ from_slice_chk W ds l = from_slice ds l) /\\ (product ds <= W -> new_chk W ds v = new ds v /\\ read_chk W ds toks = read ds toks) /\\ (W < product ds -> from_vec_chk W ds l = None /\\ from_slice_chk W ds l = None /\\ new_chk W ds v = None /\\ read_chk W ds toks = None)'),
    ('c19_iter_mut',
     'forall (A : Type) (t : tensor A) (vs : list A), wf t -> wf (iter_mut_assign t vs) /\\ dims (iter_mut_assign t vs) = dims t /\\ iter (iter_mut_assign t vs) = firstn (length (iter t)) vs ++ skipn (length vs) (iter t) /\\ (length vs = length (iter t) -> iter (iter_mut_assign t vs) = vs)'),
    ('c19_index_iter',
     'forall (A : Type) (t : tensor A) (idx : list N), wf t -> valid (dims t) idx -> index t idx = nth_error (iter t) (N.to_nat (offset (dims t) idx)) /\\ index t idx <> None'),
    ('c19_set_get',
     "forall (A : Type) (t : tensor A) (idx : list N) (v : A), wf t -> valid (dims t) idx -> exists t', index_mut t idx v = Some t' /\\ wf t' /\\ dims t' = dims t /\\ index t' idx = Some v /\\ forall idx', valid (dims t) idx' -> idx' <> idx -> index t' idx' = index t idx'"),
    ('c19_write_order',
     'forall (A : Type) (t : tensor A), wf t -> write t = Some (render (dims t) (data t)) /\\ elems (render (dims t) (data t)) = data t'),
    ('c19_write_nested',
     'forall (A : Type) (t : tensor A), wf t -> write t = Some (nested (dims t) (data t))'),
    ('c19_debug_order',
     'forall (A : Type) (t : tensor A), wf t -> debug t = Some (debug_spec (dims t) (data t))'),
    ('c19_wraps_char',
     'forall ds : list N, product ds <> 0 -> forall (m : N) (c : nat), (c <= length ds)%nat -> ((c <= wraps ds m)%nat <-> (product (skipn (length ds - c) ds) | m))'),
    ('c19_odometer_step',
     'forall ds idx : list N, valid ds idx -> match rposition (fun p => negb (fst p + 1 =? snd p)) (combine idx ds) with | None => offset ds idx + 1 = product ds | Some pos => (pos < length ds)%nat /\\ valid ds (bump idx pos) /\\ offset ds (bump idx pos) = offset ds idx + 1 /\\ offset ds idx + 1 < product ds /\\ wraps ds (offset ds idx + 1) = (length ds - pos - 1)%nat end'),
    ('c19_write_read_roundtrip',
     'forall (A : Type) (t : tensor A), wf t -> exists out, write t = Some out /\\ read (dims t) out = Some t'),
    ('c19_eq_iff',
     'forall (A : Type) (e : A -> A -> bool), (forall x y, e x y = true <-> x = y) -> forall t u : tensor A, eq e t u = true <-> dims t = dims u /\\ data t = data u'),
    ('c19_model_check_spec_check',
     'forall c : case, model_check c = spec_check c'),
]
RULE = ("every shape of rank 1..4 with extents <= K (K=3 quick, 5 thorough; quick adds sampled shapes with extents <= 6), "
        "rank 0, and ranks 5, 6, 8 (extents <= 2, a few 3; sampled in quick, all 2^5 + 2^6 in thorough): three histories per "
        "shape on Tensor<i64, D> with distinct offset-tagged elements, the read block (dims, iter, get_index and Index at "
        "EVERY valid multi-index, write, write+read round trip, Debug string) running on tensors of all three constructors - "
        "(from_vec) plus get_index AND Index at every index that is out of range in exactly one dimension (coordinate = "
        "extent for all combinations of the other coordinates, whether or not the flattened offset stays inside the storage; "
        "sampled larger overshoots: 2^32 + valid coordinate, 2^63 + valid, up to usize::MAX) and at sampled indices out of "
        "range in two or more dimensions (all coordinates = extent; every pair of dimensions with the others 0 / random); "
        "(new) IndexMut at every index in shuffled order interleaved with writes at ALL those out-of-range indices; "
        "(from_slice) == and != against equal, one-element-different, permuted-shape/equal-data, reshaped, and constructible "
        "partners of another element count, then iter_mut() assigning as many / fewer / more values than elements; "
        "constructor rejections (a zero extent at each position, two and all extents zero, length n-1, n+1, 2n, 0), "
        "Tensor::read with other shapes of the same size, too few tokens, extra whitespace, zero extents; "
        "element count beyond usize (both profiles): shapes of rank 2..5 whose product of extents is >= 2^64 and wraps to 0, to "
        "a small number or to a large one - from_vec / from_slice with data of the wrapped length (and 0, 1, wrapped+-1), new "
        "and Tensor::read when the wrapped count is small, == partners of such a shape: all rejected; "
        "the same histories on Tensor<i32>, Tensor<u8> (values mod 256) and Tensor<String> for a spread sample of shapes. "
        "Element types inherited from rlib_io (the Readable / Writable impl is selected by the element type): for each of "
        "i8 i16 i32 i64 i128 isize u8 u16 u32 u64 u128 usize EVERY boundary magnitude of the type (0, +-1, 10^k, 10^k +- 1, "
        "2*10^k, 9*10^k+9 for every k the type holds; two- and three-limb values for limbs of 4 / 9 / 19 decimal digits whose "
        "lower limbs are 0, 1, 7, 10^(L-2), 10^(L-1)-1, 10^(L-1); 2^b and 2^b +- 1; MIN, MAX, MAX - 10^j, MAX div 10^j and "
        "the negatives) is an element of a tensor of rank 1..3 that is written (expected text: odometer layout of the tokens "
        "std's to_string prints; a written token counts as the element only in canonical decimal spelling), written and read "
        "back, Debug-printed, read from the python rendering (odometer layout and one line), compared with a partner "
        "that differs by a dropped digit / the value mod 10^19 / mod 10^9, overwritten through IndexMut and written again "
        "(thorough adds 200 random zero-rich digit strings per type); one shape history, reads and rejections per type; "
        "Tensor<char, D> (Readable only): grids of rank 0..3 read from rows without separators, with blanks, CRLF, tabs, "
        "leading whitespace, one character per line, no separator at all, surplus and missing characters, transposed shapes, "
        "plus indexing / == / IndexMut / iter_mut / Debug on the same elements; tuples (i64, u8), (u8, i64, u16) and "
        "(char, u32) as elements: odometer layout with blank-separated components, one component per line, CRLF, a char "
        "glued to its number, an incomplete last tuple. "
        "Element types outside rlib_io (ranks 0..4, both profiles): the zero-sized () and a zero-sized struct, the only "
        "types with data of ANY length - from_vec / from_slice on shapes whose product overflows usize with data of length "
        "usize::MAX, usize::MAX-1, 2^63, 2^63-1, the wrapped product (also when it is huge), the high word, 0, 1, and on "
        "representable shapes (3x5 .. 2^63) with lengths that match the product only after truncation to 32 / 63 bits or "
        "saturation, zero extents with huge data, `new` of overflowing shapes for (): all rejected (the Coq term keeps the "
        "shape and replaces data longer than 64 by a short list on which model and specification give the same verdict: "
        "they look at data only through its length, see zst_surrogate), plus the ordinary history on small unit tensors; "
        "f64 with NaN (and -0.0) and a three-valued enum whose Unknown equals nothing, NaN at no / one / the last / every "
        "position, through all three constructors, IndexMut and iter_mut: `sq` evaluates == and != on the SAME object "
        "(two references), on a clone, on from_vec(dims, iter) and on an explicit partner in both directions and demands "
        "one answer, which Coq compares with the element-wise comparison (NaN of the tensor and NaN of the partner are "
        "different codes, so Z.eqb is the element's own PartialEq). "
        "non-trivial = rank >= 2 with at least one indexed access, or a constructor rejection")
TRUSTED = ["executor harness/crates/c19 (Tensor<E, D> for E = i64, i32, u8, String and D = 0..6, 8, for E = i8, i16, u16, u32, u64, "
           "i128, u128, isize, usize, char, (i64, u8), (u8, i64, u16), (char, u32) and D = 0..3; elements cross the line "
           "protocol in the spelling of std's to_string / parse, never through rlib_io: constructors, get_index, "
           "Index/IndexMut, iter, iter_mut, dims, Writer over a Vec<u8>, Reader + Tensor::read, ==, !=, format!(\"{:?}\"); "
           "Tensor<(), D>, Tensor<Zst, D>, Tensor<f64, D>, Tensor<Tri, D> (D = 0..4) without io, zero-sized data of a given "
           "length built by Vec::set_len; "
           "vh::guarded per operation; its internal consistency checks, whose failure is printed as an observation no model "
           "predicts: clone / clone_from target / Tensor::read result / the tensor itself compared observer by observer with "
           "from_vec(dims, iter); independence of copies; count/nth/last/size_hint of iter(); one Writer carrying a scalar and "
           "the tensor twice; the tensor as an item of a written Vec, between scalars in a written tuple, as both halves of a "
           "written pair and inside a Vec of pairs; one Reader delivering a scalar, the tensor twice (starting in the middle "
           "of a line), a scalar and a pair read as a tuple, compared element by element with std's parsing of the text)",
           "checks/c19.py (case generator, lexer of the written bytes into element / ' ' / '\\n' tokens and of the Debug string into element / '[' / ']' / ',' "
           "tokens, scanner of input texts into elements per element type (char: next non-blank byte; tuple: its components in "
           "turn), injective packing of a tuple into one integer, Coq term printer; integers of 32 bits and more are printed "
           "as base-2^62 digits of primitive Uint63 literals and put together by C19/Lit.v bigz inside vm_compute)",
           "extra(): python row-major oracle for the larger-shape and boundary search on the executors of both profiles "
           "(extents 255..65537, texts beyond the 64 KiB Reader/Writer buffers, also for u128 / i128 / u64 / usize / isize / "
           "u32 / i16 tensors of 20..40-byte tokens and for character grids; a search, not part of the proof)"]
ASSUMPTIONS = ["extents, indices and offsets are unbounded N in the model; usize enters in two places: the element count of "
               "the constructors is the checked fold of the code (usize::MAX = 2^64 - 1, c19_checked_volume), and an index "
               "coordinate may be as large as usize::MAX because the bound assert precedes the multiplication "
               "(c19_get_index_no_overflow)",
               "elements are abstract tokens in the model's text; the plugin identifies a written token with an element only "
               "when it is the canonical decimal spelling std's to_string gives (so the Writable / Readable impls of rlib_io "
               "for the element type are compared with std on the values listed in the rule, not proved correct: decimal "
               "rendering/parsing as such is C08/C09's subject); a token is a maximal run of non-whitespace bytes, for char "
               "one non-whitespace byte, for a tuple its components separated by one blank",
               "char and tuples containing a char have no Writable impl in rlib_io: their tensors are read, indexed, compared "
               "and Debug-printed, never written",
               "debug profile: reading past the end of input panics through the reader's debug_assert",
               "allocation failure is not modelled: `new` / `read` are only run on shapes whose element count is small or "
               "beyond usize (rejected before any allocation)",
               "Vec/array layout and ownership are modelled as functional lists"]
SHARD = 300
SEARCH_MAX = 4000
BIG = 18446744073709551615


def for_profile(c, profile):
    """Reading a tensor from a text with too few tokens is outside the property (the reader's end-of-input test is a
    debug_assert: debug builds panic, release builds read garbage); those reads are kept for the debug profile only."""
    if profile != "release":
        return c
    def short(o):
        need = 1
        for d in o[1]:
            need *= d
        # a shape whose element count does not fit into usize panics in both profiles before anything is read
        return need <= BIG and count_elems(o[2], c.get("ty", "i64")) < need
    return dict(c, ops=[o for o in c["ops"] if not (o[0] == "rd" and short(o))])


# ----------------------------------------------------------------------------- line protocol
def enc_text(s):
    return "." if s == "" else s.replace(" ", "_").replace("\n", "/").replace("\r", "\\").replace("\t", "~")


# ----------------------------------------------------------------------------- element types
# Integers travel as decimal text (the executor prints them with std's to_string, never with rlib_io), chars as their
# code point, tuples as their components joined by ','; in a case (JSON) a tuple element is a list of integers.
INT = {"i8": (-(1 << 7), (1 << 7) - 1), "i16": (-(1 << 15), (1 << 15) - 1), "i32": (-(1 << 31), (1 << 31) - 1),
       "i64": (-(1 << 63), (1 << 63) - 1), "i128": (-(1 << 127), (1 << 127) - 1), "isize": (-(1 << 63), (1 << 63) - 1),
       "u8": (0, (1 << 8) - 1), "u16": (0, (1 << 16) - 1), "u32": (0, (1 << 32) - 1), "u64": (0, (1 << 64) - 1),
       "u128": (0, (1 << 128) - 1), "usize": (0, (1 << 64) - 1)}
COMPS = {"t2": ["i64", "u8"], "t3": ["u8", "i64", "u16"], "tc": ["char", "u32"]}
NOT_WRITABLE = ("char", "tc")
# characters used as elements: printable, and none of those the line protocol or the Debug lexer gives a meaning to
ALPH = "abcdefghijklmnopqrstuvwxyzABCDEFGHIJKLMNOPQRSTUVWXYZ0123456789#*@+-=<>!:;&%$^|{}"
BADV = -999999999999999
TM = 1 << 32            # the components of a tuple after the first one are in [0, TM): z = (a * TM + b) * TM + c is injective
WS = " \n\r\t"
ZST = ("unit", "zst")          # zero-sized element types: data of any length up to usize::MAX exists
NONREFL = ("f64", "tri")       # element types whose PartialEq is not reflexive
NANL, NANR = 10 ** 15 + 1, 10 ** 15 + 2


def comps(ty):
    return COMPS.get(ty, [ty])


def vstr(x):
    return ",".join(str(y) for y in x) if isinstance(x, (list, tuple)) else str(x)


def pv(tok):
    """protocol spelling -> int | tuple of ints | BADV"""
    if tok == "nan":
        return "nan"
    try:
        if "," in tok:
            return tuple(int(y) for y in tok.split(","))
        return int(tok)
    except ValueError:
        return BADV


def zenc(v, ty="i64", right=False):
    """the integer that stands for an element in the Coq case (elements are abstract there).
    Element types with a non-reflexive PartialEq (f64, tri): the element that is equal to nothing ("nan": f64::NAN /
    Tri::Unknown) stands for NANL inside the tensor under test and for NANR inside a comparison partner, so that Z.eqb
    on the codes is exactly the element's own PartialEq (NaN differs from every element, NaN included); -0.0 == 0.0."""
    if ty in NONREFL:
        if v == "nan":
            return NANR if right else NANL
        if v == "-0":
            return 0
        return v if isinstance(v, int) and abs(v) < (1 << 53) else BADV
    k = len(comps(ty))
    if k == 1:
        return v if isinstance(v, int) else BADV
    if not isinstance(v, (list, tuple)) or len(v) != k or any(not (0 <= y < TM) for y in v[1:]):
        return BADV
    z = v[0]
    for y in v[1:]:
        z = z * TM + y
    return z


def spell(x, ty):
    """an element inside a text: std's decimal rendering of an integer, the character itself, components separated by ' '"""
    if ty == "char":
        return chr(x)
    if ty in COMPS:
        return " ".join(spell(y, t) for y, t in zip(x, COMPS[ty]))
    return str(x)


def fold(v, ty):
    """an integer of the i64 histories as an element of type ty"""
    if ty in INT:
        lo, hi = INT[ty]
        return lo + (v - lo) % (hi - lo + 1)
    if ty == "char":
        return ord(ALPH[v % len(ALPH)])
    if ty == "t2":
        return [v, v % 256]
    if ty == "t3":
        return [v % 256, abs(v) % TM, (v * 7) % 65536]
    if ty == "tc":
        return [ord(ALPH[v % len(ALPH)]), abs(v) % TM]
    return v


def canon(atom):
    """a written integer token: only the canonical decimal spelling stands for the number"""
    try:
        v = int(atom)
    except ValueError:
        return BADV
    return v if str(v) == atom else BADV


def scan(text, ty):
    """input text -> [("E", element) | ("Sp",) | ("Nl",)] the way the element type reads: a char is the next
    non-whitespace byte, everything else the next maximal run of non-whitespace bytes, a tuple its components in turn
    (an incomplete tuple at the end of the text is not an element)"""
    out, i, n, cs = [], 0, len(text), comps(ty)
    while True:
        grp = []
        for c in cs:
            while i < n and text[i] in WS:
                if not grp:
                    out.append(("Nl",) if text[i] == "\n" else ("Sp",))
                i += 1
            if i >= n:
                break
            if c == "char":
                grp.append(ord(text[i]))
                i += 1
            else:
                j = i
                while j < n and text[j] not in WS:
                    j += 1
                try:
                    grp.append(int(text[i:j]))
                except ValueError:
                    grp.append(None)
                i = j
        if len(grp) < len(cs):
            return out
        out.append(("E", BADV if None in grp else (grp[0] if len(cs) == 1 else tuple(grp))))


def count_elems(text, ty):
    return sum(1 for t in scan(text, ty) if t[0] == "E")


def harness_line(c):
    dims = c["dims"]
    ty = c.get("ty", "i64")
    t = [str(len(dims)) + ("" if ty == "i64" else ":" + ty)] + [str(d) for d in dims]
    t.append(c["ctor"])
    if c["ctor"] == "N":
        t.append(vstr(c.get("newv", 0)))
    if "zlen" in c:
        # a zero-sized element type: zlen elements (c["data"] is the stand-in of the Coq term, see zst_surrogate)
        t.append("*%d" % c["zlen"])
    else:
        t.append(str(len(c["data"])))
        t += [vstr(x) for x in c["data"]]
    for o in c["ops"]:
        k = o[0]
        t.append(k)
        if k in ("gi", "g"):
            t += [str(i) for i in o[1]]
        elif k == "s":
            t += [str(i) for i in o[1]] + [vstr(o[2])]
        elif k == "rd":
            t += [str(i) for i in o[1]] + [enc_text(o[2])]
        elif k == "eq":
            t += [str(i) for i in o[1]] + [str(len(o[2]))] + [vstr(x) for x in o[2]]
        elif k in ("im", "sq"):
            t += [str(len(o[1]))] + [vstr(x) for x in o[1]]
    return " ".join(t)


def parse_obs(c, obs):
    """-> (ctor_ok, [per-op observation]) ; observation None = panic"""
    t = obs.split()
    if t[0] == "P":
        return False, []
    D = len(c["dims"])
    at = 1
    res = []

    def take_list():
        nonlocal at
        n = int(t[at])
        v = [pv(x) for x in t[at + 1:at + 1 + n]]
        at += 1 + n
        return v

    for o in c["ops"]:
        k = o[0]
        if k == "dm":
            res.append([int(x) for x in t[at:at + D]])
            at += D
        elif k == "it":
            res.append(take_list())
        elif k == "im":
            res.append(int(t[at]))
            at += 1
        elif t[at] == "P":
            res.append(None)
            at += 1
        elif k == "gi":
            res.append(int(t[at]))
            at += 1
        elif k == "g":
            res.append(pv(t[at]))
            at += 1
        elif k == "s":
            res.append(True)
            at += 1
        elif k in ("w", "db"):
            res.append(t[at])
            at += 1
        elif k == "rt":
            flag = t[at]
            at += 1
            res.append((flag, take_list()))
        elif k == "rd":
            d = [int(x) for x in t[at:at + D]]
            at += D
            res.append((d, take_list()))
        elif k in ("eq", "sq"):
            res.append(t[at])
            at += 1
        else:
            raise ValueError(k)
    assert at == len(t), (c, obs)
    return True, res


# ----------------------------------------------------------------------------- Coq printing
def zt(v):
    """an integer as a Coq term of type Z; from 32 bits on as sign and base-2^62 digits of primitive integers, put
    together by Lit.bigz (elaborating a 128-bit decimal literal takes milliseconds, a tensor element occurs a dozen times)"""
    if -(1 << 31) < v < (1 << 31):
        return "(%d)%%Z" % v
    a, limbs = abs(v), []
    while a:
        limbs.append(a & ((1 << 62) - 1))
        a >>= 62
    return "(bigz %s [%s])" % ("true" if v < 0 else "false", ";".join("%d%%uint63" % x for x in reversed(limbs)))


def nl(xs):
    return "[" + ";".join(str(x) for x in xs) + "]%N"


def zl(xs, ty="i64", right=False):
    return "[" + ";".join(zt(zenc(x, ty, right)) for x in xs) + "]"


def lex(text, ty="i64"):
    """encoded WRITTEN text -> Coq token list.  An element token is the canonical decimal spelling of an integer (what
    std's to_string prints: anything else - a sign on zero, padding, a missing or extra digit - is no element of the
    tensor); the token of a tuple is its components separated by exactly one blank"""
    if text == ".":
        return "[]"
    out, cur = [], ""
    for ch in text:
        if ch in "_/":
            if cur:
                out.append(cur)
                cur = ""
            out.append("Sp" if ch == "_" else "Nl")
        else:
            cur += ch
    if cur:
        out.append(cur)
    k = len(comps(ty))
    toks, i = [], 0
    while i < len(out):
        x = out[i]
        if x in ("Sp", "Nl"):
            toks.append(x)
            i += 1
        elif k == 1:
            toks.append("E %s" % zt(canon(x)))
            i += 1
        else:
            grp = out[i:i + 2 * k - 1]
            if len(grp) == 2 * k - 1 and all(g == "Sp" for g in grp[1::2]) and all(g not in ("Sp", "Nl") for g in grp[0::2]):
                vals = [canon(g) for g in grp[0::2]]
                toks.append("E %s" % zt(BADV if BADV in vals else zenc(tuple(vals), ty)))
                i += 2 * k - 1
            else:
                toks.append("E %s" % zt(BADV))
                i += 1
    return "[" + ";".join(toks) + "]"


def lex_in(text, ty="i64"):
    """INPUT text of a read -> Coq token list (`scan`: the elements the way the element type reads them)"""
    return "[" + ";".join("E %s" % zt(zenc(t[1], ty)) if t[0] == "E" else t[0] for t in scan(text, ty)) + "]"


def datom(s, kind):
    """one component of an element in the Debug text: 'c' for a char, the canonical decimal spelling otherwise"""
    if kind == "char":
        return ord(s[1]) if len(s) == 3 and s[0] == s[2] == "'" else BADV
    return canon(s)


def lex_debug(text, ty="i64"):
    """Debug string (spaces removed) -> Coq dtok list; a tuple element is "(a,b,..)" """
    cs = comps(ty)
    toks, cur, depth = [], "", 0
    for ch in text + "\0":
        if ch == "(":
            depth += 1
        if ch == ")":
            depth -= 1
        if ch in "[],\0" and (depth <= 0 or ch == "\0"):
            if cur:
                if len(cs) == 1:
                    v = datom(cur, cs[0])
                elif cur[0] == "(" and cur[-1] == ")" and len(cur[1:-1].split(",")) == len(cs):
                    vals = [datom(a, c) for a, c in zip(cur[1:-1].split(","), cs)]
                    v = BADV if BADV in vals else zenc(tuple(vals), ty)
                else:
                    v = BADV
                toks.append("DE %s" % zt(v))
                cur = ""
            if ch != "\0":
                toks.append({"[": "DOpen", "]": "DClose", ",": "DComma"}[ch])
        else:
            cur += ch
    return "[" + ";".join(toks) + "]"


def coq_term(c, obs, profile):
    ok, res = parse_obs(c, obs)
    ty = c.get("ty", "i64")
    ctor = {"V": "FromVec", "S": "FromSlice"}.get(c["ctor"]) or "(New %s)" % zt(zenc(c.get("newv", 0), ty))
    ops = []
    if ok:
        for o, r in zip(c["ops"], res):
            k = o[0]
            if k == "gi":
                ops.append("OGetIndex %s %s" % (nl(o[1]), "None" if r is None else "(Some %d%%N)" % r))
            elif k == "g":
                ops.append("OGet %s %s" % (nl(o[1]), "None" if r is None else "(Some %s)" % zt(zenc(r, ty))))
            elif k == "s":
                ops.append("OSet %s %s %s" % (nl(o[1]), zt(zenc(o[2], ty)), "false" if r is None else "true"))
            elif k == "it":
                ops.append("OIter %s" % zl(r, ty))
            elif k == "dm":
                ops.append("ODims %s" % nl(r))
            elif k == "im":
                ops.append("OIterMut %s %d%%N" % (zl(o[1], ty), r))
            elif k == "w":
                ops.append("OWrite %s" % ("None" if r is None else "(Some %s)" % lex(r, ty)))
            elif k == "db":
                ops.append("ODebug %s" % ("None" if r is None else "(Some %s)" % lex_debug(r, ty)))
            elif k == "rt":
                ops.append("ORoundtrip %s" % ("None" if r is None else
                                              "(Some (%s, %s))" % ("true" if r[0] == "1" else "false", zl(r[1], ty))))
            elif k == "rd":
                ops.append("ORead %s %s %s" % (nl(o[1]), lex_in(o[2], ty),
                                               "None" if r is None else "(Some (%s, %s))" % (nl(r[0]), zl(r[1], ty))))
            elif k in ("eq", "sq"):
                # sq: the partner has the shape of the tensor itself; the executor has also compared the tensor with
                # itself (same object), with its clone and with from_vec(dims, iter) and demands the same answer
                edims, edata = (o[1], o[2]) if k == "eq" else (c["dims"], o[1])
                # "X": == was not symmetric / != not its negation / (sq) the answers differ; a value no specification accepts
                rr = "None" if r is None else ("(Some true)" if r == "1" else "(Some false)" if r == "0" else "None")
                if r == "X":
                    rr = "None" if constructible(edims, len(edata)) else "(Some true)"
                ops.append("OEq %s %s %s" % (nl(edims), zl(edata, ty, True), rr))
    return "(Case %s %s %s %s [%s])" % (nl(c["dims"]), ctor, zl(c["data"], ty), "true" if ok else "false", ";\n ".join(ops))



# ----------------------------------------------------------------------------- evidence helpers
def prod(ds):
    p = 1
    for d in ds:
        p *= d
    return p


def constructible(ds, n):
    return all(d > 0 for d in ds) and prod(ds) <= BIG and prod(ds) == n


def nontrivial(c, obs):
    if obs.split()[0] == "P":
        return True
    return len(c["dims"]) >= 2 and any(o[0] in ("gi", "g", "s") for o in c["ops"])


def classify(c, obs):
    kinds = sorted({o[0] for o in c["ops"]})
    main = "eq" if ("eq" in kinds or "sq" in kinds) else "read" if "rd" in kinds else "index_mut" if "s" in kinds else \
        "index" if ("g" in kinds or "gi" in kinds) else "other"
    if "im" in kinds:
        main += "+iter_mut"
    if "zlen" in c:
        main += "+zst-length"
    if prod(c["dims"]) > BIG or any(o[0] in ("rd", "eq") and prod(o[1]) > BIG for o in c["ops"]):
        main += "+count-overflow"
    ty = c.get("ty", "i64")
    return "rank%d/%s%s/%s/%s" % (len(c["dims"]), c["ctor"], "" if ty == "i64" else ":" + ty,
                                  "panic" if obs.split()[0] == "P" else "ok", main)


# ----------------------------------------------------------------------------- generator
def tag(k, salt):
    v = salt + k
    return -v if k % 3 == 2 else v


def all_idx(dims):
    return [list(i) for i in itertools.product(*[range(d) for d in dims])]


def oor_idx(rng, dims):
    """indices out of range in exactly one dimension: coordinate = extent (all combinations of the others)"""
    out = []
    for j in range(len(dims)):
        others = [range(d) if i != j else [None] for i, d in enumerate(dims)]
        for combo in itertools.product(*others):
            idx = list(combo)
            idx[j] = dims[j]
            if rng.chance(1, 6):
                # (1 << 32) + v with v a valid coordinate: a coordinate narrowed to 32 bits would be accepted
                idx[j] = rng.choice([dims[j] + 1, 2 * dims[j], dims[j] * 7 + 3, BIG, BIG - 1, 1 << 32,
                                     (1 << 32) + rng.below(dims[j]), (1 << 63) + rng.below(dims[j])])
            out.append(idx)
    return out


def oor_multi(rng, dims):
    """indices out of range in two or more dimensions at once: every coordinate = its extent; for every pair of
    dimensions both coordinates = extent with the others 0 (smallest flattened offset, inside the storage whenever
    that is possible) and with the others random; one random subset of size >= 2"""
    D = len(dims)
    if D < 2:
        return []
    out = [list(dims)]
    for j in range(D):
        for k in range(j + 1, D):
            a = [0] * D
            a[j], a[k] = dims[j], dims[k]
            out.append(a)
            b = [rng.below(d) for d in dims]
            b[j], b[k] = dims[j] + rng.below(2), dims[k] + rng.choice([0, 0, 1, BIG - dims[k]])
            out.append(b)
    if D >= 3:
        c = [rng.below(d) for d in dims]
        for j in range(D):
            if rng.chance(2, 3):
                c[j] = dims[j]
        if sum(1 for x, d in zip(c, dims) if x >= d) >= 2:
            out.append(c)
    seen, res = set(), []
    for x in out:
        if tuple(x) not in seen:
            seen.add(tuple(x))
            res.append(x)
    return res


def render(dims, data, ty="i64"):
    """independent python rendering (input text for `rd` ops; expected text in the implementation-only search)"""
    D = len(dims)
    out = []
    for k, x in enumerate(data):
        out.append(spell(x, ty))
        if k + 1 < len(data):
            c, p = 0, 1
            for d in reversed(dims):
                p *= d
                if (k + 1) % p == 0:
                    c += 1
                else:
                    break
            out.append(" " if c == 0 else "\n" * c)
    return "".join(out)


def offset_of(dims, idx):
    return sum(i * prod(dims[j + 1:]) for j, i in enumerate(idx))


def shape_cases(rng, dims):
    """three histories on one shape; every out-of-range index (one dimension: exhaustive; several: sampled) is given to
    get_index, Index AND IndexMut; the read block (dm it gi g w rt db) runs on tensors of all three constructors"""
    D, n = len(dims), prod(dims)
    salt = rng.range(1, 50) * 100
    data = [tag(k, salt) for k in range(n)]
    valid = all_idx(dims)
    oor = oor_idx(rng, dims) + oor_multi(rng, dims)
    cases = []
    # 1. from_vec: read everything
    ops = [["dm"], ["it"]]
    for idx in valid:
        ops.append(["gi", idx])
        ops.append(["g", idx])
    for idx in oor:
        ops.append(["g", idx])
        ops.append(["gi", idx])
    ops += [["w"], ["rt"], ["db"]]
    cases.append({"dims": dims, "ctor": "V", "data": data, "ops": ops})
    # 2. new + IndexMut everywhere (shuffled), out-of-range writes in between, then the read block
    order = list(valid)
    rng.shuffle(order)
    ops = [["dm"]]
    o2 = list(oor)
    rng.shuffle(o2)
    fill = rng.range(-9, 9)
    per = max(1, -(-len(o2) // max(1, len(order))))       # all out-of-range writes are spent
    for q, idx in enumerate(order):
        ops.append(["s", idx, tag(offset_of(dims, idx), salt + 7)])
        for _ in range(per):
            if o2:
                ops.append(["s", o2.pop(), 777777])
        if q == len(order) // 2:
            ops.append(["it"])
    for idx in o2:
        ops.append(["s", idx, 777777])
    ops.append(["it"])
    for idx in valid:
        ops.append(["g", idx])
        ops.append(["gi", idx])
    ops += [["w"], ["rt"], ["db"]]
    cases.append({"dims": dims, "ctor": "N", "newv": fill, "data": [], "ops": ops})
    # 3. from_slice: equality, then iter_mut, then the read block
    ops = [["eq", dims, list(data)]]
    if n > 0:
        k = rng.below(n)
        d2 = list(data)
        d2[k] += 1
        ops.append(["eq", dims, d2])
    perms = sorted({p for p in itertools.permutations(dims)})
    rng.shuffle(perms)
    for p in perms[:6]:
        ops.append(["eq", list(p), list(data)])
    if D >= 1:
        flat = [1] * (D - 1) + [n]
        ops.append(["eq", flat, list(data)])
        ops.append(["eq", list(reversed(flat)), list(data)])
        ops.append(["eq", dims, data[:-1]])
        ops.append(["eq", dims, data + [5]])
        # a constructible partner with ANOTHER element count whose data starts with / is a prefix of this tensor's data
        j = rng.below(D)
        grown = list(dims)
        grown[j] += 1
        ops.append(["eq", grown, (data + data)[:prod(grown)]])
        if dims[j] > 1:
            cut = list(dims)
            cut[j] -= 1
            ops.append(["eq", cut, data[:prod(cut)]])
    if valid:
        idx = rng.choice(valid)
        ops.append(["s", idx, 424242])
        ops.append(["eq", dims, list(data)])
        off = offset_of(dims, idx)
        d3 = list(data)
        d3[off] = 424242
        ops.append(["eq", dims, d3])
        if D >= 2:
            ops.append(["eq", list(reversed(dims)), d3])
    ops.append(["it"])
    # iter_mut: as many values as elements, then fewer, then more
    vs = [tag(k, salt + 31) for k in range(n)]
    ops += [["im", vs], ["it"], ["eq", dims, vs]]
    for idx in valid:
        ops.append(["g", idx])
    ops += [["im", [5] * (n // 2)], ["it"], ["im", [6 + k for k in range(n + 2)]], ["dm"], ["it"]]
    for q, idx in enumerate(valid):
        ops.append(["gi" if q % 2 else "g", idx])
    for q, idx in enumerate(oor):
        ops.append(["g" if q % 2 else "gi", idx])
    ops += [["w"], ["rt"], ["db"]]
    cases.append({"dims": dims, "ctor": "S", "data": data, "ops": ops})
    return cases


def reject_cases(rng, dims):
    """constructor rejections around a shape"""
    D, n = len(dims), prod(dims)
    data = [tag(k, 300) for k in range(n)]
    cases = []
    for ctor in ("V", "S"):
        cases.append({"dims": dims, "ctor": ctor, "data": data[:-1], "ops": [["it"]]})
        cases.append({"dims": dims, "ctor": ctor, "data": data + [9], "ops": [["it"]]})
        cases.append({"dims": dims, "ctor": ctor, "data": data + data, "ops": [["it"]]})
        if n > 1:
            cases.append({"dims": dims, "ctor": ctor, "data": [], "ops": [["it"]]})
    for j in range(D):
        z = list(dims)
        z[j] = 0
        for ctor in ("V", "S"):
            cases.append({"dims": z, "ctor": ctor, "data": [], "ops": [["it"], ["dm"]]})            # length matches the (zero) product
            cases.append({"dims": z, "ctor": ctor, "data": data, "ops": [["it"]]})
        cases.append({"dims": z, "ctor": "N", "newv": 4, "data": [], "ops": [["it"], ["w"]]})
        cases.append({"dims": dims, "ctor": "V", "data": data,
                      "ops": [["rd", z, render(dims, data)], ["eq", z, []], ["eq", z, data]]})
    if D >= 2:
        # two zero extents at once, all extents zero
        j = rng.below(D - 1)
        z2 = list(dims)
        z2[j] = z2[j + 1] = 0
        for z in (z2, [0] * D):
            for ctor in ("V", "S", "N"):
                cases.append({"dims": z, "ctor": ctor, "newv": 1, "data": [], "ops": [["it"]]})
            cases.append({"dims": dims, "ctor": "S", "data": data, "ops": [["rd", z, ""], ["eq", z, []]]})
    return cases


def read_cases(rng, dims):
    D, n = len(dims), prod(dims)
    data = [tag(k, 500) for k in range(n)]
    text = render(dims, data)
    ops = [["rd", dims, text]]
    perms = sorted({p for p in itertools.permutations(dims)})
    rng.shuffle(perms)
    for p in perms[:3]:
        ops.append(["rd", list(p), text])                      # same size, other shape
    ops.append(["rd", dims, render(dims, data)[: max(0, len(text) - len(str(data[-1])) - 1)]])   # last token missing
    ops.append(["rd", dims, "\n \n" + text.replace(" ", "  ") + " \n"])                          # more whitespace
    ops.append(["rd", dims, text + " 99 98"])                                                      # more tokens
    ops.append(["rd", dims, " ".join(str(x) for x in data)])                                       # one line
    ops.append(["rd", dims, ""])
    if D >= 1:
        bigger = list(dims)
        bigger[rng.below(D)] += 1
        ops.append(["rd", bigger, text])                                                           # too few tokens
    return [{"dims": dims, "ctor": "V", "data": data, "ops": ops}]


# ----------------------------------------------------------------------------- element count beyond usize
def inv64(b):
    return pow(b, -1, 1 << 64)


def overflow_shapes(rng, tier):
    """shapes with positive extents whose element count does not fit into usize, with the value the wrapped
    (mod 2^64) product would have: 0, a small number (a data vector of that length exists), or large"""
    M = 1 << 64
    out = [[1 << 32, 1 << 32], [(1 << 63) + 1, 2], [2, (1 << 63) + 1], [1 << 63, 2], [2, 1 << 63],
           [1 << 32, 1 << 32, 1], [1, 1 << 32, 1 << 32], [1 << 63, 2, 1], [1 << 16, 1 << 16, 1 << 16, 1 << 16],
           [1 << 22, 1 << 21, 1 << 21], [BIG, 2], [BIG, BIG], [3, BIG], [1 << 32, (1 << 32) + 1], [1 << 21] * 4,
           [(1 << 62) + 1, 4], [2, 2, (1 << 62) + 1], [2, (1 << 62) + 1, 2, 1]]
    # a·b ≡ r (mod 2^64) with b odd: a = r·b^-1; the true product is far beyond 2^64
    rounds = 6 if tier == "quick" else 60
    for _ in range(rounds):
        r = rng.range(1, 12)
        b = rng.choice([3, 5, 7, 9, 11, 255, 257, 65537, (1 << 32) + 1, (1 << 32) - 1])
        a = (r * inv64(b)) % M
        if a * b >= M:
            s = rng.choice([[a, b], [b, a], [1, a, b], [a, 1, b], [a, b, 1, 1]])
            out.append(s)
        # three factors: 2^k · odd · 2^(64-k+e) wraps to 0
        k = rng.range(1, 40)
        out.append(rng.choice([[1 << k, rng.range(1, 9) * 2 + 1, 1 << (64 - k)], [1 << (64 - k), 1 << k, rng.range(1, 5)]]))
    res = []
    for sh in out:
        assert all(0 < d <= BIG for d in sh) and prod(sh) > BIG, sh
        if len(sh) in (2, 3, 4, 5) and sh not in res:
            res.append(sh)
    return res


def overflow_cases(rng, tier):
    """from_vec / from_slice with data whose length is the wrapped count (and 0, 1, wrapped +- 1); `new` and
    Tensor::read only when the wrapped count is small (a build that wraps would allocate that many elements, never
    more); == against such a partner.  Expected everywhere: rejected.  No operation follows the constructor."""
    M = 1 << 64
    cases = []
    for sh in overflow_shapes(rng, tier):
        w = prod(sh) % M
        lens = {0, 1}
        if w <= 40:
            lens |= {w, w + 1, max(0, w - 1)}
        for ln in sorted(lens):
            data = [7 + k for k in range(ln)]
            for ctor in ("V", "S"):
                cases.append({"dims": sh, "ctor": ctor, "data": data, "ops": []})
        if w <= 40:
            cases.append({"dims": sh, "ctor": "N", "newv": 3, "data": [], "ops": []})
            small = [1] * (len(sh) - 1) + [max(1, w)]
            d0 = [7 + k for k in range(max(1, w))]
            text = " ".join(str(x) for x in d0[:w])
            cases.append({"dims": small, "ctor": "V", "data": d0,
                          "ops": [["rd", sh, text], ["rd", sh, ""], ["rd", sh, text + " 1 2 3"],
                                  ["eq", sh, d0[:w]], ["eq", sh, []], ["eq", sh, d0], ["it"]]})
        else:
            cases.append({"dims": [1] * len(sh), "ctor": "S", "data": [4], "ops": [["eq", sh, []], ["eq", sh, [4]], ["it"]]})
    return cases


# ----------------------------------------------------------------------------- other element types
def remap_case(c, ty):
    """the same history on Tensor<ty, D>: values folded into the type's range (u8: mod 256), in the data, the written
    values, the comparison partners and the integer tokens of the texts"""
    f = lambda v: fold(v, ty)
    import re
    ops = []
    for o in c["ops"]:
        k = o[0]
        if k in ("w", "rt") and ty in NOT_WRITABLE:
            continue
        if k == "s":
            ops.append([k, o[1], f(o[2])])
        elif k == "eq":
            ops.append([k, o[1], [f(x) for x in o[2]]])
        elif k == "im":
            ops.append([k, [f(x) for x in o[1]]])
        elif k == "rd":
            ops.append([k, o[1], re.sub(r"-?\d+", lambda m: spell(f(int(m.group(0))), ty), o[2])])
        else:
            ops.append(o)
    d = dict(c, ty=ty, data=[f(x) for x in c["data"]], ops=ops)
    if "newv" in c:
        d["newv"] = f(c["newv"])
    return d


# ----------------------------------------------------------------------------- element types of rlib_io: values
def magnitudes(ty):
    """boundary magnitudes of an integer type: 0, +-1, 10^k and 10^k +- 1 for every k the type can hold, values whose
    decimal limbs of 4 / 9 / 19 digits start with zeros (an implementation that prints or parses limb by limb must
    pad them), powers of two around the 32 / 64 bit halves, MIN, MAX and their neighbours"""
    lo, hi = INT[ty]
    vals = {0, 1, 2, 9, lo, lo + 1, hi, hi - 1, hi // 2, hi // 10, hi // 10 + 1}
    k = 0
    while 10 ** k <= hi + 1:
        vals |= {10 ** k, 10 ** k - 1, 10 ** k + 1, 2 * 10 ** k, 9 * 10 ** k + 9}
        k += 1
    for L in (4, 9, 19):
        B = 10 ** L
        for h in (1, 7, 10 ** (L - 1), B - 1):
            for l in (0, 1, 7, 10 ** (L - 2), 10 ** (L - 1) - 1, 10 ** (L - 1)):
                vals.add(h * B + l)
                for m in (0, 1, 10 ** (L - 1) - 1, B - 1):
                    vals.add((h * B + m) * B + l)
                    vals.add(((h * B + m) * B + 0) * B + l)
    for b in (8, 16, 31, 32, 33, 63, 64, 65, 127):
        vals |= {(1 << b) - 1, 1 << b, (1 << b) + 1}
    vals |= {hi - 10 ** j for j in range(k)} | {hi // 10 ** j for j in range(k)}
    if lo < 0:
        vals |= {-v for v in vals} | {lo // 10 ** j for j in range(k)}
    return sorted(v for v in vals if lo <= v <= hi)


VALUE_SHAPES = {24: [[24], [4, 6], [2, 3, 4], [12, 2], [2, 2, 6]], 12: [[12], [3, 4], [2, 3, 2], [2, 6]],
                6: [[6], [2, 3], [3, 1, 2]], 4: [[4], [2, 2]], 3: [[3], [1, 3]], 2: [[2], [2, 1]], 1: [[1], [1, 1]]}


def value_cases(rng, ty, tier):
    """every boundary magnitude of the type as an element of some tensor: write (expected: the odometer layout of the
    standard decimal spellings), write -> read round trip, Debug, Tensor::read of the python rendering (odometer layout
    and one line), == against a partner that differs in one element by a dropped / padded digit"""
    pool = magnitudes(ty)
    rng.shuffle(pool)
    if tier != "quick":
        lo, hi = INT[ty]
        more = set()
        while len(more) < 200 and hi > 300:
            digits = rng.range(1, len(str(hi)))
            v = 0
            for _ in range(digits):
                v = v * 10 + rng.choice([0, 0, 0, 9, 1, rng.below(10)])
            v = v if lo == 0 or rng.chance(1, 2) else -v
            if lo <= v <= hi:
                more.add(v)
        pool += sorted(more)
    cases, q = [], 0
    while pool:
        size = next(z for z in (24, 12, 6, 4, 3, 2, 1) if z <= len(pool))
        data, pool = pool[:size], pool[size:]
        dims = rng.choice(VALUE_SHAPES[size])
        ops = [["it"], ["w"], ["rt"], ["db"], ["rd", dims, render(dims, data)], ["rd", dims, " ".join(str(x) for x in data)]]
        k = rng.below(size)
        other = list(data)
        s = str(abs(data[k]))
        cand = [int(s[:1] + s[2:]) if len(s) > 1 else data[k] + 1,            # a digit dropped behind the first one
                int(s[:-1] or "0"), data[k] % 10 ** 19, data[k] % 10 ** 9, data[k] + 1 if data[k] < INT[ty][1] else data[k] - 1]
        other[k] = next(v for v in cand if v != data[k] and INT[ty][0] <= v <= INT[ty][1])
        ops += [["eq", dims, list(data)], ["eq", dims, other], ["g", unflat(dims, k)], ["s", unflat(dims, k), other[k]], ["w"], ["rt"]]
        c = {"dims": dims, "ty": ty, "ctor": "VS"[q % 2], "data": data, "ops": ops}
        if q % 5 == 4:
            # the same elements written one by one into a tensor made by `new`
            fill = data[0]
            c = {"dims": dims, "ty": ty, "ctor": "N", "newv": fill, "data": [],
                 "ops": [["w"], ["rt"]] + [["s", unflat(dims, j), x] for j, x in enumerate(data)] + [["it"], ["w"], ["rt"], ["db"]]}
        if ty == "i64":
            c.pop("ty")
        cases.append(c)
        q += 1
    return cases


def unflat(dims, k):
    idx = []
    for d in reversed(dims):
        idx.append(k % d)
        k //= d
    return list(reversed(idx))


# ----------------------------------------------------------------------------- element types of rlib_io: char
def char_texts(rng, dims, codes):
    """the same characters in the layouts a character grid comes in"""
    odo = render(dims, codes, "char")                       # blanks between the characters of a row
    grid = odo.replace(" ", "")                             # a row is one unbroken word
    texts = [grid, grid + "\n", odo, grid.replace("\n", "\r\n") + "\r\n", odo.replace("\n", "\r\n"),
             "".join(chr(x) for x in codes),                # no separator at all
             " \n\t" + odo.replace(" ", " \t ") + "  \n", # leading whitespace, tabs
             "\n".join(chr(x) for x in codes),              # one character per line
             grid + "\n" + grid]                            # more characters than elements
    return texts


def char_cases(rng, dims):
    n = prod(dims)
    codes = [ord(ALPH[(rng.below(len(ALPH)) + 7 * k) % len(ALPH)]) for k in range(n)]
    valid = all_idx(dims)
    ops = [["dm"], ["it"], ["db"]]
    for idx in valid:
        ops += [["g", idx], ["gi", idx]]
    texts = char_texts(rng, dims, codes)
    for t in texts:
        ops.append(["rd", dims, t])
    perms = sorted({p for p in itertools.permutations(dims)})
    rng.shuffle(perms)
    for p in perms[:2]:
        ops.append(["rd", list(p), texts[0]])
        ops.append(["rd", list(p), texts[2]])
    ops.append(["rd", dims, texts[0][:-1]])                 # one character short (debug profile: the reader panics)
    ops.append(["rd", dims, ""])
    other = list(codes)
    k = rng.below(n)
    other[k] = ord("Q") if codes[k] != ord("Q") else ord("q")
    ops += [["eq", dims, list(codes)], ["eq", dims, other], ["s", unflat(dims, k), other[k]], ["eq", dims, other], ["it"],
            ["im", [ord(ALPH[(5 + j) % len(ALPH)]) for j in range(n)]], ["it"], ["db"]]
    return [{"dims": dims, "ty": "char", "ctor": rng.choice(["V", "S"]), "data": codes, "ops": ops},
            {"dims": dims, "ty": "char", "ctor": "N", "newv": ord("#"), "data": [],
             "ops": [["it"], ["db"], ["rd", dims, texts[0]], ["s", unflat(dims, k), ord("x")], ["it"], ["rd", dims, texts[3]]]}]


# ----------------------------------------------------------------------------- element types of rlib_io: tuples
def tuple_cases(rng, ty, dims):
    n = prod(dims)
    base = [rng.range(-10 ** 12, 10 ** 12) if rng.chance(1, 2) else rng.range(-300, 300) for _ in range(n)]
    data = [fold(v, ty) for v in base]
    if ty == "t2":
        data[0] = [INT["i64"][0], 255]
        data[-1] = [INT["i64"][1], 0]
    if ty == "t3":
        data[0] = [255, TM - 1, 65535]
    if ty == "tc":
        data[-1] = [ord("Z"), TM - 1]
    odo = render(dims, data, ty)
    flat = [spell(y, t) for x in data for y, t in zip(x, COMPS[ty])]
    texts = [odo, " ".join(flat), "\n".join(flat), "\r\n".join(flat) + "\r\n", "  " + odo.replace(" ", "\t") + " \n",
             odo + " " + " ".join(flat[:len(COMPS[ty])])]
    if ty == "tc":
        texts.append("".join(spell(x[0], "char") + str(x[1]) + " " for x in data))       # "x5 y6 ": the char sticks to the number
    ops = [["dm"], ["it"], ["db"]] + ([] if ty in NOT_WRITABLE else [["w"], ["rt"]])
    for idx in all_idx(dims):
        ops += [["g", idx], ["gi", idx]]
    for t in texts:
        ops.append(["rd", dims, t])
    ops.append(["rd", dims, " ".join(flat[:-1])])           # the last tuple lacks a component (debug profile: panic)
    ops.append(["rd", list(reversed(dims)), odo])
    other = [list(x) for x in data]
    k = rng.below(n)
    j = rng.below(len(COMPS[ty]))
    other[k][j] = other[k][j] - 1 if other[k][j] > 40 else other[k][j] + 1
    ops += [["eq", dims, data], ["eq", dims, other], ["s", unflat(dims, k), other[k]], ["eq", dims, other], ["it"]]
    ops += [] if ty in NOT_WRITABLE else [["w"], ["rt"]]
    ops += [["im", list(reversed(data))], ["it"], ["db"]]
    return [{"dims": dims, "ty": ty, "ctor": rng.choice(["V", "S"]), "data": data, "ops": ops}]


NEW_INT_TYPES = ("i8", "i16", "u16", "u32", "u64", "i128", "u128", "isize", "usize")


def io_type_cases(rng, tier, pool):
    """the element types rlib_io can read / write beyond i64, i32, u8, String (ranks 0..3)"""
    cases = []
    for ty in ("i64", "i32", "u8") + NEW_INT_TYPES:
        cases += value_cases(rng, ty, tier)
    small = [s for s in pool if len(s) <= 3]
    rng.shuffle(small)
    per = 1 if tier == "quick" else 8
    for q, ty in enumerate(NEW_INT_TYPES + ("char", "t2", "t3", "tc")):
        cases.append({"dims": [], "ty": ty, "ctor": "V", "data": [fold(9, ty)],
                      "ops": [["dm"], ["gi", []], ["g", []], ["it"], ["db"], ["s", [], fold(10, ty)], ["eq", [], [fold(10, ty)]],
                              ["rd", [], spell(fold(5, ty), ty)], ["rd", [], "\n " + spell(fold(6, ty), ty) + " " + spell(fold(7, ty), ty)],
                              ["im", [fold(41, ty)]], ["it"]] + ([] if ty in NOT_WRITABLE else [["w"], ["rt"]])})
        for dims in [small[(q * per + j) % len(small)] for j in range(per)]:
            for c in shape_cases(rng, dims) + read_cases(rng, dims) + reject_cases(rng, dims)[:4]:
                cases.append(remap_case(c, ty))
    grids = [[1], [5], [2, 2], [3, 4], [4, 1], [1, 6], [2, 3, 2], [2, 1, 3]] if tier == "quick" else \
        [s for s in shapes(3, 4) if prod(s) <= 36]
    for dims in grids:
        cases += char_cases(rng, dims)
    tshapes = [[3], [2, 2], [2, 1, 2]] if tier == "quick" else [[1], [4], [2, 3], [3, 2], [1, 5], [2, 2, 2], [3, 1, 2]]
    for ty in ("t2", "t3", "tc"):
        for dims in tshapes:
            cases += tuple_cases(rng, ty, dims)
    return cases


# ----------------------------------------------------------------------------- element types outside rlib_io
def zst_surrogate(dims, L):
    """A data vector of a zero-sized type can be longer than any list Coq can hold.  The constructors look at the data
    only through `len`, and the model / the specification reject (a) every shape with a zero extent and (b) every shape
    whose product exceeds usize::MAX whatever the data is, and (c) otherwise compare the product with the length.  The
    Coq term carries a short list that gives the same answer: any short list for (a) and (b), a list of a length
    different from the product for (c) with product != L.  (c) with product == L > 64 is not representable and not generated."""
    if L <= 64:
        return [0] * L
    P = prod(dims)
    if any(d == 0 for d in dims) or P > BIG:
        return [0, 0]
    assert P != L, (dims, L)
    return [0] * min(k for k in (0, 1, 2) if k != P)


def zst_cases(rng, tier):
    """constructors of Tensor<(), D> / Tensor<Zst, D> on data of EVERY length class up to usize::MAX"""
    M = 1 << 64
    cases = []
    over = [[1 << 32, 1 << 32], [1 << 32, 2, 1 << 32], [(1 << 63) + 1, 2], [BIG, 2], [BIG, BIG], [3, BIG], [1 << 63, 2],
            [1 << 22, 1 << 21, 1 << 21], [(1 << 32) + 1, (1 << 32) + 1], [1 << 33, 1 << 31, 3], [1 << 16] * 4]
    for _ in range(2 if tier == "quick" else 30):
        r = rng.range(1, 1 << 40)
        b = rng.choice([3, 5, 7, 255, 257, 65537, (1 << 32) + 1])
        a = (r * inv64(b)) % M
        if a * b >= M:
            over.append(rng.choice([[a, b], [b, a], [a, 1, b]]))
    for q, sh in enumerate(over):
        assert prod(sh) > BIG and all(0 < d <= BIG for d in sh)
        w = prod(sh) % M
        lens = {BIG, BIG - 1, 1 << 63, (1 << 63) - 1, w, 0, 1, max(sh), (prod(sh) >> 64) & BIG, (w + (1 << 63)) % M}
        for L in sorted(lens):
            for ty in ZST:
                for ctor in ("V", "S"):
                    cases.append({"dims": sh, "ty": ty, "ctor": ctor, "zlen": L, "data": zst_surrogate(sh, L), "ops": []})
        # (vec![Zst; n] loops n times in a debug build: `new` of a shape a broken build accepts only for `()`)
        cases.append({"dims": sh, "ty": "unit", "ctor": "N", "newv": 0, "data": [], "ops": []})
        cases.append({"dims": [1] * len(sh), "ty": ZST[q % 2], "ctor": "V", "data": [0],
                      "ops": [["eq", sh, []], ["eq", sh, [0]], ["sq", [0]], ["it"]]})
    # representable shapes, lengths that agree with the product only after truncation / saturation
    fit = [[3, 5], [1, 1], [2, 2, 2], [1 << 32, 1 << 31], [1 << 31, 1 << 31], [(1 << 32) - 1, (1 << 32) + 1], [1 << 20, 1 << 20, 1 << 20],
           [7], [BIG - 1], [1 << 63], [1, (1 << 63) - 1]]
    for sh in fit:
        P = prod(sh)
        assert 0 < P <= BIG
        lens = {BIG, BIG - 1, 1 << 63, (1 << 63) - 1, 0, P - 1, P + 1, (P + (1 << 32)) % M, (P + (1 << 63)) % M, P % (1 << 32), P % (1 << 63)}
        for L in sorted(x for x in lens if x != P and 0 <= x <= BIG):
            for ty in ZST:
                for ctor in ("V", "S"):
                    cases.append({"dims": sh, "ty": ty, "ctor": ctor, "zlen": L, "data": zst_surrogate(sh, L), "ops": []})
    # a zero extent
    for sh in ([0], [0, 1 << 32], [1 << 63, 0, 4], [BIG, 0], [0, 0]):
        for L in (0, 1, BIG, 1 << 63):
            for ty in ZST:
                for ctor in ("V", "S"):
                    cases.append({"dims": sh, "ty": ty, "ctor": ctor, "zlen": L, "data": zst_surrogate(sh, L), "ops": []})
    # tensors that exist: the ordinary history (all elements are equal, offsets still are not)
    for ty in ZST:
        for dims in ([], [4], [2, 3], [2, 1, 3], [1, 2, 2, 2]):
            n = prod(dims)
            valid = all_idx(dims)
            for ctor in ("V", "S", "N"):
                ops = [["dm"], ["it"], ["sq", [0] * n]]
                for idx in valid:
                    ops += [["gi", idx], ["g", idx]]
                for q, idx in enumerate(oor_idx(rng, dims) + oor_multi(rng, dims)):
                    ops += [["gi", idx], ["g", idx], ["s", idx, 0]]
                if valid:
                    ops += [["s", valid[-1], 0]]
                ops += [["eq", dims, [0] * n], ["eq", list(reversed(dims)), [0] * n], ["eq", dims, [0] * (n + 1)], ["eq", dims, []],
                        ["im", [0] * (n + 1)], ["sq", [0] * n], ["it"], ["dm"]]
                if dims:
                    ops.append(["eq", [n] + [1] * (len(dims) - 1), [0] * n])
                c = {"dims": dims, "ty": ty, "ctor": ctor, "data": [] if ctor == "N" else [0] * n, "ops": ops}
                if ctor == "N":
                    c["newv"] = 0
                elif n > 0 and rng.chance(1, 2):
                    c["zlen"] = n
                cases.append(c)
    return cases


def nonreflexive_cases(rng, tier):
    """Tensor<f64, D> with NaN among the values, Tensor<Tri, D> with Unknown: == / != on the same object, on a clone,
    on a rebuilt tensor and on an explicit partner (`sq`) must all be the element-wise comparison"""
    cases = []
    shp = [[], [1], [3], [2, 3], [2, 2, 2]] if tier == "quick" else [[], [1], [2], [5], [1, 1], [2, 3], [3, 2], [4, 4], [2, 2, 2], [3, 1, 2], [2, 1, 2, 2]]
    for ty in NONREFL:
        val = (lambda k: [3, -7, 0, 12, 1 << 40, -1][k % 6] + k) if ty == "f64" else (lambda k: (k * 5 // 3) % 2)
        for dims in shp:
            n = prod(dims)
            valid = all_idx(dims)
            plain = [val(k) for k in range(n)]
            k0 = rng.below(n)
            variants = [("none", plain), ("one", [("nan" if k == k0 else x) for k, x in enumerate(plain)]),
                        ("last", plain[:-1] + ["nan"]), ("all", ["nan"] * n)]
            for name, data in variants:
                for ctor in ("V", "S"):
                    cur = list(data)
                    ops = [["sq", list(cur)], ["dm"], ["it"], ["eq", dims, list(plain)]]
                    if dims:
                        ops.append(["eq", list(reversed(dims)), list(cur)])
                        ops.append(["eq", dims, cur[:-1]])
                    for idx in valid:
                        ops += [["g", idx], ["gi", idx]]
                    # overwrite the NaNs one by one: equal to itself exactly when the last one is gone
                    for k in [k for k, x in enumerate(cur) if x == "nan"]:
                        cur[k] = plain[k]
                        ops += [["s", valid[k], plain[k]], ["sq", list(cur)]]
                    ops.append(["eq", dims, list(plain)])
                    # ... and put one back, through IndexMut and through iter_mut
                    k = rng.below(n)
                    cur[k] = "nan"
                    ops += [["s", valid[k], "nan"], ["sq", list(cur)], ["g", valid[k]], ["it"]]
                    vs = [("nan" if j % 2 else val(j + 3)) for j in range(n)]
                    cur = list(vs)
                    ops += [["im", vs], ["sq", list(cur)], ["it"]]
                    cur = [val(j + 1) for j in range(n)]
                    ops += [["im", list(cur)], ["sq", list(cur)]]
                    if ty == "f64":
                        # 0.0 == -0.0 although the bit patterns differ
                        z = list(cur)
                        z[0] = "-0"
                        cur[0] = 0
                        ops += [["s", valid[0], 0], ["eq", dims, z], ["s", valid[0], "-0"], ["sq", list(cur)], ["eq", dims, z]]
                    cases.append({"dims": dims, "ty": ty, "ctor": ctor, "data": list(data), "ops": ops})
            for v in ("nan", val(2)):
                cur = [v] * n
                ops = [["sq", list(cur)], ["it"], ["eq", dims, list(cur)]]
                cur[-1] = val(2)
                ops += [["s", valid[-1], val(2)], ["sq", list(cur)], ["eq", dims, [val(2)] * n]]
                cases.append({"dims": dims, "ty": ty, "ctor": "N", "newv": v, "data": [], "ops": ops})
    return cases


def shapes(maxrank, ext):
    out = []
    for D in range(1, maxrank + 1):
        out += [list(s) for s in itertools.product(range(1, ext + 1), repeat=D)]
    return out


def high_rank_shapes(rng, tier):
    """ranks 5, 6 and 8 (the executor instantiates them; the model is rank-generic)"""
    r5 = [list(s) for s in itertools.product((1, 2), repeat=5)]
    r6 = [list(s) for s in itertools.product((1, 2), repeat=6)]
    rng.shuffle(r5)
    rng.shuffle(r6)
    def r8():
        while True:
            s = [rng.choice([1, 1, 2]) for _ in range(8)]
            if 2 <= prod(s) <= 32:
                return s
    if tier == "quick":
        out = [[2] * 5, [2] * 6] + r5[:3] + r6[:2] + [r8(), [1, 3, 1, 2, 2], [2, 1, 2, 1, 1, 3]]
    else:
        out = r5 + r6 + [r8() for _ in range(10)]
        for _ in range(16):
            D = rng.choice([5, 5, 6])
            s = [rng.range(1, 3) for _ in range(D)]
            if prod(s) <= 200:
                out.append(s)
    res = []
    for s in out:
        if s not in res:
            res.append(s)
    return res


def generate(rng, tier):
    cases = []
    # rank 0: a single element
    for x in (7, -3, 0):
        cases.append({"dims": [], "ctor": "V", "data": [x],
                      "ops": [["dm"], ["gi", []], ["g", []], ["it"], ["w"], ["rt"], ["db"], ["s", [], x + 1], ["g", []], ["w"], ["rt"], ["db"],
                              ["eq", [], [x + 1]], ["eq", [], [x]], ["eq", [], []], ["rd", [], "5"], ["rd", [], ""],
                              ["rd", [], "\n -12 4"], ["im", [41]], ["it"], ["im", []], ["im", [42, 43]], ["g", []]]})
    cases.append({"dims": [], "ctor": "N", "newv": 11, "data": [], "ops": [["dm"], ["it"], ["g", []], ["gi", []], ["w"], ["rt"], ["db"]]})
    cases.append({"dims": [], "ctor": "S", "data": [8], "ops": [["dm"], ["it"], ["g", []], ["gi", []], ["w"], ["rt"], ["db"]]})
    cases.append({"dims": [], "ctor": "S", "data": [], "ops": [["it"]]})
    cases.append({"dims": [], "ctor": "V", "data": [1, 2], "ops": [["it"]]})
    for ty in ("i32", "u8", "str"):
        cases.append({"dims": [], "ty": ty, "ctor": "V", "data": [9],
                      "ops": [["dm"], ["gi", []], ["g", []], ["it"], ["w"], ["rt"], ["db"], ["s", [], 10], ["eq", [], [10]],
                              ["rd", [], "5"], ["im", [41]], ["it"]]})
    ext = 3 if tier == "quick" else 5
    base = shapes(4, ext)
    for dims in base:
        cases += shape_cases(rng, dims)
    if tier == "quick":
        seen = {tuple(s) for s in base}
        extra = []
        while len(extra) < 18:
            D = rng.range(1, 4)
            s = [rng.range(1, 6 if D < 4 else 5) for _ in range(D)]
            if tuple(s) not in seen and prod(s) <= 150:
                seen.add(tuple(s))
                extra.append(s)
        for dims in extra:
            cases += shape_cases(rng, dims)
        rej = [s for s in base if rng.chance(1, 5)] + extra[:6]
    else:
        extra = []
        rej = [s for s in base if max(s) <= 3 or rng.chance(1, 4)]
    for dims in rej:
        cases += reject_cases(rng, dims)
        cases += read_cases(rng, dims)
    # ranks above 4
    high = high_rank_shapes(rng, tier)
    for dims in high:
        cases += shape_cases(rng, dims)
    for dims in high[:4 if tier == "quick" else 24]:
        cases += reject_cases(rng, dims)
        cases += read_cases(rng, dims)
    # element count beyond usize
    cases += overflow_cases(rng, tier)
    # other element types: the three histories and the reads of a spread sample of shapes
    pool = [s for s in base + extra if len(s) >= 2 or max(s) >= 3] + high[:2]
    rng.shuffle(pool)
    per_type = 5 if tier == "quick" else 60
    for q, ty in enumerate(("i32", "u8", "str")):
        for dims in pool[q * per_type:(q + 1) * per_type]:
            for c in shape_cases(rng, dims) + read_cases(rng, dims) + reject_cases(rng, dims)[:4]:
                cases.append(remap_case(c, ty))
    # every other element type rlib_io can read / write, with the boundary magnitudes of the integer types
    cases += io_type_cases(rng.fork("io-types"), tier, base + extra)
    # element types outside rlib_io: zero-sized (data of any length) and with a non-reflexive PartialEq
    lrng = rng.fork("lite-types")
    cases += zst_cases(lrng, tier) + nonreflexive_cases(lrng, tier)
    return cases


# ----------------------------------------------------------------------------- shrinking
def shrink(c):
    out = []
    ops = c["ops"]
    n = len(ops)
    if n > 1:
        out.append(dict(c, ops=ops[: n // 2]))
        out.append(dict(c, ops=ops[n // 2:]))
        # keep the writes (they define the state), drop reads
        sets = [o for o in ops if o[0] in ("s", "im")]
        if sets and len(sets) < n:
            out.append(dict(c, ops=sets + [ops[-1]]))
        step = max(1, n // 30)
        for i in range(0, n, step):
            out.append(dict(c, ops=ops[:i] + ops[i + step:]))
    if n == 1 and ops[0][0] in ("w", "rt", "it") and c["ctor"] == "N":
        pass
    # an `sq` op carries the content the tensor has at that point: only variants that keep it true are the same question
    return [x for x in out if sq_consistent(x)]


def sq_consistent(c):
    if not any(o[0] == "sq" for o in c["ops"]):
        return True
    dims = c["dims"]
    norm = lambda v: 0 if v == "-0" else v
    n = c.get("zlen", len(c["data"]))
    if c["ctor"] == "N":
        cur = [norm(c.get("newv", 0))] * (prod(dims) if constructible(dims, prod(dims)) else 0)
    else:
        cur = [norm(x) for x in c["data"]] if "zlen" not in c else [0] * min(n, 64)
    if not constructible(dims, n if c["ctor"] != "N" else prod(dims)):
        return True
    for o in c["ops"]:
        if o[0] == "s" and all(i < d for i, d in zip(o[1], dims)):
            cur[offset_of(dims, o[1])] = norm(o[2])
        elif o[0] == "im":
            k = min(len(cur), len(o[1]))
            cur[:k] = [norm(x) for x in o[1][:k]]
        elif o[0] == "sq" and [norm(x) for x in o[1]] != cur:
            return False
    return True


# ----------------------------------------------------------------------------- implementation-only search
def render_debug(dims, data, ty="i64"):
    """independent python rendering of the Debug text (spaces removed)"""
    if not dims:
        return "'%s'" % chr(data[0]) if ty == "char" else str(data[0])
    step = prod(dims[1:])
    return "[" + ",".join(render_debug(dims[1:], data[k * step:(k + 1) * step], ty) for k in range(dims[0])) + "]"


def py_expect(c):
    """python oracle (row-major arithmetic) for a from_vec history of dm / gi / g / it / w / rt / db / rd ops on a valid
    tensor of integers or chars (rd: only texts holding enough elements)"""
    dims, l = c["dims"], list(c["data"])
    ty = c.get("ty", "i64")
    exp = []
    for o in c["ops"]:
        k = o[0]
        if k in ("gi", "g"):
            idx = o[1]
            if all(i < d for i, d in zip(idx, dims)):
                off = offset_of(dims, idx)
                exp.append(off if k == "gi" else l[off])
            else:
                exp.append(None)
        elif k == "it":
            exp.append(l)
        elif k == "dm":
            exp.append(list(dims))
        elif k == "w":
            exp.append(enc_text(render(dims, l, ty)))
        elif k == "db":
            exp.append(render_debug(dims, l, ty))
        elif k == "rt":
            exp.append(("1", l))
        elif k == "rd":
            exp.append((list(o[1]), [t[1] for t in scan(o[2], ty) if t[0] == "E"][:prod(o[1])]))
        else:
            raise ValueError(k)
    return exp


def boundary_cases(rng, tier):
    """long and wide tensors: extents around 2^8 and 2^16, texts longer than the 64 KiB buffers of Reader and Writer
    (in release builds the Writer is not flushed before the end, so the buffer boundary falls inside the tensor);
    coordinates around 255/256 and the extent, overshoots e, e+1, 2^32 + valid, usize::MAX in every dimension"""
    E = [16, 255, 256, 257, 1000, 65536] if tier == "quick" else [16, 255, 256, 257, 1000, 4096, 65535, 65536, 65537]
    shp = []
    for e in E:
        shp += [[e], [2, e], [e, 2]]
        if e <= 1000 or tier != "quick":
            shp.append([3, e, 2])
    shp.append([300, 300])
    if tier != "quick":
        shp += [[1000000], [100, 100, 100], [7, 11, 13, 17, 2]]
    cases = []
    for q, dims in enumerate(shp):
        n = prod(dims)
        ty = "i64"
        data = [tag(k, 100000) for k in range(n)]
        if dims in ([2, 65536], [256, 2], [3, 257, 2]):
            ty, data = "u8", [(k * 7 + k // 256) % 256 for k in range(n)]
        elif dims in ([257], [2, 1000]):
            ty = "str"
        elif dims in ([65536], [255, 2]):
            ty = "i32"
        ops = [["it"]] if n > 8192 else [["dm"], ["it"]]
        for j, d in enumerate(dims):
            good = sorted({x for x in (0, 1, 254, 255, 256, 257, d // 2, d - 2, d - 1) if 0 <= x < d})
            bad = [d, d + 1, 1 << 32, (1 << 32) + rng.below(d), (1 << 32) + d - 1, (1 << 63) + rng.below(d), BIG - 1, BIG]
            for x in good + bad:
                idx = [rng.choice([0, e - 1, rng.below(e)]) for e in dims]
                idx[j] = x
                ops += [["gi", idx], ["g", idx]]
        ops += [["w"], ["rt"]]
        if n <= 100000:
            ops.append(["db"])
        cases.append({"dims": dims, "ty": ty, "ctor": "V", "data": data, "ops": ops})
    # the wide element types: tokens of 19..40 bytes in texts longer than the 64 KiB buffers, so that tokens straddle the
    # refill boundary of the Reader and the flush boundary of the Writer at many different offsets inside the token
    wide = [("u128", [1800]), ("i128", [40, 50]), ("u64", [2, 1800]), ("usize", [3400]), ("isize", [3, 40, 30]), ("u32", [7000]),
            ("i16", [2, 6000])]
    if tier != "quick":
        wide += [("u128", [3, 50, 40]), ("i128", [5000]), ("i128", [2, 2500]), ("u64", [100, 70]), ("i8", [20000]), ("u16", [300, 50])]
    for ty, dims in wide:
        n = prod(dims)
        pool = [v for v in magnitudes(ty) if abs(v) >= min(10 ** 18, INT[ty][1] // 100)]
        data = [pool[(k * 7 + k // len(pool)) % len(pool)] for k in range(n)]
        text = render(dims, data, ty)
        ops = [["it"], ["w"], ["rt"], ["rd", dims, text], ["rd", dims, "  " + " ".join(str(x) for x in data) + "\n"], ["db"]]
        for _ in range(12):
            idx = [rng.below(d) for d in dims]
            ops += [["gi", idx], ["g", idx]]
        cases.append({"dims": dims, "ty": ty, "ctor": "V", "data": data, "ops": ops})
    # String elements longer than a buffer (Writable for String writes them in chunks, Readable collects them over refills)
    longs = [int("7" * 65536), int("1" + "0" * 70000), 5, int("9" * 65537), int("123456789" * 15000), 0]
    cases.append({"dims": [3, 2], "ty": "str", "ctor": "V", "data": longs,
                  "ops": [["it"], ["w"], ["rt"], ["g", [1, 1]], ["rd", [2, 3], render([2, 3], longs)], ["g", [2, 0]]]})
    # character grids longer than the Reader's buffer: unbroken rows, blank-separated, CRLF
    for dims in ([300, 300], [3, 200, 150]) if tier == "quick" else ([300, 300], [3, 200, 150], [70000], [2, 40000], [1000, 100]):
        n = prod(dims)
        data = [ord(ALPH[(k * 11 + k // 300) % len(ALPH)]) for k in range(n)]
        odo = render(dims, data, "char")
        grid = odo.replace(" ", "")
        ops = [["it"], ["rd", dims, grid], ["rd", dims, odo], ["rd", dims, grid.replace("\n", "\r\n") + "\r\n"],
               ["rd", dims, "".join(chr(x) for x in data)], ["rd", list(reversed(dims)), grid + "\n"]]
        for _ in range(12):
            idx = [rng.below(d) for d in dims]
            ops += [["gi", idx], ["g", idx]]
        cases.append({"dims": dims, "ty": "char", "ctor": "V", "data": data, "ops": ops})
    return cases


def extra(ctx, known):
    """larger shapes than Coq batches can afford, on the executors of BOTH profiles, checked here against row-major
    arithmetic: (a) random shapes with extents up to 12 (every valid index and every single-dimension overflow);
    (b) the boundary family of `boundary_cases`.  A search, never counted as proof."""
    import _driver
    rng = _driver.Rng(ctx.seed + 19).fork("C19-big")
    nshapes, cap = (10, 4000) if ctx.tier == "quick" else (120, 20000)
    shapes_, seen = [], set()
    while len(shapes_) < nshapes:
        D = rng.range(1, 4)
        s = [rng.range(1, 12) for _ in range(D)]
        if prod(s) <= cap and max(s) > 5 and tuple(s) not in seen:
            seen.add(tuple(s))
            shapes_.append(s)
    cases = []
    for dims in shapes_:
        n = prod(dims)
        data = [tag(k, 1000) for k in range(n)]
        ops = [["it"]]
        for idx in all_idx(dims):
            ops.append(["gi", idx])
            ops.append(["g", idx])
        for q, idx in enumerate(oor_idx(rng, dims) + oor_multi(rng, dims)):
            ops.append(["g" if q % 2 else "gi", idx])
        ops += [["w"], ["rt"], ["db"]]
        cases.append({"dims": dims, "ctor": "V", "data": data, "ops": ops})
    nrandom = len(cases)
    cases += boundary_cases(rng, ctx.tier)
    viol, nops, longest = [], 0, 0
    lines = [harness_line(c) for c in cases]
    exps = [py_expect(c) for c in cases]
    for profile in PROFILES:
        if viol:
            break
        outs = _driver.run_impl(ctx.bins[profile], lines)
        for c, o, exp in zip(cases, outs, exps):
            ok, res = parse_obs(c, o)
            nops += len(exp)
            bad = None if ok else "constructor panicked"
            if ok:
                for op, r, e in zip(c["ops"], res, exp):
                    if op[0] == "w" and r is not None:
                        longest = max(longest, len(r))
                    if r != e:
                        bad = "op %s: implementation %s, row-major arithmetic %s" % (op[:2], str(r)[:80], str(e)[:80])
                        small = dict(c, ops=[op])
                        break
            if bad:
                viol.append({"name": "big-%s-%s" % ("x".join(map(str, c["dims"])), profile), "kind": "counterexample",
                             "payload": {"what": "implementation-only search on a larger shape (%s build, Tensor<%s, %d>): %s"
                                                 % (profile, c.get("ty", "i64"), len(c["dims"]), bad),
                                         "case": small if ok else dict(c, ops=[])}})
                break
    return {"coverage": {"big_shapes": nrandom, "boundary_shapes": len(cases) - nrandom, "big_shape_operations": nops,
                         "big_shapes_max_elements": max(prod(c["dims"]) for c in cases),
                         "longest_written_text_bytes": longest, "profiles": list(PROFILES)},
            "violations": viol}


MANIFEST = {
    "text": "Theorems (Coq, no axioms) about an executable rank-generic Gallina model of rlib_tensor (shape = list N of any "
            "length, including rank 0): get_index equals the row-major formula on valid multi-indices and is a bijection onto "
            "[0, prod dims); any coordinate >= its extent panics in get_index/Index/IndexMut whatever the flattened offset; no "
            "usize overflow inside get_index for constructed tensors; constructors reject zero extents and length mismatch and "
            "otherwise keep shape and data; the checked element count of the code (checked_mul fold) equals the unbounded "
            "product whenever that is representable and rejects every shape whose product exceeds usize::MAX, whatever the "
            "data; Index agrees with iter(); IndexMut writes exactly one element; iter_mut visits the storage in order; the "
            "Writable (and Debug) odometer terminates and emits the elements in storage order with ' ' / D-pos-1 newlines "
            "(brackets) as separators; read(dims, write(t)) = t; == holds iff shape and data agree; model_check = spec_check "
            "for every case. The model is tied to the code on every run, in the debug and the release profile: the executor "
            "instantiates Tensor<E, D> for E = i64, i32, u8, String and D = 0..6, 8 (and for every other element type rlib_io "
            "can read or write - the remaining fixed-width integers, i128 / u128, isize / usize, char, tuples - at D = 0..3, "
            "with every decimal boundary magnitude of each integer type as an element of a written, re-read and compared "
            "tensor, and character grids in the usual input layouts) from /repo and runs constructor / "
            "get_index / Index / IndexMut / iter / iter_mut / write / read / == / != / Debug histories over all small shapes "
            "(every valid index, every index out of range in exactly one dimension, sampled indices out of range in several), "
            "shapes whose element count overflows usize (also with zero-sized elements and data of length up to usize::MAX), "
            "elements whose equality is not reflexive (NaN; == on the same object, a clone and a rebuilt tensor must agree with "
            "the element-wise comparison), and tensors obtained by clone / clone_from / read; Coq proves model = "
            "implementation and implementation |= row-major specification on every case; a python-oracle search adds extents "
            "up to 65537 and texts beyond the 64 KiB io buffers (also with 128-bit elements and character grids).",
    "level_note": "Trusted: Coq kernel + vm_compute; the Rust executor (incl. its differential consistency checks), the Python "
                  "case printer and lexer; usize = 64 bit; element rendering/parsing abstracted to tokens (C08/C09); theorems "
                  "are about the model, the correspondence is exhaustive only for the listed small shapes.",
    "technique": "Coq proof over Gallina model + vm_compute correspondence batches against the Rust crate",
}
