"""C19 — Tensor<T, D>: row-major bijection, per-dimension bounds checks, constructors, IO round trip, equality."""
import itertools

ID = "C19"
CRATE = "c19"
COQ_DIR = "C19"
COQ_DEPS = []
PROFILES = ["debug", "release"]
CORR_IMPORT = "From RlibV Require Import C19.Model C19.Spec C19.Corr."
CASE_TYPE = "case"
AUDIT_IMPORT = ("From Coq Require Import List NArith ZArith Bool.\nImport ListNotations.\n"
                "From RlibV Require Import C19.Model C19.Spec C19.Corr C19.Properties.\nLocal Open Scope N_scope.")
EXPLAIN = "explain"
AXIOM_ALLOW = []
THEOREMS = [
    ('c19_get_index_rowmajor',
     'forall ds idx : list N, valid ds idx -> get_index ds idx = Some (offset ds idx) /\\ offset ds idx < product ds'),
    ('c19_get_index_injective',
     'forall ds idx1 idx2 : list N, valid ds idx1 -> valid ds idx2 -> get_index ds idx1 = get_index ds idx2 -> idx1 = idx2'),
    ('c19_get_index_surjective',
     "forall (ds : list N) (k : N), k < product ds -> exists idx, valid ds idx /\\ get_index ds idx = Some k /\\ forall idx', valid ds idx' -> get_index ds idx' = Some k -> idx' = idx"),
    ('c19_out_of_range_rejected',
     'forall (A : Type) (t : tensor A) (idx : list N) (n : nat) (i d : N), nth_error idx n = Some i -> nth_error (dims t) n = Some d -> d <= i -> get_index (dims t) idx = None /\\ index t idx = None /\\ forall v, index_mut t idx v = None'),
    ('c19_get_index_total',
     'forall ds idx : list N, get_index ds idx = if validb ds idx then Some (offset ds idx) else None'),
    ('c19_get_index_no_overflow',
     'forall (W : N) (ds idx : list N), positive ds -> product ds <= W -> get_index_chk W ds idx = get_index ds idx'),
    ('c19_constructors_reject',
     'forall (A : Type) (ds : list N) (l : list A) (v : A), (In 0 ds -> from_vec ds l = None /\\ from_slice ds l = None /\\ new ds v = None) /\\ (N.of_nat (length l) <> product ds -> from_vec ds l = None /\\ from_slice ds l = None) /\\ (~ In 0 ds -> N.of_nat (length l) = product ds -> from_vec ds l = Some (mk ds l) /\\ from_slice ds l = Some (mk ds l) /\\ wf (mk ds l)) /\\ (~ In 0 ds -> new ds v = Some (mk ds (repeat v (N.to_nat (product ds)))) /\\ wf (mk ds (repeat v (N.to_nat (product ds)))))'),
    ('c19_index_iter',
     'forall (A : Type) (t : tensor A) (idx : list N), wf t -> valid (dims t) idx -> index t idx = nth_error (iter t) (N.to_nat (offset (dims t) idx)) /\\ index t idx <> None'),
    ('c19_set_get',
     "forall (A : Type) (t : tensor A) (idx : list N) (v : A), wf t -> valid (dims t) idx -> exists t', index_mut t idx v = Some t' /\\ wf t' /\\ dims t' = dims t /\\ index t' idx = Some v /\\ forall idx', valid (dims t) idx' -> idx' <> idx -> index t' idx' = index t idx'"),
    ('c19_write_order',
     'forall (A : Type) (t : tensor A), wf t -> write t = Some (render (dims t) (data t)) /\\ elems (render (dims t) (data t)) = data t'),
    ('c19_write_nested',
     'forall (A : Type) (t : tensor A), wf t -> write t = Some (nested (dims t) (data t))'),
    ('c19_debug_order',
     'forall (A : Type) (t : tensor A), wf t -> debug t = Some (debug_spec (dims t) (data t))'),
    ('c19_wraps_char',
     'forall ds : list N, product ds <> 0 -> forall (m : N) (c : nat), (c <= length ds)%nat -> ((c <= wraps ds m)%nat <-> (product (skipn (length ds - c) ds) | m))'),
    ('c19_odometer_step',
     'forall ds idx : list N, valid ds idx -> match rposition (fun p => negb (fst p + 1 =? snd p)) (combine idx ds) with | None => offset ds idx + 1 = product ds | Some pos => (pos < length ds)%nat /\\ valid ds (bump idx pos) /\\ offset ds (bump idx pos) = offset ds idx + 1 /\\ offset ds idx + 1 < product ds /\\ wraps ds (offset ds idx + 1) = (length ds - pos - 1)%nat end'),
    ('c19_write_read_roundtrip',
     'forall (A : Type) (t : tensor A), wf t -> exists out, write t = Some out /\\ read (dims t) out = Some t'),
    ('c19_eq_iff',
     'forall (A : Type) (e : A -> A -> bool), (forall x y, e x y = true <-> x = y) -> forall t u : tensor A, eq e t u = true <-> dims t = dims u /\\ data t = data u'),
    ('c19_model_check_spec_check',
     'forall c : case, model_check c = spec_check c'),
]
RULE = ("every shape of rank 1..4 with extents <= K (K=3 quick, 5 thorough; quick adds sampled shapes with extents <= 6) "
        "plus rank 0: three histories per shape on Tensor<i64, D> with distinct offset-tagged elements — (from_vec) "
        "get_index and Index at EVERY valid multi-index and at every index that is out of range in exactly one dimension "
        "(coordinate = extent for all combinations of the other coordinates, whether or not the flattened offset stays "
        "inside the storage; sampled larger overshoots up to usize::MAX), iter, write, write+read round trip, Debug string; (new) "
        "IndexMut at every index in shuffled order interleaved with out-of-range writes, then iter / Index / write; "
        "(from_slice) == against equal, one-element-different, permuted-shape/equal-data and reshaped tensors; "
        "constructor rejections (a zero extent at each position with matching and non-matching length, length +-1), "
        "Tensor::read with other shapes of the same size, too few tokens, extra whitespace, zero extents. "
        "non-trivial = rank >= 2 with at least one indexed access, or a constructor rejection")
TRUSTED = ["executor harness/crates/c19 (Tensor<i64, D> for D = 0..4: constructors, get_index, Index/IndexMut, iter, dims, "
           "Writer over a Vec<u8>, Reader + Tensor::read, ==, format!(\"{:?}\"); vh::guarded per operation)",
           "checks/c19.py (case generator, lexer of the written bytes into element / ' ' / '\\n' tokens and of the Debug string into element / '[' / ']' / ',' "
           "tokens, Coq term printer)",
           "extra(): python row-major oracle for the larger-shape search (a search, not part of the proof)"]
ASSUMPTIONS = ["extents, indices and offsets are unbounded N in the model (no usize overflow: shapes are small; an index "
               "coordinate may be as large as usize::MAX because the bound assert precedes the multiplication)",
               "elements are abstract tokens in the written text: decimal rendering/parsing of integers is C08/C09's subject; "
               "a token is a maximal run of non-whitespace bytes",
               "debug profile: reading past the end of input panics through the reader's debug_assert",
               "Vec/array layout and ownership are modelled as functional lists"]
SHARD = 300
SEARCH_MAX = 4000
BIG = 18446744073709551615


def for_profile(c, profile):
    """Reading a tensor from a text with too few tokens is outside the property (the reader's end-of-input test is a
    debug_assert: debug builds panic, release builds read garbage); those reads are kept for the debug profile only."""
    if profile != "release":
        return c
    def short(o):
        need = 1
        for d in o[1]:
            need *= d
        return len(o[2].split()) < need
    return dict(c, ops=[o for o in c["ops"] if not (o[0] == "rd" and short(o))])


# ----------------------------------------------------------------------------- line protocol
def enc_text(s):
    return "." if s == "" else s.replace(" ", "_").replace("\n", "/")


def harness_line(c):
    dims = c["dims"]
    t = [str(len(dims))] + [str(d) for d in dims]
    t.append(c["ctor"])
    if c["ctor"] == "N":
        t.append(str(c.get("newv", 0)))
    t.append(str(len(c["data"])))
    t += [str(x) for x in c["data"]]
    for o in c["ops"]:
        k = o[0]
        t.append(k)
        if k in ("gi", "g"):
            t += [str(i) for i in o[1]]
        elif k == "s":
            t += [str(i) for i in o[1]] + [str(o[2])]
        elif k == "rd":
            t += [str(i) for i in o[1]] + [enc_text(o[2])]
        elif k == "eq":
            t += [str(i) for i in o[1]] + [str(len(o[2]))] + [str(x) for x in o[2]]
    return " ".join(t)


def parse_obs(c, obs):
    """-> (ctor_ok, [per-op observation]) ; observation None = panic"""
    t = obs.split()
    if t[0] == "P":
        return False, []
    D = len(c["dims"])
    at = 1
    res = []

    def take_list():
        nonlocal at
        n = int(t[at])
        v = [int(x) for x in t[at + 1:at + 1 + n]]
        at += 1 + n
        return v

    for o in c["ops"]:
        k = o[0]
        if k == "dm":
            res.append([int(x) for x in t[at:at + D]])
            at += D
        elif k == "it":
            res.append(take_list())
        elif t[at] == "P":
            res.append(None)
            at += 1
        elif k in ("gi", "g"):
            res.append(int(t[at]))
            at += 1
        elif k == "s":
            res.append(True)
            at += 1
        elif k in ("w", "db"):
            res.append(t[at])
            at += 1
        elif k == "rt":
            flag = t[at]
            at += 1
            res.append((flag, take_list()))
        elif k == "rd":
            d = [int(x) for x in t[at:at + D]]
            at += D
            res.append((d, take_list()))
        elif k == "eq":
            res.append(t[at])
            at += 1
        else:
            raise ValueError(k)
    assert at == len(t), (c, obs)
    return True, res


# ----------------------------------------------------------------------------- Coq printing
def zt(v):
    return "(%d)%%Z" % v


def nl(xs):
    return "[" + ";".join(str(x) for x in xs) + "]%N"


def zl(xs):
    return "[" + ";".join(zt(x) for x in xs) + "]"


def lex(text):
    """encoded written text -> Coq token list"""
    if text == ".":
        return "[]"
    out, cur = [], ""
    for ch in text:
        if ch in "_/":
            if cur:
                out.append(cur)
                cur = ""
            out.append("Sp" if ch == "_" else "Nl")
        else:
            cur += ch
    if cur:
        out.append(cur)
    toks = []
    for x in out:
        if x in ("Sp", "Nl"):
            toks.append(x)
        else:
            try:
                toks.append("E %s" % zt(int(x)))
            except ValueError:
                toks.append("E (-999999999999999)%Z")
    return "[" + ";".join(toks) + "]"


def lex_debug(text):
    """Debug string (spaces removed) -> Coq dtok list"""
    toks, cur = [], ""
    for ch in text + "\0":
        if ch in "[],\0":
            if cur:
                try:
                    toks.append("DE %s" % zt(int(cur)))
                except ValueError:
                    toks.append("DE (-999999999999999)%Z")
                cur = ""
            if ch != "\0":
                toks.append({"[": "DOpen", "]": "DClose", ",": "DComma"}[ch])
        else:
            cur += ch
    return "[" + ";".join(toks) + "]"


def coq_term(c, obs, profile):
    ok, res = parse_obs(c, obs)
    ctor = {"V": "FromVec", "S": "FromSlice"}.get(c["ctor"]) or "(New %s)" % zt(c.get("newv", 0))
    ops = []
    if ok:
        for o, r in zip(c["ops"], res):
            k = o[0]
            if k == "gi":
                ops.append("OGetIndex %s %s" % (nl(o[1]), "None" if r is None else "(Some %d%%N)" % r))
            elif k == "g":
                ops.append("OGet %s %s" % (nl(o[1]), "None" if r is None else "(Some %s)" % zt(r)))
            elif k == "s":
                ops.append("OSet %s %s %s" % (nl(o[1]), zt(o[2]), "false" if r is None else "true"))
            elif k == "it":
                ops.append("OIter %s" % zl(r))
            elif k == "dm":
                ops.append("ODims %s" % nl(r))
            elif k == "w":
                ops.append("OWrite %s" % ("None" if r is None else "(Some %s)" % lex(r)))
            elif k == "db":
                ops.append("ODebug %s" % ("None" if r is None else "(Some %s)" % lex_debug(r)))
            elif k == "rt":
                ops.append("ORoundtrip %s" % ("None" if r is None else
                                              "(Some (%s, %s))" % ("true" if r[0] == "1" else "false", zl(r[1]))))
            elif k == "rd":
                ops.append("ORead %s %s %s" % (nl(o[1]), lex(enc_text(o[2])),
                                               "None" if r is None else "(Some (%s, %s))" % (nl(r[0]), zl(r[1]))))
            elif k == "eq":
                # "X": == was not symmetric; printed as a value no specification accepts
                rr = "None" if r is None else ("(Some true)" if r == "1" else "(Some false)" if r == "0" else "None")
                if r == "X":
                    rr = "None" if constructible(o[1], len(o[2])) else "(Some true)"
                ops.append("OEq %s %s %s" % (nl(o[1]), zl(o[2]), rr))
    return "(Case %s %s %s %s [%s])" % (nl(c["dims"]), ctor, zl(c["data"]), "true" if ok else "false", ";\n ".join(ops))


# ----------------------------------------------------------------------------- evidence helpers
def prod(ds):
    p = 1
    for d in ds:
        p *= d
    return p


def constructible(ds, n):
    return all(d > 0 for d in ds) and prod(ds) == n


def nontrivial(c, obs):
    if obs.split()[0] == "P":
        return True
    return len(c["dims"]) >= 2 and any(o[0] in ("gi", "g", "s") for o in c["ops"])


def classify(c, obs):
    kinds = sorted({o[0] for o in c["ops"]})
    main = "eq" if "eq" in kinds else "read" if "rd" in kinds else "index_mut" if "s" in kinds else \
        "index" if ("g" in kinds or "gi" in kinds) else "other"
    return "rank%d/%s/%s/%s" % (len(c["dims"]), c["ctor"], "panic" if obs.split()[0] == "P" else "ok", main)


# ----------------------------------------------------------------------------- generator
def tag(k, salt):
    v = salt + k
    return -v if k % 3 == 2 else v


def all_idx(dims):
    return [list(i) for i in itertools.product(*[range(d) for d in dims])]


def oor_idx(rng, dims):
    """indices out of range in exactly one dimension: coordinate = extent (all combinations of the others)"""
    out = []
    for j in range(len(dims)):
        others = [range(d) if i != j else [None] for i, d in enumerate(dims)]
        for combo in itertools.product(*others):
            idx = list(combo)
            idx[j] = dims[j]
            if rng.chance(1, 6):
                idx[j] = rng.choice([dims[j] + 1, 2 * dims[j], dims[j] * 7 + 3, BIG, BIG - 1, 1 << 32])
            out.append(idx)
    return out


def render(dims, data):
    """independent python rendering (only used to produce input text for `rd` ops)"""
    D = len(dims)
    out = []
    for k, x in enumerate(data):
        out.append(str(x))
        if k + 1 < len(data):
            c, p = 0, 1
            for d in reversed(dims):
                p *= d
                if (k + 1) % p == 0:
                    c += 1
                else:
                    break
            out.append(" " if c == 0 else "\n" * c)
    return "".join(out)


def shape_cases(rng, dims):
    D, n = len(dims), prod(dims)
    salt = rng.range(1, 50) * 100
    data = [tag(k, salt) for k in range(n)]
    valid = all_idx(dims)
    oor = oor_idx(rng, dims)
    cases = []
    # 1. from_vec: read everything
    ops = [["dm"], ["it"]]
    for idx in valid:
        ops.append(["gi", idx])
        ops.append(["g", idx])
    for q, idx in enumerate(oor):
        ops.append(["g" if q % 2 == 0 else "gi", idx])
    ops += [["w"], ["rt"], ["db"]]
    cases.append({"dims": dims, "ctor": "V", "data": data, "ops": ops})
    # 2. new + IndexMut everywhere (shuffled), out-of-range writes in between
    order = list(valid)
    rng.shuffle(order)
    ops = []
    o2 = list(oor)
    rng.shuffle(o2)
    fill = rng.range(-9, 9)
    for q, idx in enumerate(order):
        off = sum(i * prod(dims[j + 1:]) for j, i in enumerate(idx))
        ops.append(["s", idx, tag(off, salt + 7)])
        if o2 and q % 2 == 0:
            ops.append(["s", o2.pop(), 777777])
        if q == len(order) // 2:
            ops.append(["it"])
    ops.append(["it"])
    for idx in valid:
        ops.append(["g", idx])
    ops += [["w"], ["rt"], ["db"]]
    cases.append({"dims": dims, "ctor": "N", "newv": fill, "data": [], "ops": ops})
    # 3. from_slice: equality
    ops = [["eq", dims, list(data)]]
    if n > 0:
        k = rng.below(n)
        d2 = list(data)
        d2[k] += 1
        ops.append(["eq", dims, d2])
    perms = sorted({p for p in itertools.permutations(dims)})
    rng.shuffle(perms)
    for p in perms[:6]:
        ops.append(["eq", list(p), list(data)])
    if D >= 1:
        flat = [1] * (D - 1) + [n]
        ops.append(["eq", flat, list(data)])
        ops.append(["eq", list(reversed(flat)), list(data)])
        ops.append(["eq", dims, data[:-1]])
        ops.append(["eq", dims, data + [5]])
    if valid:
        idx = rng.choice(valid)
        ops.append(["s", idx, 424242])
        ops.append(["eq", dims, list(data)])
        off = sum(i * prod(dims[j + 1:]) for j, i in enumerate(idx))
        d3 = list(data)
        d3[off] = 424242
        ops.append(["eq", dims, d3])
        if D >= 2:
            ops.append(["eq", list(reversed(dims)), d3])
    ops.append(["it"])
    cases.append({"dims": dims, "ctor": "S", "data": data, "ops": ops})
    return cases


def reject_cases(rng, dims):
    """constructor rejections around a shape"""
    D, n = len(dims), prod(dims)
    data = [tag(k, 300) for k in range(n)]
    cases = []
    for ctor in ("V", "S"):
        cases.append({"dims": dims, "ctor": ctor, "data": data[:-1], "ops": [["it"]]})
        cases.append({"dims": dims, "ctor": ctor, "data": data + [9], "ops": [["it"]]})
    for j in range(D):
        z = list(dims)
        z[j] = 0
        for ctor in ("V", "S"):
            cases.append({"dims": z, "ctor": ctor, "data": [], "ops": [["it"], ["dm"]]})            # length matches the (zero) product
            cases.append({"dims": z, "ctor": ctor, "data": data, "ops": [["it"]]})
        cases.append({"dims": z, "ctor": "N", "newv": 4, "data": [], "ops": [["it"], ["w"]]})
        cases.append({"dims": dims, "ctor": "V", "data": data,
                      "ops": [["rd", z, render(dims, data)], ["eq", z, []], ["eq", z, data]]})
    return cases


def read_cases(rng, dims):
    D, n = len(dims), prod(dims)
    data = [tag(k, 500) for k in range(n)]
    text = render(dims, data)
    ops = [["rd", dims, text]]
    perms = sorted({p for p in itertools.permutations(dims)})
    rng.shuffle(perms)
    for p in perms[:3]:
        ops.append(["rd", list(p), text])                      # same size, other shape
    ops.append(["rd", dims, render(dims, data)[: max(0, len(text) - len(str(data[-1])) - 1)]])   # last token missing
    ops.append(["rd", dims, "\n \n" + text.replace(" ", "  ") + " \n"])                          # more whitespace
    ops.append(["rd", dims, text + " 99 98"])                                                      # more tokens
    ops.append(["rd", dims, " ".join(str(x) for x in data)])                                       # one line
    ops.append(["rd", dims, ""])
    if D >= 1:
        bigger = list(dims)
        bigger[rng.below(D)] += 1
        ops.append(["rd", bigger, text])                                                           # too few tokens
    return [{"dims": dims, "ctor": "V", "data": data, "ops": ops}]


def shapes(maxrank, ext):
    out = []
    for D in range(1, maxrank + 1):
        out += [list(s) for s in itertools.product(range(1, ext + 1), repeat=D)]
    return out


def generate(rng, tier):
    cases = []
    # rank 0: a single element
    for x in (7, -3, 0):
        cases.append({"dims": [], "ctor": "V", "data": [x],
                      "ops": [["dm"], ["gi", []], ["g", []], ["it"], ["w"], ["rt"], ["db"], ["s", [], x + 1], ["g", []], ["w"], ["rt"], ["db"],
                              ["eq", [], [x + 1]], ["eq", [], [x]], ["eq", [], []], ["rd", [], "5"], ["rd", [], ""],
                              ["rd", [], "/_-12_4"]]})
    cases.append({"dims": [], "ctor": "N", "newv": 11, "data": [], "ops": [["it"], ["g", []], ["w"], ["rt"]]})
    cases.append({"dims": [], "ctor": "S", "data": [], "ops": [["it"]]})
    cases.append({"dims": [], "ctor": "V", "data": [1, 2], "ops": [["it"]]})
    ext = 3 if tier == "quick" else 5
    base = shapes(4, ext)
    for dims in base:
        cases += shape_cases(rng, dims)
    if tier == "quick":
        seen = {tuple(s) for s in base}
        extra = []
        while len(extra) < 24:
            D = rng.range(1, 4)
            s = [rng.range(1, 6 if D < 4 else 5) for _ in range(D)]
            if tuple(s) not in seen and prod(s) <= 150:
                seen.add(tuple(s))
                extra.append(s)
        for dims in extra:
            cases += shape_cases(rng, dims)
        rej = [s for s in base if rng.chance(1, 3)] + extra[:8]
    else:
        rej = [s for s in base if max(s) <= 3 or rng.chance(1, 4)]
    for dims in rej:
        cases += reject_cases(rng, dims)
        cases += read_cases(rng, dims)
    return cases


# ----------------------------------------------------------------------------- shrinking
def shrink(c):
    out = []
    ops = c["ops"]
    n = len(ops)
    if n > 1:
        out.append(dict(c, ops=ops[: n // 2]))
        out.append(dict(c, ops=ops[n // 2:]))
        # keep the writes (they define the state), drop reads
        sets = [o for o in ops if o[0] == "s"]
        if sets and len(sets) < n:
            out.append(dict(c, ops=sets + [ops[-1]]))
        step = max(1, n // 30)
        for i in range(0, n, step):
            out.append(dict(c, ops=ops[:i] + ops[i + step:]))
    if n == 1 and ops[0][0] in ("w", "rt", "it") and c["ctor"] == "N":
        pass
    return out


# ----------------------------------------------------------------------------- implementation-only search
def py_expect(c):
    """python oracle (row-major arithmetic) for a from_vec history of gi / g / it / w / rt ops on a valid tensor"""
    dims, l = c["dims"], list(c["data"])
    exp = []
    for o in c["ops"]:
        k = o[0]
        if k in ("gi", "g"):
            idx = o[1]
            if all(i < d for i, d in zip(idx, dims)):
                off = sum(i * prod(dims[j + 1:]) for j, i in enumerate(idx))
                exp.append(off if k == "gi" else l[off])
            else:
                exp.append(None)
        elif k == "it":
            exp.append(l)
        elif k == "w":
            exp.append(enc_text(render(dims, l)))
        elif k == "rt":
            exp.append(("1", l))
        else:
            raise ValueError(k)
    return exp


def extra(ctx, known):
    """larger shapes than Coq batches can afford (extents up to 12, up to 20 000 elements): every valid index and every
    single-dimension overflow, checked here against row-major arithmetic.  A search, never counted as proof."""
    import _driver
    rng = _driver.Rng(ctx.seed + 19).fork("C19-big")
    nshapes, cap = (12, 4000) if ctx.tier == "quick" else (120, 20000)
    shapes_, seen = [], set()
    while len(shapes_) < nshapes:
        D = rng.range(1, 4)
        s = [rng.range(1, 12) for _ in range(D)]
        if prod(s) <= cap and max(s) > 5 and tuple(s) not in seen:
            seen.add(tuple(s))
            shapes_.append(s)
    cases = []
    for dims in shapes_:
        n = prod(dims)
        data = [tag(k, 1000) for k in range(n)]
        ops = [["it"]]
        for idx in all_idx(dims):
            ops.append(["gi", idx])
            ops.append(["g", idx])
        for q, idx in enumerate(oor_idx(rng, dims)):
            ops.append(["g" if q % 2 else "gi", idx])
        ops += [["w"], ["rt"]]
        cases.append({"dims": dims, "ctor": "V", "data": data, "ops": ops})
    outs = _driver.run_impl(ctx.bins["debug"], [harness_line(c) for c in cases])
    viol, nops = [], 0
    for c, o in zip(cases, outs):
        ok, res = parse_obs(c, o)
        exp = py_expect(c)
        nops += len(exp)
        bad = None if ok else "constructor panicked"
        if ok:
            for op, r, e in zip(c["ops"], res, exp):
                if r != e:
                    bad = "op %s: implementation %s, row-major arithmetic %s" % (op[:2], str(r)[:80], str(e)[:80])
                    small = {"dims": c["dims"], "ctor": "V", "data": c["data"], "ops": [op]}
                    break
        if bad:
            viol.append({"name": "big-%s" % "x".join(map(str, c["dims"])), "kind": "counterexample",
                         "payload": {"what": "implementation-only search on a larger shape: " + bad,
                                     "case": small if ok else dict(c, ops=[])}})
            break
    return {"coverage": {"big_shapes": len(cases), "big_shape_operations": nops,
                         "big_shapes_max_elements": max(prod(c["dims"]) for c in cases)},
            "violations": viol}


MANIFEST = {
    "text": "Theorems (Coq, no axioms) about an executable rank-generic Gallina model of rlib_tensor (shape = list N of any "
            "length, including rank 0): get_index equals the row-major formula on valid multi-indices and is a bijection onto "
            "[0, prod dims); any coordinate >= its extent panics in get_index/Index/IndexMut whatever the flattened offset; no "
            "usize overflow inside get_index for constructed tensors; constructors reject zero extents and length mismatch and "
            "otherwise keep shape and data; Index agrees with iter(); IndexMut writes exactly one element; the Writable (and "
            "Debug) odometer terminates and emits the elements in storage order with ' ' / D-pos-1 newlines (brackets) as "
            "separators; read(dims, write(t)) = t; == holds iff shape and data agree; model_check = spec_check for every case. "
            "The model is tied to the code on every "
            "run: the executor instantiates Tensor<i64, D> for D = 0..4 from /repo and runs constructor / get_index / Index / "
            "IndexMut / iter / write / read / == histories over all small shapes (every valid index and every index out of "
            "range in exactly one dimension); Coq proves model = implementation and implementation |= row-major "
            "specification on every case.",
    "level_note": "Trusted: Coq kernel + vm_compute; the Rust executor, the Python case printer and lexer; usize modelled as "
                  "unbounded N; element rendering/parsing abstracted to tokens (C08/C09); theorems are about the model, the "
                  "correspondence is exhaustive only for the listed small shapes.",
    "technique": "Coq proof over Gallina model + vm_compute correspondence batches against the Rust crate",
}
