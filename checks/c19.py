"""C19 — Tensor<T, D>: row-major bijection, per-dimension bounds checks, constructors (incl. element counts beyond usize),
iter_mut, IO round trip, equality; element types i64 / i32 / u8 / String, ranks 0..6 and 8, both build profiles."""
import itertools

ID = "C19"
CRATE = "c19"
# sibling sources whose edits enlarge the quick correspondence (fingerprints in source_pins.json)
SOURCES = ["rlib/io/src/reader.rs", "rlib/io/src/writer.rs"]
COQ_DIR = "C19"
COQ_DEPS = []
PROFILES = ["debug", "release"]
CORR_IMPORT = "From RlibV Require Import C19.Model C19.Spec C19.Corr."
CASE_TYPE = "case"
AUDIT_IMPORT = ("From Coq Require Import List NArith ZArith Bool.\nImport ListNotations.\n"
                "From RlibV Require Import C19.Model C19.Spec C19.Corr C19.Properties.\nLocal Open Scope N_scope.")
EXPLAIN = "explain"
AXIOM_ALLOW = []
THEOREMS = [
    ('c19_get_index_rowmajor',
     'forall ds idx : list N, valid ds idx -> get_index ds idx = Some (offset ds idx) /\\ offset ds idx < product ds'),
    ('c19_get_index_injective',
     'forall ds idx1 idx2 : list N, valid ds idx1 -> valid ds idx2 -> get_index ds idx1 = get_index ds idx2 -> idx1 = idx2'),
    ('c19_get_index_surjective',
     "forall (ds : list N) (k : N), k < product ds -> exists idx, valid ds idx /\\ get_index ds idx = Some k /\\ forall idx', valid ds idx' -> get_index ds idx' = Some k -> idx' = idx"),
    ('c19_out_of_range_rejected',
     'forall (A : Type) (t : tensor A) (idx : list N) (n : nat) (i d : N), nth_error idx n = Some i -> nth_error (dims t) n = Some d -> d <= i -> get_index (dims t) idx = None /\\ index t idx = None /\\ forall v, index_mut t idx v = None'),
    ('c19_get_index_total',
     'forall ds idx : list N, get_index ds idx = if validb ds idx then Some (offset ds idx) else None'),
    ('c19_get_index_no_overflow',
     'forall (W : N) (ds idx : list N), positive ds -> product ds <= W -> get_index_chk W ds idx = get_index ds idx'),
    ('c19_constructors_reject',
     'forall (A : Type) (ds : list N) (l : list A) (v : A), (In 0 ds -> from_vec ds l = None /\\ from_slice ds l = None /\\ new ds v = None) /\\ (N.of_nat (length l) <> product ds -> from_vec ds l = None /\\ from_slice ds l = None) /\\ (~ In 0 ds -> N.of_nat (length l) = product ds -> from_vec ds l = Some (mk ds l) /\\ from_slice ds l = Some (mk ds l) /\\ wf (mk ds l)) /\\ (~ In 0 ds -> new ds v = Some (mk ds (repeat v (N.to_nat (product ds)))) /\\ wf (mk ds (repeat v (N.to_nat (product ds)))))'),
    ('c19_checked_volume',
     'forall (A : Type) (W : N) (ds : list N) (l : list A) (v : A) (toks : list (tok A)), 0 < W -> (N.of_nat (length l) <= W -> from_vec_chk W ds l = from_vec ds l /\\ from_slice_chk W ds l = from_slice ds l) /\\ (product ds <= W -> new_chk W ds v = new ds v /\\ read_chk W ds toks = read ds toks) /\\ (W < product ds -> from_vec_chk W ds l = None /\\ from_slice_chk W ds l = None /\\ new_chk W ds v = None /\\ read_chk W ds toks = None)'),
    ('c19_iter_mut',
     'forall (A : Type) (t : tensor A) (vs : list A), wf t -> wf (iter_mut_assign t vs) /\\ dims (iter_mut_assign t vs) = dims t /\\ iter (iter_mut_assign t vs) = firstn (length (iter t)) vs ++ skipn (length vs) (iter t) /\\ (length vs = length (iter t) -> iter (iter_mut_assign t vs) = vs)'),
    ('c19_index_iter',
     'forall (A : Type) (t : tensor A) (idx : list N), wf t -> valid (dims t) idx -> index t idx = nth_error (iter t) (N.to_nat (offset (dims t) idx)) /\\ index t idx <> None'),
    ('c19_set_get',
     "forall (A : Type) (t : tensor A) (idx : list N) (v : A), wf t -> valid (dims t) idx -> exists t', index_mut t idx v = Some t' /\\ wf t' /\\ dims t' = dims t /\\ index t' idx = Some v /\\ forall idx', valid (dims t) idx' -> idx' <> idx -> index t' idx' = index t idx'"),
    ('c19_write_order',
     'forall (A : Type) (t : tensor A), wf t -> write t = Some (render (dims t) (data t)) /\\ elems (render (dims t) (data t)) = data t'),
    ('c19_write_nested',
     'forall (A : Type) (t : tensor A), wf t -> write t = Some (nested (dims t) (data t))'),
    ('c19_debug_order',
     'forall (A : Type) (t : tensor A), wf t -> debug t = Some (debug_spec (dims t) (data t))'),
    ('c19_wraps_char',
     'forall ds : list N, product ds <> 0 -> forall (m : N) (c : nat), (c <= length ds)%nat -> ((c <= wraps ds m)%nat <-> (product (skipn (length ds - c) ds) | m))'),
    ('c19_odometer_step',
     'forall ds idx : list N, valid ds idx -> match rposition (fun p => negb (fst p + 1 =? snd p)) (combine idx ds) with | None => offset ds idx + 1 = product ds | Some pos => (pos < length ds)%nat /\\ valid ds (bump idx pos) /\\ offset ds (bump idx pos) = offset ds idx + 1 /\\ offset ds idx + 1 < product ds /\\ wraps ds (offset ds idx + 1) = (length ds - pos - 1)%nat end'),
    ('c19_write_read_roundtrip',
     'forall (A : Type) (t : tensor A), wf t -> exists out, write t = Some out /\\ read (dims t) out = Some t'),
    ('c19_eq_iff',
     'forall (A : Type) (e : A -> A -> bool), (forall x y, e x y = true <-> x = y) -> forall t u : tensor A, eq e t u = true <-> dims t = dims u /\\ data t = data u'),
    ('c19_model_check_spec_check',
     'forall c : case, model_check c = spec_check c'),
]
RULE = ("every shape of rank 1..4 with extents <= K (K=3 quick, 5 thorough; quick adds sampled shapes with extents <= 6), "
        "rank 0, and ranks 5, 6, 8 (extents <= 2, a few 3; sampled in quick, all 2^5 + 2^6 in thorough): three histories per "
        "shape on Tensor<i64, D> with distinct offset-tagged elements, the read block (dims, iter, get_index and Index at "
        "EVERY valid multi-index, write, write+read round trip, Debug string) running on tensors of all three constructors - "
        "(from_vec) plus get_index AND Index at every index that is out of range in exactly one dimension (coordinate = "
        "extent for all combinations of the other coordinates, whether or not the flattened offset stays inside the storage; "
        "sampled larger overshoots: 2^32 + valid coordinate, 2^63 + valid, up to usize::MAX) and at sampled indices out of "
        "range in two or more dimensions (all coordinates = extent; every pair of dimensions with the others 0 / random); "
        "(new) IndexMut at every index in shuffled order interleaved with writes at ALL those out-of-range indices; "
        "(from_slice) == and != against equal, one-element-different, permuted-shape/equal-data, reshaped, and constructible "
        "partners of another element count, then iter_mut() assigning as many / fewer / more values than elements; "
        "constructor rejections (a zero extent at each position, two and all extents zero, length n-1, n+1, 2n, 0), "
        "Tensor::read with other shapes of the same size, too few tokens, extra whitespace, zero extents; "
        "element count beyond usize (both profiles): shapes of rank 2..5 whose product of extents is >= 2^64 and wraps to 0, to "
        "a small number or to a large one - from_vec / from_slice with data of the wrapped length (and 0, 1, wrapped+-1), new "
        "and Tensor::read when the wrapped count is small, == partners of such a shape: all rejected; "
        "the same histories on Tensor<i32>, Tensor<u8> (values mod 256) and Tensor<String> for a spread sample of shapes. "
        "non-trivial = rank >= 2 with at least one indexed access, or a constructor rejection")
TRUSTED = ["executor harness/crates/c19 (Tensor<E, D> for E = i64, i32, u8, String and D = 0..6, 8: constructors, get_index, "
           "Index/IndexMut, iter, iter_mut, dims, Writer over a Vec<u8>, Reader + Tensor::read, ==, !=, format!(\"{:?}\"); "
           "vh::guarded per operation; its internal consistency checks, whose failure is printed as an observation no model "
           "predicts: clone / clone_from target / Tensor::read result / the tensor itself compared observer by observer with "
           "from_vec(dims, iter); independence of copies; count/nth/last/size_hint of iter(); one Writer carrying a scalar and "
           "the tensor twice; one Reader delivering the tensor twice and a scalar)",
           "checks/c19.py (case generator, lexer of the written bytes into element / ' ' / '\\n' tokens and of the Debug string into element / '[' / ']' / ',' "
           "tokens, Coq term printer)",
           "extra(): python row-major oracle for the larger-shape and boundary search on the executors of both profiles "
           "(extents 255..65537, texts beyond the 64 KiB Reader/Writer buffers; a search, not part of the proof)"]
ASSUMPTIONS = ["extents, indices and offsets are unbounded N in the model; usize enters in two places: the element count of "
               "the constructors is the checked fold of the code (usize::MAX = 2^64 - 1, c19_checked_volume), and an index "
               "coordinate may be as large as usize::MAX because the bound assert precedes the multiplication "
               "(c19_get_index_no_overflow)",
               "elements are abstract tokens in the written text: decimal rendering/parsing of integers is C08/C09's subject; "
               "a token is a maximal run of non-whitespace bytes",
               "debug profile: reading past the end of input panics through the reader's debug_assert",
               "allocation failure is not modelled: `new` / `read` are only run on shapes whose element count is small or "
               "beyond usize (rejected before any allocation)",
               "Vec/array layout and ownership are modelled as functional lists"]
SHARD = 300
SEARCH_MAX = 4000
BIG = 18446744073709551615


def for_profile(c, profile):
    """Reading a tensor from a text with too few tokens is outside the property (the reader's end-of-input test is a
    debug_assert: debug builds panic, release builds read garbage); those reads are kept for the debug profile only."""
    if profile != "release":
        return c
    def short(o):
        need = 1
        for d in o[1]:
            need *= d
        # a shape whose element count does not fit into usize panics in both profiles before anything is read
        return need <= BIG and len(o[2].split()) < need
    return dict(c, ops=[o for o in c["ops"] if not (o[0] == "rd" and short(o))])


# ----------------------------------------------------------------------------- line protocol
def enc_text(s):
    return "." if s == "" else s.replace(" ", "_").replace("\n", "/")


def harness_line(c):
    dims = c["dims"]
    ty = c.get("ty", "i64")
    t = [str(len(dims)) + ("" if ty == "i64" else ":" + ty)] + [str(d) for d in dims]
    t.append(c["ctor"])
    if c["ctor"] == "N":
        t.append(str(c.get("newv", 0)))
    t.append(str(len(c["data"])))
    t += [str(x) for x in c["data"]]
    for o in c["ops"]:
        k = o[0]
        t.append(k)
        if k in ("gi", "g"):
            t += [str(i) for i in o[1]]
        elif k == "s":
            t += [str(i) for i in o[1]] + [str(o[2])]
        elif k == "rd":
            t += [str(i) for i in o[1]] + [enc_text(o[2])]
        elif k == "eq":
            t += [str(i) for i in o[1]] + [str(len(o[2]))] + [str(x) for x in o[2]]
        elif k == "im":
            t += [str(len(o[1]))] + [str(x) for x in o[1]]
    return " ".join(t)


def parse_obs(c, obs):
    """-> (ctor_ok, [per-op observation]) ; observation None = panic"""
    t = obs.split()
    if t[0] == "P":
        return False, []
    D = len(c["dims"])
    at = 1
    res = []

    def take_list():
        nonlocal at
        n = int(t[at])
        v = [int(x) for x in t[at + 1:at + 1 + n]]
        at += 1 + n
        return v

    for o in c["ops"]:
        k = o[0]
        if k == "dm":
            res.append([int(x) for x in t[at:at + D]])
            at += D
        elif k == "it":
            res.append(take_list())
        elif k == "im":
            res.append(int(t[at]))
            at += 1
        elif t[at] == "P":
            res.append(None)
            at += 1
        elif k in ("gi", "g"):
            res.append(int(t[at]))
            at += 1
        elif k == "s":
            res.append(True)
            at += 1
        elif k in ("w", "db"):
            res.append(t[at])
            at += 1
        elif k == "rt":
            flag = t[at]
            at += 1
            res.append((flag, take_list()))
        elif k == "rd":
            d = [int(x) for x in t[at:at + D]]
            at += D
            res.append((d, take_list()))
        elif k == "eq":
            res.append(t[at])
            at += 1
        else:
            raise ValueError(k)
    assert at == len(t), (c, obs)
    return True, res


# ----------------------------------------------------------------------------- Coq printing
def zt(v):
    return "(%d)%%Z" % v


def nl(xs):
    return "[" + ";".join(str(x) for x in xs) + "]%N"


def zl(xs):
    return "[" + ";".join(zt(x) for x in xs) + "]"


def lex(text):
    """encoded written text -> Coq token list"""
    if text == ".":
        return "[]"
    out, cur = [], ""
    for ch in text:
        if ch in "_/":
            if cur:
                out.append(cur)
                cur = ""
            out.append("Sp" if ch == "_" else "Nl")
        else:
            cur += ch
    if cur:
        out.append(cur)
    toks = []
    for x in out:
        if x in ("Sp", "Nl"):
            toks.append(x)
        else:
            try:
                toks.append("E %s" % zt(int(x)))
            except ValueError:
                toks.append("E (-999999999999999)%Z")
    return "[" + ";".join(toks) + "]"


def lex_debug(text):
    """Debug string (spaces removed) -> Coq dtok list"""
    toks, cur = [], ""
    for ch in text + "\0":
        if ch in "[],\0":
            if cur:
                try:
                    toks.append("DE %s" % zt(int(cur)))
                except ValueError:
                    toks.append("DE (-999999999999999)%Z")
                cur = ""
            if ch != "\0":
                toks.append({"[": "DOpen", "]": "DClose", ",": "DComma"}[ch])
        else:
            cur += ch
    return "[" + ";".join(toks) + "]"


def coq_term(c, obs, profile):
    ok, res = parse_obs(c, obs)
    ctor = {"V": "FromVec", "S": "FromSlice"}.get(c["ctor"]) or "(New %s)" % zt(c.get("newv", 0))
    ops = []
    if ok:
        for o, r in zip(c["ops"], res):
            k = o[0]
            if k == "gi":
                ops.append("OGetIndex %s %s" % (nl(o[1]), "None" if r is None else "(Some %d%%N)" % r))
            elif k == "g":
                ops.append("OGet %s %s" % (nl(o[1]), "None" if r is None else "(Some %s)" % zt(r)))
            elif k == "s":
                ops.append("OSet %s %s %s" % (nl(o[1]), zt(o[2]), "false" if r is None else "true"))
            elif k == "it":
                ops.append("OIter %s" % zl(r))
            elif k == "dm":
                ops.append("ODims %s" % nl(r))
            elif k == "im":
                ops.append("OIterMut %s %d%%N" % (zl(o[1]), r))
            elif k == "w":
                ops.append("OWrite %s" % ("None" if r is None else "(Some %s)" % lex(r)))
            elif k == "db":
                ops.append("ODebug %s" % ("None" if r is None else "(Some %s)" % lex_debug(r)))
            elif k == "rt":
                ops.append("ORoundtrip %s" % ("None" if r is None else
                                              "(Some (%s, %s))" % ("true" if r[0] == "1" else "false", zl(r[1]))))
            elif k == "rd":
                ops.append("ORead %s %s %s" % (nl(o[1]), lex(enc_text(o[2])),
                                               "None" if r is None else "(Some (%s, %s))" % (nl(r[0]), zl(r[1]))))
            elif k == "eq":
                # "X": == was not symmetric; printed as a value no specification accepts
                rr = "None" if r is None else ("(Some true)" if r == "1" else "(Some false)" if r == "0" else "None")
                if r == "X":
                    rr = "None" if constructible(o[1], len(o[2])) else "(Some true)"
                ops.append("OEq %s %s %s" % (nl(o[1]), zl(o[2]), rr))
    return "(Case %s %s %s %s [%s])" % (nl(c["dims"]), ctor, zl(c["data"]), "true" if ok else "false", ";\n ".join(ops))


# ----------------------------------------------------------------------------- evidence helpers
def prod(ds):
    p = 1
    for d in ds:
        p *= d
    return p


def constructible(ds, n):
    return all(d > 0 for d in ds) and prod(ds) <= BIG and prod(ds) == n


def nontrivial(c, obs):
    if obs.split()[0] == "P":
        return True
    return len(c["dims"]) >= 2 and any(o[0] in ("gi", "g", "s") for o in c["ops"])


def classify(c, obs):
    kinds = sorted({o[0] for o in c["ops"]})
    main = "eq" if "eq" in kinds else "read" if "rd" in kinds else "index_mut" if "s" in kinds else \
        "index" if ("g" in kinds or "gi" in kinds) else "other"
    if "im" in kinds:
        main += "+iter_mut"
    if prod(c["dims"]) > BIG or any(o[0] in ("rd", "eq") and prod(o[1]) > BIG for o in c["ops"]):
        main += "+count-overflow"
    ty = c.get("ty", "i64")
    return "rank%d/%s%s/%s/%s" % (len(c["dims"]), c["ctor"], "" if ty == "i64" else ":" + ty,
                                  "panic" if obs.split()[0] == "P" else "ok", main)


# ----------------------------------------------------------------------------- generator
def tag(k, salt):
    v = salt + k
    return -v if k % 3 == 2 else v


def all_idx(dims):
    return [list(i) for i in itertools.product(*[range(d) for d in dims])]


def oor_idx(rng, dims):
    """indices out of range in exactly one dimension: coordinate = extent (all combinations of the others)"""
    out = []
    for j in range(len(dims)):
        others = [range(d) if i != j else [None] for i, d in enumerate(dims)]
        for combo in itertools.product(*others):
            idx = list(combo)
            idx[j] = dims[j]
            if rng.chance(1, 6):
                # (1 << 32) + v with v a valid coordinate: a coordinate narrowed to 32 bits would be accepted
                idx[j] = rng.choice([dims[j] + 1, 2 * dims[j], dims[j] * 7 + 3, BIG, BIG - 1, 1 << 32,
                                     (1 << 32) + rng.below(dims[j]), (1 << 63) + rng.below(dims[j])])
            out.append(idx)
    return out


def oor_multi(rng, dims):
    """indices out of range in two or more dimensions at once: every coordinate = its extent; for every pair of
    dimensions both coordinates = extent with the others 0 (smallest flattened offset, inside the storage whenever
    that is possible) and with the others random; one random subset of size >= 2"""
    D = len(dims)
    if D < 2:
        return []
    out = [list(dims)]
    for j in range(D):
        for k in range(j + 1, D):
            a = [0] * D
            a[j], a[k] = dims[j], dims[k]
            out.append(a)
            b = [rng.below(d) for d in dims]
            b[j], b[k] = dims[j] + rng.below(2), dims[k] + rng.choice([0, 0, 1, BIG - dims[k]])
            out.append(b)
    if D >= 3:
        c = [rng.below(d) for d in dims]
        for j in range(D):
            if rng.chance(2, 3):
                c[j] = dims[j]
        if sum(1 for x, d in zip(c, dims) if x >= d) >= 2:
            out.append(c)
    seen, res = set(), []
    for x in out:
        if tuple(x) not in seen:
            seen.add(tuple(x))
            res.append(x)
    return res


def render(dims, data):
    """independent python rendering (only used to produce input text for `rd` ops)"""
    D = len(dims)
    out = []
    for k, x in enumerate(data):
        out.append(str(x))
        if k + 1 < len(data):
            c, p = 0, 1
            for d in reversed(dims):
                p *= d
                if (k + 1) % p == 0:
                    c += 1
                else:
                    break
            out.append(" " if c == 0 else "\n" * c)
    return "".join(out)


def offset_of(dims, idx):
    return sum(i * prod(dims[j + 1:]) for j, i in enumerate(idx))


def shape_cases(rng, dims):
    """three histories on one shape; every out-of-range index (one dimension: exhaustive; several: sampled) is given to
    get_index, Index AND IndexMut; the read block (dm it gi g w rt db) runs on tensors of all three constructors"""
    D, n = len(dims), prod(dims)
    salt = rng.range(1, 50) * 100
    data = [tag(k, salt) for k in range(n)]
    valid = all_idx(dims)
    oor = oor_idx(rng, dims) + oor_multi(rng, dims)
    cases = []
    # 1. from_vec: read everything
    ops = [["dm"], ["it"]]
    for idx in valid:
        ops.append(["gi", idx])
        ops.append(["g", idx])
    for idx in oor:
        ops.append(["g", idx])
        ops.append(["gi", idx])
    ops += [["w"], ["rt"], ["db"]]
    cases.append({"dims": dims, "ctor": "V", "data": data, "ops": ops})
    # 2. new + IndexMut everywhere (shuffled), out-of-range writes in between, then the read block
    order = list(valid)
    rng.shuffle(order)
    ops = [["dm"]]
    o2 = list(oor)
    rng.shuffle(o2)
    fill = rng.range(-9, 9)
    per = max(1, -(-len(o2) // max(1, len(order))))       # all out-of-range writes are spent
    for q, idx in enumerate(order):
        ops.append(["s", idx, tag(offset_of(dims, idx), salt + 7)])
        for _ in range(per):
            if o2:
                ops.append(["s", o2.pop(), 777777])
        if q == len(order) // 2:
            ops.append(["it"])
    for idx in o2:
        ops.append(["s", idx, 777777])
    ops.append(["it"])
    for idx in valid:
        ops.append(["g", idx])
        ops.append(["gi", idx])
    ops += [["w"], ["rt"], ["db"]]
    cases.append({"dims": dims, "ctor": "N", "newv": fill, "data": [], "ops": ops})
    # 3. from_slice: equality, then iter_mut, then the read block
    ops = [["eq", dims, list(data)]]
    if n > 0:
        k = rng.below(n)
        d2 = list(data)
        d2[k] += 1
        ops.append(["eq", dims, d2])
    perms = sorted({p for p in itertools.permutations(dims)})
    rng.shuffle(perms)
    for p in perms[:6]:
        ops.append(["eq", list(p), list(data)])
    if D >= 1:
        flat = [1] * (D - 1) + [n]
        ops.append(["eq", flat, list(data)])
        ops.append(["eq", list(reversed(flat)), list(data)])
        ops.append(["eq", dims, data[:-1]])
        ops.append(["eq", dims, data + [5]])
        # a constructible partner with ANOTHER element count whose data starts with / is a prefix of this tensor's data
        j = rng.below(D)
        grown = list(dims)
        grown[j] += 1
        ops.append(["eq", grown, (data + data)[:prod(grown)]])
        if dims[j] > 1:
            cut = list(dims)
            cut[j] -= 1
            ops.append(["eq", cut, data[:prod(cut)]])
    if valid:
        idx = rng.choice(valid)
        ops.append(["s", idx, 424242])
        ops.append(["eq", dims, list(data)])
        off = offset_of(dims, idx)
        d3 = list(data)
        d3[off] = 424242
        ops.append(["eq", dims, d3])
        if D >= 2:
            ops.append(["eq", list(reversed(dims)), d3])
    ops.append(["it"])
    # iter_mut: as many values as elements, then fewer, then more
    vs = [tag(k, salt + 31) for k in range(n)]
    ops += [["im", vs], ["it"], ["eq", dims, vs]]
    for idx in valid:
        ops.append(["g", idx])
    ops += [["im", [5] * (n // 2)], ["it"], ["im", [6 + k for k in range(n + 2)]], ["dm"], ["it"]]
    for q, idx in enumerate(valid):
        ops.append(["gi" if q % 2 else "g", idx])
    for q, idx in enumerate(oor):
        ops.append(["g" if q % 2 else "gi", idx])
    ops += [["w"], ["rt"], ["db"]]
    cases.append({"dims": dims, "ctor": "S", "data": data, "ops": ops})
    return cases


def reject_cases(rng, dims):
    """constructor rejections around a shape"""
    D, n = len(dims), prod(dims)
    data = [tag(k, 300) for k in range(n)]
    cases = []
    for ctor in ("V", "S"):
        cases.append({"dims": dims, "ctor": ctor, "data": data[:-1], "ops": [["it"]]})
        cases.append({"dims": dims, "ctor": ctor, "data": data + [9], "ops": [["it"]]})
        cases.append({"dims": dims, "ctor": ctor, "data": data + data, "ops": [["it"]]})
        if n > 1:
            cases.append({"dims": dims, "ctor": ctor, "data": [], "ops": [["it"]]})
    for j in range(D):
        z = list(dims)
        z[j] = 0
        for ctor in ("V", "S"):
            cases.append({"dims": z, "ctor": ctor, "data": [], "ops": [["it"], ["dm"]]})            # length matches the (zero) product
            cases.append({"dims": z, "ctor": ctor, "data": data, "ops": [["it"]]})
        cases.append({"dims": z, "ctor": "N", "newv": 4, "data": [], "ops": [["it"], ["w"]]})
        cases.append({"dims": dims, "ctor": "V", "data": data,
                      "ops": [["rd", z, render(dims, data)], ["eq", z, []], ["eq", z, data]]})
    if D >= 2:
        # two zero extents at once, all extents zero
        j = rng.below(D - 1)
        z2 = list(dims)
        z2[j] = z2[j + 1] = 0
        for z in (z2, [0] * D):
            for ctor in ("V", "S", "N"):
                cases.append({"dims": z, "ctor": ctor, "newv": 1, "data": [], "ops": [["it"]]})
            cases.append({"dims": dims, "ctor": "S", "data": data, "ops": [["rd", z, ""], ["eq", z, []]]})
    return cases


def read_cases(rng, dims):
    D, n = len(dims), prod(dims)
    data = [tag(k, 500) for k in range(n)]
    text = render(dims, data)
    ops = [["rd", dims, text]]
    perms = sorted({p for p in itertools.permutations(dims)})
    rng.shuffle(perms)
    for p in perms[:3]:
        ops.append(["rd", list(p), text])                      # same size, other shape
    ops.append(["rd", dims, render(dims, data)[: max(0, len(text) - len(str(data[-1])) - 1)]])   # last token missing
    ops.append(["rd", dims, "\n \n" + text.replace(" ", "  ") + " \n"])                          # more whitespace
    ops.append(["rd", dims, text + " 99 98"])                                                      # more tokens
    ops.append(["rd", dims, " ".join(str(x) for x in data)])                                       # one line
    ops.append(["rd", dims, ""])
    if D >= 1:
        bigger = list(dims)
        bigger[rng.below(D)] += 1
        ops.append(["rd", bigger, text])                                                           # too few tokens
    return [{"dims": dims, "ctor": "V", "data": data, "ops": ops}]


# ----------------------------------------------------------------------------- element count beyond usize
def inv64(b):
    return pow(b, -1, 1 << 64)


def overflow_shapes(rng, tier):
    """shapes with positive extents whose element count does not fit into usize, with the value the wrapped
    (mod 2^64) product would have: 0, a small number (a data vector of that length exists), or large"""
    M = 1 << 64
    out = [[1 << 32, 1 << 32], [(1 << 63) + 1, 2], [2, (1 << 63) + 1], [1 << 63, 2], [2, 1 << 63],
           [1 << 32, 1 << 32, 1], [1, 1 << 32, 1 << 32], [1 << 63, 2, 1], [1 << 16, 1 << 16, 1 << 16, 1 << 16],
           [1 << 22, 1 << 21, 1 << 21], [BIG, 2], [BIG, BIG], [3, BIG], [1 << 32, (1 << 32) + 1], [1 << 21] * 4,
           [(1 << 62) + 1, 4], [2, 2, (1 << 62) + 1], [2, (1 << 62) + 1, 2, 1]]
    # a·b ≡ r (mod 2^64) with b odd: a = r·b^-1; the true product is far beyond 2^64
    rounds = 6 if tier == "quick" else 60
    for _ in range(rounds):
        r = rng.range(1, 12)
        b = rng.choice([3, 5, 7, 9, 11, 255, 257, 65537, (1 << 32) + 1, (1 << 32) - 1])
        a = (r * inv64(b)) % M
        if a * b >= M:
            s = rng.choice([[a, b], [b, a], [1, a, b], [a, 1, b], [a, b, 1, 1]])
            out.append(s)
        # three factors: 2^k · odd · 2^(64-k+e) wraps to 0
        k = rng.range(1, 40)
        out.append(rng.choice([[1 << k, rng.range(1, 9) * 2 + 1, 1 << (64 - k)], [1 << (64 - k), 1 << k, rng.range(1, 5)]]))
    res = []
    for sh in out:
        assert all(0 < d <= BIG for d in sh) and prod(sh) > BIG, sh
        if len(sh) in (2, 3, 4, 5) and sh not in res:
            res.append(sh)
    return res


def overflow_cases(rng, tier):
    """from_vec / from_slice with data whose length is the wrapped count (and 0, 1, wrapped +- 1); `new` and
    Tensor::read only when the wrapped count is small (a build that wraps would allocate that many elements, never
    more); == against such a partner.  Expected everywhere: rejected.  No operation follows the constructor."""
    M = 1 << 64
    cases = []
    for sh in overflow_shapes(rng, tier):
        w = prod(sh) % M
        lens = {0, 1}
        if w <= 40:
            lens |= {w, w + 1, max(0, w - 1)}
        for ln in sorted(lens):
            data = [7 + k for k in range(ln)]
            for ctor in ("V", "S"):
                cases.append({"dims": sh, "ctor": ctor, "data": data, "ops": []})
        if w <= 40:
            cases.append({"dims": sh, "ctor": "N", "newv": 3, "data": [], "ops": []})
            small = [1] * (len(sh) - 1) + [max(1, w)]
            d0 = [7 + k for k in range(max(1, w))]
            text = " ".join(str(x) for x in d0[:w])
            cases.append({"dims": small, "ctor": "V", "data": d0,
                          "ops": [["rd", sh, text], ["rd", sh, ""], ["rd", sh, text + " 1 2 3"],
                                  ["eq", sh, d0[:w]], ["eq", sh, []], ["eq", sh, d0], ["it"]]})
        else:
            cases.append({"dims": [1] * len(sh), "ctor": "S", "data": [4], "ops": [["eq", sh, []], ["eq", sh, [4]], ["it"]]})
    return cases


# ----------------------------------------------------------------------------- other element types
def remap_case(c, ty):
    """the same history on Tensor<ty, D>: values folded into the type's range (u8: mod 256), in the data, the written
    values, the comparison partners and the integer tokens of the texts"""
    if ty == "u8":
        f = lambda v: v % 256
    else:
        f = lambda v: v
    import re
    ops = []
    for o in c["ops"]:
        k = o[0]
        if k == "s":
            ops.append([k, o[1], f(o[2])])
        elif k == "eq":
            ops.append([k, o[1], [f(x) for x in o[2]]])
        elif k == "im":
            ops.append([k, [f(x) for x in o[1]]])
        elif k == "rd":
            ops.append([k, o[1], re.sub(r"-?\d+", lambda m: str(f(int(m.group(0)))), o[2])])
        else:
            ops.append(o)
    d = dict(c, ty=ty, data=[f(x) for x in c["data"]], ops=ops)
    if "newv" in c:
        d["newv"] = f(c["newv"])
    return d


def shapes(maxrank, ext):
    out = []
    for D in range(1, maxrank + 1):
        out += [list(s) for s in itertools.product(range(1, ext + 1), repeat=D)]
    return out


def high_rank_shapes(rng, tier):
    """ranks 5, 6 and 8 (the executor instantiates them; the model is rank-generic)"""
    r5 = [list(s) for s in itertools.product((1, 2), repeat=5)]
    r6 = [list(s) for s in itertools.product((1, 2), repeat=6)]
    rng.shuffle(r5)
    rng.shuffle(r6)
    def r8():
        while True:
            s = [rng.choice([1, 1, 2]) for _ in range(8)]
            if 2 <= prod(s) <= 32:
                return s
    if tier == "quick":
        out = [[2] * 5, [2] * 6] + r5[:3] + r6[:2] + [r8(), [1, 3, 1, 2, 2], [2, 1, 2, 1, 1, 3]]
    else:
        out = r5 + r6 + [r8() for _ in range(10)]
        for _ in range(16):
            D = rng.choice([5, 5, 6])
            s = [rng.range(1, 3) for _ in range(D)]
            if prod(s) <= 200:
                out.append(s)
    res = []
    for s in out:
        if s not in res:
            res.append(s)
    return res


def generate(rng, tier):
    cases = []
    # rank 0: a single element
    for x in (7, -3, 0):
        cases.append({"dims": [], "ctor": "V", "data": [x],
                      "ops": [["dm"], ["gi", []], ["g", []], ["it"], ["w"], ["rt"], ["db"], ["s", [], x + 1], ["g", []], ["w"], ["rt"], ["db"],
                              ["eq", [], [x + 1]], ["eq", [], [x]], ["eq", [], []], ["rd", [], "5"], ["rd", [], ""],
                              ["rd", [], "/_-12_4"], ["im", [41]], ["it"], ["im", []], ["im", [42, 43]], ["g", []]]})
    cases.append({"dims": [], "ctor": "N", "newv": 11, "data": [], "ops": [["dm"], ["it"], ["g", []], ["gi", []], ["w"], ["rt"], ["db"]]})
    cases.append({"dims": [], "ctor": "S", "data": [8], "ops": [["dm"], ["it"], ["g", []], ["gi", []], ["w"], ["rt"], ["db"]]})
    cases.append({"dims": [], "ctor": "S", "data": [], "ops": [["it"]]})
    cases.append({"dims": [], "ctor": "V", "data": [1, 2], "ops": [["it"]]})
    for ty in ("i32", "u8", "str"):
        cases.append({"dims": [], "ty": ty, "ctor": "V", "data": [9],
                      "ops": [["dm"], ["gi", []], ["g", []], ["it"], ["w"], ["rt"], ["db"], ["s", [], 10], ["eq", [], [10]],
                              ["rd", [], "5"], ["im", [41]], ["it"]]})
    ext = 3 if tier == "quick" else 5
    base = shapes(4, ext)
    for dims in base:
        cases += shape_cases(rng, dims)
    if tier == "quick":
        seen = {tuple(s) for s in base}
        extra = []
        while len(extra) < 18:
            D = rng.range(1, 4)
            s = [rng.range(1, 6 if D < 4 else 5) for _ in range(D)]
            if tuple(s) not in seen and prod(s) <= 150:
                seen.add(tuple(s))
                extra.append(s)
        for dims in extra:
            cases += shape_cases(rng, dims)
        rej = [s for s in base if rng.chance(1, 5)] + extra[:6]
    else:
        extra = []
        rej = [s for s in base if max(s) <= 3 or rng.chance(1, 4)]
    for dims in rej:
        cases += reject_cases(rng, dims)
        cases += read_cases(rng, dims)
    # ranks above 4
    high = high_rank_shapes(rng, tier)
    for dims in high:
        cases += shape_cases(rng, dims)
    for dims in high[:4 if tier == "quick" else 24]:
        cases += reject_cases(rng, dims)
        cases += read_cases(rng, dims)
    # element count beyond usize
    cases += overflow_cases(rng, tier)
    # other element types: the three histories and the reads of a spread sample of shapes
    pool = [s for s in base + extra if len(s) >= 2 or max(s) >= 3] + high[:2]
    rng.shuffle(pool)
    per_type = 5 if tier == "quick" else 60
    for q, ty in enumerate(("i32", "u8", "str")):
        for dims in pool[q * per_type:(q + 1) * per_type]:
            for c in shape_cases(rng, dims) + read_cases(rng, dims) + reject_cases(rng, dims)[:4]:
                cases.append(remap_case(c, ty))
    return cases


# ----------------------------------------------------------------------------- shrinking
def shrink(c):
    out = []
    ops = c["ops"]
    n = len(ops)
    if n > 1:
        out.append(dict(c, ops=ops[: n // 2]))
        out.append(dict(c, ops=ops[n // 2:]))
        # keep the writes (they define the state), drop reads
        sets = [o for o in ops if o[0] in ("s", "im")]
        if sets and len(sets) < n:
            out.append(dict(c, ops=sets + [ops[-1]]))
        step = max(1, n // 30)
        for i in range(0, n, step):
            out.append(dict(c, ops=ops[:i] + ops[i + step:]))
    if n == 1 and ops[0][0] in ("w", "rt", "it") and c["ctor"] == "N":
        pass
    return out


# ----------------------------------------------------------------------------- implementation-only search
def render_debug(dims, data):
    """independent python rendering of the Debug text (spaces removed)"""
    if not dims:
        return str(data[0])
    step = prod(dims[1:])
    return "[" + ",".join(render_debug(dims[1:], data[k * step:(k + 1) * step]) for k in range(dims[0])) + "]"


def py_expect(c):
    """python oracle (row-major arithmetic) for a from_vec history of dm / gi / g / it / w / rt / db ops on a valid tensor"""
    dims, l = c["dims"], list(c["data"])
    exp = []
    for o in c["ops"]:
        k = o[0]
        if k in ("gi", "g"):
            idx = o[1]
            if all(i < d for i, d in zip(idx, dims)):
                off = offset_of(dims, idx)
                exp.append(off if k == "gi" else l[off])
            else:
                exp.append(None)
        elif k == "it":
            exp.append(l)
        elif k == "dm":
            exp.append(list(dims))
        elif k == "w":
            exp.append(enc_text(render(dims, l)))
        elif k == "db":
            exp.append(render_debug(dims, l))
        elif k == "rt":
            exp.append(("1", l))
        else:
            raise ValueError(k)
    return exp


def boundary_cases(rng, tier):
    """long and wide tensors: extents around 2^8 and 2^16, texts longer than the 64 KiB buffers of Reader and Writer
    (in release builds the Writer is not flushed before the end, so the buffer boundary falls inside the tensor);
    coordinates around 255/256 and the extent, overshoots e, e+1, 2^32 + valid, usize::MAX in every dimension"""
    E = [16, 255, 256, 257, 1000, 65536] if tier == "quick" else [16, 255, 256, 257, 1000, 4096, 65535, 65536, 65537]
    shp = []
    for e in E:
        shp += [[e], [2, e], [e, 2]]
        if e <= 1000 or tier != "quick":
            shp.append([3, e, 2])
    shp.append([300, 300])
    if tier != "quick":
        shp += [[1000000], [100, 100, 100], [7, 11, 13, 17, 2]]
    cases = []
    for q, dims in enumerate(shp):
        n = prod(dims)
        ty = "i64"
        data = [tag(k, 100000) for k in range(n)]
        if dims in ([2, 65536], [256, 2], [3, 257, 2]):
            ty, data = "u8", [(k * 7 + k // 256) % 256 for k in range(n)]
        elif dims in ([257], [2, 1000]):
            ty = "str"
        elif dims in ([65536], [255, 2]):
            ty = "i32"
        ops = [["it"]] if n > 8192 else [["dm"], ["it"]]
        for j, d in enumerate(dims):
            good = sorted({x for x in (0, 1, 254, 255, 256, 257, d // 2, d - 2, d - 1) if 0 <= x < d})
            bad = [d, d + 1, 1 << 32, (1 << 32) + rng.below(d), (1 << 32) + d - 1, (1 << 63) + rng.below(d), BIG - 1, BIG]
            for x in good + bad:
                idx = [rng.choice([0, e - 1, rng.below(e)]) for e in dims]
                idx[j] = x
                ops += [["gi", idx], ["g", idx]]
        ops += [["w"], ["rt"]]
        if n <= 100000:
            ops.append(["db"])
        cases.append({"dims": dims, "ty": ty, "ctor": "V", "data": data, "ops": ops})
    return cases


def extra(ctx, known):
    """larger shapes than Coq batches can afford, on the executors of BOTH profiles, checked here against row-major
    arithmetic: (a) random shapes with extents up to 12 (every valid index and every single-dimension overflow);
    (b) the boundary family of `boundary_cases`.  A search, never counted as proof."""
    import _driver
    rng = _driver.Rng(ctx.seed + 19).fork("C19-big")
    nshapes, cap = (10, 4000) if ctx.tier == "quick" else (120, 20000)
    shapes_, seen = [], set()
    while len(shapes_) < nshapes:
        D = rng.range(1, 4)
        s = [rng.range(1, 12) for _ in range(D)]
        if prod(s) <= cap and max(s) > 5 and tuple(s) not in seen:
            seen.add(tuple(s))
            shapes_.append(s)
    cases = []
    for dims in shapes_:
        n = prod(dims)
        data = [tag(k, 1000) for k in range(n)]
        ops = [["it"]]
        for idx in all_idx(dims):
            ops.append(["gi", idx])
            ops.append(["g", idx])
        for q, idx in enumerate(oor_idx(rng, dims) + oor_multi(rng, dims)):
            ops.append(["g" if q % 2 else "gi", idx])
        ops += [["w"], ["rt"], ["db"]]
        cases.append({"dims": dims, "ctor": "V", "data": data, "ops": ops})
    nrandom = len(cases)
    cases += boundary_cases(rng, ctx.tier)
    viol, nops, longest = [], 0, 0
    lines = [harness_line(c) for c in cases]
    exps = [py_expect(c) for c in cases]
    for profile in PROFILES:
        if viol:
            break
        outs = _driver.run_impl(ctx.bins[profile], lines)
        for c, o, exp in zip(cases, outs, exps):
            ok, res = parse_obs(c, o)
            nops += len(exp)
            bad = None if ok else "constructor panicked"
            if ok:
                for op, r, e in zip(c["ops"], res, exp):
                    if op[0] == "w" and r is not None:
                        longest = max(longest, len(r))
                    if r != e:
                        bad = "op %s: implementation %s, row-major arithmetic %s" % (op[:2], str(r)[:80], str(e)[:80])
                        small = dict(c, ops=[op])
                        break
            if bad:
                viol.append({"name": "big-%s-%s" % ("x".join(map(str, c["dims"])), profile), "kind": "counterexample",
                             "payload": {"what": "implementation-only search on a larger shape (%s build, Tensor<%s, %d>): %s"
                                                 % (profile, c.get("ty", "i64"), len(c["dims"]), bad),
                                         "case": small if ok else dict(c, ops=[])}})
                break
    return {"coverage": {"big_shapes": nrandom, "boundary_shapes": len(cases) - nrandom, "big_shape_operations": nops,
                         "big_shapes_max_elements": max(prod(c["dims"]) for c in cases),
                         "longest_written_text_bytes": longest, "profiles": list(PROFILES)},
            "violations": viol}


MANIFEST = {
    "text": "Theorems (Coq, no axioms) about an executable rank-generic Gallina model of rlib_tensor (shape = list N of any "
            "length, including rank 0): get_index equals the row-major formula on valid multi-indices and is a bijection onto "
            "[0, prod dims); any coordinate >= its extent panics in get_index/Index/IndexMut whatever the flattened offset; no "
            "usize overflow inside get_index for constructed tensors; constructors reject zero extents and length mismatch and "
            "otherwise keep shape and data; the checked element count of the code (checked_mul fold) equals the unbounded "
            "product whenever that is representable and rejects every shape whose product exceeds usize::MAX, whatever the "
            "data; Index agrees with iter(); IndexMut writes exactly one element; iter_mut visits the storage in order; the "
            "Writable (and Debug) odometer terminates and emits the elements in storage order with ' ' / D-pos-1 newlines "
            "(brackets) as separators; read(dims, write(t)) = t; == holds iff shape and data agree; model_check = spec_check "
            "for every case. The model is tied to the code on every run, in the debug and the release profile: the executor "
            "instantiates Tensor<E, D> for E = i64, i32, u8, String and D = 0..6, 8 from /repo and runs constructor / "
            "get_index / Index / IndexMut / iter / iter_mut / write / read / == / != / Debug histories over all small shapes "
            "(every valid index, every index out of range in exactly one dimension, sampled indices out of range in several), "
            "shapes whose element count overflows usize, and tensors obtained by clone / clone_from / read; Coq proves model = "
            "implementation and implementation |= row-major specification on every case; a python-oracle search adds extents "
            "up to 65537 and texts beyond the 64 KiB io buffers.",
    "level_note": "Trusted: Coq kernel + vm_compute; the Rust executor (incl. its differential consistency checks), the Python "
                  "case printer and lexer; usize = 64 bit; element rendering/parsing abstracted to tokens (C08/C09); theorems "
                  "are about the model, the correspondence is exhaustive only for the listed small shapes.",
    "technique": "Coq proof over Gallina model + vm_compute correspondence batches against the Rust crate",
}
