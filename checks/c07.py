"""C07 — Rational<T> arithmetic exact and canonical (rlib/rational, rlib/gcd)."""
ID = "C07"
CRATE = "c07"
COQ_DIR = "C07"
COQ_DEPS = ["C11"]
PROFILES = ["debug", "release"]
CORR_IMPORT = "From RlibV Require Import C11.Model C07.Model C07.Corr.\nOpen Scope Z_scope."
AUDIT_IMPORT = ("From Coq Require Import ZArith QArith Qround List.\n"
                "From RlibV Require Import C11.Model C07.Model C07.Spec C07.Trace C07.Corr C07.Scope C07.Properties.\nOpen Scope Z_scope.")
EXPLAIN = "explain"
AXIOM_ALLOW = []
SHARD = 5000
THEOREMS = [
    ("c07_new_canonical", "forall a b : Z, b <> 0 -> Z.abs b < 2 ^ 130 -> exists r, new a b = Some r /\\ canonical r /\\ (to_Q r == frac a b)%Q"),
    ("c07_new_int", "forall a : Z, canonical (new_int a) /\\ (to_Q (new_int a) == inject_Z a)%Q"),
    ("c07_add_exact", "forall x y : rat, 0 < rb x -> 0 < rb y -> small x -> small y -> exists r, add x y = Some r /\\ canonical r /\\ (to_Q r == to_Q x + to_Q y)%Q"),
    ("c07_sub_exact", "forall x y : rat, 0 < rb x -> 0 < rb y -> small x -> small y -> exists r, sub x y = Some r /\\ canonical r /\\ (to_Q r == to_Q x - to_Q y)%Q"),
    ("c07_mul_exact", "forall x y : rat, 0 < rb x -> 0 < rb y -> small x -> small y -> exists r, mul x y = Some r /\\ canonical r /\\ (to_Q r == to_Q x * to_Q y)%Q"),
    ("c07_div_exact", "forall x y : rat, 0 < rb x -> 0 < rb y -> small x -> small y -> ra y <> 0 -> exists r, div x y = Some r /\\ canonical r /\\ (to_Q r == to_Q x / to_Q y)%Q"),
    ("c07_neg", "forall x : rat, canonical x -> canonical (neg x) /\\ (to_Q (neg x) == - to_Q x)%Q"),
    ("c07_canonical_eq", "forall x y : rat, canonical x -> canonical y -> (to_Q x == to_Q y)%Q -> x = y"),
    ("c07_eq_numeric", "forall x y : rat, canonical x -> canonical y -> (eqb x y = true <-> (to_Q x == to_Q y)%Q)"),
    ("c07_cmp", "forall x y : rat, 0 < rb x -> 0 < rb y -> small x -> small y -> cmp x y = Some (to_Q x ?= to_Q y)%Q"),
    ("c07_cmp_eq", "forall x y : rat, canonical x -> canonical y -> small x -> small y -> (cmp x y = Some Eq <-> x = y)"),
    ("c07_floor", "forall x : rat, 0 < rb x -> floor x = Some (Rat (Qfloor (to_Q x)) 1)"),
    ("c07_ceil", "forall x : rat, 0 < rb x -> ceil x = Some (Rat (Qceiling (to_Q x)) 1)"),
    ("c07_trace_same", "forall (x y : rat) (a b : Z), fst (new_t a b) = new a b /\\ fst (add_t x y) = add x y /\\ fst (sub_t x y) = sub x y /\\ fst (mul_t x y) = mul x y /\\ fst (div_t x y) = div x y /\\ fst (neg_t x) = neg x /\\ fst (cmp_t x y) = cmp x y /\\ fst (floor_t x) = floor x /\\ fst (ceil_t x) = ceil x"),
    ("c07_fits_2_30", "forall (x y : rat) (a b : Z), within (2 ^ 30) x -> within (2 ^ 30) y -> Z.abs a <= 2 ^ 30 -> Z.abs b <= 2 ^ 30 -> all_below (2 ^ 62) (snd (new_t a b)) /\\ all_below (2 ^ 62) (snd (add_t x y)) /\\ all_below (2 ^ 62) (snd (sub_t x y)) /\\ all_below (2 ^ 62) (snd (mul_t x y)) /\\ all_below (2 ^ 62) (snd (div_t x y)) /\\ all_below (2 ^ 62) (snd (neg_t x)) /\\ all_below (2 ^ 62) (snd (cmp_t x y)) /\\ all_below (2 ^ 62) (snd (floor_t x)) /\\ all_below (2 ^ 62) (snd (ceil_t x))"),
    ("c07_fits_i32_2_14", "forall (x y : rat) (a b : Z), within (2 ^ 14) x -> within (2 ^ 14) y -> Z.abs a <= 2 ^ 14 -> Z.abs b <= 2 ^ 14 -> all_below (2 ^ 30) (snd (new_t a b)) /\\ all_below (2 ^ 30) (snd (add_t x y)) /\\ all_below (2 ^ 30) (snd (sub_t x y)) /\\ all_below (2 ^ 30) (snd (mul_t x y)) /\\ all_below (2 ^ 30) (snd (div_t x y)) /\\ all_below (2 ^ 30) (snd (neg_t x)) /\\ all_below (2 ^ 30) (snd (cmp_t x y)) /\\ all_below (2 ^ 30) (snd (floor_t x)) /\\ all_below (2 ^ 30) (snd (ceil_t x))"),
    ("c07_fits_general", "forall (M : Z) (x y : rat) (a b : Z), 1 <= M -> 2 * (M * M) < 2 ^ 130 -> within M x -> within M y -> Z.abs a <= M -> Z.abs b <= M -> let le B := Forall (fun v => Z.abs v <= B) in le M (snd (new_t a b)) /\\ le (2 * (M * M)) (snd (add_t x y)) /\\ le (2 * (M * M)) (snd (sub_t x y)) /\\ le (2 * (M * M)) (snd (mul_t x y)) /\\ le (2 * (M * M)) (snd (div_t x y)) /\\ le M (snd (neg_t x)) /\\ le (2 * (M * M)) (snd (cmp_t x y)) /\\ le (2 * M + 1) (snd (floor_t x)) /\\ le (2 * M + 1) (snd (ceil_t x))"),
    ("c07_model_implies_spec", "forall c : case, in_scope c -> model_check c = true -> spec_check c = true"),
    ("c07_floor_greatest", "forall x : rat, 0 < rb x -> exists n, floor x = Some (Rat n 1) /\\ (inject_Z n <= to_Q x)%Q /\\ (to_Q x < inject_Z (n + 1))%Q"),
    ("c07_ceil_least", "forall x : rat, 0 < rb x -> exists n, ceil x = Some (Rat n 1) /\\ (inject_Z (n - 1) < to_Q x)%Q /\\ (to_Q x <= inject_Z n)%Q"),
]
RULE = ("x = Rational::new(a,b), y = Rational::new(c,d); unary ops (new, neg, floor, ceil, Display) exhaustively for |a|,|b| <= 6 "
        "(both denominator signs), binary ops (add, sub, mul, div, cmp, ==/hash) exhaustively for |.| <= 3 (quick) / 6 (thorough) "
        "with the operator form (by value, by reference, assigning by value, assigning by reference) rotating, sampled pairs from "
        "the |.| <= 6 box, boundary-biased samples up to 2^30 over i64/i128 and 2^14 over i32 (shared factors inside and across "
        "the fractions, equal values in different representations, neighbours, powers of two); new(0,0) and 0/0 only in a tiny "
        "stream where both sides must panic; non-trivial = a reduction or sign move is needed / operands differ / value is not "
        "an integer (floor, ceil)")
TRUSTED = ["executor harness/crates/c07 (builds Rational<i32|i64|i128> (and i8, i16, isize on the small box) through the public API, prints fields / Ordering / "
           "equality of values and of fixed-key SipHash digests / Display text)",
           "checks/c07.py (case generator, Coq term printer)"]
ASSUMPTIONS = ["integers modelled as unbounded Z: the property excludes overflowing magnitudes; sampled operands stay <= 2^30 "
               "(i32: 2^14), where c07_fits_2_30 shows no i64 intermediate reaches 2^62",
               "Rust / on signed integers is Z.quot",
               "hash agreement is observed through std's DefaultHasher with its fixed keys: equal digests are taken as equal hashes"]

TYPES = ["i64", "i32", "i128"]
BINARY = ["add", "sub", "mul", "div", "cmp", "eqhash"]
ARITH = ["add", "sub", "mul", "div"]
UNARY = ["new", "neg", "floor", "ceil", "show"]
FORMS = ["val", "ref", "asgval", "asgref"]
OPK = {"new": "ONew", "newint": "ONewInt", "add": "OAdd", "sub": "OSub", "mul": "OMul", "div": "ODiv", "neg": "ONeg",
       "cmp": "OCmp", "eqhash": "OEqHash", "floor": "OFloor", "ceil": "OCeil", "show": "OShow"}
FORMK = {"val": "FVal", "ref": "FRef", "asgval": "FAsgVal", "asgref": "FAsgRef", "none": "FNone"}
CMPK = {"lt": "Lt", "eq": "Eq", "gt": "Gt"}


def z(v):
    return "(%d)" % v


def harness_line(c):
    return " ".join([c["ty"], c["op"], c["form"]] + [str(v) for v in c["args"]])


def coq_term(c, obs, profile):
    t = obs.split()
    if t[0] == "P":
        o = "RPanic"
    elif t[0] == "R":
        o = "(RRat %s %s)" % (z(int(t[1])), z(int(t[2])))
    elif t[0] == "C":
        o = "(RCmp %s %s)" % (CMPK[t[1]], CMPK[t[2]])
    elif t[0] == "E":
        o = "(REq %s %s)" % ("true" if t[1] == "1" else "false", "true" if t[2] == "1" else "false")
    elif t[0] == "S":
        s = obs[2:]
        if '"' in s or "\\" in s:
            raise RuntimeError("unexpected Display text %r" % s)
        o = '(RStr "%s"%%string)' % s
    else:
        raise RuntimeError("unexpected executor output %r" % obs)
    return "(Case %s %s %s %s)" % (FORMK[c["form"]], OPK[c["op"]], " ".join(z(v) for v in c["args"]), o)


def gcdpy(a, b):
    a, b = abs(a), abs(b)
    while b:
        a, b = b, a % b
    return a


def canon(a, b):
    g = gcdpy(a, b)
    if g == 0:
        return None
    a, b = a // g, b // g   # exact
    return (-a, -b) if b < 0 else (a, b)


def nontrivial(c, obs):
    a, b, cc, d = c["args"]
    op = c["op"]
    if b == 0 or (op in BINARY and d == 0):
        return False
    if op in ("new", "show", "neg"):
        return b < 0 or gcdpy(a, b) > 1
    if op in ("floor", "ceil"):
        return a % b != 0
    if op == "newint":
        return False
    x, y = canon(a, b), canon(cc, d)
    if op in ("cmp", "eqhash"):
        return (a, b) != (cc, d)
    num, den = {"add": (x[0] * y[1] + x[1] * y[0], x[1] * y[1]), "sub": (x[0] * y[1] - x[1] * y[0], x[1] * y[1]),
                "mul": (x[0] * y[0], x[1] * y[1]), "div": (x[0] * y[1], x[1] * y[0])}[op]
    return den < 0 or gcdpy(num, den) > 1


def classify(c, obs):
    return "%s/%s/%s/%s" % (c["op"], c["form"], c["ty"], "panic" if obs == "P" else "value")


def mk(ty, op, form, a, b, c=0, d=1):
    return {"ty": ty, "op": op, "form": form, "args": [a, b, c, d]}


def interesting(rng, bound):
    k = rng.below(10)
    if k == 0:
        v = rng.choice([0, 1, 2, 3, bound, bound - 1, bound // 2, 1 << rng.below(bound.bit_length())])
    elif k <= 2:
        v = rng.range(0, 12)
    elif k == 3:
        v = rng.range(0, 1 << (bound.bit_length() // 2))
    else:
        v = rng.range(0, bound)
    if rng.chance(2, 5):
        v = -v
    return v


def nonzero(v):
    return v if v != 0 else 1


def clampf(v, bound):
    return max(-bound, min(bound, v))


def sample_pair(rng, bound):
    """(a, b, c, d) with b, d != 0 and |.| <= bound, biased to the places where the proofs split cases"""
    a, b = interesting(rng, bound), nonzero(interesting(rng, bound))
    k = rng.below(8)
    if k == 0:        # same value, other representation
        g, h = nonzero(rng.range(-5, 5)), canon(a, b)
        c, d = h[0] * g, h[1] * g
        if abs(c) > bound or abs(d) > bound:
            c, d = a, b
    elif k == 1:      # neighbour
        c, d = a + rng.choice([-1, 1]), b
    elif k == 2:      # shared factor across the two fractions
        g = rng.range(2, 1 << 10)
        sb = bound // g
        a, b = interesting(rng, sb), nonzero(interesting(rng, sb)) * g
        c, d = interesting(rng, sb) * g, nonzero(interesting(rng, sb))
        if rng.chance(1, 2):
            d *= g
            c //= g
    elif k == 3:      # same denominator up to sign
        c, d = interesting(rng, bound), -b if rng.chance(1, 2) else b
    elif k == 4:      # negation / reciprocal
        c, d = (-a, b) if rng.chance(1, 2) else (b, nonzero(a))
    else:
        c, d = interesting(rng, bound), nonzero(interesting(rng, bound))
    a, b, c, d = clampf(a, bound), nonzero(clampf(b, bound)), clampf(c, bound), nonzero(clampf(d, bound))
    return a, b, c, d


def generate(rng, tier):
    cases = []
    quick = tier == "quick"
    # ---- exhaustive boxes on i64
    K1 = 6
    for a in range(-K1, K1 + 1):
        for b in range(-K1, K1 + 1):
            if b == 0:
                continue
            for op in UNARY:
                cases.append(mk("i64", op, "none", a, b))
    for a in range(-K1, K1 + 1):
        cases.append(mk("i64", "newint", "none", a, 1))
    K2 = 3 if quick else 6
    k = 0
    box = [(a, b) for a in range(-K2, K2 + 1) for b in range(-K2, K2 + 1) if b != 0]
    for (a, b) in box:
        for (c, d) in box:
            for op in BINARY:
                if op == "div" and c == 0:
                    continue
                form = FORMS[k % 4] if op in ARITH else "none"
                k += 1
                cases.append(mk("i64", op, form, a, b, c, d))
    if True:    # sampled pairs from the larger box, every instantiation
        big = [(a, b) for a in range(-K1, K1 + 1) for b in range(-K1, K1 + 1) if b != 0]
        for _ in range(2500 if quick else 15000):
            (a, b), (c, d) = rng.choice(big), rng.choice(big)
            op = rng.choice(BINARY)
            if op == "div" and c == 0:
                c = 1
            # the |.| <= 6 box fits every signed width (cross products stay below 2*36): all six instantiations
            cases.append(mk(rng.choice(TYPES + ["i8", "i16", "isize"]), op, rng.choice(FORMS) if op in ARITH else "none", a, b, c, d))
    # ---- zero denominators: only the corner in which gcd(0,0) = 0 makes norm divide by zero (both sides panic)
    for ty in TYPES:
        cases.append(mk(ty, "new", "none", 0, 0))
        cases.append(mk(ty, "div", "val", 0, 1, 0, 5))      # (0/1) / (0/1) -> new(0, 0)
        cases.append(mk(ty, "div", "asgref", 0, -3, 0, 1))
    # ---- boundary-biased samples
    n = 3500 if quick else 60000
    for _ in range(n):
        ty = rng.choice(["i64", "i64", "i128", "i128", "i32"])
        bound = (1 << 14) if ty == "i32" else (1 << 30)
        if rng.chance(1, 6):
            bound = 1 << rng.range(3, bound.bit_length() - 1)
        op = rng.choice(BINARY + BINARY + UNARY)
        if op in BINARY:
            a, b, c, d = sample_pair(rng, bound)
            if op == "div" and c == 0:
                c = rng.choice([1, -1, bound])
            cases.append(mk(ty, op, rng.choice(FORMS) if op in ARITH else "none", a, b, c, d))
        else:
            a, b = interesting(rng, bound), nonzero(interesting(rng, bound))
            if rng.chance(1, 3):
                g = rng.range(2, 1 << 8)
                a, b = clampf(a // g * g, bound), nonzero(clampf(b // g * g, bound))
            if rng.chance(1, 8) and op in ("floor", "ceil"):   # exact multiples and their neighbours
                q = interesting(rng, 1 << 10)
                bb = nonzero(interesting(rng, bound >> 11))
                a, b = q * bb + rng.choice([-1, 0, 0, 1]), bb
            cases.append(mk(ty, op, "none", a, b))
    return cases


def shrink(c):
    out = []
    args = c["args"]
    for i, v in enumerate(args):
        for w in (0, v // 2, -(-v // 2), v - 1 if v > 0 else v + 1, -v if v < 0 else v, 1):
            if w == v:
                continue
            if i in (1, 3) and w == 0:
                continue
            if i == 2 and w == 0 and c["op"] == "div":
                continue
            n = list(args)
            n[i] = w
            out.append(dict(c, args=n))
    if c["ty"] != "i64":
        out.append(dict(c, ty="i64"))
    if c["form"] not in ("val", "none"):
        out.append(dict(c, form="val"))
    seen, res = set(), []
    for o in out:
        k = (o["ty"], o["form"], tuple(o["args"]))
        if k not in seen:
            seen.add(k)
            res.append(o)
    return res


MANIFEST = {
    "text": "Theorems (Coq, no axioms) about an executable Gallina model of rlib_rational::Rational over unbounded Z with truncating "
            "division and C11's verified gcd model: constructor and operator results are canonical (positive denominator, lowest "
            "terms) and equal the exact rational value in Q; canonical forms are unique, so derived ==/Hash agree with numeric "
            "equality; cmp is the order of Q; floor/ceil are Qfloor/Qceiling for both signs; for |.| <= 2^30 no intermediate "
            "reaches 2^62; model_check -> spec_check is proved for inputs below 2^32. The model is tied to the code on every run: the executor drives Rational<i32|i64|i128> from /repo "
            "through every operator form on exhaustive small boxes plus boundary-biased samples and Coq proves "
            "model = implementation and implementation |= spec (exact cross-multiplication) on every case.",
    "level_note": "Trusted: Coq kernel + vm_compute; the Rust executor and the Python case printer; integers are unbounded Z "
                  "(overflow is outside the property's quantifier; the fits theorem covers the stated box); hashing observed "
                  "through std's fixed-key DefaultHasher; theorems are about the model, the correspondence is sampled.",
    "technique": "Coq proof over Gallina model + vm_compute correspondence batches against the Rust crate",
}
