"""C07 — Rational<T> arithmetic exact and canonical (rlib/rational, rlib/gcd)."""
import re
from math import isqrt
ID = "C07"
CRATE = "c07"
# sibling sources whose edits enlarge the quick correspondence (fingerprints in source_pins.json)
SOURCES = ["rlib/num_traits/src/lib.rs"]
COQ_DIR = "C07"
COQ_DEPS = ["C11"]
PROFILES = ["debug", "release"]
CORR_IMPORT = "From RlibV Require Import C11.Model C07.Model C07.Corr.\nOpen Scope Z_scope."
AUDIT_IMPORT = ("From Coq Require Import ZArith QArith Qround List.\n"
                "From RlibV Require Import C11.Model C07.Model C07.Spec C07.Trace C07.Corr C07.Scope C07.Properties.\nOpen Scope Z_scope.")
EXPLAIN = "explain"
AXIOM_ALLOW = []
SHARD = 5000
THEOREMS = [
    ("c07_new_canonical", "forall a b : Z, b <> 0 -> Z.abs b < 2 ^ 130 -> exists r, new a b = Some r /\\ canonical r /\\ (to_Q r == frac a b)%Q"),
    ("c07_new_int", "forall a : Z, canonical (new_int a) /\\ (to_Q (new_int a) == inject_Z a)%Q"),
    ("c07_add_exact", "forall x y : rat, 0 < rb x -> 0 < rb y -> small x -> small y -> exists r, add x y = Some r /\\ canonical r /\\ (to_Q r == to_Q x + to_Q y)%Q"),
    ("c07_sub_exact", "forall x y : rat, 0 < rb x -> 0 < rb y -> small x -> small y -> exists r, sub x y = Some r /\\ canonical r /\\ (to_Q r == to_Q x - to_Q y)%Q"),
    ("c07_mul_exact", "forall x y : rat, 0 < rb x -> 0 < rb y -> small x -> small y -> exists r, mul x y = Some r /\\ canonical r /\\ (to_Q r == to_Q x * to_Q y)%Q"),
    ("c07_div_exact", "forall x y : rat, 0 < rb x -> 0 < rb y -> small x -> small y -> ra y <> 0 -> exists r, div x y = Some r /\\ canonical r /\\ (to_Q r == to_Q x / to_Q y)%Q"),
    ("c07_neg", "forall x : rat, canonical x -> canonical (neg x) /\\ (to_Q (neg x) == - to_Q x)%Q"),
    ("c07_canonical_eq", "forall x y : rat, canonical x -> canonical y -> (to_Q x == to_Q y)%Q -> x = y"),
    ("c07_eq_numeric", "forall x y : rat, canonical x -> canonical y -> (eqb x y = true <-> (to_Q x == to_Q y)%Q)"),
    ("c07_cmp", "forall x y : rat, 0 < rb x -> 0 < rb y -> small x -> small y -> cmp x y = Some (to_Q x ?= to_Q y)%Q"),
    ("c07_cmp_eq", "forall x y : rat, canonical x -> canonical y -> small x -> small y -> (cmp x y = Some Eq <-> x = y)"),
    ("c07_floor", "forall x : rat, 0 < rb x -> floor x = Some (Rat (Qfloor (to_Q x)) 1)"),
    ("c07_ceil", "forall x : rat, 0 < rb x -> ceil x = Some (Rat (Qceiling (to_Q x)) 1)"),
    ("c07_trace_same", "forall (x y : rat) (a b : Z), fst (new_t a b) = new a b /\\ fst (add_t x y) = add x y /\\ fst (sub_t x y) = sub x y /\\ fst (mul_t x y) = mul x y /\\ fst (div_t x y) = div x y /\\ fst (neg_t x) = neg x /\\ fst (cmp_t x y) = cmp x y /\\ fst (floor_t x) = floor x /\\ fst (ceil_t x) = ceil x"),
    ("c07_fits_2_30", "forall (x y : rat) (a b : Z), within (2 ^ 30) x -> within (2 ^ 30) y -> Z.abs a <= 2 ^ 30 -> Z.abs b <= 2 ^ 30 -> all_below (2 ^ 62) (snd (new_t a b)) /\\ all_below (2 ^ 62) (snd (add_t x y)) /\\ all_below (2 ^ 62) (snd (sub_t x y)) /\\ all_below (2 ^ 62) (snd (mul_t x y)) /\\ all_below (2 ^ 62) (snd (div_t x y)) /\\ all_below (2 ^ 62) (snd (neg_t x)) /\\ all_below (2 ^ 62) (snd (cmp_t x y)) /\\ all_below (2 ^ 62) (snd (floor_t x)) /\\ all_below (2 ^ 62) (snd (ceil_t x))"),
    ("c07_fits_i32_2_14", "forall (x y : rat) (a b : Z), within (2 ^ 14) x -> within (2 ^ 14) y -> Z.abs a <= 2 ^ 14 -> Z.abs b <= 2 ^ 14 -> all_below (2 ^ 30) (snd (new_t a b)) /\\ all_below (2 ^ 30) (snd (add_t x y)) /\\ all_below (2 ^ 30) (snd (sub_t x y)) /\\ all_below (2 ^ 30) (snd (mul_t x y)) /\\ all_below (2 ^ 30) (snd (div_t x y)) /\\ all_below (2 ^ 30) (snd (neg_t x)) /\\ all_below (2 ^ 30) (snd (cmp_t x y)) /\\ all_below (2 ^ 30) (snd (floor_t x)) /\\ all_below (2 ^ 30) (snd (ceil_t x))"),
    ("c07_fits_general", "forall (M : Z) (x y : rat) (a b : Z), 1 <= M -> 2 * (M * M) < 2 ^ 130 -> within M x -> within M y -> Z.abs a <= M -> Z.abs b <= M -> let le B := Forall (fun v => Z.abs v <= B) in le M (snd (new_t a b)) /\\ le (2 * (M * M)) (snd (add_t x y)) /\\ le (2 * (M * M)) (snd (sub_t x y)) /\\ le (2 * (M * M)) (snd (mul_t x y)) /\\ le (2 * (M * M)) (snd (div_t x y)) /\\ le M (snd (neg_t x)) /\\ le (2 * (M * M)) (snd (cmp_t x y)) /\\ le (2 * M + 1) (snd (floor_t x)) /\\ le (2 * M + 1) (snd (ceil_t x))"),
    ("c07_model_implies_spec", "forall c : case, in_scope c -> model_check c = true -> spec_check c = true"),
    ("c07_floor_greatest", "forall x : rat, 0 < rb x -> exists n, floor x = Some (Rat n 1) /\\ (inject_Z n <= to_Q x)%Q /\\ (to_Q x < inject_Z (n + 1))%Q"),
    ("c07_ceil_least", "forall x : rat, 0 < rb x -> exists n, ceil x = Some (Rat n 1) /\\ (inject_Z (n - 1) < to_Q x)%Q /\\ (to_Q x <= inject_Z n)%Q"),
    ("c07_unreduced_same", "forall x y x' y' : rat, 0 < rb x -> 0 < rb y -> small x -> small y -> new (ra x) (rb x) = Some x' -> new (ra y) (rb y) = Some y' -> add x y = add x' y' /\\ sub x y = sub x' y' /\\ mul x y = mul x' y' /\\ (ra y <> 0 -> div x y = div x' y') /\\ cmp x y = cmp x' y' /\\ floor x = floor x' /\\ ceil x = ceil x'"),
    ("c07_new_canonical_id", "forall x : rat, canonical x -> Z.abs (rb x) < 2 ^ 130 -> new (ra x) (rb x) = Some x"),
]
RULE = ("x = Rational::new(a,b), y = Rational::new(c,d); unary ops (new, neg, floor, ceil, Display) exhaustively for |a|,|b| <= 6 "
        "(both denominator signs) on all six signed instantiations (i8, i16, i32, i64, i128, isize), new_int on all six up to MAX; "
        "binary ops (add, sub, mul, div, cmp, ==/hash) exhaustively for |.| <= 3 (quick) / 6 (thorough), every arithmetic pair "
        "through ALL FOUR operator forms (by value, by reference, assigning by value, assigning by reference; the executor "
        "requires them to agree), sampled pairs from the |.| <= 6 box on all six types, boundary-biased samples up to 2^30 over "
        "i64/i128 and 2^14 over i32, and up to each type's OWN threshold (binary ops and cmp: largest M with 2*M*M <= MAX, i.e. "
        "7 / 127 / 32767 / 2^31-1 / 2^63-1; floor, ceil: (MAX-1)/2; new, neg, Display: MAX) with shared factors inside and across "
        "the fractions, equal values in different representations, neighbours, powers of two +-1, all four fields at the "
        "threshold; operands built by other routes than Rational::new: ZERO, ONE, new_int(a) (every op, every type), struct "
        "literals a/b with b > 0 that are not in lowest terms (add, sub, mul, div, cmp, floor, ceil: the operations whose "
        "theorems assume only 0 < b), and RESULTS of histories of 1-5 earlier operations (undo/redo of the previous operand, "
        "x op x, x op -x; one observed case per step); every Rational the executor prints is first compared with "
        "Rational::new of its own fields (==, Hash, clone, clone_from, cmp/partial_cmp/<,<=,>,>=/max/min where the "
        "subtraction fits) and cmp cases also check clamp and the reversed comparison; new(0,0) and 0/0 only in a tiny stream "
        "where both sides must panic; zero-valued divisors, zero denominators and literals with a non-positive denominator "
        "are never generated otherwise; non-trivial = a reduction or sign move is needed / operands differ / value is not an "
        "integer (floor, ceil) / a literal operand is unreduced / the operand is the result of an earlier operation")
TRUSTED = ["executor harness/crates/c07 (builds Rational<i8|i16|i32|i64|i128|isize> through the public API - new, new_int, ZeroOne::ZERO/ONE, "
           "struct literals, operator results -, prints fields / Ordering / equality of values and of fixed-key SipHash digests / "
           "Display text, and an X line when one of its own consistency checks (result vs Rational::new of its fields, agreement of the "
           "four operator forms, end value of a history) fails)",
           "checks/c07.py (case generator incl. the exact rational arithmetic that computes the end value of a history, Coq term printer)"]
ASSUMPTIONS = ["integers modelled as unbounded Z: the property excludes overflowing magnitudes; sampled operands stay within the "
               "bound M of their instantiation with 2*M*M <= MAX (floor/ceil: 2*M+1 <= MAX), for which c07_fits_general shows that "
               "no intermediate exceeds 2*M*M (2*M+1); isize is taken to be 64 bits wide",
               "Rust / on signed integers is Z.quot",
               "hash agreement is observed through std's DefaultHasher with its fixed keys: equal digests are taken as equal hashes",
               "a case whose operand was built by another route (new_int, ZERO, ONE, struct literal, result of a history) is "
               "judged through the same Coq case as Rational::new of the operand's value: c07_unreduced_same and "
               "c07_new_canonical_id prove that the model returns the same results on both, and spec_check depends on the value only"]

TYPES = ["i64", "i32", "i128"]
BINARY = ["add", "sub", "mul", "div", "cmp", "eqhash"]
ARITH = ["add", "sub", "mul", "div"]
UNARY = ["new", "neg", "floor", "ceil", "show"]
FORMS = ["val", "ref", "asgval", "asgref"]
OPK = {"new": "ONew", "newint": "ONewInt", "add": "OAdd", "sub": "OSub", "mul": "OMul", "div": "ODiv", "neg": "ONeg",
       "cmp": "OCmp", "eqhash": "OEqHash", "floor": "OFloor", "ceil": "OCeil", "show": "OShow"}
FORMK = {"val": "FVal", "ref": "FRef", "asgval": "FAsgVal", "asgref": "FAsgRef", "none": "FNone", "all": "FAll"}
ALLTY = ["i64", "i32", "i128", "i8", "i16", "isize"]
BITS = {"i8": 8, "i16": 16, "i32": 32, "i64": 64, "i128": 128, "isize": 64}
KINDS = ["n", "l", "i", "z", "o"]     # how the executor builds an operand of value a/b (see harness main.rs)
CMPK = {"lt": "Lt", "eq": "Eq", "gt": "Gt"}


def z(v):
    return "(%d)" % v


def harness_line(c):
    toks = [c["ty"], c["op"], c["form"]] + [str(v) for v in c["args"]]
    if c.get("xk", "n") != "n":
        toks.append("x=" + c["xk"])
    if c.get("yk", "n") != "n":
        toks.append("y=" + c["yk"])
    if c.get("pre"):
        h = c["pre"]
        toks.append("pre=" + ";".join(["%d,%d" % tuple(h["start"])] + ["%s,%s,%d,%d" % tuple(st) for st in h["steps"]]))
    return " ".join(toks)


def coq_term(c, obs, profile):
    t = obs.split()
    if t[0] == "P":
        o = "RPanic"
    elif t[0] == "R":
        o = "(RRat %s %s)" % (z(int(t[1])), z(int(t[2])))
    elif t[0] == "C":
        o = "(RCmp %s %s)" % (CMPK[t[1]], CMPK[t[2]])
    elif t[0] == "E":
        o = "(REq %s %s)" % ("true" if t[1] == "1" else "false", "true" if t[2] == "1" else "false")
    elif t[0] == "S":
        s = obs[2:]
        if '"' in s or "\\" in s:
            raise RuntimeError("unexpected Display text %r" % s)
        o = '(RStr "%s"%%string)' % s
    elif t[0] == "X":
        # one of the executor's own consistency checks failed: an observation no prediction equals and no
        # specification accepts
        o = '(RBad "%s"%%string)' % re.sub(r"[^A-Za-z0-9 /=_.,:-]", "?", obs[2:])
    else:
        raise RuntimeError("unexpected executor output %r" % obs)
    return "(Case %s %s %s %s)" % (FORMK[c["form"]], OPK[c["op"]], " ".join(z(v) for v in c["args"]), o)


def gcdpy(a, b):
    a, b = abs(a), abs(b)
    while b:
        a, b = b, a % b
    return a


def canon(a, b):
    g = gcdpy(a, b)
    if g == 0:
        return None
    a, b = a // g, b // g   # exact
    return (-a, -b) if b < 0 else (a, b)


def nontrivial(c, obs):
    a, b, cc, d = c["args"]
    op = c["op"]
    if b == 0 or (op in BINARY and d == 0):
        return False
    if c.get("pre"):
        return True         # the operand is the result of at least one earlier operation
    if c.get("xk") == "l" or c.get("yk") == "l":
        # a literal operand counts when it is not what Rational::new would have produced
        return (c.get("xk") == "l" and gcdpy(a, b) > 1) or (c.get("yk") == "l" and gcdpy(cc, d) > 1)
    if op in ("new", "show", "neg"):
        return b < 0 or gcdpy(a, b) > 1
    if op in ("floor", "ceil"):
        return a % b != 0
    if op == "newint":
        return False
    x, y = canon(a, b), canon(cc, d)
    if op in ("cmp", "eqhash"):
        return (a, b) != (cc, d)
    num, den = {"add": (x[0] * y[1] + x[1] * y[0], x[1] * y[1]), "sub": (x[0] * y[1] - x[1] * y[0], x[1] * y[1]),
                "mul": (x[0] * y[0], x[1] * y[1]), "div": (x[0] * y[1], x[1] * y[0])}[op]
    return den < 0 or gcdpy(num, den) > 1


def classify(c, obs):
    route = "history" if c.get("pre") else ("x=%s,y=%s" % (c.get("xk", "n"), c.get("yk", "n")))
    return "%s/%s/%s/%s/%s" % (c["op"], c["form"], c["ty"], route,
                               "panic" if obs == "P" else ("executor-check-failed" if obs.startswith("X") else "value"))


def mk(ty, op, form, a, b, c=0, d=1, xk="n", yk="n", pre=None):
    r = {"ty": ty, "op": op, "form": form, "args": [a, b, c, d]}
    if xk != "n":
        r["xk"] = xk
    if yk != "n":
        r["yk"] = yk
    if pre:
        r["pre"] = pre
    return r


def tmax(ty):
    return (1 << (BITS[ty] - 1)) - 1


def mbin(ty):
    """largest M with 2*M*M <= T::MAX: by c07_fits_general no intermediate of a binary operator or of cmp on
    operands bounded by M leaves T (i8 7, i16 127, i32 32767, i64/isize 2^31-1, i128 2^63-1)"""
    return isqrt(tmax(ty) // 2)


def mfc(ty):
    """largest M with 2*M+1 <= T::MAX: bound for floor / ceil"""
    return (tmax(ty) - 1) // 2


def interesting(rng, bound):
    k = rng.below(10)
    if k == 0:
        v = rng.choice([0, 1, 2, 3, bound, bound - 1, bound // 2, 1 << rng.below(bound.bit_length())])
    elif k <= 2:
        v = rng.range(0, 12)
    elif k == 3:
        v = rng.range(0, 1 << (bound.bit_length() // 2))
    else:
        v = rng.range(0, bound)
    if rng.chance(2, 5):
        v = -v
    return v


def nonzero(v):
    return v if v != 0 else 1


def clampf(v, bound):
    return max(-bound, min(bound, v))


def sample_pair(rng, bound):
    """(a, b, c, d) with b, d != 0 and |.| <= bound, biased to the places where the proofs split cases"""
    a, b = interesting(rng, bound), nonzero(interesting(rng, bound))
    k = rng.below(8)
    if k == 0:        # same value, other representation
        g, h = nonzero(rng.range(-5, 5)), canon(a, b)
        c, d = h[0] * g, h[1] * g
        if abs(c) > bound or abs(d) > bound:
            c, d = a, b
    elif k == 1:      # neighbour
        c, d = a + rng.choice([-1, 1]), b
    elif k == 2:      # shared factor across the two fractions
        g = rng.range(2, 1 << 10)
        sb = bound // g
        a, b = interesting(rng, sb), nonzero(interesting(rng, sb)) * g
        c, d = interesting(rng, sb) * g, nonzero(interesting(rng, sb))
        if rng.chance(1, 2):
            d *= g
            c //= g
    elif k == 3:      # same denominator up to sign
        c, d = interesting(rng, bound), -b if rng.chance(1, 2) else b
    elif k == 4:      # negation / reciprocal
        c, d = (-a, b) if rng.chance(1, 2) else (b, nonzero(a))
    else:
        c, d = interesting(rng, bound), nonzero(interesting(rng, bound))
    a, b, c, d = clampf(a, bound), nonzero(clampf(b, bound)), clampf(c, bound), nonzero(clampf(d, bound))
    return a, b, c, d


# ---------------------------------------------------------------------------------------------- new families
POWS = [7, 8, 15, 16, 31, 32, 33, 62, 63, 64, 65, 126]


def edge(rng, bound):
    """a magnitude in [0, bound], biased to the threshold itself, to powers of two and their neighbours"""
    k = rng.below(12)
    if k == 0:
        v = rng.choice([bound, bound - 1, bound - 2, bound // 2, bound // 2 + 1, bound // 3])
    elif k == 1:
        e = rng.choice(POWS)
        v = (1 << e) + rng.choice([-1, 0, 1])
    elif k == 2:
        v = (1 << rng.below(max(1, bound.bit_length()))) + rng.choice([-1, 0, 0, 1])
    elif k == 3:
        v = rng.range(0, 12)
    elif k == 4:
        v = rng.range(0, 1 << max(1, bound.bit_length() // 2))
    elif k == 5:
        v = bound - rng.range(0, 40)
    else:
        v = rng.range(0, bound)
    v = max(0, min(bound, v))
    return -v if rng.chance(2, 5) else v


def edge_pair(rng, bound):
    """(a, b, c, d), b, d != 0, |.| <= bound (bound >= 3), biased like sample_pair but usable for tiny bounds"""
    a, b = edge(rng, bound), nonzero(edge(rng, bound))
    k = rng.below(9)
    if k == 0:        # same value, other representation
        h = canon(a, b)
        g = nonzero(rng.range(-5, 5))
        c, d = h[0] * g, h[1] * g
        if abs(c) > bound or abs(d) > bound:
            c, d = -a, -b
    elif k == 1:      # neighbour
        c, d = a + rng.choice([-1, 1]), b
    elif k == 2:      # shared factor inside and across the fractions
        g = rng.range(2, max(2, min(1 << 10, isqrt(bound))))
        sb = max(1, bound // g)
        a, b = edge(rng, sb), nonzero(edge(rng, sb)) * g
        c, d = edge(rng, sb) * g, nonzero(edge(rng, sb))
        if rng.chance(1, 2):
            d *= g
            c //= g
    elif k == 3:      # same denominator up to sign
        c, d = edge(rng, bound), -b if rng.chance(1, 2) else b
    elif k == 4:      # negation / reciprocal
        c, d = (-a, b) if rng.chance(1, 2) else (b, nonzero(a))
    elif k == 5:      # all four at the threshold
        s = [rng.choice([bound, bound - 1, bound - 2, -bound, -(bound - 1)]) for _ in range(4)]
        a, b, c, d = s
    else:
        c, d = edge(rng, bound), nonzero(edge(rng, bound))
    a, b, c, d = clampf(a, bound), nonzero(clampf(b, bound)), clampf(c, bound), nonzero(clampf(d, bound))
    return a, b, c, d


def q_bin(op, x, y):
    """exact result of a binary operator on canonical pairs, canonical (None: division by a zero value)"""
    num, den = {"add": (x[0] * y[1] + x[1] * y[0], x[1] * y[1]), "sub": (x[0] * y[1] - x[1] * y[0], x[1] * y[1]),
                "mul": (x[0] * y[0], x[1] * y[1]), "div": (x[0] * y[1], x[1] * y[0])}[op]
    return None if den == 0 else canon(num, den)


def q_un(op, x):
    if op == "neg":
        return (-x[0], x[1])
    if op == "floor":
        return (x[0] // x[1], 1)            # Python's // rounds down
    if op == "ceil":
        return (-((-x[0]) // x[1]), 1)
    raise ValueError(op)


def history_cases(rng, ty, bound, nsteps, box):
    """A history x0 -> x1 -> ... of operator applications whose every operand and result stays within `bound`
    (so within the no-overflow theorem).  One case per step: the executor replays the earlier steps (`pre`),
    checks that it arrived at the exact value computed here, and performs the step under observation on that
    RESULT value; Coq judges the step from the canonical fields.  The last step may be any operation."""
    def operand():
        if box:
            return canon(rng.range(-box, box), nonzero(rng.range(-box, box)))
        return canon(edge(rng, bound), nonzero(edge(rng, bound)))
    x = operand()
    start = list(x)
    steps, out, prev = [], [], None
    for j in range(nsteps):
        last = j == nsteps - 1
        for _attempt in range(6):
            r = rng.below(20)
            if last and r < 7:
                op = rng.choice(["cmp", "eqhash", "show", "new", "cmp", "eqhash", "floor", "ceil", "neg"])
            elif r < 15:
                op = rng.choice(ARITH)
            else:
                op = rng.choice(["neg", "floor", "ceil", "neg"])
            y = (0, 1)
            if op in BINARY:
                k = rng.below(6)
                if k == 0 and prev is not None:
                    y = prev                     # undo / redo the previous step's operand (s += t; s -= t)
                elif k == 1:
                    y = x                        # x - x, x / x, x == x
                elif k == 2:
                    y = (-x[0], x[1])
                else:
                    y = operand()
                if op == "div" and y[0] == 0:
                    continue
            if op in ARITH:
                nx = q_bin(op, x, y)
            elif op in ("neg", "floor", "ceil"):
                nx = q_un(op, x)
            else:
                nx = x
            if max(abs(nx[0]), abs(nx[1]), abs(y[0]), abs(y[1])) > bound:
                continue
            break
        else:
            break
        form = rng.choice(FORMS + ["all"]) if op in ARITH else "none"
        pre = {"start": start, "steps": [list(st) for st in steps]} if steps else None
        out.append(mk(ty, op, form, x[0], x[1], y[0], y[1], pre=pre))
        if op not in ARITH and op not in ("neg", "floor", "ceil"):
            break
        steps.append([op, form, y[0], y[1]])
        if op in BINARY:
            prev = y
        x = nx
    return out


def kind_args(rng, kind, box, lit_scale=1):
    """(a, b) for an operand of the given kind drawn from the |.| <= box square"""
    if kind == "z":
        return 0, 1
    if kind == "o":
        return 1, 1
    if kind == "i":
        return rng.range(-box, box), 1
    if kind == "l":     # positive denominator, usually not in lowest terms
        g = rng.range(1, max(1, lit_scale))
        a, b = rng.range(-box, box), rng.range(1, box)
        if a * g > -(box + 1) and abs(a * g) <= box and b * g <= box:
            a, b = a * g, b * g
        return a, b
    return rng.range(-box, box), nonzero(rng.range(-box, box))


def in_contract(c):
    """every constructor argument / operand field within the bound for which the no-overflow theorem
    (c07_fits_general) covers the operation on this instantiation; non-zero denominators; literal operands
    with a positive denominator; no division by a zero value.  A guard against generator slips: a case outside
    the contract would compare overflow behaviour, which the property does not speak about."""
    a, b, cc, d = c["args"]
    op, ty = c["op"], c["ty"]
    binary = op in BINARY
    bound = mbin(ty) if binary else (mfc(ty) if op in ("floor", "ceil") else tmax(ty))
    vals = [a, b] + ([cc, d] if binary else [])
    if any(abs(v) > bound for v in vals):
        return False
    if b == 0 or (binary and d == 0) or (op == "div" and cc == 0):
        return False
    if (c.get("xk") == "l" and b <= 0) or (c.get("yk") == "l" and d <= 0):
        return False
    if c.get("xk") == "l" and op not in ARITH + ["cmp", "floor", "ceil"]:
        return False
    if c.get("yk") == "l" and op not in ARITH + ["cmp"]:
        return False
    if c.get("pre"):
        m = mbin(ty)
        h = c["pre"]
        if any(abs(v) > m for v in h["start"]) or any(abs(st[2]) > m or abs(st[3]) > m for st in h["steps"]):
            return False
    return True


def new_families(rng, tier):
    cases = []
    quick = tier == "quick"
    K1 = 6
    # ---- (G4) the exhaustive unary box and new_int on every instantiation (the Coq terms are those of i64: proved once)
    for ty in ALLTY:
        for a in range(-K1, K1 + 1):
            for b in range(-K1, K1 + 1):
                if b != 0 and ty != "i64":
                    for op in UNARY:
                        cases.append(mk(ty, op, "none", a, b))
            if ty != "i64":
                cases.append(mk(ty, "newint", "none", a, 1))
        m = tmax(ty)
        for a in sorted({m, m - 1, m // 2, m // 2 + 1, 7, 8, 127, 128, 255, 256, 32767, 32768, 65535, 65536,
                         (1 << 31) - 1, 1 << 31, (1 << 32) + 1, (1 << 62) - 1, (1 << 63) - 1, 1 << 64, (1 << 100) + 1}):
            if a <= m:
                cases.append(mk(ty, "newint", "none", a, 1))
                cases.append(mk(ty, "newint", "none", -a, 1))
    # ---- (G3) ZERO, ONE, new_int(a) as values and as operands of every operation, every instantiation
    for ty in ALLTY:
        consts = [("z", 0, 1), ("o", 1, 1)] + [("i", a, 1) for a in range(-K1, K1 + 1)]
        for (k, a, b) in consts:
            for op in UNARY:
                cases.append(mk(ty, op, "none", a, b, xk=k))
        for (kx, a, b) in consts[:2] + [("i", -3, 1), ("i", 5, 1)]:      # constants against constants
            for (ky, c, d) in consts[:2] + [("i", -3, 1), ("i", 2, 1)]:
                for op in BINARY:
                    if not (op == "div" and c == 0):
                        cases.append(mk(ty, op, "all" if op in ARITH else "none", a, b, c, d, xk=kx, yk=ky))
        for _ in range(60 if quick else 700):
            kx, ky = rng.choice(["z", "o", "i", "i", "n"]), rng.choice(["z", "o", "i", "i", "n"])
            if kx == "n" and ky == "n":
                kx = "i"
            op = rng.choice(BINARY)
            a, b = kind_args(rng, kx, K1)
            c, d = kind_args(rng, ky, K1)
            if op == "div" and c == 0:
                continue
            cases.append(mk(ty, op, rng.choice(FORMS + ["all"]) if op in ARITH else "none", a, b, c, d, xk=kx, yk=ky))
        # new_int of a large value as an operand (binary bound of the type)
        for _ in range(10 if quick else 150):
            M = mbin(ty)
            a, c, d = edge(rng, M), edge(rng, M), nonzero(edge(rng, M))
            op = rng.choice(BINARY + ["floor", "ceil", "neg", "show"])
            if op == "div" and c == 0:
                c = 1
            if op in BINARY:
                if rng.chance(1, 2):
                    cases.append(mk(ty, op, rng.choice(FORMS) if op in ARITH else "none", a, 1, c, d, xk="i"))
                else:
                    cases.append(mk(ty, op, rng.choice(FORMS) if op in ARITH else "none", c, d, nonzero(a) if op == "div" else a, 1, yk="i"))
            else:
                cases.append(mk(ty, op, "none", a, 1, xk="i"))
    # ---- (G5) struct-literal operands with a positive denominator, usually not in lowest terms.  Only the
    # operations whose theorems assume nothing but 0 < b: + - * / cmp floor ceil (c07_unreduced_same)
    LITB = ARITH + ["cmp"]
    for a in range(-K1, K1 + 1):
        for b in range(1, K1 + 1):
            for op in ("floor", "ceil"):
                cases.append(mk("i64", op, "none", a, b, xk="l"))
    for (a, b) in [(2, 4), (-2, 4), (0, 3), (6, 3), (-6, 4)]:
        for (c, d) in [(1, 2), (3, 6), (-3, 6), (4, 2), (0, 5)]:
            for op in LITB:
                for (kx, ky) in (("l", "n"), ("n", "l"), ("l", "l")):
                    if not (op == "div" and c == 0):
                        cases.append(mk("i64", op, "all" if op in ARITH else "none", a, b, c, d, xk=kx, yk=ky))
    for _ in range(500 if quick else 7000):
        ty = rng.choice(ALLTY)
        kx, ky = rng.choice([("l", "n"), ("n", "l"), ("l", "l"), ("l", "i"), ("z", "l"), ("l", "o")])
        op = rng.choice(LITB + ["floor", "ceil"])
        if op in ("floor", "ceil"):
            a, b = kind_args(rng, "l", K1, 3)
            cases.append(mk(ty, op, "none", a, b, xk="l"))
            continue
        a, b = kind_args(rng, kx, K1, 3)
        c, d = kind_args(rng, ky, K1, 3)
        if op == "div" and c == 0:
            continue
        cases.append(mk(ty, op, rng.choice(FORMS + ["all"]) if op in ARITH else "none", a, b, c, d, xk=kx, yk=ky))
    for _ in range(400 if quick else 9000):     # unreduced literals up to the type's threshold
        ty = rng.choice(ALLTY)
        op = rng.choice(LITB + LITB + ["floor", "ceil"])
        M = mfc(ty) if op in ("floor", "ceil") else mbin(ty)
        g = rng.choice([2, 2, 3, 4, 6, 10, rng.range(2, max(2, min(1 << 12, isqrt(M))))])
        if g > M // 2:
            g = 2
        sb = max(1, M // g)
        a, b = edge(rng, sb) * g, max(1, abs(edge(rng, sb))) * g
        if op in ("floor", "ceil"):
            if rng.chance(1, 4):        # exact multiples of the (unreduced) denominator and their neighbours
                q = edge(rng, max(1, sb // max(1, b // g)))
                a = clampf(q * b + rng.choice([-1, 0, 0, 1]), M)
            cases.append(mk(ty, op, "none", a, b, xk="l"))
            continue
        c, d = edge(rng, M), nonzero(edge(rng, M))
        kx, ky = "l", "n"
        if rng.chance(1, 3):
            c, d, ky = edge(rng, sb) * g, max(1, abs(edge(rng, sb))) * g, "l"
        if rng.chance(1, 3):
            a, b, c, d, kx, ky = c, d, a, b, ky, kx
        if op == "div" and c == 0:
            continue
        cases.append(mk(ty, op, rng.choice(FORMS) if op in ARITH else "none", a, b, c, d, xk=kx, yk=ky))
    # ---- (G1) histories: an operation applied to the RESULT of earlier operations
    for _ in range(300 if quick else 6000):
        ty = rng.choice(ALLTY)
        if rng.chance(1, 2) and ty not in ("i8",):
            cases += history_cases(rng, ty, mbin(ty), rng.range(2, 4 if quick else 6), 0 if rng.chance(1, 2) else 12)
        else:
            cases += history_cases(rng, ty, mbin(ty), rng.range(2, 4 if quick else 6), min(K1, mbin(ty)))
    # ---- (G2) every instantiation up to ITS OWN threshold: 2*M*M <= MAX for the binary operators and cmp,
    # 2*M+1 <= MAX for floor / ceil, MAX for new / neg / Display
    for _ in range(1500 if quick else 45000):
        ty = rng.choice(ALLTY + ["i128", "i16", "i8"])
        op = rng.choice(BINARY + BINARY + UNARY)
        if op in BINARY:
            bound = mbin(ty)
            if rng.chance(1, 8) and bound > 16:
                bound = 1 << rng.range(3, bound.bit_length() - 1)
            a, b, c, d = edge_pair(rng, bound)
            if op == "div" and c == 0:
                c = rng.choice([1, -1, bound])
            cases.append(mk(ty, op, rng.choice(FORMS) if op in ARITH else "none", a, b, c, d))
        else:
            bound = mfc(ty) if op in ("floor", "ceil") else tmax(ty)
            if rng.chance(1, 8):
                bound = 1 << rng.range(3, bound.bit_length() - 1)
            a, b = edge(rng, bound), nonzero(edge(rng, bound))
            if rng.chance(1, 3):
                g = rng.range(2, 1 << 8)
                a, b = clampf(a // g * g, bound), nonzero(clampf(b // g * g, bound))
            if rng.chance(1, 6) and op in ("floor", "ceil"):   # exact multiples and their neighbours
                bb = nonzero(edge(rng, max(1, isqrt(bound))))
                q = edge(rng, max(1, bound // abs(bb) - 1))
                a, b = clampf(q * bb + rng.choice([-1, 0, 0, 1]), bound), bb
            cases.append(mk(ty, op, "none", a, b))
    return cases


def generate(rng, tier):
    cases = []
    quick = tier == "quick"
    # ---- exhaustive boxes on i64
    K1 = 6
    for a in range(-K1, K1 + 1):
        for b in range(-K1, K1 + 1):
            if b == 0:
                continue
            for op in UNARY:
                cases.append(mk("i64", op, "none", a, b))
    for a in range(-K1, K1 + 1):
        cases.append(mk("i64", "newint", "none", a, 1))
    K2 = 3 if quick else 6
    k = 0
    box = [(a, b) for a in range(-K2, K2 + 1) for b in range(-K2, K2 + 1) if b != 0]
    for (a, b) in box:
        for (c, d) in box:
            for op in BINARY:
                if op == "div" and c == 0:
                    continue
                # all four operator forms of every (pair, operator): the executor runs them one after the other and
                # reports a disagreement between them as an observation nothing accepts
                form = "all" if op in ARITH else "none"
                k += 1
                cases.append(mk("i64", op, form, a, b, c, d))
    if True:    # sampled pairs from the larger box, every instantiation
        big = [(a, b) for a in range(-K1, K1 + 1) for b in range(-K1, K1 + 1) if b != 0]
        for _ in range(2500 if quick else 15000):
            (a, b), (c, d) = rng.choice(big), rng.choice(big)
            op = rng.choice(BINARY)
            if op == "div" and c == 0:
                c = 1
            # the |.| <= 6 box fits every signed width (cross products stay below 2*36): all six instantiations
            cases.append(mk(rng.choice(TYPES + ["i8", "i16", "isize"]), op, rng.choice(FORMS) if op in ARITH else "none", a, b, c, d))
    # ---- zero denominators: only the corner in which gcd(0,0) = 0 makes norm divide by zero (both sides panic)
    for ty in TYPES:
        cases.append(mk(ty, "new", "none", 0, 0))
        cases.append(mk(ty, "div", "val", 0, 1, 0, 5))      # (0/1) / (0/1) -> new(0, 0)
        cases.append(mk(ty, "div", "asgref", 0, -3, 0, 1))
    # ---- boundary-biased samples
    n = 3500 if quick else 60000
    for _ in range(n):
        ty = rng.choice(["i64", "i64", "i128", "i128", "i32"])
        bound = (1 << 14) if ty == "i32" else (1 << 30)
        if rng.chance(1, 6):
            bound = 1 << rng.range(3, bound.bit_length() - 1)
        op = rng.choice(BINARY + BINARY + UNARY)
        if op in BINARY:
            a, b, c, d = sample_pair(rng, bound)
            if op == "div" and c == 0:
                c = rng.choice([1, -1, bound])
            cases.append(mk(ty, op, rng.choice(FORMS) if op in ARITH else "none", a, b, c, d))
        else:
            a, b = interesting(rng, bound), nonzero(interesting(rng, bound))
            if rng.chance(1, 3):
                g = rng.range(2, 1 << 8)
                a, b = clampf(a // g * g, bound), nonzero(clampf(b // g * g, bound))
            if rng.chance(1, 8) and op in ("floor", "ceil"):   # exact multiples and their neighbours
                q = interesting(rng, 1 << 10)
                bb = nonzero(interesting(rng, bound >> 11))
                a, b = q * bb + rng.choice([-1, 0, 0, 1]), bb
            cases.append(mk(ty, op, "none", a, b))
    cases += [c for c in new_families(rng.fork("families"), tier) if in_contract(c)]
    return cases


def shrink(c):
    out = []
    args = c["args"]
    xk, yk = c.get("xk", "n"), c.get("yk", "n")
    if c.get("pre"):
        # the history and the operand fields belong together: first try the same operand built by Rational::new,
        # then shorter histories are not attempted (their end value would have to be recomputed)
        plain = {k: v for k, v in c.items() if k != "pre"}
        return [plain]

    def allowed(i, w):
        k = xk if i < 2 else yk
        if k in ("z", "o"):
            return False
        if k == "i" and i in (1, 3):
            return False
        if k == "l" and i in (1, 3) and w <= 0:
            return False
        return True
    for i, v in enumerate(args):
        for w in (0, v // 2, -(-v // 2), v - 1 if v > 0 else v + 1, -v if v < 0 else v, 1):
            if w == v or not allowed(i, w):
                continue
            if i in (1, 3) and w == 0:
                continue
            if i == 2 and w == 0 and c["op"] == "div":
                continue
            n = list(args)
            n[i] = w
            out.append(dict(c, args=n))
    if c["ty"] != "i64":
        out.append(dict(c, ty="i64"))
    if c["form"] not in ("val", "none"):
        out.append(dict(c, form="val"))
    if xk != "n" and not (xk == "l" and args[1] <= 0):
        out.append({k: v for k, v in c.items() if k != "xk"})
    if yk != "n" and not (yk == "l" and args[3] <= 0):
        out.append({k: v for k, v in c.items() if k != "yk"})
    seen, res = set(), []
    for o in out:
        k = (o["ty"], o["form"], tuple(o["args"]), o.get("xk", "n"), o.get("yk", "n"))
        if k not in seen:
            seen.add(k)
            res.append(o)
    return res


MANIFEST = {
    "text": "Theorems (Coq, no axioms) about an executable Gallina model of rlib_rational::Rational over unbounded Z with truncating "
            "division and C11's verified gcd model: constructor and operator results are canonical (positive denominator, lowest "
            "terms) and equal the exact rational value in Q; canonical forms are unique, so derived ==/Hash agree with numeric "
            "equality; cmp is the order of Q; floor/ceil are Qfloor/Qceiling for both signs; operands that are not in lowest terms "
            "(struct literals, b > 0) give the results of Rational::new of their fields; for operands bounded by M no intermediate "
            "exceeds 2*M*M (for |.| <= 2^30 none reaches 2^62); model_check -> spec_check is proved for inputs below 2^32. The model "
            "is tied to the code on every run: the executor drives Rational<i8|i16|i32|i64|i128|isize> from /repo through all four "
            "forms of every operator on exhaustive small boxes plus boundary-biased samples up to each type's own overflow "
            "threshold, with operands built by new, new_int, ZERO/ONE, struct literals and as results of earlier operations, "
            "checks every result against Rational::new of its own fields (==, Hash, clone, order), and Coq proves "
            "model = implementation and implementation |= spec (exact cross-multiplication) on every case.",
    "level_note": "Trusted: Coq kernel + vm_compute; the Rust executor and the Python case printer; integers are unbounded Z "
                  "(overflow is outside the property's quantifier; the fits theorems cover the sampled boxes); hashing observed "
                  "through std's fixed-key DefaultHasher; theorems are about the model, the correspondence is sampled.",
    "technique": "Coq proof over Gallina model + vm_compute correspondence batches against the Rust crate",
}
